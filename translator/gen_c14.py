"""C14: except clauses of CompiledSubprocess._send / Environment._get_subprocess / Listener.listen,
the order of the statements in _kill and _cleanup_process, the guard of
InferenceStateSubprocess.__del__, the replacement test of _get_subprocess; fingerprints."""
import ast
from translator.extract import Src, TieBroken, u, lean_list, lean_bool, except_names


def _try_with_call(fn, callee, what):
    """the ast.Try inside `fn` whose *body* calls `callee(...)`"""
    hits = []
    for n in ast.walk(fn):
        if isinstance(n, ast.Try):
            for b in n.body:
                for c in ast.walk(b):
                    if isinstance(c, ast.Call) and u(c.func) == callee:
                        hits.append(n)
                        break
                else:
                    continue
                break
    if len(hits) != 1:
        raise TieBroken('%s: expected exactly one try around %s(), found %d' % (what, callee, len(hits)))
    return hits[0]


def _handler_effects(h, what):
    """(kills, raised class) of an except handler of _send"""
    kills = any(isinstance(c, ast.Call) and u(c.func) == 'self._kill' for c in ast.walk(h))
    raises = [r for r in h.body if isinstance(r, ast.Raise)]
    if len(raises) != 1 or raises[0].exc is None or not isinstance(raises[0].exc, ast.Call):
        raise TieBroken('%s: handler does not end in `raise Cls(...)`' % what, u(h))
    # _kill must come before the raise
    idx_raise = h.body.index(raises[0])
    idx_kill = [i for i, s in enumerate(h.body) if any(
        isinstance(c, ast.Call) and u(c.func) == 'self._kill' for c in ast.walk(s))]
    if kills and min(idx_kill) > idx_raise:
        kills = False
    return kills, u(raises[0].exc.func)


def generate(repo, g):
    sub = Src(repo, 'jedi/inference/compiled/subprocess/__init__.py')
    envs = Src(repo, 'jedi/api/environment.py')
    send = sub.find('CompiledSubprocess._send')

    # --- _send: the is_crashed short cut
    first = send.body[0]
    if not (isinstance(first, ast.If) and u(first.test) == 'self.is_crashed'
            and isinstance(first.body[0], ast.Raise) and u(first.body[0].exc.func) == 'InternalError'):
        raise TieBroken('_send no longer starts with `if self.is_crashed: raise InternalError`', u(first))

    # --- _send: try around pickle_dump
    t = _try_with_call(send, 'pickle_dump', '_send')
    if t.finalbody or t.orelse:
        raise TieBroken('_send: try around pickle_dump has else/finally', u(t))
    names, eff = [], set()
    for h in t.handlers:
        names += except_names(h)
        eff.add(_handler_effects(h, '_send/pickle_dump'))
    if eff != {(True, 'InternalError')}:
        raise TieBroken('_send: a pickle_dump handler does not `_kill()` then raise InternalError', repr(eff))
    g.define('sendDumpCatch', 'List String', lean_list(names),
             'subprocess/__init__.py:CompiledSubprocess._send except clause around pickle_dump')

    # --- _send: try around pickle_load
    t = _try_with_call(send, 'pickle_load', '_send')
    if t.finalbody or t.orelse:
        raise TieBroken('_send: try around pickle_load has else/finally', u(t))
    names, eff = [], set()
    for h in t.handlers:
        names += except_names(h)
        eff.add(_handler_effects(h, '_send/pickle_load'))
    if eff != {(True, 'InternalError')}:
        raise TieBroken('_send: a pickle_load handler does not `_kill()` then raise InternalError', repr(eff))
    g.define('sendLoadCatch', 'List String', lean_list(names),
             'subprocess/__init__.py:CompiledSubprocess._send except clause around pickle_load')

    # --- _kill: sets the flag and runs the finalizer
    kill = sub.find('CompiledSubprocess._kill')
    body = [u(s) for s in kill.body]
    if body != ['self.is_crashed = True', 'self._cleanup_callable()']:
        raise TieBroken('_kill is no longer `is_crashed = True; _cleanup_callable()`', repr(body))
    g.define('killSetsCrashed', 'Bool', 'true', 'subprocess/__init__.py:CompiledSubprocess._kill')

    # --- _get_process registers the finalizer through weakref.finalize (once-only semantics)
    gp = sub.find('CompiledSubprocess._get_process')
    fin = [n for n in ast.walk(gp) if isinstance(n, ast.Call) and u(n.func) == 'weakref.finalize']
    if len(fin) != 1 or [u(a) for a in fin[0].args[:2]] != ['self', '_cleanup_process']:
        raise TieBroken('_get_process no longer registers weakref.finalize(self, _cleanup_process, ...)')
    if not any(u(d) == 'memoize_method' for d in gp.decorator_list):
        raise TieBroken('_get_process is no longer memoized (one process per CompiledSubprocess)')
    g.define('finalizerIsWeakrefFinalize', 'Bool', 'true',
             'subprocess/__init__.py:CompiledSubprocess._get_process weakref.finalize(self, _cleanup_process, process, t)')

    # --- _cleanup_process: kill, wait, join, close x3
    cp = sub.find('_cleanup_process')
    calls = [u(c.func) for c in sorted((c for c in ast.walk(cp) if isinstance(c, ast.Call)),
                                       key=lambda c: (c.lineno, c.col_offset))]
    steps = [c for c in calls if c in ('process.kill', 'process.wait', 'thread.join', 'stream.close')]
    if steps != ['process.kill', 'process.wait', 'thread.join', 'stream.close']:
        raise TieBroken('_cleanup_process no longer kills, waits, joins and closes in that order', repr(steps))
    g.define('cleanupSteps', 'List String', lean_list(steps), 'subprocess/__init__.py:_cleanup_process')

    # --- _cleanup_process: the close loop. Which streams, and is the try/except INSIDE the loop (one
    # per stream) or around the whole loop (the first close() that raises ends it)?
    def _is_close(stmt):
        return (isinstance(stmt, ast.Expr) and isinstance(stmt.value, ast.Call)
                and u(stmt.value.func) == 'stream.close' and not stmt.value.args and not stmt.value.keywords)

    def _pass_handlers(t, what):
        if t.orelse or t.finalbody:
            raise TieBroken('_cleanup_process: %s has else/finally' % what, u(t))
        names = []
        for h in t.handlers:
            if not all(isinstance(x, ast.Pass) for x in h.body):
                raise TieBroken('_cleanup_process: a handler of %s does more than `pass`' % what, u(h))
            names += except_names(h)
        return names

    loops = [n for n in ast.walk(cp) if isinstance(n, ast.For)]
    if len(loops) != 1 or u(loops[0].target) != 'stream' or loops[0].orelse \
            or not isinstance(loops[0].iter, (ast.List, ast.Tuple)):
        raise TieBroken('_cleanup_process: expected exactly one `for stream in [...]` loop',
                        repr([u(l) for l in loops]))
    loop = loops[0]
    streams = [u(e) for e in loop.iter.elts]
    if any(x not in ('process.stdin', 'process.stdout', 'process.stderr') for x in streams):
        raise TieBroken('_cleanup_process: the close loop iterates over something else than the pipes of '
                        'the process', repr(streams))
    enclosing = [t for t in ast.walk(cp) if isinstance(t, ast.Try) and loop in list(ast.walk(t))]
    body = loop.body
    if len(body) == 1 and isinstance(body[0], ast.Try) and len(body[0].body) == 1 \
            and _is_close(body[0].body[0]) and not enclosing:
        per_stream, clause = True, _pass_handlers(body[0], 'the try around stream.close()')
    elif len(body) == 1 and _is_close(body[0]) and len(enclosing) == 1 and enclosing[0].body == [loop] \
            and enclosing[0] in cp.body:
        per_stream, clause = False, _pass_handlers(enclosing[0], 'the try around the close loop')
    elif len(body) == 1 and _is_close(body[0]) and not enclosing:
        per_stream, clause = True, []          # no try at all: nothing is caught
    else:
        raise TieBroken('_cleanup_process: the close loop has an unknown shape', u(loop))
    after = cp.body[cp.body.index(enclosing[0] if enclosing else loop) + 1:] if (
        (enclosing[0] if enclosing else loop) in cp.body) else None
    if after is None or after:
        raise TieBroken('_cleanup_process: the close loop is not the last top-level statement', u(cp))
    g.define('cleanupCloseStreams', 'List String', lean_list(streams),
             'subprocess/__init__.py:_cleanup_process `for stream in [...]`')
    g.define('cleanupClosePerStream', 'Bool', lean_bool(per_stream),
             'subprocess/__init__.py:_cleanup_process: the try/except is inside the close loop (one per stream)')
    g.define('cleanupCloseCatch', 'List String', lean_list(clause),
             'subprocess/__init__.py:_cleanup_process except clause of the close loop (handler body: pass)')

    # --- _get_process: the three pipes the close loop has to release
    popen = [n for n in ast.walk(gp) if isinstance(n, ast.Call) and u(n.func) == '_GeneralizedPopen']
    if len(popen) != 1:
        raise TieBroken('_get_process: expected exactly one _GeneralizedPopen(...) call')
    pipes = sorted(k.arg for k in popen[0].keywords if k.arg in ('stdin', 'stdout', 'stderr')
                   and u(k.value) == 'subprocess.PIPE')
    if pipes != ['stderr', 'stdin', 'stdout']:
        raise TieBroken('_get_process: the helper is no longer started with three pipes', repr(pipes))
    g.define('popenPipes', 'List String', lean_list(['process.' + x for x in ('stdin', 'stdout', 'stderr')]),
             'subprocess/__init__.py:CompiledSubprocess._get_process Popen(stdin=PIPE, stdout=PIPE, stderr=PIPE)')

    # --- __del__ guard
    d = sub.find('InferenceStateSubprocess.__del__')
    if len(d.body) != 1 or not isinstance(d.body[0], ast.If):
        raise TieBroken('InferenceStateSubprocess.__del__ changed shape', u(d))
    guard = u(d.body[0].test)
    table = {'self._used and (not self._compiled_subprocess.is_crashed)': (True, True)}
    if guard not in table:
        raise TieBroken('InferenceStateSubprocess.__del__: unknown guard', guard)
    g.define('delRequiresUsed', 'Bool', lean_bool(table[guard][0]),
             'subprocess/__init__.py:InferenceStateSubprocess.__del__ guard `%s`' % guard)
    g.define('delRequiresNotCrashed', 'Bool', lean_bool(table[guard][1]),
             'subprocess/__init__.py:InferenceStateSubprocess.__del__ guard `%s`' % guard)

    # --- InferenceStateSubprocess.__getattr__.wrapper: where does `self._used = True` stand relative to
    # `self._compiled_subprocess.run(...)`?  (The helper creates the state before the function runs, so a
    # request that comes back as an exception has left a state behind as well.)
    ga = sub.find('InferenceStateSubprocess.__getattr__')
    wr = [n for n in ga.body if isinstance(n, ast.FunctionDef) and n.name == 'wrapper']
    if len(wr) != 1:
        raise TieBroken('InferenceStateSubprocess.__getattr__ no longer defines exactly one `wrapper`', u(ga))
    wr = wr[0]
    i_used = [i for i, st in enumerate(wr.body) if u(st) == 'self._used = True']
    i_run = [i for i, st in enumerate(wr.body)
             if any(isinstance(c, ast.Call) and u(c.func) == 'self._compiled_subprocess.run' for c in ast.walk(st))]
    all_used = [n for n in ast.walk(ga) if isinstance(n, (ast.Assign, ast.AugAssign, ast.AnnAssign))
                and '_used' in u(n).split('=')[0]]
    if len(i_used) != 1 or len(i_run) != 1 or len(all_used) != 1:
        raise TieBroken('wrapper: expected exactly one top-level `self._used = True` and one top-level statement '
                        'calling self._compiled_subprocess.run(...)', u(wr))
    run_stmt = wr.body[i_run[0]]
    if not (isinstance(run_stmt, ast.Assign) and isinstance(run_stmt.value, ast.Call)
            and u(run_stmt.value.func) == 'self._compiled_subprocess.run'
            and u(run_stmt.value.args[0]) == 'self._inference_state_id'):
        raise TieBroken('wrapper: the run(...) statement changed shape', u(run_stmt))
    g.define('usedSetBeforeRun', 'Bool', lean_bool(i_used[0] < i_run[0]),
             'subprocess/__init__.py:InferenceStateSubprocess.__getattr__.wrapper: `self._used = True` stands '
             'before `self._compiled_subprocess.run(...)`')
    # _used is written nowhere else in the class (only __init__: False)
    cls_node = [n for n in ast.walk(sub.tree) if isinstance(n, ast.ClassDef) and n.name == 'InferenceStateSubprocess'][0]
    writes = sorted(u(n) for n in ast.walk(cls_node) if isinstance(n, (ast.Assign, ast.AugAssign))
                    and any('_used' in u(t) for t in (n.targets if isinstance(n, ast.Assign) else [n.target])))
    if writes != ['self._used = False', 'self._used = True']:
        raise TieBroken('InferenceStateSubprocess: `_used` is written somewhere else than __init__ (False) and '
                        'wrapper (True)', repr(writes))
    # __del__ hands the id to delete_inference_state, which queues it; run() flushes the queue first
    dbody = [u(x) for x in d.body[0].body]
    if dbody != ['self._compiled_subprocess.delete_inference_state(self._inference_state_id)'] or d.body[0].orelse:
        raise TieBroken('InferenceStateSubprocess.__del__ body changed', repr(dbody))
    dis = sub.find('CompiledSubprocess.delete_inference_state')
    stmts = [x for x in dis.body if not (isinstance(x, ast.Expr) and isinstance(x.value, ast.Constant))]
    if [u(x) for x in stmts] != ['self._inference_state_deletion_queue.append(inference_state_id)']:
        raise TieBroken('delete_inference_state no longer just appends to the deletion queue', repr([u(x) for x in stmts]))
    rn = sub.find('CompiledSubprocess.run')
    rb = [x for x in rn.body if not (isinstance(x, ast.Expr) and isinstance(x.value, ast.Constant))]
    ok = (len(rb) == 3 and isinstance(rb[0], ast.While) and u(rb[0].test) == 'True'
          and len(rb[0].body) == 1 and isinstance(rb[0].body[0], ast.Try)
          and [u(x) for x in rb[0].body[0].body] == ['delete_id = self._inference_state_deletion_queue.pop()']
          and [except_names(h) for h in rb[0].body[0].handlers] == [['IndexError']]
          and [u(x) for x in rb[0].body[0].handlers[0].body] == ['break']
          and [u(x) for x in rb[0].body[0].orelse] == ['self._send(delete_id, None)']
          and not rb[0].body[0].finalbody and not rb[0].orelse
          and isinstance(rb[1], ast.Assert)
          and u(rb[2]) == 'return self._send(inference_state_id, function, args, kwargs)')
    if not ok:
        raise TieBroken('CompiledSubprocess.run is no longer `flush the whole deletion queue, then send the request`',
                        u(rn))
    g.define('runFlushesQueueFirst', 'Bool', 'true',
             'subprocess/__init__.py:CompiledSubprocess.run `while True: pop / _send(delete_id, None)` before the request')
    # the deletion queue is ONE deque PER CompiledSubprocess object: created in __init__, never a class attribute
    # or a module global (then a replacement helper would be asked to delete states only its predecessor held)
    cs = [n for n in ast.walk(sub.tree) if isinstance(n, ast.ClassDef) and n.name == 'CompiledSubprocess'][0]
    Q = '_inference_state_deletion_queue'
    class_level = [u(n) for n in cs.body if isinstance(n, (ast.Assign, ast.AnnAssign)) and Q in u(n)]
    module_level = [u(n) for n in sub.tree.body if isinstance(n, (ast.Assign, ast.AnnAssign)) and Q in u(n)]
    init = sub.find('CompiledSubprocess.__init__')
    in_init = [u(n) for n in init.body if isinstance(n, ast.Assign) and Q in u(n)]
    elsewhere = [u(n) for n in ast.walk(cs) if isinstance(n, (ast.Assign, ast.AugAssign)) and Q in
                 ' '.join(u(t) for t in (n.targets if isinstance(n, ast.Assign) else [n.target]))]
    fresh = in_init == ['self.%s = collections.deque()' % Q] or in_init == ['self.%s = deque()' % Q]
    if not fresh and not class_level and not module_level:
        raise TieBroken('CompiledSubprocess: where the deletion queue is created is not recognised',
                        repr({'__init__': in_init, 'class': class_level, 'module': module_level}))
    per_helper = fresh and not class_level and not module_level and elsewhere == in_init
    g.define('queuePerHelper', 'Bool', lean_bool(per_helper),
             'subprocess/__init__.py:CompiledSubprocess.__init__ `self._inference_state_deletion_queue = '
             'collections.deque()` (a fresh deque per helper object; no class attribute / module global of that name)')

    # --- Environment._get_subprocess
    gs = envs.find('Environment._get_subprocess')
    first = gs.body[0]
    if not (isinstance(first, ast.If)
            and u(first.test) == 'self._subprocess is not None and (not self._subprocess.is_crashed)'
            and u(first.body[0]) == 'return self._subprocess'):
        raise TieBroken('_get_subprocess: replacement test changed', u(first))
    g.define('replaceWhenCrashed', 'Bool', 'true',
             'api/environment.py:Environment._get_subprocess `if self._subprocess is not None and not self._subprocess.is_crashed: return`')
    t = _try_with_call(gs, 'self._subprocess._send', '_get_subprocess')
    names = []
    for h in t.handlers:
        names += except_names(h)
        r = [s for s in h.body if isinstance(s, ast.Raise)]
        if len(r) != 1 or u(r[0].exc.func) != 'InvalidPythonEnvironment':
            raise TieBroken('_get_subprocess handler no longer raises InvalidPythonEnvironment', u(h))
    g.define('envCatch', 'List String', lean_list(names),
             'api/environment.py:Environment._get_subprocess except clause around the version handshake')

    # --- Listener.listen: what the helper survives.  `while True:` with exactly one try around
    # `self._run(*payload)` directly in the loop body; every handler only builds the exception reply
    # `result = (True, traceback.format_exc(), e)`; no other try in `listen` may swallow what escapes
    # (the try around pickle_load catches EOFError and exits), and __main__ calls listen() bare.
    li = sub.find('Listener.listen')
    t = _try_with_call(li, 'self._run', 'Listener.listen')
    loops = [n for n in li.body if isinstance(n, ast.While)]
    if len(loops) != 1 or u(loops[0].test) != 'True' or t not in loops[0].body or loops[0].orelse:
        raise TieBroken('Listener.listen: the try around self._run is no longer a statement of the one '
                        '`while True:` loop', u(li))
    if t.finalbody or t.orelse or [u(x) for x in t.body] != ['result = (False, None, self._run(*payload))']:
        raise TieBroken('Listener.listen: the try around self._run changed shape', u(t))
    names = []
    for h in t.handlers:
        names += except_names(h)
        if h.name is None or [u(x) for x in h.body] != ['result = (True, traceback.format_exc(), %s)' % h.name]:
            raise TieBroken('Listener.listen: a handler around self._run does something else than building '
                            'the exception reply (True, traceback, e)', u(h))
    others = [n for n in ast.walk(li) if isinstance(n, ast.Try) and n is not t]
    for o in others:
        calls = [u(c.func) for b in o.body for c in ast.walk(b) if isinstance(c, ast.Call)]
        if calls != ['pickle_load'] or [except_names(h) for h in o.handlers] != [['EOFError']] \
                or o.finalbody or o.orelse or o not in loops[0].body:
            raise TieBroken('Listener.listen: an additional try statement', u(o))
    g.define('listenRunCatch', 'List String', lean_list(names),
             'subprocess/__init__.py:Listener.listen except clause around self._run')
    mainsrc = Src(repo, 'jedi/inference/compiled/subprocess/__main__.py')
    top = [n for n in mainsrc.tree.body if any(isinstance(c, ast.Call) and u(c.func).endswith('.listen')
                                               for c in ast.walk(n))]
    if len(top) != 1 or u(top[0]) != 'subprocess.Listener().listen()':
        raise TieBroken('subprocess/__main__.py no longer ends in a bare `subprocess.Listener().listen()`',
                        repr([u(x) for x in top]))
    g.define('mainCallsListenBare', 'Bool', 'true',
             'subprocess/__main__.py: `subprocess.Listener().listen()` is a top-level statement (no try around it)')

    for f in ('CompiledSubprocess._send', 'CompiledSubprocess._kill', 'CompiledSubprocess.run',
              'CompiledSubprocess._get_process', 'CompiledSubprocess.delete_inference_state',
              'CompiledSubprocess.get_sys_path', '_cleanup_process',
              'InferenceStateSubprocess.__del__', 'InferenceStateSubprocess.__getattr__',
              'Listener._run', 'Listener.listen', 'Listener._get_inference_state'):
        g.fp(sub, f)
    g.fp(envs, 'Environment._get_subprocess')
    g.fp(envs, 'Environment.get_inference_state_subprocess')
    g.fp(envs, 'Environment.get_sys_path')

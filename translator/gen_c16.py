"""C16: the sorted_definitions key, Name.__eq__/__hash__ fields, the return expressions of
infer / goto / get_references, which query methods open with reset_recursion_limitations(),
what that method re-creates, the try/finally switches; the cap of _limit_value_infers."""
import ast
from translator.extract import Src, TieBroken, u, lean_list


def _strip(prefix, s):
    return s[len(prefix):] if s.startswith(prefix) else s


def generate(repo, g):
    helpers = Src(repo, 'jedi/api/helpers.py')
    classes = Src(repo, 'jedi/api/classes.py')
    api = Src(repo, 'jedi/api/__init__.py')
    inf = Src(repo, 'jedi/inference/__init__.py')
    refs = Src(repo, 'jedi/inference/references.py')
    context = Src(repo, 'jedi/inference/context.py')
    dyn = Src(repo, 'jedi/inference/dynamic_params.py')
    st = Src(repo, 'jedi/inference/syntax_tree.py')

    # --- sorted_definitions key
    fn = helpers.find('sorted_definitions')
    calls = [n for n in ast.walk(fn) if isinstance(n, ast.Call) and u(n.func) == 'sorted']
    if len(calls) != 1:
        raise TieBroken('helpers.py: sorted_definitions has %d sorted() calls' % len(calls))
    call = calls[0]
    kw = {k.arg: k.value for k in call.keywords}
    if 'reverse' in kw or not isinstance(kw.get('key'), ast.Lambda) or u(call.args[0]) != 'defs':
        raise TieBroken('helpers.py: sorted_definitions is no longer sorted(defs, key=lambda ...)', u(call))
    lam = kw['key']
    arg = lam.args.args[0].arg
    elts = lam.body.elts if isinstance(lam.body, ast.Tuple) else [lam.body]
    table = {"str(%s.module_path or '')" % arg: 'path_or_empty', '%s.line or 0' % arg: 'line_or_0',
             '%s.column or 0' % arg: 'column_or_0', '%s.name' % arg: 'name'}
    comps = []
    for e in elts:
        if u(e) not in table:
            raise TieBroken('helpers.py: unknown sorted_definitions key component', u(e))
        comps.append(table[u(e)])
    g.define('sortKeyComponents', 'List String', lean_list(comps),
             'jedi/api/helpers.py:sorted_definitions key=lambda')

    # --- Name.__eq__ / __hash__
    eq = classes.find('Name.__eq__')
    ret = [n for n in eq.body if isinstance(n, ast.Return)]
    if len(ret) != 1 or not isinstance(ret[0].value, ast.BoolOp) or not isinstance(ret[0].value.op, ast.And):
        raise TieBroken('classes.py: Name.__eq__ is not a conjunction', u(eq))
    fields = []
    for c in ret[0].value.values:
        if not (isinstance(c, ast.Compare) and len(c.ops) == 1 and isinstance(c.ops[0], ast.Eq)):
            raise TieBroken('classes.py: Name.__eq__ conjunct', u(c))
        l, r = u(c.left), u(c.comparators[0])
        if _strip('self.', l) != _strip('other.', r):
            raise TieBroken('classes.py: Name.__eq__ compares different fields', u(c))
        fields.append(_strip('self.', l))
    known = {'_name.start_pos', 'module_path', 'name', '_inference_state'}
    if not set(fields) <= known:
        raise TieBroken('classes.py: Name.__eq__ field outside the model', repr(fields))
    g.define('eqFields', 'List String', lean_list(fields), 'jedi/api/classes.py:Name.__eq__')
    hs = classes.find('Name.__hash__')
    ret = [n for n in hs.body if isinstance(n, ast.Return)]
    if len(ret) != 1 or not (isinstance(ret[0].value, ast.Call) and u(ret[0].value.func) == 'hash'
                             and isinstance(ret[0].value.args[0], ast.Tuple)):
        raise TieBroken('classes.py: Name.__hash__ is not hash((...))', u(hs))
    g.define('hashFields', 'List String',
             lean_list([_strip('self.', u(e)) for e in ret[0].value.args[0].elts]),
             'jedi/api/classes.py:Name.__hash__')

    # --- how the query methods finish
    def last_return(dotted):
        fn = api.find(dotted)
        r = [n for n in fn.body if isinstance(n, ast.Return)]
        if not r:
            raise TieBroken('api/__init__.py: %s has no top-level return' % dotted)
        return u(r[-1].value)
    g.define('inferReturn', 'String', lean_list([last_return('Script.infer')])[1:-1],
             'jedi/api/__init__.py:Script.infer')
    g.define('gotoReturn', 'String', lean_list([last_return('Script.goto')])[1:-1],
             'jedi/api/__init__.py:Script.goto')
    g.define('referencesReturn', 'String', lean_list([last_return('Script.get_references._references')])[1:-1],
             'jedi/api/__init__.py:Script.get_references')

    # --- reset at the start of every query method
    script = api.find('Script')
    first = []
    for n in script.body:
        if isinstance(n, ast.FunctionDef):
            body = [s for s in n.body if not (isinstance(s, ast.Expr) and isinstance(s.value, ast.Constant))]
            if body and u(body[0]) == 'self._inference_state.reset_recursion_limitations()':
                first.append(n.name)
    g.define('resetFirst', 'List String', lean_list(sorted(first)),
             'jedi/api/__init__.py: Script methods whose first statement is reset_recursion_limitations()')
    fn = inf.find('InferenceState.reset_recursion_limitations')
    g.define('resetAssigns', 'List String',
             lean_list(sorted(u(n.targets[0]) for n in fn.body if isinstance(n, ast.Assign))),
             'jedi/inference/__init__.py:InferenceState.reset_recursion_limitations')

    # --- try/finally switches: (set statement(s) in/before try, finally statement(s))
    def try_finally(src, dotted):
        fn = src.find(dotted)
        out = []
        for n in ast.walk(fn):
            if isinstance(n, ast.Try) and n.finalbody:
                out.append('finally: ' + ' ; '.join(u(s) for s in n.finalbody))
        if not out:
            raise TieBroken('%s: %s has no try/finally' % (src.rel, dotted))
        return out
    g.define('flowSwitch', 'List String', lean_list(try_finally(refs, 'find_references')),
             'jedi/inference/references.py:find_references')
    g.define('analysisSwitch', 'List String', lean_list(try_finally(api, 'Script._analysis')),
             'jedi/api/__init__.py:Script._analysis')
    g.define('predefineSwitch', 'List String', lean_list(try_finally(context, 'AbstractContext.predefine_names')),
             'jedi/inference/context.py:predefine_names')
    g.define('dynDepthSwitch', 'List String', lean_list(try_finally(dyn, '_avoid_recursions')),
             'jedi/inference/dynamic_params.py:_avoid_recursions')

    # --- the cap (shared with C15)
    fn = st.find('_limit_value_infers.wrapper')
    cap = factor = None
    for n in ast.walk(fn):
        if isinstance(n, ast.Assign) and u(n.targets[0]) == 'maximum':
            cap = ast.literal_eval(n.value)
        if isinstance(n, ast.AugAssign) and u(n.target) == 'maximum' and isinstance(n.op, ast.Mult):
            factor = ast.literal_eval(n.value)
    if not isinstance(cap, int) or not isinstance(factor, int) or cap < 0 or factor < 0:
        raise TieBroken('syntax_tree.py: _limit_value_infers has no `maximum = N` / `maximum *= K`')
    g.define('nodeCap', 'Nat', str(cap), 'jedi/inference/syntax_tree.py:_limit_value_infers')
    g.define('nodeCapBuiltinFactor', 'Nat', str(factor), 'jedi/inference/syntax_tree.py:_limit_value_infers')

    for s, d in [(helpers, 'sorted_definitions'), (classes, 'Name.__eq__'), (classes, 'Name.__hash__'),
                 (api, 'Script.infer'), (api, 'Script.goto'), (api, 'Script.get_references'),
                 (api, 'Script._analysis'), (inf, 'InferenceState.reset_recursion_limitations'),
                 (refs, 'find_references'), (context, 'AbstractContext.predefine_names'), (dyn, '_avoid_recursions')]:
        g.fp(s, d)

"""C16: the sorted_definitions key, Name.__eq__/__hash__ fields, the return expressions of
infer / goto / get_references, which query methods open with reset_recursion_limitations(),
what that method re-creates, the try/finally switches; the cap of _limit_value_infers; where
jedi/api/strings.py sorts the dict keys it offers as subscript completions."""
import ast
from translator.extract import Src, TieBroken, u, lean_list


def _strip(prefix, s):
    return s[len(prefix):] if s.startswith(prefix) else s


def _dynamic_params(dyn, g):
    """WHERE in _avoid_recursions.wrapper `inf.dynamic_params_depth` is incremented / decremented
    (the model runs the bracket as it stands in the source; the theorem needs it balanced), and the
    cut-off of _search_function_arguments."""
    fn = dyn.find('_avoid_recursions.wrapper')
    COUNTER = 'inf.dynamic_params_depth'

    def bump(stmt):
        """'inc' / 'dec' for `inf.dynamic_params_depth += 1` / `-= 1`, None for other statements"""
        if COUNTER.split('.')[-1] not in u(stmt):
            return None
        if (isinstance(stmt, ast.AugAssign) and u(stmt.target) == COUNTER
                and isinstance(stmt.value, ast.Constant) and stmt.value.value == 1
                and isinstance(stmt.op, (ast.Add, ast.Sub))):
            return 'inc' if isinstance(stmt.op, ast.Add) else 'dec'
        return 'other'

    def plain(stmts, place, out):
        for st in stmts:
            b = bump(st)
            if b == 'other':
                raise TieBroken('dynamic_params.py: _avoid_recursions touches dynamic_params_depth in a way '
                                'the model does not know', u(st))
            if b:
                out.append('%s:%s' % (place, b))

    body = [st for st in fn.body if not (isinstance(st, ast.Expr) and isinstance(st.value, ast.Constant))]
    withs = [i for i, st in enumerate(body) if isinstance(st, ast.With)]
    if len(withs) != 1 or withs[0] != len(body) - 1:
        raise TieBroken('dynamic_params.py: _avoid_recursions.wrapper does not end with one `with` block', u(fn))
    w = body[withs[0]]
    if u(body[0]) != 'inf = function_value.inference_state':
        raise TieBroken('dynamic_params.py: _avoid_recursions.wrapper: `inf` is not function_value.inference_state',
                        u(body[0]))
    item = u(w.items[0]) if len(w.items) == 1 else None
    if item != 'recursion.execution_allowed(inf, function_value.tree_node) as allowed':
        raise TieBroken('dynamic_params.py: _avoid_recursions guards with something else than '
                        'recursion.execution_allowed(inf, function_value.tree_node)', repr(item))
    out = []
    plain(body[1:-1], 'pre', out)
    wbody = [st for st in w.body if not (isinstance(st, ast.Expr) and isinstance(st.value, ast.Constant))]
    if not (len(wbody) >= 2 and isinstance(wbody[0], ast.If) and u(wbody[0].test) == 'allowed'
            and not wbody[0].orelse and u(wbody[-1]) == 'return NO_VALUES'):
        raise TieBroken('dynamic_params.py: _avoid_recursions: the with block is not '
                        '`if allowed: ... ; return NO_VALUES`', u(w))
    ibody = wbody[0].body
    if not (ibody and isinstance(ibody[-1], ast.Try)):
        raise TieBroken('dynamic_params.py: _avoid_recursions: `if allowed:` does not end with a try statement',
                        u(wbody[0]))
    t = ibody[-1]
    if t.handlers or t.orelse or [u(x) for x in t.body] != ['return func(function_value, param_index)']:
        raise TieBroken('dynamic_params.py: _avoid_recursions: the try statement is not '
                        '`try: return func(function_value, param_index) finally: ...`', u(t))
    plain(ibody[:-1], 'allowed', out)
    plain(t.finalbody, 'finally', out)
    plain(wbody[1:-1], 'blocked', out)
    g.define('dynBracket', 'List String', lean_list(out),
             'jedi/inference/dynamic_params.py:_avoid_recursions.wrapper - where dynamic_params_depth is '
             'incremented / decremented (pre = before the with, allowed = in `if allowed:` before the try, '
             'finally = in its finally, blocked = after the if)')

    # the cut-off of the call-site search
    mx = [n for n in dyn.tree.body if isinstance(n, ast.Assign) and u(n.targets[0]) == 'MAX_PARAM_SEARCHES']
    if len(mx) != 1 or not isinstance(mx[0].value, ast.Constant) or not isinstance(mx[0].value.value, int):
        raise TieBroken('dynamic_params.py: MAX_PARAM_SEARCHES is not an int constant')
    g.define('maxParamSearches', 'Nat', str(mx[0].value.value), 'jedi/inference/dynamic_params.py:MAX_PARAM_SEARCHES')
    sf = dyn.find('_search_function_arguments')
    cuts = []
    for n in ast.walk(sf):
        if isinstance(n, ast.For):
            for j, st in enumerate(n.body):
                if isinstance(st, ast.If) and 'MAX_PARAM_SEARCHES' in u(st.test):
                    before = [u(x) for x in n.body[:j]]
                    cuts.append((before, u(st.test), [u(x) for x in st.body]))
    ok_tests = {'i * inference_state.dynamic_params_depth > MAX_PARAM_SEARCHES',
                # with proposed_fixes/c16-dynamic-params-depth-in-memo-key.diff the depth is an argument
                'i * depth > MAX_PARAM_SEARCHES'}
    inits = [u(n) for n in sf.body if isinstance(n, ast.Assign) and u(n.targets[0]) == 'i']
    if (len(cuts) != 1 or cuts[0][0] != ['i += 1'] or cuts[0][1] not in ok_tests or cuts[0][2] != ['return']
            or inits != ['i = 0']):
        raise TieBroken('dynamic_params.py: _search_function_arguments no longer cuts the search with '
                        '`i = 0 ... i += 1; if i * <depth> > MAX_PARAM_SEARCHES: return`', repr((inits, cuts)))
    if cuts[0][1] == 'i * depth > MAX_PARAM_SEARCHES':
        args = [a.arg for a in sf.args.args]
        call = [n for n in ast.walk(dyn.find('dynamic_param_lookup'))
                if isinstance(n, ast.Call) and u(n.func) == '_search_function_arguments']
        if (args[-1:] != ['depth'] or len(call) != 1
                or u(call[0].args[-1]) != 'function_value.inference_state.dynamic_params_depth'):
            raise TieBroken('dynamic_params.py: the `depth` of _search_function_arguments is not '
                            'inference_state.dynamic_params_depth of the caller', repr(args))
    g.define('searchCut', 'String', '"i * dynamic_params_depth > MAX_PARAM_SEARCHES"',
             'jedi/inference/dynamic_params.py:_search_function_arguments (i = 0; per call site: i += 1; if <cut>: return)')

# --------------------------------------------------------------------------- the memo layer

# decorators that remember the value their function returned, as it is
PLAIN_CACHES = {'jedi/inference/cache.py': ['_memoize_default', 'inference_state_function_cache',
                                             'inference_state_method_cache',
                                             'inference_state_as_method_param_cache'],
                'jedi/cache.py': ['memoize_method', 'time_cache']}
# ... that are written for generator functions and consume / replay them themselves
GENERATOR_CACHE = ('jedi/inference/cache.py', 'inference_state_method_generator_cache')
PROTOCOL_CACHE = ('jedi/cache.py', 'signature_time_cache')
# decorators that turn whatever iterable the function returns into an immutable container
MATERIALISERS = {('jedi/inference/utils.py', 'to_list'): 'list(func(*args, **kwargs))',
                 ('jedi/inference/utils.py', 'to_tuple'): 'tuple(func(*args, **kwargs))',
                 ('jedi/inference/base_value.py', 'iterator_to_value_set'): 'ValueSet(func(*args, **kwargs))'}
LAZY_BUILTINS = {'map', 'filter', 'zip', 'iter', 'reversed', 'enumerate', 'chain', 'itertools.chain',
                 'chain.from_iterable', 'itertools.chain.from_iterable'}


def _own_nodes(fn):
    """nodes of a function body without those of nested functions / lambdas / classes"""
    stack = list(fn.body)
    while stack:
        n = stack.pop()
        if isinstance(n, (ast.FunctionDef, ast.AsyncFunctionDef, ast.Lambda, ast.ClassDef)):
            continue
        yield n
        stack.extend(ast.iter_child_nodes(n))


def _returns_one_shot(fn):
    """is calling `fn` handing out an iterator that can be consumed once: a generator function, or a
    function returning a generator expression / map / filter / zip / iter / chain object"""
    for n in _own_nodes(fn):
        if isinstance(n, (ast.Yield, ast.YieldFrom)):
            return True
        if isinstance(n, ast.Return) and n.value is not None:
            v = n.value
            if isinstance(v, ast.GeneratorExp):
                return True
            if isinstance(v, ast.Call) and u(v.func) in LAZY_BUILTINS:
                return True
    return False


def _memo_layer(repo, g):
    import os
    inf_cache = Src(repo, 'jedi/inference/cache.py')
    top_cache = Src(repo, 'jedi/cache.py')
    utils = Src(repo, 'jedi/inference/utils.py')
    base_value = Src(repo, 'jedi/inference/base_value.py')
    srcs = {'jedi/inference/cache.py': inf_cache, 'jedi/cache.py': top_cache,
            'jedi/inference/utils.py': utils, 'jedi/inference/base_value.py': base_value}

    # --- which memo decorators exist: a new one must be classified before the table means anything
    known = {'jedi/inference/cache.py': set(PLAIN_CACHES['jedi/inference/cache.py']) | {GENERATOR_CACHE[1]},
             'jedi/cache.py': set(PLAIN_CACHES['jedi/cache.py']) | {PROTOCOL_CACHE[1], 'clear_time_caches'}}
    for rel, names in known.items():
        have = {n.name for n in srcs[rel].tree.body if isinstance(n, ast.FunctionDef)}
        if have != names:
            raise TieBroken('%s: the set of memo decorators changed' % rel,
                            'expected %s, found %s' % (sorted(names), sorted(have)))

    # --- how they store: the value returned by the function goes into the memo as it is
    shapes = []

    def stores_raw(src, dotted, call, store):
        fn = src.find(dotted)
        text = [u(n) for n in ast.walk(fn) if isinstance(n, (ast.Assign, ast.Return))]
        if not any(t.split(' = ')[-1].startswith(call) for t in text if ' = ' in t) or not any(store in t for t in text):
            raise TieBroken('%s: %s no longer stores the raw return value' % (src.rel, dotted),
                            'looked for `... = %s...` and `%s` in %r' % (call, store, text))
        shapes.append('%s:%s stores %s' % (src.rel, dotted.split('.')[0], store))
    stores_raw(inf_cache, '_memoize_default.func.wrapper', 'function(obj, *args, **kwargs)', 'memo[key] = rv')
    stores_raw(top_cache, 'memoize_method.wrapper', 'method(self, *args, **kwargs)', 'dct[key] = result')
    stores_raw(top_cache, 'time_cache.decorator.wrapper', 'func(*args, **kwargs)', 'cache[key] = (time.time(), result)')
    for name in PLAIN_CACHES['jedi/inference/cache.py'][1:]:
        fn = inf_cache.find(name + '.decorator')
        calls = [u(n.func) for n in ast.walk(fn) if isinstance(n, ast.Call)]
        if '_memoize_default' not in calls:
            raise TieBroken('jedi/inference/cache.py: %s is no longer built on _memoize_default' % name, repr(calls))
    # the two that handle generators themselves
    gen = inf_cache.find(GENERATOR_CACHE[1] + '.func.wrapper')
    gtext = u(gen)
    for needle in ('memo[key] = (actual_generator, cached_lst)', 'next_element = cached_lst[i]',
                   'next_element = next(actual_generator, None)', 'yield next_element'):
        if needle not in gtext:
            raise TieBroken('jedi/inference/cache.py: inference_state_method_generator_cache no longer keeps '
                            '(generator, list of what it produced) and replays the list', needle)
    shapes.append('jedi/inference/cache.py:inference_state_method_generator_cache stores (actual_generator, cached_lst)')
    sig = top_cache.find(PROTOCOL_CACHE[1] + '._temp.wrapper')
    stext = u(sig)
    for needle in ('key = next(generator)', 'value = next(generator)', 'dct[key] = (time.time() + time_add, value)'):
        if needle not in stext:
            raise TieBroken('jedi/cache.py: signature_time_cache no longer takes key and value out of the '
                            'generator itself', needle)
    shapes.append('jedi/cache.py:signature_time_cache stores next(generator)')
    # the materialisers
    for (rel, name), want in MATERIALISERS.items():
        fn = srcs[rel].find(name + '.wrapper')
        rets = [u(n.value) for n in ast.walk(fn) if isinstance(n, ast.Return)]
        if rets != [want]:
            raise TieBroken('%s: %s no longer returns %s' % (rel, name, want), repr(rets))
        shapes.append('%s:%s returns %s' % (rel, name, want))
    vs = base_value.find('ValueSet.__init__')
    if 'self._set = frozenset(iterable)' not in [u(n) for n in vs.body]:
        raise TieBroken('jedi/inference/base_value.py: ValueSet.__init__ no longer freezes its argument', u(vs))
    shapes.append('jedi/inference/base_value.py:ValueSet.__init__ self._set = frozenset(iterable)')
    g.define('memoStoreShapes', 'List String', lean_list(shapes),
             'jedi/inference/cache.py, jedi/cache.py, jedi/inference/utils.py, jedi/inference/base_value.py: '
             'what each memo decorator remembers / each materialiser returns')

    # --- the table: every memoised function of jedi/
    cache_names = set(sum(PLAIN_CACHES.values(), [])) | {GENERATOR_CACHE[1], PROTOCOL_CACHE[1]}
    rows = []
    for dp, dn, fs in sorted(os.walk(os.path.join(repo, 'jedi'))):
        dn.sort()
        if 'third_party' in dp.split(os.sep):
            continue
        for f in sorted(fs):
            if not f.endswith('.py'):
                continue
            rel = os.path.relpath(os.path.join(dp, f), repo).replace(os.sep, '/')
            src = Src(repo, rel)

            def visit(node, prefix):
                for n in ast.iter_child_nodes(node):
                    if isinstance(n, (ast.FunctionDef, ast.AsyncFunctionDef)):
                        decs = []
                        for d in n.decorator_list:
                            d = d.func if isinstance(d, ast.Call) else d
                            decs.append(u(d).split('.')[-1])
                        if any(d in cache_names for d in decs):
                            rows.append(('%s:%s' % (rel, '.'.join(prefix + [n.name])), decs, _returns_one_shot(n)))
                        visit(n, prefix + [n.name])
                    elif isinstance(n, ast.ClassDef):
                        visit(n, prefix + [n.name])
                    else:
                        visit(n, prefix)
            visit(src.tree, [])
    if len(rows) < 40:
        raise TieBroken('only %d memoised functions found in jedi/: the walk is broken' % len(rows))
    val = '[\n  ' + ',\n  '.join('(%s, %s, %s)' % (lean_list([r[0]])[1:-1], lean_list(r[1]), 'true' if r[2] else 'false')
                                  for r in rows) + ']'
    g.define('memoTable', 'List (String × List String × Bool)', val,
             'every function in jedi/ under a memo decorator: (file:qualname, decorators outermost first, '
             'does calling the undecorated function hand out a one-shot iterator)')
    for s_, d in [(inf_cache, '_memoize_default'), (inf_cache, 'inference_state_method_generator_cache'),
                  (top_cache, 'memoize_method'), (top_cache, 'signature_time_cache'), (top_cache, 'time_cache'),
                  (utils, 'to_list'), (utils, 'to_tuple'), (base_value, 'iterator_to_value_set')]:
        g.fp(s_, d)


# --------------------------------------------------------------------------- dict key completions

def _is_repr_key(call):
    """sorted(<x>, key=repr) / sorted(<x>, key=lambda x: repr(x)), nothing else (no reverse=)"""
    if not (isinstance(call, ast.Call) and u(call.func) == 'sorted' and len(call.args) == 1
            and [k.arg for k in call.keywords] == ['key']):
        return False
    key = call.keywords[0].value
    if isinstance(key, ast.Lambda):
        a = [x.arg for x in key.args.args]
        return len(a) == 1 and u(key.body) == 'repr(%s)' % a[0]
    return u(key) == 'repr'


def _dict_keys(repo, g):
    """WHERE jedi/api/strings.py sorts the dict keys it offers as completions: over the keys of all
    inferred dicts together (in _completions_for_dicts) and / or per dict (in _get_python_keys); that
    Completion.complete puts them in front of its result as they come."""
    strings = Src(repo, 'jedi/api/strings.py')
    comp = Src(repo, 'jedi/api/completion.py')
    fn = strings.find('_completions_for_dicts')
    body = [st for st in fn.body if not (isinstance(st, ast.Expr) and isinstance(st.value, ast.Constant))]
    loops = [st for st in body if isinstance(st, ast.For)]
    if len(loops) != 1 or [u(st) for st in body if st is not loops[0]] != ['seen = set()']:
        raise TieBroken('strings.py: _completions_for_dicts is no longer `seen = set()` + one for loop', u(fn))
    it = loops[0].iter
    if u(it) == '_get_python_keys(dicts)':
        global_sort = False
    elif _is_repr_key(it) and u(it.args[0]) == '_get_python_keys(dicts)':
        global_sort = True
    else:
        raise TieBroken('strings.py: _completions_for_dicts iterates over something the model does not know', u(it))
    lb = loops[0].body
    if not (len(lb) == 2 and u(lb[0]) == 'dict_key_str = _create_repr_string(literal_string, dict_key)'
            and isinstance(lb[1], ast.If)
            and u(lb[1].test) == 'dict_key_str.startswith(literal_string) and dict_key_str not in seen'
            and not lb[1].orelse and u(lb[1].body[0]) == 'seen.add(dict_key_str)'
            and 'dict_key_str[:-len(cut_end_quote) or None]' in u(lb[1].body[1])
            and isinstance(lb[1].body[-1], ast.Expr) and isinstance(lb[1].body[-1].value, ast.Yield)):
        raise TieBroken('strings.py: the loop body of _completions_for_dicts changed', u(loops[0]))
    g.define('dictKeysGlobalSort', 'Bool', 'true' if global_sort else 'false',
             'jedi/api/strings.py:_completions_for_dicts - the loop runs over sorted(_get_python_keys(dicts), key=repr) '
             '(true) or over _get_python_keys(dicts) as it yields (false)')

    fn = strings.find('_get_python_keys')
    body = [st for st in fn.body if not (isinstance(st, ast.Expr) and isinstance(st.value, ast.Constant))]
    ok = (len(body) == 1 and isinstance(body[0], ast.For) and u(body[0].target) == 'dct' and u(body[0].iter) == 'dicts'
          and len(body[0].body) == 1 and isinstance(body[0].body[0], ast.If)
          and u(body[0].body[0].test) == "dct.array_type == 'dict'" and not body[0].body[0].orelse)
    if not ok:
        raise TieBroken("strings.py: _get_python_keys is no longer `for dct in dicts: if dct.array_type == 'dict': ...`", u(fn))
    inner = [u(st) for st in body[0].body[0].body]
    GET = 'dict_key = key.get_safe_value(default=_sentinel)'
    as_yielded = ['for key in dct.get_key_values():\n    %s\n    if dict_key is not _sentinel:\n        yield dict_key' % GET]
    collected = ['keys = []',
                 'for key in dct.get_key_values():\n    %s\n    if dict_key is not _sentinel:\n        keys.append(dict_key)' % GET]
    if inner == as_yielded:
        per_dict = False
    elif inner[:2] == collected and len(inner) == 3:
        last = body[0].body[0].body[2]
        v = last.value if isinstance(last, ast.Expr) else None
        if not (isinstance(v, ast.YieldFrom) and _is_repr_key(v.value) and u(v.value.args[0]) == 'keys'):
            raise TieBroken('strings.py: _get_python_keys hands out the collected keys of a dict in a way the model '
                            'does not know', inner[2])
        per_dict = True
    else:
        raise TieBroken('strings.py: the body of _get_python_keys changed', repr(inner))
    g.define('dictKeysPerDictSort', 'Bool', 'true' if per_dict else 'false',
             'jedi/api/strings.py:_get_python_keys - yields the keys of each dict as get_key_values() gives them (false) '
             'or as sorted(keys, key=repr) per dict (true)')

    # _create_repr_string / _get_string_prefix_and_quote: the statements the model transcribes
    fn = strings.find('_create_repr_string')
    want = ['if not isinstance(dict_key, (str, bytes)) or not literal_string:\n    return repr(dict_key)',
            'r = repr(dict_key)', 'prefix, quote = _get_string_prefix_and_quote(literal_string)',
            'if quote is None:\n    return r', 'if quote == r[0]:\n    return prefix + r',
            'return prefix + quote + r[1:-1] + quote']
    if [u(st) for st in fn.body] != want:
        raise TieBroken('strings.py: _create_repr_string changed', u(fn))
    fn = strings.find('_get_string_prefix_and_quote')
    pats = [n.args[0].value for n in ast.walk(fn) if isinstance(n, ast.Call) and u(n.func) == 're.match'
            and isinstance(n.args[0], ast.Constant)]
    if pats != ['(\\w*)("""|\\\'{3}|"|\\\')']:      # raw string in the source: \' is a quote
        raise TieBroken('strings.py: the regex of _get_string_prefix_and_quote changed', repr(pats))

    # Completion.complete: the prefixed completions go in front, as they come
    fn = comp.find('Completion.complete')
    rets = [n.value for n in fn.body if isinstance(n, ast.Return)]
    if not (rets and isinstance(rets[-1], ast.BinOp) and isinstance(rets[-1].op, ast.Add)):
        raise TieBroken('completion.py: Completion.complete no longer returns `<prefixed> + sorted(...)`', u(fn)[-400:])
    g.define('completeReturnHead', 'String', lean_list([u(rets[-1].left)])[1:-1],
             'jedi/api/completion.py:Completion.complete - what stands in front of the sorted name completions')
    assigns = [u(n.value.func) for n in fn.body if isinstance(n, ast.Assign) and u(n.targets[0]) == 'prefixed_completions'
               and isinstance(n.value, ast.Call)]
    if assigns != ['complete_dict']:
        raise TieBroken('completion.py: Completion.complete no longer starts from prefixed_completions = complete_dict(...)',
                        repr(assigns))
    for d in ('_completions_for_dicts', '_get_python_keys', '_create_repr_string', '_get_string_prefix_and_quote',
              'complete_dict'):
        g.fp(strings, d)
    g.fp(comp, 'Completion.complete')


def generate(repo, g):
    helpers = Src(repo, 'jedi/api/helpers.py')
    classes = Src(repo, 'jedi/api/classes.py')
    api = Src(repo, 'jedi/api/__init__.py')
    inf = Src(repo, 'jedi/inference/__init__.py')
    refs = Src(repo, 'jedi/inference/references.py')
    context = Src(repo, 'jedi/inference/context.py')
    dyn = Src(repo, 'jedi/inference/dynamic_params.py')
    st = Src(repo, 'jedi/inference/syntax_tree.py')

    # --- sorted_definitions key
    fn = helpers.find('sorted_definitions')
    calls = [n for n in ast.walk(fn) if isinstance(n, ast.Call) and u(n.func) == 'sorted']
    if len(calls) != 1:
        raise TieBroken('helpers.py: sorted_definitions has %d sorted() calls' % len(calls))
    call = calls[0]
    kw = {k.arg: k.value for k in call.keywords}
    if 'reverse' in kw or not isinstance(kw.get('key'), ast.Lambda) or u(call.args[0]) != 'defs':
        raise TieBroken('helpers.py: sorted_definitions is no longer sorted(defs, key=lambda ...)', u(call))
    lam = kw['key']
    arg = lam.args.args[0].arg
    elts = lam.body.elts if isinstance(lam.body, ast.Tuple) else [lam.body]
    table = {"str(%s.module_path or '')" % arg: 'path_or_empty', '%s.line or 0' % arg: 'line_or_0',
             '%s.column or 0' % arg: 'column_or_0', '%s.name' % arg: 'name',
             '%s._name.api_type' % arg: 'api_type'}
    comps = []
    for e in elts:
        if u(e) not in table:
            raise TieBroken('helpers.py: unknown sorted_definitions key component', u(e))
        comps.append(table[u(e)])
    g.define('sortKeyComponents', 'List String', lean_list(comps),
             'jedi/api/helpers.py:sorted_definitions key=lambda')

    # --- Name.__eq__ / __hash__
    eq = classes.find('Name.__eq__')
    ret = [n for n in eq.body if isinstance(n, ast.Return)]
    if len(ret) != 1 or not isinstance(ret[0].value, ast.BoolOp) or not isinstance(ret[0].value.op, ast.And):
        raise TieBroken('classes.py: Name.__eq__ is not a conjunction', u(eq))
    fields = []
    for c in ret[0].value.values:
        if not (isinstance(c, ast.Compare) and len(c.ops) == 1 and isinstance(c.ops[0], ast.Eq)):
            raise TieBroken('classes.py: Name.__eq__ conjunct', u(c))
        l, r = u(c.left), u(c.comparators[0])
        if _strip('self.', l) != _strip('other.', r):
            raise TieBroken('classes.py: Name.__eq__ compares different fields', u(c))
        fields.append(_strip('self.', l))
    known = {'_name.start_pos', 'module_path', 'name', '_inference_state', '_name.api_type'}
    if not set(fields) <= known:
        raise TieBroken('classes.py: Name.__eq__ field outside the model', repr(fields))
    g.define('eqFields', 'List String', lean_list(fields), 'jedi/api/classes.py:Name.__eq__')
    hs = classes.find('Name.__hash__')
    ret = [n for n in hs.body if isinstance(n, ast.Return)]
    if len(ret) != 1 or not (isinstance(ret[0].value, ast.Call) and u(ret[0].value.func) == 'hash'
                             and isinstance(ret[0].value.args[0], ast.Tuple)):
        raise TieBroken('classes.py: Name.__hash__ is not hash((...))', u(hs))
    g.define('hashFields', 'List String',
             lean_list([_strip('self.', u(e)) for e in ret[0].value.args[0].elts]),
             'jedi/api/classes.py:Name.__hash__')

    # --- how the query methods finish
    def last_return(dotted):
        fn = api.find(dotted)
        r = [n for n in fn.body if isinstance(n, ast.Return)]
        if not r:
            raise TieBroken('api/__init__.py: %s has no top-level return' % dotted)
        return u(r[-1].value)
    g.define('inferReturn', 'String', lean_list([last_return('Script.infer')])[1:-1],
             'jedi/api/__init__.py:Script.infer')
    g.define('gotoReturn', 'String', lean_list([last_return('Script.goto')])[1:-1],
             'jedi/api/__init__.py:Script.goto')
    g.define('referencesReturn', 'String', lean_list([last_return('Script.get_references._references')])[1:-1],
             'jedi/api/__init__.py:Script.get_references')

    # --- reset at the start of every query method
    script = api.find('Script')
    first = []
    for n in script.body:
        if isinstance(n, ast.FunctionDef):
            body = [s for s in n.body if not (isinstance(s, ast.Expr) and isinstance(s.value, ast.Constant))]
            if body and u(body[0]) == 'self._inference_state.reset_recursion_limitations()':
                first.append(n.name)
    g.define('resetFirst', 'List String', lean_list(sorted(first)),
             'jedi/api/__init__.py: Script methods whose first statement is reset_recursion_limitations()')
    # ... or that reach such a method through `self.<method>(...)` calls before anything else can
    # infer (search -> _search_func -> _names, get_names -> _names, rename -> get_references):
    # least fixpoint over "some call self.X(...) in the body with X already in the set"
    bodies = {n.name: n for n in script.body if isinstance(n, ast.FunctionDef)}
    reach = set(first)
    changed = True
    while changed:
        changed = False
        for name, n in bodies.items():
            if name in reach:
                continue
            callees = {c.func.attr for c in ast.walk(n) if isinstance(c, ast.Call)
                       and isinstance(c.func, ast.Attribute) and u(c.func.value) == 'self'}
            if callees & reach:
                reach.add(name)
                changed = True
    g.define('resetReach', 'List String', lean_list(sorted(reach)),
             'jedi/api/__init__.py: Script methods that open with reset_recursion_limitations() or call such a '
             'method on self')
    public = sorted(n for n, f in bodies.items() if not n.startswith('_')
                    and [a.arg for a in f.args.args[1:3]] == ['line', 'column'])
    g.define('positionQueries', 'List String', lean_list(public),
             'jedi/api/__init__.py: public Script methods taking (line, column)')
    rec = Src(repo, 'jedi/inference/recursion.py')
    for py, lean in [('recursion_limit', 'recursionLimit'), ('total_function_execution_limit', 'totalLimit'),
                     ('per_function_execution_limit', 'perFnLimit'),
                     ('per_function_recursion_limit', 'perFnRecLimit')]:
        v = rec.const(py)
        if not isinstance(v, int) or isinstance(v, bool) or v < 0:
            raise TieBroken('recursion.py: %s is not a natural number' % py, repr(v))
        g.define(lean, 'Nat', str(v), 'jedi/inference/recursion.py:' + py)
    fn = inf.find('InferenceState.reset_recursion_limitations')
    g.define('resetAssigns', 'List String',
             lean_list(sorted(u(n.targets[0]) for n in fn.body if isinstance(n, ast.Assign))),
             'jedi/inference/__init__.py:InferenceState.reset_recursion_limitations')

    # --- try/finally switches: (set statement(s) in/before try, finally statement(s))
    def try_finally(src, dotted):
        fn = src.find(dotted)
        out = []
        for n in ast.walk(fn):
            if isinstance(n, ast.Try) and n.finalbody:
                out.append('finally: ' + ' ; '.join(u(s) for s in n.finalbody))
        if not out:
            raise TieBroken('%s: %s has no try/finally' % (src.rel, dotted))
        return out
    g.define('flowSwitch', 'List String', lean_list(try_finally(refs, 'find_references')),
             'jedi/inference/references.py:find_references')
    g.define('analysisSwitch', 'List String', lean_list(try_finally(api, 'Script._analysis')),
             'jedi/api/__init__.py:Script._analysis')
    g.define('predefineSwitch', 'List String', lean_list(try_finally(context, 'AbstractContext.predefine_names')),
             'jedi/inference/context.py:predefine_names')
    g.define('dynDepthSwitch', 'List String', lean_list(try_finally(dyn, '_avoid_recursions')),
             'jedi/inference/dynamic_params.py:_avoid_recursions')
    _dynamic_params(dyn, g)

    # --- the cap (shared with C15)
    fn = st.find('_limit_value_infers.wrapper')
    cap = factor = None
    for n in ast.walk(fn):
        if isinstance(n, ast.Assign) and u(n.targets[0]) == 'maximum':
            cap = ast.literal_eval(n.value)
        if isinstance(n, ast.AugAssign) and u(n.target) == 'maximum' and isinstance(n.op, ast.Mult):
            factor = ast.literal_eval(n.value)
    if not isinstance(cap, int) or not isinstance(factor, int) or cap < 0 or factor < 0:
        raise TieBroken('syntax_tree.py: _limit_value_infers has no `maximum = N` / `maximum *= K`')
    g.define('nodeCap', 'Nat', str(cap), 'jedi/inference/syntax_tree.py:_limit_value_infers')
    g.define('nodeCapBuiltinFactor', 'Nat', str(factor), 'jedi/inference/syntax_tree.py:_limit_value_infers')

    _memo_layer(repo, g)
    _dict_keys(repo, g)

    for s, d in [(helpers, 'sorted_definitions'), (classes, 'Name.__eq__'), (classes, 'Name.__hash__'),
                 (api, 'Script.infer'), (api, 'Script.goto'), (api, 'Script.get_references'),
                 (api, 'Script._analysis'), (inf, 'InferenceState.reset_recursion_limitations'),
                 (refs, 'find_references'), (context, 'AbstractContext.predefine_names'), (dyn, '_avoid_recursions'),
                 (dyn, '_search_function_arguments')]:
        g.fp(s, d)

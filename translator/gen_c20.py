"""C20: Project.__init__/save/load shape and the composition of Project._get_sys_path."""
import ast
from translator.extract import Src, TieBroken, u, lean_list, lean_bool, lean_str


def norm(text):
    """indentation-insensitive form of unparsed source"""
    return '\n'.join(line.strip() for line in text.split('\n'))


def has(text, needle):
    return norm(needle) in norm(text)


# values of the unchanged source: used for the constants that can no longer be extracted when the
# source lost its expected shape, so that the Lean side still builds (against the model of the
# unchanged code) and the correspondence / failing-input search can run.  The tie is reported.
EXPECTED = [
    ('initParams', 'List String', lean_list(['path', 'environment_path', 'load_unsafe_extensions', 'sys_path',
                                              'added_sys_path', 'smart_sys_path'])),
    ('initAttrs', 'List String', lean_list(['_path', '_environment_path', '_sys_path', '_smart_sys_path',
                                             '_load_unsafe_extensions', '_django', 'added_sys_path'])),
    ('pathAlwaysAbsolute', 'Bool', 'false'),
    ('envPathStr', 'Bool', 'false'),
    ('savePopped', 'List String', lean_list(['_environment', '_django'])),
    ('saveOpenMode', 'String', '"w"'),
    ('serializerVersion', 'Int', '1'),
    ('defaultProjectSteps', 'List String', lean_list(['try-load', 'except(FileNotFoundError,IsADirectoryError,PermissionError):pass', 'except(NotADirectoryError):continue', 'if first_no_init_file is None', 'if __init__.py exists:continue', 'elif not is_file:first_no_init_file=dir', 'if django:return', 'if probable_path is None and potential:probable_path=dir', 'after:probable', 'after:first_no_init_file', 'after:curdir'])),
    ('potentialProjectFiles', 'List String', lean_list(['setup.py', '.git', '.hg', 'requirements.txt', 'MANIFEST.in', 'pyproject.toml'])),
    ('defaultAddParentPaths', 'Bool', 'true'),
    ('defaultAddInitPaths', 'Bool', 'false'),
    ('composeOrder', 'List String', lean_list(['prefixed', 'sys_path', 'suffixed'])),
    ('traversedReversed', 'Bool', 'true'),
]


def generate(repo, g):
    import os
    from translator.extract import GEN_DIR, write_if_changed
    defined = set()
    orig_define = g.define

    def define(name, typ, value, source):
        defined.add(name)
        orig_define(name, typ, value, source)
    g.define = define
    try:
        _generate(repo, g)
    except TieBroken:
        for name, typ, value in EXPECTED:
            if name not in defined:
                orig_define(name, typ, value, 'FALLBACK (source shape not recognised): value of the unchanged code')
        write_if_changed(os.path.join(GEN_DIR, g.pid + '.lean'), g.text())
        raise
    finally:
        g.define = orig_define


def _default_project(src, g):
    """get_default_project: the loop over the directory and its parents, statement by statement"""
    fn = src.find('get_default_project')
    loops = [n for n in fn.body if isinstance(n, ast.For)]
    if len(loops) != 1 or u(loops[0].iter) != 'chain([check], check.parents)' or u(loops[0].target) != 'dir':
        raise TieBroken('project.py: get_default_project does not loop over chain([check], check.parents)')
    if 'check = path.absolute()' not in [u(x) for x in fn.body]:
        raise TieBroken('project.py: get_default_project no longer makes the start path absolute')
    steps = []
    body = loops[0].body
    if len(body) != 4 or not isinstance(body[0], ast.Try):
        raise TieBroken('project.py: get_default_project loop body has %d statements, 4 modelled' % len(body),
                        repr([u(x)[:60] for x in body]))
    t = body[0]
    if [u(x) for x in t.body] != ['return Project.load(dir)'] or t.orelse or t.finalbody:
        raise TieBroken('project.py: get_default_project try body', u(t))
    steps.append('try-load')
    for h in t.handlers:
        names = except_names_(h)
        act = [u(x) for x in h.body]
        if act not in (['pass'], ['continue']):
            raise TieBroken('project.py: get_default_project except handler body', repr(act))
        steps.append('except(%s):%s' % (','.join(names), act[0]))
    i = body[1]
    if not (isinstance(i, ast.If) and u(i.test) == 'first_no_init_file is None' and not i.orelse and len(i.body) == 1
            and isinstance(i.body[0], ast.If)):
        raise TieBroken('project.py: get_default_project first_no_init_file block', u(i))
    steps.append('if first_no_init_file is None')
    j = i.body[0]
    if u(j.test) == "dir.joinpath('__init__.py').exists()" and [u(x) for x in j.body] == ['continue'] \
            and len(j.orelse) == 1 and isinstance(j.orelse[0], ast.If) and u(j.orelse[0].test) == 'not dir.is_file()' \
            and [u(x) for x in j.orelse[0].body] == ['first_no_init_file = dir'] and not j.orelse[0].orelse:
        steps += ['if __init__.py exists:continue', 'elif not is_file:first_no_init_file=dir']
    else:
        raise TieBroken('project.py: get_default_project __init__.py test', u(j))
    k = body[2]
    if isinstance(k, ast.If) and u(k.test) == '_is_django_path(dir)' and not k.orelse \
            and [u(x) for x in k.body] == ['project = Project(dir)', 'project._django = True', 'return project']:
        steps.append('if django:return')
    else:
        raise TieBroken('project.py: get_default_project django block', u(k))
    m = body[3]
    if isinstance(m, ast.If) and u(m.test) == 'probable_path is None and _is_potential_project(dir)' and not m.orelse \
            and [u(x) for x in m.body] == ['probable_path = dir']:
        steps.append('if probable_path is None and potential:probable_path=dir')
    else:
        raise TieBroken('project.py: get_default_project probable_path block', u(m))
    after = [u(x) for x in fn.body[fn.body.index(loops[0]) + 1:]]
    want_after = ['if probable_path is not None:\n    return Project(probable_path)',
                  'if first_no_init_file is not None:\n    return Project(first_no_init_file)',
                  'curdir = path if path.is_dir() else path.parent', 'return Project(curdir)']
    if after != want_after:
        raise TieBroken('project.py: get_default_project statements behind the loop', repr(after))
    steps += ['after:probable', 'after:first_no_init_file', 'after:curdir']
    g.define('defaultProjectSteps', 'List String', lean_list(steps),
             'jedi/api/project.py:get_default_project, statement by statement')
    files = src.const('_CONTAINS_POTENTIAL_PROJECT')
    g.define('potentialProjectFiles', 'List String', lean_list(list(files)),
             'jedi/api/project.py:_CONTAINS_POTENTIAL_PROJECT')
    g.fp(src, 'get_default_project')
    g.fp(src, '_is_potential_project')
    g.fp(src, '_is_django_path')


def except_names_(handler):
    t = handler.type
    if t is None:
        return ['BaseException']
    elts = t.elts if isinstance(t, ast.Tuple) else [t]
    return [u(e) for e in elts]


def _generate(repo, g):
    src = Src(repo, 'jedi/api/project.py')
    init = src.find('Project.__init__')
    save = src.find('Project.save')
    load = src.find('Project.load')
    gsp = src.find('Project._get_sys_path')
    base = src.find('Project._get_base_sys_path')

    # ---- __init__: parameters, defaults, attributes assigned (in order)
    a = init.args
    if a.vararg or a.kwarg or a.posonlyargs or [x.arg for x in a.args] != ['self', 'path']:
        raise TieBroken('project.py: Project.__init__ positional signature changed', u(a))
    params = ['path'] + [x.arg for x in a.kwonlyargs]
    g.define('initParams', 'List String', lean_list(params), 'jedi/api/project.py:Project.__init__ parameters')
    defaults = {x.arg: (u(d) if d is not None else None) for x, d in zip(a.kwonlyargs, a.kw_defaults)}
    expected = {'environment_path': 'None', 'load_unsafe_extensions': 'False', 'sys_path': 'None',
                'added_sys_path': '()', 'smart_sys_path': 'True'}
    if defaults != expected:
        raise TieBroken('project.py: Project.__init__ keyword defaults changed', repr(defaults))
    attrs = []
    for n in ast.walk(init):
        if isinstance(n, (ast.Assign, ast.AnnAssign)):
            targets = n.targets if isinstance(n, ast.Assign) else [n.target]
            for t in targets:
                if isinstance(t, ast.Attribute) and u(t.value) == 'self' and t.attr not in attrs:
                    attrs.append(t.attr)
    g.define('initAttrs', 'List String', lean_list(attrs),
             'jedi/api/project.py:Project.__init__ self.<attr> assignments in order')
    # how each attribute is filled
    assigns = {}
    for n in ast.walk(init):
        if isinstance(n, ast.Assign) and isinstance(n.targets[0], ast.Attribute) \
                and u(n.targets[0].value) == 'self':
            assigns[n.targets[0].attr] = u(n.value)
    want = {'_path': 'path', '_environment_path': 'environment_path', '_sys_path': 'sys_path',
            '_smart_sys_path': 'smart_sys_path', '_load_unsafe_extensions': 'load_unsafe_extensions',
            '_django': 'False', 'added_sys_path': 'list(map(str, added_sys_path))'}
    text = u(init)
    # shape A (unchanged code): only a str path is made absolute; shape B (repair): every path is
    if assigns.get('_path') == 'path' and has(text, 'if isinstance(path, str):\n path = Path(path).absolute()'):
        abs_always = False
    elif assigns.get('_path') == 'path.absolute()' and has(text, 'if isinstance(path, str):\n path = Path(path)\n'):
        abs_always = True
        want['_path'] = 'path.absolute()'
    else:
        raise TieBroken('project.py: Project.__init__ no longer makes a str path absolute', assigns.get('_path', ''))
    g.define('pathAlwaysAbsolute', 'Bool', lean_bool(abs_always),
             'jedi/api/project.py:Project.__init__ `.absolute()` applied to Path arguments too')
    if assigns != want:
        raise TieBroken('project.py: Project.__init__ attribute assignments changed', repr(assigns))
    if not has(text, 'if sys_path is not None:\n sys_path = list(map(str, sys_path))'):
        raise TieBroken('project.py: Project.__init__ no longer maps str over sys_path')
    # F5 repair: does __init__ (or save) turn a Path environment_path into a str?
    env_str_init = has(text, 'if environment_path is not None:\n environment_path = str(environment_path)')
    rebinds = [n for n in ast.walk(init) if isinstance(n, ast.Assign)
               and u(n.targets[0]) == 'environment_path']
    if len(rebinds) != (1 if env_str_init else 0):
        raise TieBroken('project.py: Project.__init__ rebinds environment_path in an unknown way',
                        repr([u(r) for r in rebinds]))
    g.define('envPathStr', 'Bool', lean_bool(env_str_init),
             'jedi/api/project.py:Project.__init__ `environment_path = str(environment_path)` present')

    # ---- save
    popped = []
    for n in ast.walk(save):
        if isinstance(n, ast.Call) and u(n.func) == 'data.pop':
            if len(n.args) != 2 or not isinstance(n.args[0], ast.Constant) or u(n.args[1]) != 'None':
                raise TieBroken('project.py: Project.save data.pop shape', u(n))
            popped.append(n.args[0].value)
    g.define('savePopped', 'List String', lean_list(popped), 'jedi/api/project.py:Project.save data.pop(..)')
    stext = u(save)
    for needle in ("data = dict(self.__dict__)", "data = {k.lstrip('_'): v for k, v in data.items()}",
                   "data['path'] = str(data['path'])", 'json.dump((_SERIALIZER_VERSION, data), f)'):
        if not has(stext, needle):
            raise TieBroken('project.py: Project.save no longer contains `%s`' % needle)
    # how the settings file is opened: `with open(self._get_json_path(self._path), <mode>) as f:` - the mode
    # decides what a save into a directory that already holds a project.json leaves behind (Model/ProjFile)
    opens = [n for n in ast.walk(save) if isinstance(n, ast.Call) and u(n.func) in ('open', 'io.open')]
    lowlevel = [u(n) for n in ast.walk(save) if isinstance(n, ast.Call)
                and u(n.func) in ('os.open', 'os.fdopen', 'Path.open', 'os.write')]
    if len(opens) != 1 or lowlevel or len(opens[0].args) != 2 or opens[0].keywords \
            or u(opens[0].args[0]) != 'self._get_json_path(self._path)' \
            or not isinstance(opens[0].args[1], ast.Constant) or not isinstance(opens[0].args[1].value, str):
        raise TieBroken('project.py: Project.save does not open the settings file with open(<json path>, <mode>)',
                        repr([u(o) for o in opens] + lowlevel))
    g.define('saveOpenMode', 'String', lean_str(opens[0].args[1].value),
             'jedi/api/project.py:Project.save open(self._get_json_path(self._path), MODE)')
    stmts = [u(s) for s in save.body if not (isinstance(s, ast.Expr) and isinstance(s.value, ast.Constant))]
    if len(stmts) != 7:
        raise TieBroken('project.py: Project.save has %d statements, model knows 7' % len(stmts), repr(stmts))
    version = src.const('_SERIALIZER_VERSION')
    g.define('serializerVersion', 'Int', str(int(version)), 'jedi/api/project.py:_SERIALIZER_VERSION')
    _default_project(src, g)
    # ---- load
    ltext = u(load)
    for needle in ('version, data = json.load(f)', 'if version == 1:\n    return cls(**data)', 'raise WrongVersion('):
        if not has(ltext, needle):
            raise TieBroken('project.py: Project.load no longer contains `%s`' % needle)

    # ---- _get_sys_path
    ga = gsp.args
    names = [x.arg for x in ga.args]
    defs = [u(d) for d in ga.defaults]
    if names != ['self', 'inference_state', 'add_parent_paths', 'add_init_paths'] or len(defs) != 2:
        raise TieBroken('project.py: _get_sys_path signature changed', u(ga))
    g.define('defaultAddParentPaths', 'Bool', lean_bool(ast.literal_eval(defs[0])),
             'jedi/api/project.py:Project._get_sys_path default')
    g.define('defaultAddInitPaths', 'Bool', lean_bool(ast.literal_eval(defs[1])),
             'jedi/api/project.py:Project._get_sys_path default')
    comp = [n for n in ast.walk(gsp) if isinstance(n, ast.Assign) and u(n.targets[0]) == 'path']
    if len(comp) != 1:
        raise TieBroken('project.py: _get_sys_path: no unique `path = ...`')

    def flat(e):
        if isinstance(e, ast.BinOp) and isinstance(e.op, ast.Add):
            return flat(e.left) + flat(e.right)
        if isinstance(e, ast.Name):
            return [e.id]
        raise TieBroken('project.py: _get_sys_path: composition operand', u(e))
    order = flat(comp[0].value)
    if sorted(order) != ['prefixed', 'suffixed', 'sys_path']:
        raise TieBroken('project.py: _get_sys_path: composition operands', repr(order))
    g.define('composeOrder', 'List String', lean_list(order),
             'jedi/api/project.py:Project._get_sys_path `path = prefixed + sys_path + suffixed`')
    ret = [n for n in ast.walk(gsp) if isinstance(n, ast.Return)]
    if len(ret) != 1 or u(ret[0].value) != 'list(_remove_duplicates_from_path(path))':
        raise TieBroken('project.py: _get_sys_path no longer returns the de-duplicated path',
                        repr([u(r) for r in ret]))
    gtext = u(gsp)
    trav = [n for n in ast.walk(gsp) if isinstance(n, ast.AugAssign) and u(n.target) == 'suffixed'
            and 'traversed' in u(n.value)]
    if len(trav) != 1 or u(trav[0].value) not in ('reversed(traversed)', 'traversed'):
        raise TieBroken('project.py: _get_sys_path: how traversed is appended', repr([u(t) for t in trav]))
    g.define('traversedReversed', 'Bool', lean_bool(u(trav[0].value) == 'reversed(traversed)'),
             'jedi/api/project.py:Project._get_sys_path `suffixed += reversed(traversed)`')
    for needle in ('suffixed = list(self.added_sys_path)', 'prefixed = []',
                   'if self._smart_sys_path:\n    prefixed.append(str(self._path))',
                   'if self._django:\n    prefixed.append(str(self._path))',
                   'for parent_path in inference_state.script_path.parents:',
                   'if parent_path == self._path or self._path not in parent_path.parents:\n'
                   '                    break',
                   "if not add_init_paths and parent_path.joinpath('__init__.py').is_file():\n"
                   '                    continue',
                   'traversed.append(str(parent_path))',
                   'if self._sys_path is None:\n    sys_path = list(self._get_base_sys_path(inference_state))\n'
                   'else:\n    sys_path = list(self._sys_path)'):
        if not has(gtext, needle):
            raise TieBroken('project.py: _get_sys_path no longer contains `%s`' % needle)
    btext = u(base)
    if "sys_path.remove('')" not in btext or 'inference_state.environment.get_sys_path()' not in btext:
        raise TieBroken('project.py: _get_base_sys_path shape')
    for d in ['_remove_duplicates_from_path', 'Project.__init__', 'Project.save', 'Project.load',
              'Project._get_sys_path', 'Project._get_base_sys_path']:
        g.fp(src, d)
    # the import machinery uses this list: Importer._sys_path_with_modifications
    imp = Src(repo, 'jedi/inference/imports.py')
    swm = u(imp.find('Importer._sys_path_with_modifications'))
    for needle in ('if self._fixed_sys_path is not None:\n        return self._fixed_sys_path',
                   'self._inference_state.get_sys_path(add_init_paths=not is_completion) + '
                   '[str(p) for p in sys_path.check_sys_path_modifications(self._module_context)]'):
        if not has(swm, needle):
            raise TieBroken('imports.py: _sys_path_with_modifications no longer contains `%s`' % needle)
    g.fp(imp, 'Importer._sys_path_with_modifications')

"""C02 (class-level attribute lookup, Model/ClassLookup.lean): which class the names of a
`ClassFilter` are bound for.  Facts of jedi/inference/value/klass.py:ClassMixin.get_filters,
ClassFilter.__init__/_convert_names, ClassName.infer and
jedi/plugins/stdlib.py:ClassMethodObject.py__get__; fingerprints.  Called from
translator/gen_c02.py.  (Not named gen_c*.py: extract.all_pids() treats every such file as a
property.)"""
import ast
from translator.extract import Src, TieBroken, u, lean_bool


def generate(repo, g):
    kl = Src(repo, 'jedi/inference/value/klass.py')
    sl = Src(repo, 'jedi/plugins/stdlib.py')
    g.fp(kl, 'ClassMixin.get_filters')
    g.fp(kl, 'ClassFilter.__init__')
    g.fp(kl, 'ClassFilter._convert_names')
    g.fp(kl, 'ClassName.infer')
    g.fp(sl, 'ClassMethodObject.py__get__')
    g.fp(sl, 'ClassMethodGet.py__call__')

    # ---- get_filters: for cls in self.py__mro__(): .. else: yield ClassFilter(<first>, node_context=cls.as_context(), ..)
    W = 'klass.py:ClassMixin.get_filters'
    fn = kl.find('ClassMixin.get_filters')
    loops = [n for n in ast.walk(fn) if isinstance(n, ast.For) and u(n.target) == 'cls'
             and u(n.iter) == 'self.py__mro__()']
    if len(loops) != 1:
        raise TieBroken(W + ': `for cls in self.py__mro__():` not found')
    calls = [c for c in ast.walk(loops[0]) if isinstance(c, ast.Call) and u(c.func) == 'ClassFilter']
    if len(calls) != 1 or len(calls[0].args) != 1:
        raise TieBroken(W + ': exactly one `ClassFilter(<class>, ..)` per class of the MRO expected',
                        u(loops[0])[:400])
    call = calls[0]
    kws = {k.arg: u(k.value) for k in call.keywords}
    if kws.get('node_context') != 'cls.as_context()':
        raise TieBroken(W + ': the filter no longer searches the body of the MRO class '
                            '(`node_context=cls.as_context()`)', u(call))
    first = u(call.args[0])
    if first not in ('self', 'cls'):
        raise TieBroken(W + ': the class value of the filter is neither `self` nor `cls`', u(call))
    g.define('classFilterCarriesLookupClass', 'Bool', lean_bool(first == 'self'),
             'jedi/inference/value/klass.py:ClassMixin.get_filters (`ClassFilter(self, node_context=cls.as_context(), ..)`: '
             'first argument `self`, the class the attribute is looked up on)')

    # ---- the class value travels unchanged: ClassFilter -> ClassName -> py__get__ -> ClassMethodGet
    init = kl.find('ClassFilter.__init__')
    conv = kl.find('ClassFilter._convert_names')
    infer = kl.find('ClassName.infer')
    cinit = kl.find('ClassName.__init__')
    get = sl.find('ClassMethodObject.py__get__')
    ok = any(u(s) == 'self._class_value = class_value' for s in init.body) and \
        any(isinstance(c, ast.Call) and u(c.func) == 'ClassName' and
            any(k.arg == 'class_value' and u(k.value) == 'self._class_value' for k in c.keywords)
            for c in ast.walk(conv)) and \
        any(u(s) == 'self._class_value = class_value' for s in cinit.body) and \
        any(isinstance(c, ast.Call) and u(c.func) == 'result_value.py__get__' and
            {k.arg: u(k.value) for k in c.keywords} == {'instance': 'None', 'class_value': 'self._class_value'}
            for c in ast.walk(infer)) and \
        any(isinstance(c, ast.Call) and u(c.func) == 'ClassMethodGet' and len(c.args) == 3 and
            u(c.args[1]) == 'class_value' for c in ast.walk(get))
    g.define('classValueReachesClassmethod', 'Bool', lean_bool(ok),
             'jedi/inference/value/klass.py:ClassFilter.__init__/_convert_names, ClassName.__init__/infer '
             '(`py__get__(instance=None, class_value=self._class_value)`), '
             'jedi/plugins/stdlib.py:ClassMethodObject.py__get__ (`ClassMethodGet(__get__, class_value, self._function)`)')

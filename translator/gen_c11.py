"""C11: literals and small decision expressions of the signature / index machinery, fingerprints."""
import ast
from translator.extract import Src, TieBroken, u, lean_list, lean_str


def _one(nodes, what):
    nodes = list(nodes)
    if len(nodes) != 1:
        raise TieBroken('%s: expected exactly one, found %d' % (what, len(nodes)))
    return nodes[0]


def _startswith_literals(fn, what):
    out = []
    for n in ast.walk(fn):
        if isinstance(n, ast.Call) and isinstance(n.func, ast.Attribute) and n.func.attr == 'startswith' \
                and len(n.args) == 1 and isinstance(n.args[0], ast.Constant):
            out.append(n.args[0].value)
    if not out:
        raise TieBroken(what + ': no startswith(<literal>)')
    return out


def _stmt_shape(fn):
    """parameters and statements of a small function, one string per statement (docstring dropped)"""
    args = [a.arg for a in fn.args.args]
    body = [n for n in fn.body if not (isinstance(n, ast.Expr) and isinstance(n.value, ast.Constant))]
    return ['(' + ', '.join(args) + ')'] + [
        ('if ' + u(n.test) + ': ' + '; '.join(u(x) for x in n.body) +
         (' else: ' + '; '.join(u(x) for x in n.orelse) if n.orelse else ''))
        if isinstance(n, ast.If) else u(n) for n in body]


def _lean_chars(s):
    def ch(c):
        if c == "'":
            return "'\\''"
        if c == '\\':
            return "'\\\\'"
        if not (32 <= ord(c) < 127):
            raise TieBroken('non-printable character in a docstring-literal constant', repr(s))
        return "'%s'" % c
    return '[' + ', '.join(ch(c) for c in s) + ']'


def _docstring_literal_rule(putils, g):
    """safe_literal_eval: the slice length of `value[:n].lower()`, the letter compared with
    `first_two[0]`, the two-letter prefixes of the `in (...)` test; _clean_docstring_literal and its
    two callers as statement lists (a source of another shape is written out as it is: the
    Gen-tied theorem then fails to build)"""
    where = 'jedi/parser_utils.py:safe_literal_eval'
    fn = putils.find('safe_literal_eval')
    slices = [n for n in ast.walk(fn) if isinstance(n, ast.Subscript) and isinstance(n.slice, ast.Slice)]
    sl = _one(slices, where + ' slice')
    if sl.slice.lower is not None or sl.slice.step is not None or not isinstance(sl.slice.upper, ast.Constant) \
            or not isinstance(sl.slice.upper.value, int) or u(sl.value) != 'value':
        raise TieBroken(where + ': slice shape', u(sl))
    g.define('docLitSlice', 'Nat', str(sl.slice.upper.value), where + ' value[:n]')
    test = _one([n for n in ast.walk(fn) if isinstance(n, ast.If)], where + ' if').test
    if not (isinstance(test, ast.BoolOp) and isinstance(test.op, ast.Or) and len(test.values) == 2):
        raise TieBroken(where + ': guard is not `A or B`', u(test))
    a, b = test.values
    ok_a = isinstance(a, ast.Compare) and len(a.ops) == 1 and isinstance(a.ops[0], ast.Eq) \
        and u(a.left) == 'first_two[0]' and isinstance(a.comparators[0], ast.Constant) \
        and isinstance(a.comparators[0].value, str) and len(a.comparators[0].value) == 1
    ok_b = isinstance(b, ast.Compare) and len(b.ops) == 1 and isinstance(b.ops[0], ast.In) \
        and u(b.left) == 'first_two' and isinstance(b.comparators[0], ast.Tuple) \
        and all(isinstance(e, ast.Constant) and isinstance(e.value, str) for e in b.comparators[0].elts)
    if not (ok_a and ok_b):
        raise TieBroken(where + ': guard shape', u(test))
    g.define('docLitFFirst', 'Char', _lean_chars(a.comparators[0].value)[1:-1], where + " first_two[0] == 'f'")
    g.define('docLitFPairs', 'List (List Char)',
             '[' + ', '.join(_lean_chars(e.value) for e in b.comparators[0].elts) + ']', where + " first_two in ('fr', 'rf')")
    g.define('safeLiteralEval', 'List String', lean_list(_stmt_shape(fn)), where + ' (parameters, statements in order)')
    fn = putils.find('_clean_docstring_literal')
    g.define('cleanDocstringLiteral', 'List String', lean_list(_stmt_shape(fn)),
             'jedi/parser_utils.py:_clean_docstring_literal (parameters, statements in order)')
    callers = []
    for name in ('clean_scope_docstring', 'find_statement_documentation'):
        f = putils.find(name)
        callers += ['%s: %s' % (name, u(n)) for n in ast.walk(f) if isinstance(n, ast.Return) and n.value is not None
                    and not (isinstance(n.value, ast.Constant))]
    g.define('docLiteralCallers', 'List String', lean_list(callers),
             'jedi/parser_utils.py:clean_scope_docstring / find_statement_documentation (non-constant returns)')
    for d in ('_clean_docstring_literal', 'find_statement_documentation'):
        g.fp(putils, d)


def _flat_statements(fn):
    """statements of a small function in order, compound ones as `head: body; ... else: ...`"""
    def one(n):
        if isinstance(n, ast.If):
            return 'if ' + u(n.test) + ': ' + '; '.join(one(x) for x in n.body) + \
                (' else: ' + '; '.join(one(x) for x in n.orelse) if n.orelse else '')
        if isinstance(n, ast.Try):
            return 'try: ' + '; '.join(one(x) for x in n.body) + ''.join(
                ' except %s: %s' % (u(h.type) if h.type is not None else '', '; '.join(one(x) for x in h.body))
                for h in n.handlers)
        return u(n)
    return [one(n) for n in fn.body if not (isinstance(n, ast.Expr) and isinstance(n.value, ast.Constant))]


def _signature_cache(repo, helpers, g):
    """helpers.cache_signatures (key of the time cache) and cache.signature_time_cache (its protocol):
    what the second component of the key tuple is (match object / matched text), the validity, and both
    functions as statement lists"""
    cache = Src(repo, 'jedi/cache.py')
    settings = Src(repo, 'jedi/settings.py')
    where = 'jedi/api/helpers.py:cache_signatures'
    cs = helpers.find('cache_signatures')
    deco = [u(d) for d in cs.decorator_list]
    if deco != ["signature_time_cache('call_signatures_validity')"]:
        raise TieBroken(where + ': decorators', repr(deco))
    tuples = [n.value for n in ast.walk(cs) if isinstance(n, ast.Yield) and isinstance(n.value, ast.Tuple)]
    key = _one(tuples, where + ' key tuple')
    if len(key.elts) != 3:
        raise TieBroken(where + ': key tuple', u(key))
    assigns = {u(n.targets[0]): n.value for n in ast.walk(cs) if isinstance(n, ast.Assign)}

    def is_match(name):
        v = assigns.get(name)
        return isinstance(v, ast.Call) and u(v.func) == 're.match'
    mid = key.elts[1]
    if isinstance(mid, ast.Name) and is_match(mid.id):
        kind = 'match-object'
    elif isinstance(mid, ast.Call) and isinstance(mid.func, ast.Attribute) and mid.func.attr == 'group' \
            and isinstance(mid.func.value, ast.Name) and is_match(mid.func.value.id) \
            and [u(a) for a in mid.args] in ([], ['0']):
        kind = 'matched-text'
    else:
        raise TieBroken(where + ': cannot classify the second component of the key', u(key))
    g.define('sigKeyMid', 'String', lean_str(kind), where + ' (second component of the key tuple: %s)' % u(mid))
    # everything but the key-tuple line (the regex, the text it runs on, the guard, the order)
    stmts = [x.replace(u(key), '<KEY>') for x in _flat_statements(cs)]
    g.define('cacheSignatures', 'List String', lean_list(stmts), where + ' (statements in order, key tuple as <KEY>)')
    g.define('sigKeyOuter', 'List String', lean_list([u(key.elts[0]), u(key.elts[2])]),
             where + ' (first and third component of the key tuple)')
    stc = cache.find('signature_time_cache')
    wrapper = _one([n for n in ast.walk(stc) if isinstance(n, ast.FunctionDef) and n.name == 'wrapper'],
                   'jedi/cache.py:signature_time_cache wrapper')
    g.define('signatureTimeCacheWrapper', 'List String', lean_list(_flat_statements(wrapper)),
             'jedi/cache.py:signature_time_cache.wrapper (statements in order)')
    validity = settings.const('call_signatures_validity')
    if not isinstance(validity, (int, float)) or validity < 0 or validity * 1000 != int(validity * 1000):
        raise TieBroken('jedi/settings.py: call_signatures_validity', repr(validity))
    g.define('sigValidityMs', 'Nat', str(int(validity * 1000)), 'jedi/settings.py:call_signatures_validity (milliseconds)')
    g.fp(helpers, 'cache_signatures')
    g.fp(cache, 'signature_time_cache')


def generate(repo, g):
    names = Src(repo, 'jedi/inference/names.py')
    sig = Src(repo, 'jedi/inference/signature.py')
    helpers = Src(repo, 'jedi/api/helpers.py')
    classes = Src(repo, 'jedi/api/classes.py')
    star_args = Src(repo, 'jedi/inference/star_args.py')
    putils = Src(repo, 'jedi/parser_utils.py')

    # '__' convention: get_kind and get_public_name
    gk = names.find('_ActualTreeParamName.get_kind')
    lits = _startswith_literals(gk, 'names.py:get_kind')
    if len(lits) != 1:
        raise TieBroken('names.py:get_kind: startswith literals', repr(lits))
    g.define('dunderPrefix', 'String', lean_str(lits[0]), 'jedi/inference/names.py:_ActualTreeParamName.get_kind')
    gp = names.find('BaseTreeParamName.get_public_name')
    lits2 = _startswith_literals(gp, 'names.py:get_public_name')
    sl = [n for n in ast.walk(gp) if isinstance(n, ast.Subscript) and isinstance(n.slice, ast.Slice)]
    s = _one(sl, 'names.py:get_public_name slice')
    if s.slice.upper is not None or s.slice.step is not None or not isinstance(s.slice.lower, ast.Constant):
        raise TieBroken('names.py:get_public_name slice shape', u(s))
    g.define('publicPrefix', 'String', lean_str(lits2[0]), 'jedi/inference/names.py:BaseTreeParamName.get_public_name')
    g.define('publicDrop', 'Nat', str(int(s.slice.lower.value)), 'jedi/inference/names.py:BaseTreeParamName.get_public_name name[2:]')
    # get_kind: the star_count tests
    tests = [u(n.test) for n in ast.walk(gk) if isinstance(n, ast.If)]
    g.define('getKindTests', 'List String', lean_list(tests), 'jedi/inference/names.py:_ActualTreeParamName.get_kind (if tests in order)')
    # param to_string pieces
    ts = names.find('BaseTreeParamName.to_string')
    strs = [n.value for n in ast.walk(ts) if isinstance(n, ast.Constant) and isinstance(n.value, str)]
    g.define('paramToStringLiterals', 'List String', lean_list(strs), 'jedi/inference/names.py:BaseTreeParamName.to_string')
    # signature to_string
    fn = sig.find('_SignatureMixin.to_string')
    strs = [n.value for n in ast.walk(fn) if isinstance(n, ast.Constant) and isinstance(n.value, str)]
    g.define('sigToStringLiterals', 'List String', lean_list(strs), 'jedi/inference/signature.py:_SignatureMixin.to_string')
    # bound: `if self.is_bound: return _remove_bound_param(params)` and the helper itself
    # (a source of another shape is written out as it is: the Gen-tied theorem then fails to build)
    def bound_returns(dotted):
        fn = sig.find(dotted)
        out = []
        for n in ast.walk(fn):
            if isinstance(n, ast.If) and u(n.test) == 'self.is_bound':
                out += [u(r.value) for b in n.body for r in ast.walk(b)
                        if isinstance(r, ast.Return) and r.value is not None]
        return out
    g.define('boundRule', 'List String', lean_list(bound_returns('TreeSignature.get_param_names')),
             'jedi/inference/signature.py:TreeSignature.get_param_names (returns under `if self.is_bound`)')
    g.define('abstractBoundRule', 'List String', lean_list(bound_returns('AbstractSignature.get_param_names')),
             'jedi/inference/signature.py:AbstractSignature.get_param_names (returns under `if self.is_bound`)')
    try:
        rbp = sig.find('_remove_bound_param')
    except TieBroken:
        rbp = None
    shape = []
    if rbp is not None:
        args = [a.arg for a in rbp.args.args]
        body = [n for n in rbp.body if not (isinstance(n, ast.Expr) and isinstance(n.value, ast.Constant))]
        shape = ['(' + ', '.join(args) + ')'] + [
            ('if ' + u(n.test) + ': ' + '; '.join(u(x) for x in n.body) +
             (' else: ' + '; '.join(u(x) for x in n.orelse) if n.orelse else ''))
            if isinstance(n, ast.If) else u(n) for n in body]
    g.define('removeBoundParam', 'List String', lean_list(shape),
             'jedi/inference/signature.py:_remove_bound_param (parameters, statements in order)')
    # forwarding: the guards of process_params / _remove_given_params, the kinds of maybe_*_argument
    fn = star_args.find('process_params')
    tests = [u(n.test) for n in ast.walk(fn) if isinstance(n, ast.If)]
    g.define('processParamsTests', 'List String', lean_list(tests),
             'jedi/inference/star_args.py:process_params (if tests, ast.walk order)')
    fn = star_args.find('_remove_given_params')
    tests = [u(n.test) for n in ast.walk(fn) if isinstance(n, ast.If)]
    g.define('removeGivenTests', 'List String', lean_list(tests),
             'jedi/inference/star_args.py:_remove_given_params (if tests in order)')
    for meth, nm in (('maybe_positional_argument', 'maybePositionalKinds'), ('maybe_keyword_argument', 'maybeKeywordKinds')):
        fn = names.find('_ParamMixin.' + meth)
        lists = [n for n in ast.walk(fn) if isinstance(n, ast.List)]
        apps = [u(n.args[0]) for n in ast.walk(fn) if isinstance(n, ast.Call) and isinstance(n.func, ast.Attribute)
                and n.func.attr == 'append' and len(n.args) == 1]
        if len(lists) != 1:
            raise TieBroken('names.py:%s: expected one list literal' % meth, u(fn))
        g.define(nm, 'List String', lean_list([u(e) for e in lists[0].elts] + apps),
                 'jedi/inference/names.py:_ParamMixin.%s (options, stars included)' % meth)
    # calculate_index: the guards
    fn = helpers.find('CallDetails.calculate_index')
    tests = [u(n.test) for n in ast.walk(fn) if isinstance(n, ast.If)]
    g.define('calculateIndexTests', 'List String', lean_list(tests), 'jedi/api/helpers.py:CallDetails.calculate_index (if tests in order)')
    # docstring assembly
    fn = classes.find('BaseName.docstring')
    rets = [u(n.value) for n in ast.walk(fn) if isinstance(n, ast.Return) and n.value is not None]
    g.define('docstringReturns', 'List String', lean_list(rets), 'jedi/api/classes.py:BaseName.docstring')
    fn = classes.find('BaseName._get_docstring_signature')
    strs = [n.value for n in ast.walk(fn) if isinstance(n, ast.Constant) and isinstance(n.value, str)]
    g.define('docSignatureJoin', 'List String', lean_list(strs), 'jedi/api/classes.py:BaseName._get_docstring_signature')
    _docstring_literal_rule(putils, g)
    _signature_cache(repo, helpers, g)
    for s_, d in [(names, '_ActualTreeParamName.get_kind'), (names, 'BaseTreeParamName.to_string'),
                  (names, 'BaseTreeParamName.get_public_name'), (names, '_ParamMixin._kind_string'),
                  (names, 'TreeNameDefinition.py__doc__'),
                  (sig, '_SignatureMixin.to_string'), (sig, 'TreeSignature.get_param_names'),
                  (sig, 'TreeSignature.bind'), (sig, 'AbstractSignature.get_param_names'),
                  (helpers, '_iter_arguments'), (helpers, 'CallDetails.calculate_index'),
                  (helpers, 'CallDetails.count_positional_arguments'),
                  (helpers, 'CallDetails.iter_used_keyword_arguments'),
                  (helpers, 'get_signature_details'), (helpers, '_get_signature_details_from_error_node'),
                  (classes, 'BaseName.docstring'), (classes, 'BaseName._get_docstring_signature'),
                  (classes, 'Signature.index'), (classes, 'Signature.bracket_start'),
                  (classes, 'BaseSignature.params'),
                  (star_args, 'process_params'), (star_args, '_remove_given_params'),
                  (star_args, '_iter_nodes_for_param'), (star_args, '_goes_to_param_name'),
                  (names, '_ParamMixin.maybe_positional_argument'), (names, '_ParamMixin.maybe_keyword_argument'),
                  (putils, 'clean_scope_docstring'), (putils, 'safe_literal_eval')]:
        g.fp(s_, d)
    if rbp is not None:
        g.fp(sig, '_remove_bound_param')

"""C11: literals and small decision expressions of the signature / index machinery, fingerprints."""
import ast
from translator.extract import Src, TieBroken, u, lean_list, lean_str


def _one(nodes, what):
    nodes = list(nodes)
    if len(nodes) != 1:
        raise TieBroken('%s: expected exactly one, found %d' % (what, len(nodes)))
    return nodes[0]


def _startswith_literals(fn, what):
    out = []
    for n in ast.walk(fn):
        if isinstance(n, ast.Call) and isinstance(n.func, ast.Attribute) and n.func.attr == 'startswith' \
                and len(n.args) == 1 and isinstance(n.args[0], ast.Constant):
            out.append(n.args[0].value)
    if not out:
        raise TieBroken(what + ': no startswith(<literal>)')
    return out


def generate(repo, g):
    names = Src(repo, 'jedi/inference/names.py')
    sig = Src(repo, 'jedi/inference/signature.py')
    helpers = Src(repo, 'jedi/api/helpers.py')
    classes = Src(repo, 'jedi/api/classes.py')
    star_args = Src(repo, 'jedi/inference/star_args.py')
    putils = Src(repo, 'jedi/parser_utils.py')

    # '__' convention: get_kind and get_public_name
    gk = names.find('_ActualTreeParamName.get_kind')
    lits = _startswith_literals(gk, 'names.py:get_kind')
    if len(lits) != 1:
        raise TieBroken('names.py:get_kind: startswith literals', repr(lits))
    g.define('dunderPrefix', 'String', lean_str(lits[0]), 'jedi/inference/names.py:_ActualTreeParamName.get_kind')
    gp = names.find('BaseTreeParamName.get_public_name')
    lits2 = _startswith_literals(gp, 'names.py:get_public_name')
    sl = [n for n in ast.walk(gp) if isinstance(n, ast.Subscript) and isinstance(n.slice, ast.Slice)]
    s = _one(sl, 'names.py:get_public_name slice')
    if s.slice.upper is not None or s.slice.step is not None or not isinstance(s.slice.lower, ast.Constant):
        raise TieBroken('names.py:get_public_name slice shape', u(s))
    g.define('publicPrefix', 'String', lean_str(lits2[0]), 'jedi/inference/names.py:BaseTreeParamName.get_public_name')
    g.define('publicDrop', 'Nat', str(int(s.slice.lower.value)), 'jedi/inference/names.py:BaseTreeParamName.get_public_name name[2:]')
    # get_kind: the star_count tests
    tests = [u(n.test) for n in ast.walk(gk) if isinstance(n, ast.If)]
    g.define('getKindTests', 'List String', lean_list(tests), 'jedi/inference/names.py:_ActualTreeParamName.get_kind (if tests in order)')
    # param to_string pieces
    ts = names.find('BaseTreeParamName.to_string')
    strs = [n.value for n in ast.walk(ts) if isinstance(n, ast.Constant) and isinstance(n.value, str)]
    g.define('paramToStringLiterals', 'List String', lean_list(strs), 'jedi/inference/names.py:BaseTreeParamName.to_string')
    # signature to_string
    fn = sig.find('_SignatureMixin.to_string')
    strs = [n.value for n in ast.walk(fn) if isinstance(n, ast.Constant) and isinstance(n.value, str)]
    g.define('sigToStringLiterals', 'List String', lean_list(strs), 'jedi/inference/signature.py:_SignatureMixin.to_string')
    # bound: `if self.is_bound: return _remove_bound_param(params)` and the helper itself
    # (a source of another shape is written out as it is: the Gen-tied theorem then fails to build)
    def bound_returns(dotted):
        fn = sig.find(dotted)
        out = []
        for n in ast.walk(fn):
            if isinstance(n, ast.If) and u(n.test) == 'self.is_bound':
                out += [u(r.value) for b in n.body for r in ast.walk(b)
                        if isinstance(r, ast.Return) and r.value is not None]
        return out
    g.define('boundRule', 'List String', lean_list(bound_returns('TreeSignature.get_param_names')),
             'jedi/inference/signature.py:TreeSignature.get_param_names (returns under `if self.is_bound`)')
    g.define('abstractBoundRule', 'List String', lean_list(bound_returns('AbstractSignature.get_param_names')),
             'jedi/inference/signature.py:AbstractSignature.get_param_names (returns under `if self.is_bound`)')
    try:
        rbp = sig.find('_remove_bound_param')
    except TieBroken:
        rbp = None
    shape = []
    if rbp is not None:
        args = [a.arg for a in rbp.args.args]
        body = [n for n in rbp.body if not (isinstance(n, ast.Expr) and isinstance(n.value, ast.Constant))]
        shape = ['(' + ', '.join(args) + ')'] + [
            ('if ' + u(n.test) + ': ' + '; '.join(u(x) for x in n.body) +
             (' else: ' + '; '.join(u(x) for x in n.orelse) if n.orelse else ''))
            if isinstance(n, ast.If) else u(n) for n in body]
    g.define('removeBoundParam', 'List String', lean_list(shape),
             'jedi/inference/signature.py:_remove_bound_param (parameters, statements in order)')
    # calculate_index: the guards
    fn = helpers.find('CallDetails.calculate_index')
    tests = [u(n.test) for n in ast.walk(fn) if isinstance(n, ast.If)]
    g.define('calculateIndexTests', 'List String', lean_list(tests), 'jedi/api/helpers.py:CallDetails.calculate_index (if tests in order)')
    # docstring assembly
    fn = classes.find('BaseName.docstring')
    rets = [u(n.value) for n in ast.walk(fn) if isinstance(n, ast.Return) and n.value is not None]
    g.define('docstringReturns', 'List String', lean_list(rets), 'jedi/api/classes.py:BaseName.docstring')
    fn = classes.find('BaseName._get_docstring_signature')
    strs = [n.value for n in ast.walk(fn) if isinstance(n, ast.Constant) and isinstance(n.value, str)]
    g.define('docSignatureJoin', 'List String', lean_list(strs), 'jedi/api/classes.py:BaseName._get_docstring_signature')
    for s_, d in [(names, '_ActualTreeParamName.get_kind'), (names, 'BaseTreeParamName.to_string'),
                  (names, 'BaseTreeParamName.get_public_name'), (names, '_ParamMixin._kind_string'),
                  (names, 'TreeNameDefinition.py__doc__'),
                  (sig, '_SignatureMixin.to_string'), (sig, 'TreeSignature.get_param_names'),
                  (sig, 'TreeSignature.bind'), (sig, 'AbstractSignature.get_param_names'),
                  (helpers, '_iter_arguments'), (helpers, 'CallDetails.calculate_index'),
                  (helpers, 'CallDetails.count_positional_arguments'),
                  (helpers, 'CallDetails.iter_used_keyword_arguments'),
                  (helpers, 'get_signature_details'), (helpers, '_get_signature_details_from_error_node'),
                  (classes, 'BaseName.docstring'), (classes, 'BaseName._get_docstring_signature'),
                  (classes, 'Signature.index'), (classes, 'Signature.bracket_start'),
                  (classes, 'BaseSignature.params'),
                  (star_args, 'process_params'),
                  (putils, 'clean_scope_docstring'), (putils, 'safe_literal_eval')]:
        g.fp(s_, d)
    if rbp is not None:
        g.fp(sig, '_remove_bound_param')

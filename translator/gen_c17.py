"""C17: which attribute the API position comes from, the line lookup of get_line_code, the sort
key of Script._names, fingerprints of the modelled functions."""
import ast
from translator.extract import Src, TieBroken, u, lean_list, lean_bool, lean_str


def generate(repo, g):
    classes = Src(repo, 'jedi/api/classes.py')
    api = Src(repo, 'jedi/api/__init__.py')
    helpers = Src(repo, 'jedi/api/helpers.py')
    # BaseName.line / .column : self._name.start_pos[0] / [1]
    for attr, idx in (('line', 0), ('column', 1)):
        fn = classes.find('BaseName.' + attr)
        rets = [n for n in ast.walk(fn) if isinstance(n, ast.Return) and n.value is not None
                and not (isinstance(n.value, ast.Constant) and n.value.value is None)]
        assigns = [n for n in ast.walk(fn) if isinstance(n, ast.Assign)]
        if len(rets) != 1 or len(assigns) != 1 or u(assigns[0]) != 'start_pos = self._name.start_pos' \
                or u(rets[0].value) != 'start_pos[%d]' % idx:
            raise TieBroken('classes.py: BaseName.%s is not start_pos[%d] of the name' % (attr, idx), u(fn))
    g.define('positionSource', 'String', lean_str('self._name.start_pos'), 'jedi/api/classes.py:BaseName.line/column')
    # get_line_code: index = start_pos[0] - 1 ; start_index = max(index - before, 0) ; lines[start_index:index + after + 1]
    fn = classes.find('BaseName.get_line_code')
    src = u(fn)
    need = ['index = self._name.start_pos[0] - 1', 'start_index = max(index - before, 0)',
            "return ''.join(lines[start_index:index + after + 1])"]
    for s in need:
        if s not in src:
            raise TieBroken('classes.py: BaseName.get_line_code no longer contains `%s`' % s, src)
    d = [ast.literal_eval(x) for x in fn.args.defaults]
    if [a.arg for a in fn.args.args] != ['self', 'before', 'after'] or d != [0, 0]:
        raise TieBroken('classes.py: BaseName.get_line_code signature', u(fn.args))
    g.define('lineCodeIndexOffset', 'Int', '1', 'jedi/api/classes.py:BaseName.get_line_code `start_pos[0] - 1`')
    g.define('lineCodeDefaults', 'List Int', '[0, 0]', 'jedi/api/classes.py:BaseName.get_line_code (before, after) defaults')
    # Script._names: sorted(defs, key=lambda x: x.start_pos)
    fn = api.find('Script._names')
    rets = [n for n in ast.walk(fn) if isinstance(n, ast.Return)]
    if len(rets) != 1 or u(rets[0].value) != 'sorted(defs, key=lambda x: x.start_pos)':
        raise TieBroken('api/__init__.py: Script._names does not sort by start_pos', u(fn))
    g.define('namesSortKey', 'String', lean_str('start_pos'), 'jedi/api/__init__.py:Script._names sorted(key=...)')
    # get_module_names: def_ref_filter
    fn = helpers.find('get_module_names.def_ref_filter')
    rets = [n for n in ast.walk(fn) if isinstance(n, ast.Return)]
    if len(rets) != 1 or u(rets[0].value) != 'definitions and is_def or (references and (not is_def))':
        raise TieBroken('helpers.py: get_module_names.def_ref_filter changed', u(fn))
    g.define('defRefFilter', 'String', lean_str(u(rets[0].value)), 'jedi/api/helpers.py:get_module_names.def_ref_filter')
    for s, d in [(classes, 'BaseName.line'), (classes, 'BaseName.column'), (classes, 'BaseName.get_line_code'),
                 (classes, 'BaseName.get_definition_start_position'), (classes, 'BaseName.get_definition_end_position'),
                 (classes, 'Name.is_definition'), (api, 'Script._names'), (api, 'Script.get_names'),
                 (helpers, 'get_module_names')]:
        g.fp(s, d)

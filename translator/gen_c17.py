"""C17: which attribute the API position comes from, the line lookup of get_line_code, the sort
key of Script._names, fingerprints of the modelled functions; where Script._names takes its names
from (callee, is it memoised, does it hand out a one-shot iterator) and the tables of everything
jedi/api/ remembers between two calls (memo decorators, `self.x = ...`) with the same question.  Which tree a Script works on: the `cache=` / `diff_cache=` keywords of the parse
call in Script.__init__ (scriptParseCache: "never" | "from-disk" | "always"), that `_code` is the text
that was parsed, that InferenceState.parse_and_get_code hands the keywords on to parso, and the two
time-stamp comparisons of parso's cache.py (the dependency as installed)."""
import ast
from translator.extract import Src, TieBroken, u, lean_list, lean_bool, lean_str

# values of the unchanged source for the constants of `_script_parse`: when the source lost its expected
# shape the Lean side still builds against the model of the unchanged code (the tie is reported)
EXPECTED = [
    ('scriptParseCache', 'String', '"never"'),
    ('scriptDiffCache', 'Bool', 'true'),
    ('parsoMemValid', 'String', '"p_time <= module_cache_item.change_time"'),
    ('parsoPickleOutdated', 'String', '"p_time > os.path.getmtime(cache_path)"'),
    ('defRangeScopeTypes', 'List String', lean_list(['function', 'class'])),
    ('defRangeNewlineType', 'String', lean_str('newline')),
    ('defRangeUsesPreviousLeafEnd', 'Bool', 'true'),
    ('defRangeStartShape', 'List String', lean_list(['tree_name is None -> None', 'definition is None -> name.start_pos', 'definition.start_pos'])),
]


def generate(repo, g):
    import os
    from translator.extract import GEN_DIR, write_if_changed
    defined = set()
    orig_define = g.define

    def define(name, typ, value, source):
        defined.add(name)
        orig_define(name, typ, value, source)
    g.define = define
    try:
        _generate(repo, g)
        _script_parse(repo, g)
        _def_range(repo, g)
    except TieBroken:
        for name, typ, value in EXPECTED:
            if name not in defined:
                orig_define(name, typ, value, 'FALLBACK (source shape not recognised): value of the unchanged code')
        write_if_changed(os.path.join(GEN_DIR, g.pid + '.lean'), g.text())
        raise
    finally:
        g.define = orig_define


def _def_range(repo, g):
    """BaseName.get_definition_start_position / get_definition_end_position, statement by statement
    (Model/DefRange.lean is their transcription)"""
    classes = Src(repo, 'jedi/api/classes.py')
    st = classes.find('BaseName.get_definition_start_position')
    body = [u(x) for x in st.body if not (isinstance(x, ast.Expr) and isinstance(x.value, ast.Constant))]
    want = ['if self._name.tree_name is None:\n    return None',
            'definition = self._name.tree_name.get_definition()',
            'if definition is None:\n    return self._name.start_pos',
            'return definition.start_pos']
    if body != want:
        raise TieBroken('classes.py: BaseName.get_definition_start_position is not the modelled function', repr(body))
    g.define('defRangeStartShape', 'List String',
             lean_list(['tree_name is None -> None', 'definition is None -> name.start_pos', 'definition.start_pos']),
             'jedi/api/classes.py:BaseName.get_definition_start_position, statement by statement')
    en = classes.find('BaseName.get_definition_end_position')
    body = [x for x in en.body if not (isinstance(x, ast.Expr) and isinstance(x.value, ast.Constant))]
    texts = [u(x) for x in body]
    if len(body) != 5 or texts[0] != want[0] or texts[1] != want[1] \
            or texts[2] != 'if definition is None:\n    return self._name.tree_name.end_pos' \
            or texts[4] != 'return definition.end_pos' or not isinstance(body[3], ast.If):
        raise TieBroken('classes.py: BaseName.get_definition_end_position is not the modelled function', repr(texts))
    scope_if = body[3]
    t = scope_if.test
    if not (isinstance(t, ast.Compare) and len(t.ops) == 1 and isinstance(t.ops[0], ast.In) and u(t.left) == 'self.type'
            and isinstance(t.comparators[0], (ast.Tuple, ast.List)) and not scope_if.orelse):
        raise TieBroken('classes.py: get_definition_end_position: the scope test is not `self.type in (...)`', u(t))
    types = [ast.literal_eval(e) for e in t.comparators[0].elts]
    inner = [u(x) for x in scope_if.body]
    if len(scope_if.body) != 3 or inner[0] != 'last_leaf = definition.get_last_leaf()' \
            or inner[2] != 'return last_leaf.end_pos' or not isinstance(scope_if.body[1], ast.If):
        raise TieBroken('classes.py: get_definition_end_position: body of the function/class branch', repr(inner))
    nl = scope_if.body[1]
    nt = nl.test
    if not (isinstance(nt, ast.Compare) and len(nt.ops) == 1 and isinstance(nt.ops[0], ast.Eq)
            and u(nt.left) == 'last_leaf.type' and isinstance(nt.comparators[0], ast.Constant)) or nl.orelse \
            or len(nl.body) != 1 or not isinstance(nl.body[0], ast.Return):
        raise TieBroken('classes.py: get_definition_end_position: the newline test', u(nl))
    g.define('defRangeScopeTypes', 'List String', lean_list(types),
             'jedi/api/classes.py:BaseName.get_definition_end_position `if self.type in (...)`')
    g.define('defRangeNewlineType', 'String', lean_str(nt.comparators[0].value),
             'jedi/api/classes.py:BaseName.get_definition_end_position `if last_leaf.type == ...`')
    ret = u(nl.body[0].value)
    if ret not in ('last_leaf.get_previous_leaf().end_pos', 'last_leaf.get_previous_leaf().start_pos',
                   'last_leaf.start_pos'):
        raise TieBroken('classes.py: get_definition_end_position: what is returned for a trailing newline', ret)
    g.define('defRangeUsesPreviousLeafEnd', 'Bool', lean_bool(ret == 'last_leaf.get_previous_leaf().end_pos'),
             'jedi/api/classes.py:BaseName.get_definition_end_position `return last_leaf.get_previous_leaf().end_pos`')


def _norm(text):
    return '\n'.join(line.strip() for line in text.split('\n'))


def _script_parse(repo, g):
    """Script.__init__: which text is parsed, with which cache keywords, and which text is kept"""
    api = Src(repo, 'jedi/api/__init__.py')
    inf = Src(repo, 'jedi/inference/__init__.py')
    settings = Src(repo, 'jedi/settings.py')
    fn = api.find('Script.__init__')
    calls = [n for n in ast.walk(fn) if isinstance(n, ast.Call) and u(n.func).endswith('.parse_and_get_code')]
    if len(calls) != 1:
        raise TieBroken('api/__init__.py: Script.__init__ no longer has exactly one parse_and_get_code call', u(fn))
    call = calls[0]
    kw = {k.arg: k.value for k in call.keywords}
    if call.args or None in kw or 'file_io' in kw or 'code' not in kw or 'path' not in kw \
            or u(kw['code']) != 'code' or u(kw['path']) != 'self.path':
        raise TieBroken('api/__init__.py: Script.__init__ parse call: code= / path= arguments', u(call))
    src = _norm(u(fn))
    for need in ('self._module_node, code = self._inference_state.parse_and_get_code(',
                 'self._code_lines = parso.split_lines(code, keepends=True)', 'self._code = code',
                 "with open(path, 'rb') as f:\ncode = f.read()"):
        if need not in src:
            raise TieBroken('api/__init__.py: Script.__init__ no longer contains `%s`' % need, src)

    def local_value(name):
        vals = [n.value for n in ast.walk(fn) if isinstance(n, ast.Assign) and len(n.targets) == 1
                and isinstance(n.targets[0], ast.Name) and n.targets[0].id == name]
        return vals[0] if len(vals) == 1 else None

    def policy(v, depth=0):
        if isinstance(v, ast.Constant) and v.value is False:
            return 'never'
        if isinstance(v, ast.Constant) and v.value is True:
            return 'always'
        if u(v) == 'code is None' and depth > 0:
            # a local name bound to `code is None` (before `code` is rebound to the file's bytes)
            return 'from-disk'
        if isinstance(v, ast.Name) and depth < 3:
            lv = local_value(v.id)
            if lv is not None:
                return policy(lv, depth + 1)
        return None
    if 'cache' not in kw:
        raise TieBroken('api/__init__.py: Script.__init__ parse call has no cache= keyword', u(call))
    pol = policy(kw['cache'])
    if pol is None:
        raise TieBroken('api/__init__.py: Script.__init__ parse call: cache=%s is none of False / True / a name bound '
                        'to `code is None`' % u(kw['cache']), u(call))
    g.define('scriptParseCache', 'String', lean_str(pol),
             'jedi/api/__init__.py:Script.__init__ parse_and_get_code(cache=%s)' % u(kw['cache']))
    if 'diff_cache' not in kw or u(kw['diff_cache']) != 'settings.fast_parser':
        raise TieBroken('api/__init__.py: Script.__init__ parse call: diff_cache=', u(call))
    fast = settings.const('fast_parser')
    if not isinstance(fast, bool):
        raise TieBroken('settings.py: fast_parser is not a bool', repr(fast))
    g.define('scriptDiffCache', 'Bool', lean_bool(fast),
             'jedi/settings.py:fast_parser (Script.__init__ diff_cache=settings.fast_parser)')
    pg = inf.find('InferenceState.parse_and_get_code')
    if 'return (grammar.parse(code=code, path=path, file_io=file_io, **kwargs), code)' not in u(pg):
        raise TieBroken('inference/__init__.py: parse_and_get_code no longer hands its keywords to grammar.parse', u(pg))
    # the dependency: parso's revalidation predicates (as installed; not part of /repo)
    import importlib.util
    import os
    spec = importlib.util.find_spec('parso')
    if spec is None or not spec.origin:
        raise TieBroken('parso not importable')
    with open(os.path.join(os.path.dirname(spec.origin), 'cache.py'), encoding='utf-8') as f:
        ptree = ast.parse(f.read())
    funcs = {n.name: n for n in ptree.body if isinstance(n, ast.FunctionDef)}
    lm, lf = funcs.get('load_module'), funcs.get('_load_from_file_system')
    if lm is None or lf is None:
        raise TieBroken('parso/cache.py: load_module / _load_from_file_system missing')
    mem_tests = [u(n.test) for n in ast.walk(lm) if isinstance(n, ast.If) and 'change_time' in u(n.test)]
    pk_tests = [u(n.test) for n in ast.walk(lf) if isinstance(n, ast.If) and 'getmtime' in u(n.test)]
    if len(mem_tests) != 1 or len(pk_tests) != 1:
        raise TieBroken('parso/cache.py: revalidation tests', repr((mem_tests, pk_tests)))
    g.define('parsoMemValid', 'String', lean_str(mem_tests[0]), 'parso/cache.py:load_module (installed dependency)')
    g.define('parsoPickleOutdated', 'String', lean_str(pk_tests[0]),
             'parso/cache.py:_load_from_file_system (installed dependency)')
    g.fp(api, 'Script.__init__')
    g.fp(inf, 'InferenceState.parse_and_get_code')


def _generate(repo, g):
    classes = Src(repo, 'jedi/api/classes.py')
    api = Src(repo, 'jedi/api/__init__.py')
    helpers = Src(repo, 'jedi/api/helpers.py')
    # BaseName.line / .column : self._name.start_pos[0] / [1]
    for attr, idx in (('line', 0), ('column', 1)):
        fn = classes.find('BaseName.' + attr)
        rets = [n for n in ast.walk(fn) if isinstance(n, ast.Return) and n.value is not None
                and not (isinstance(n.value, ast.Constant) and n.value.value is None)]
        assigns = [n for n in ast.walk(fn) if isinstance(n, ast.Assign)]
        if len(rets) != 1 or len(assigns) != 1 or u(assigns[0]) != 'start_pos = self._name.start_pos' \
                or u(rets[0].value) != 'start_pos[%d]' % idx:
            raise TieBroken('classes.py: BaseName.%s is not start_pos[%d] of the name' % (attr, idx), u(fn))
    g.define('positionSource', 'String', lean_str('self._name.start_pos'), 'jedi/api/classes.py:BaseName.line/column')
    # get_line_code: index = start_pos[0] - 1 ; start_index = max(index - before, 0) ; lines[start_index:index + after + 1]
    fn = classes.find('BaseName.get_line_code')
    src = u(fn)
    need = ['index = self._name.start_pos[0] - 1', 'start_index = max(index - before, 0)',
            "return ''.join(lines[start_index:index + after + 1])"]
    for s in need:
        if s not in src:
            raise TieBroken('classes.py: BaseName.get_line_code no longer contains `%s`' % s, src)
    d = [ast.literal_eval(x) for x in fn.args.defaults]
    if [a.arg for a in fn.args.args] != ['self', 'before', 'after'] or d != [0, 0]:
        raise TieBroken('classes.py: BaseName.get_line_code signature', u(fn.args))
    g.define('lineCodeIndexOffset', 'Int', '1', 'jedi/api/classes.py:BaseName.get_line_code `start_pos[0] - 1`')
    g.define('lineCodeDefaults', 'List Int', '[0, 0]', 'jedi/api/classes.py:BaseName.get_line_code (before, after) defaults')
    # Script._names: sorted(defs, key=lambda x: x.start_pos)
    fn = api.find('Script._names')
    rets = [n for n in ast.walk(fn) if isinstance(n, ast.Return)]
    if len(rets) != 1 or u(rets[0].value) != 'sorted(defs, key=lambda x: x.start_pos)':
        raise TieBroken('api/__init__.py: Script._names does not sort by start_pos', u(fn))
    g.define('namesSortKey', 'String', lean_str('start_pos'), 'jedi/api/__init__.py:Script._names sorted(key=...)')
    # get_module_names: def_ref_filter
    fn = helpers.find('get_module_names.def_ref_filter')
    rets = [n for n in ast.walk(fn) if isinstance(n, ast.Return)]
    if len(rets) != 1 or u(rets[0].value) != 'definitions and is_def or (references and (not is_def))':
        raise TieBroken('helpers.py: get_module_names.def_ref_filter changed', u(fn))
    g.define('defRefFilter', 'String', lean_str(u(rets[0].value)), 'jedi/api/helpers.py:get_module_names.def_ref_filter')
    for s, d in [(classes, 'BaseName.line'), (classes, 'BaseName.column'), (classes, 'BaseName.get_line_code'),
                 (classes, 'BaseName.get_definition_start_position'), (classes, 'BaseName.get_definition_end_position'),
                 (classes, 'Name.is_definition'), (api, 'Script._names'), (api, 'Script.get_names'),
                 (helpers, 'get_module_names')]:
        g.fp(s, d)
    _api_memo(repo, g)


# --------------------------------------------------------------------------- what the API remembers
#
# A Script / Name object is asked many things during its life.  Whatever one of their methods
# remembers between two calls (memo decorators, attributes) must be readable any number of times:
# a remembered `filter(...)` / `map(...)` / generator is empty for the second reader, and the name
# enumeration of the second call reports nothing at all.

MEMO_DECORATORS = ['memoize_method', 'time_cache', 'signature_time_cache', '_memoize_default',
                   'inference_state_function_cache', 'inference_state_method_cache',
                   'inference_state_as_method_param_cache', 'inference_state_method_generator_cache',
                   'lru_cache', 'cache', 'cached_property']
GENERATOR_AWARE = ['inference_state_method_generator_cache', 'signature_time_cache']
MATERIALISERS = ['to_list', 'to_tuple', 'iterator_to_value_set']
LAZY_BUILTINS = {'map', 'filter', 'zip', 'iter', 'reversed', 'enumerate', 'chain', 'itertools.chain',
                 'chain.from_iterable', 'itertools.chain.from_iterable', 'islice', 'itertools.islice'}
CONTAINERS = {'list', 'tuple', 'sorted', 'set', 'frozenset', 'dict', 'ValueSet'}


def _dec_names(fn):
    out = []
    for d in fn.decorator_list:
        d = d.func if isinstance(d, ast.Call) else d
        out.append(u(d).split('.')[-1])
    return out


def _own_nodes(fn):
    """nodes of a function body without those of nested functions / lambdas / classes"""
    stack = list(fn.body)
    while stack:
        n = stack.pop()
        if isinstance(n, (ast.FunctionDef, ast.AsyncFunctionDef, ast.Lambda, ast.ClassDef)):
            continue
        yield n
        stack.extend(ast.iter_child_nodes(n))


class _Index:
    """every module of jedi/ (python `ast` only): top-level functions, classes with their methods,
    and what the imported names stand for - enough to follow `helpers.f(...)`, `f(...)`, `self.m(...)`"""

    def __init__(self, repo):
        import os
        self.mods = {}
        for dp, dn, fs in sorted(os.walk(os.path.join(repo, 'jedi'))):
            dn.sort()
            if 'third_party' in dp.split(os.sep):
                continue
            for f in sorted(fs):
                if not f.endswith('.py'):
                    continue
                rel = os.path.relpath(os.path.join(dp, f), repo).replace(os.sep, '/')
                dotted = rel[:-3].replace('/', '.')
                if dotted.endswith('.__init__'):
                    dotted = dotted[:-9]
                src = Src(repo, rel)
                m = {'rel': rel, 'dotted': dotted, 'pkg': dotted if f == '__init__.py' else dotted.rsplit('.', 1)[0],
                     'funcs': {}, 'classes': {}, 'bases': {}, 'imports': {}, 'tree': src.tree}
                for n in src.tree.body:
                    if isinstance(n, (ast.FunctionDef, ast.AsyncFunctionDef)):
                        m['funcs'][n.name] = n
                    elif isinstance(n, ast.ClassDef):
                        m['classes'][n.name] = {x.name: x for x in n.body
                                                if isinstance(x, (ast.FunctionDef, ast.AsyncFunctionDef))}
                        m['bases'][n.name] = [u(b).split('.')[-1] for b in n.bases]
                for n in ast.walk(src.tree):
                    if isinstance(n, ast.Import):
                        for a in n.names:
                            if a.asname:
                                m['imports'][a.asname] = ('module', a.name)
                            else:
                                m['imports'][a.name.split('.')[0]] = ('module', a.name.split('.')[0])
                    elif isinstance(n, ast.ImportFrom):
                        base = n.module or ''
                        if n.level:
                            parts = m['pkg'].split('.')
                            parts = parts[:len(parts) - (n.level - 1)]
                            base = '.'.join(parts + ([n.module] if n.module else []))
                        for a in n.names:
                            m['imports'][a.asname or a.name] = ('object', base, a.name)
                self.mods[dotted] = m

    def module_of(self, m, local):
        """the module a local name stands for, or None"""
        imp = m['imports'].get(local)
        if imp is None:
            return None
        if imp[0] == 'module':
            return self.mods.get(imp[1])
        return self.mods.get(imp[1] + '.' + imp[2])

    def method(self, m, cls, name, depth=0):
        if cls is None or depth > 6:
            return None
        meths = m['classes'].get(cls)
        if meths is None:
            return None
        if name in meths:
            return (m, cls, meths[name])
        for b in m['bases'].get(cls, []):
            r = self.method(m, b, name, depth + 1)
            if r is not None:
                return r
        return None

    def callee(self, m, cls, func):
        """(module, class | None, function node) a call expression refers to, or None"""
        if isinstance(func, ast.Name):
            if func.id in m['funcs']:
                return (m, None, m['funcs'][func.id])
            imp = m['imports'].get(func.id)
            if imp is not None and imp[0] == 'object':
                tm = self.mods.get(imp[1])
                if tm is not None and imp[2] in tm['funcs']:
                    return (tm, None, tm['funcs'][imp[2]])
            return None
        if isinstance(func, ast.Attribute) and isinstance(func.value, ast.Name):
            if func.value.id in ('self', 'cls'):
                return self.method(m, cls, func.attr)
            tm = self.module_of(m, func.value.id)
            if tm is not None and func.attr in tm['funcs']:
                return (tm, None, tm['funcs'][func.attr])
        return None

    # --- does an expression / a call hand out an iterator that can be read once

    def lazy(self, m, cls, fn, v, seen):
        if isinstance(v, ast.GeneratorExp):
            return True
        if isinstance(v, ast.IfExp):
            return self.lazy(m, cls, fn, v.body, seen) or self.lazy(m, cls, fn, v.orelse, seen)
        if isinstance(v, ast.BoolOp):
            return any(self.lazy(m, cls, fn, x, seen) for x in v.values)
        if isinstance(v, ast.Call):
            name = u(v.func)
            if name in LAZY_BUILTINS:
                return True
            if name in CONTAINERS:
                return False
            c = self.callee(m, cls, v.func)
            return c is not None and self.call_one_shot(c, seen)
        if isinstance(v, ast.Name) and fn is not None:
            key = ('local', m['rel'], fn.lineno, v.id)
            if key in seen:
                return False
            seen = seen | {key}
            for n in _own_nodes(fn):
                if isinstance(n, ast.Assign) and any(isinstance(t, ast.Name) and t.id == v.id for t in n.targets) \
                        and self.lazy(m, cls, fn, n.value, seen):
                    return True
        return False

    def raw_one_shot(self, c, seen=None):
        """calling the UNDECORATED function hands out a one-shot iterator"""
        m, cls, fn = c
        seen = set() if seen is None else seen
        key = (m['rel'], cls, fn.name, fn.lineno)
        if key in seen:
            return False
        seen = seen | {key}
        for n in _own_nodes(fn):
            if isinstance(n, (ast.Yield, ast.YieldFrom)):
                return True
        for n in _own_nodes(fn):
            if isinstance(n, ast.Return) and n.value is not None and self.lazy(m, cls, fn, n.value, seen):
                return True
        return False

    def call_one_shot(self, c, seen=None):
        """... the function as its callers see it (through its decorators, innermost first)"""
        one = self.raw_one_shot(c, seen)
        for d in reversed(_dec_names(c[2])):
            if d in MATERIALISERS:
                one = False
            elif d == 'inference_state_method_generator_cache':
                one = True
            elif d in ('property', 'cached_property'):
                return False           # an attribute, not a call
        return one


def _api_memo(repo, g):
    idx = _Index(repo)
    api_mods = [m for d, m in sorted(idx.mods.items()) if d == 'jedi.api' or d.startswith('jedi.api.')]
    if len(api_mods) < 8:
        raise TieBroken('jedi/api: only %d modules found' % len(api_mods))
    rows, attrs = [], []

    def visit(m, node, prefix, cls):
        for n in ast.iter_child_nodes(node):
            if isinstance(n, (ast.FunctionDef, ast.AsyncFunctionDef)):
                decs = _dec_names(n)
                q = '%s:%s' % (m['rel'], '.'.join(prefix + [n.name]))
                if any(d in MEMO_DECORATORS for d in decs):
                    rows.append((q, decs, idx.raw_one_shot((m, cls, n))))
                # what the method keeps in an attribute of its object
                for a in _own_nodes(n):
                    if not isinstance(a, ast.Assign):
                        continue
                    one = idx.lazy(m, cls, n, a.value, set())
                    if not (one or isinstance(a.value, (ast.Call, ast.GeneratorExp, ast.IfExp, ast.BoolOp))):
                        continue
                    for t in a.targets:
                        if isinstance(t, ast.Attribute) and isinstance(t.value, ast.Name) and t.value.id == 'self':
                            row = ('%s:self.%s' % (q, t.attr), ['attribute'], one)
                            if row not in attrs:
                                attrs.append(row)
                visit(m, n, prefix + [n.name], cls)
            elif isinstance(n, ast.ClassDef):
                visit(m, n, prefix + [n.name], n.name)
            else:
                visit(m, n, prefix, cls)
    for m in api_mods:
        visit(m, m['tree'], [], None)
    names = [r[0] for r in rows]
    for must in ('jedi/api/__init__.py:Script._get_module', 'jedi/api/classes.py:BaseName._get_module_context',
                 'jedi/api/classes.py:Name.defined_names'):
        if must not in names:
            raise TieBroken('jedi/api: the walk over memoised methods no longer finds %s' % must, repr(names))

    def table(rs):
        return '[\n  ' + ',\n  '.join('(%s, %s, %s)' % (lean_str(r[0]), lean_list(r[1]), lean_bool(r[2]))
                                      for r in rs) + ']'
    g.define('apiMemoTable', 'List (String × List String × Bool)', table(rows),
             'every function in jedi/api/ under a memo decorator: (file:qualname, decorators outermost first, does '
             'calling the undecorated function hand out a one-shot iterator - generator function, generator '
             'expression, map / filter / zip / chain object, directly or through the jedi functions it returns)')
    g.define('apiAttributeTable', 'List (String × List String × Bool)', table(attrs),
             'every `self.x = <call | generator expression | conditional | anything one-shot>` in jedi/api/: (file:method:self.x, '
             '["attribute"], is the stored value a one-shot iterator)')

    # --- where Script._names takes the names from
    api = Src(repo, 'jedi/api/__init__.py')
    m = idx.mods['jedi.api']
    fn = api.find('Script._names')
    comps = [n for n in _own_nodes(fn) if isinstance(n, ast.ListComp)]
    if len(comps) != 1 or len(comps[0].generators) != 1 or not isinstance(comps[0].generators[0].iter, ast.Call) \
            or u(comps[0].elt) != 'module_context.create_name(name)':
        raise TieBroken('api/__init__.py: Script._names is no longer one list comprehension over one call', u(fn))
    call = comps[0].generators[0].iter
    c = idx.callee(m, 'Script', call.func)
    if c is None:
        raise TieBroken('api/__init__.py: Script._names iterates over a call the translator cannot follow', u(call.func))
    cm, ccls, cfn = c
    memoised = any(d in MEMO_DECORATORS and d not in GENERATOR_AWARE for d in _dec_names(cfn))
    g.define('namesSource', 'String', lean_str('%s:%s' % (cm['rel'], (ccls + '.' if ccls else '') + cfn.name)),
             'jedi/api/__init__.py:Script._names `for name in <call>`')
    g.define('namesSourceMemoised', 'Bool', lean_bool(memoised),
             'is that callee under a decorator that remembers what it returned')
    g.define('namesSourceOneShot', 'Bool', lean_bool(idx.call_one_shot(c)),
             'does the callee hand out a one-shot iterator (jedi/api/helpers.py:get_module_names returns filter(...))')

"""C15: the four execution limits, the order of checks in push_execution, the per-node cap of
_limit_value_infers, the statements of _memoize_default's miss branch; fingerprints."""
import ast
from translator.extract import Src, TieBroken, u, lean_list


def _nat(v, what):
    if not isinstance(v, int) or isinstance(v, bool) or v < 0:
        raise TieBroken('%s is not a natural number' % what, repr(v))
    return str(v)


def generate(repo, g):
    rec = Src(repo, 'jedi/inference/recursion.py')
    cache = Src(repo, 'jedi/inference/cache.py')
    st = Src(repo, 'jedi/inference/syntax_tree.py')
    inf = Src(repo, 'jedi/inference/__init__.py')
    for py, lean in [('recursion_limit', 'recursionLimit'),
                     ('total_function_execution_limit', 'totalLimit'),
                     ('per_function_execution_limit', 'perFnLimit'),
                     ('per_function_recursion_limit', 'perFnRecLimit')]:
        g.define(lean, 'Nat', _nat(rec.const(py), py), 'jedi/inference/recursion.py:' + py)
    # the decisions of push_execution in source order: every `if` test and every `return`
    fn = rec.find('ExecutionRecursionDetector.push_execution')
    steps = []

    def walk(body):
        for n in body:
            if isinstance(n, ast.If):
                steps.append('if ' + u(n.test))
                walk(n.body)
                if n.orelse:
                    steps.append('else')
                    walk(n.orelse)
                steps.append('end')
            elif isinstance(n, ast.Return):
                steps.append('return ' + u(n.value))
            elif isinstance(n, (ast.AugAssign, ast.Assign)):
                if 'funcdef = ' in u(n) or 'module_context = ' in u(n):
                    continue
                steps.append(u(n))
            elif isinstance(n, ast.Expr):
                s = u(n)
                if s.startswith('debug.') or isinstance(n.value, ast.Constant):
                    continue
                steps.append(s)
            else:
                raise TieBroken('recursion.py: push_execution has an unexpected statement', u(n))
    walk(fn.body)
    g.define('pushSteps', 'List String', lean_list(steps),
             'jedi/inference/recursion.py:ExecutionRecursionDetector.push_execution')
    fn = rec.find('ExecutionRecursionDetector.pop_execution')
    g.define('popSteps', 'List String', lean_list([u(n) for n in fn.body]),
             'jedi/inference/recursion.py:ExecutionRecursionDetector.pop_execution')
    # execution_recursion_decorator: push, body unless limit reached, pop in finally
    fn = rec.find('execution_recursion_decorator.decorator.wrapper')
    tries = [n for n in fn.body if isinstance(n, ast.Try)]
    if len(tries) != 1 or [u(n) for n in tries[0].finalbody] != ['detector.pop_execution()']:
        raise TieBroken('recursion.py: execution_recursion_decorator no longer pops in a finally block')
    g.define('decoratorSteps', 'List String',
             lean_list([u(n).split('\n')[0] for n in fn.body if not isinstance(n, ast.Try)]
                       + ['try: ' + ' / '.join(u(n).split('\n')[0] for n in tries[0].body),
                          'finally: ' + ' / '.join(u(n) for n in tries[0].finalbody)]),
             'jedi/inference/recursion.py:execution_recursion_decorator')
    # execution_allowed
    fn = rec.find('execution_allowed')
    ifs = [n for n in fn.body if isinstance(n, ast.If)]
    if len(ifs) != 1:
        raise TieBroken('recursion.py: execution_allowed has no single if')
    g.define('guardTest', 'String', lean_list([u(ifs[0].test)])[1:-1],
             'jedi/inference/recursion.py:execution_allowed')
    # _limit_value_infers: maximum = 300 ; maximum *= 100
    fn = st.find('_limit_value_infers.wrapper')
    cap = factor = None
    for n in ast.walk(fn):
        if isinstance(n, ast.Assign) and u(n.targets[0]) == 'maximum':
            cap = ast.literal_eval(n.value)
        if isinstance(n, ast.AugAssign) and u(n.target) == 'maximum' and isinstance(n.op, ast.Mult):
            factor = ast.literal_eval(n.value)
    if cap is None or factor is None:
        raise TieBroken('syntax_tree.py: _limit_value_infers has no `maximum = N` / `maximum *= K`')
    g.define('nodeCap', 'Nat', _nat(cap, 'maximum'), 'jedi/inference/syntax_tree.py:_limit_value_infers')
    g.define('nodeCapBuiltinFactor', 'Nat', _nat(factor, 'maximum factor'),
             'jedi/inference/syntax_tree.py:_limit_value_infers')
    cmp_ = [u(n.test) for n in ast.walk(fn) if isinstance(n, ast.If) and 'maximum' in u(n.test)]
    g.define('nodeCapTest', 'List String', lean_list(cmp_),
             'jedi/inference/syntax_tree.py:_limit_value_infers')
    # which functions carry the cap
    deco = sorted(f.name for f in st.tree.body if isinstance(f, ast.FunctionDef)
                  and any(u(d) == '_limit_value_infers' for d in f.decorator_list))
    g.define('cappedFunctions', 'List String', lean_list(deco), 'jedi/inference/syntax_tree.py decorators')
    # _memoize_default: the miss branch
    fn = cache.find('_memoize_default.func.wrapper')
    ifs = [n for n in fn.body if isinstance(n, ast.If) and u(n.test) == 'key in memo']
    if len(ifs) != 1:
        raise TieBroken('cache.py: _memoize_default has no `if key in memo`')
    g.define('memoHit', 'List String', lean_list([u(n) for n in ifs[0].body]),
             'jedi/inference/cache.py:_memoize_default hit branch')
    miss = []
    cleans = False
    for n in ifs[0].orelse:
        if isinstance(n, ast.Try) and len(n.body) == 1 and not n.finalbody and not n.orelse \
                and all(isinstance(h.body[-1], ast.Raise) and h.body[-1].exc is None for h in n.handlers):
            # try: rv = function(...) except ...: <remove memo[key]>; raise   -- same normal-path
            # behaviour as the bare call; the clean-up only matters when the body raises
            miss.append(u(n.body[0]))
            cleans = True
        else:
            miss.append(u(n).replace('\n', ' '))
    g.define('memoMiss', 'List String', lean_list(miss),
             'jedi/inference/cache.py:_memoize_default miss branch')
    g.define('memoCleansOnException', 'Bool', 'true' if cleans else 'false',
             'jedi/inference/cache.py:_memoize_default (try/except around the computation)')
    # reset_recursion_limitations: what is recreated per query
    fn = inf.find('InferenceState.reset_recursion_limitations')
    g.define('resetAssigns', 'List String',
             lean_list(sorted(u(n.targets[0]) for n in fn.body if isinstance(n, ast.Assign))),
             'jedi/inference/__init__.py:InferenceState.reset_recursion_limitations')
    for s, d in [(rec, 'ExecutionRecursionDetector.push_execution'),
                 (rec, 'ExecutionRecursionDetector.pop_execution'),
                 (rec, 'execution_recursion_decorator'), (rec, 'execution_allowed'),
                 (cache, '_memoize_default'), (cache, 'inference_state_method_generator_cache'),
                 (st, '_limit_value_infers'), (inf, 'InferenceState.reset_recursion_limitations')]:
        g.fp(s, d)

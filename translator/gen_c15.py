"""C15: the four execution limits, the order of checks in push_execution, the per-node cap of
_limit_value_infers, the statements of _memoize_default's miss branch, the loops of
ClassMixin.py__mro__ (which element is tested / appended to the de-duplication list / yielded);
fingerprints."""
import ast
from translator.extract import Src, TieBroken, u, lean_list


def _nat(v, what):
    if not isinstance(v, int) or isinstance(v, bool) or v < 0:
        raise TieBroken('%s is not a natural number' % what, repr(v))
    return str(v)


def _skeleton(body, steps, what):
    """statement skeleton of a function body: loops, tests, try/except/else and simple statements in
    source order; docstring-like string expressions and debug.* calls are dropped"""
    for n in body:
        if isinstance(n, ast.For):
            if n.orelse:
                raise TieBroken('%s: for loop with an else branch' % what, u(n).split('\n')[0])
            steps.append('for %s in %s' % (u(n.target), u(n.iter)))
            _skeleton(n.body, steps, what)
            steps.append('end')
        elif isinstance(n, ast.If):
            steps.append('if ' + u(n.test))
            _skeleton(n.body, steps, what)
            if n.orelse:
                steps.append('else')
                _skeleton(n.orelse, steps, what)
            steps.append('end')
        elif isinstance(n, ast.Try):
            if n.finalbody:
                raise TieBroken('%s: try with a finally block' % what, u(n).split('\n')[0])
            steps.append('try')
            _skeleton(n.body, steps, what)
            for h in n.handlers:
                steps.append('except ' + (u(h.type) if h.type is not None else ''))
                _skeleton(h.body, steps, what)
            if n.orelse:
                steps.append('else')
                _skeleton(n.orelse, steps, what)
            steps.append('end')
        elif isinstance(n, ast.Expr):
            s = u(n)
            if s.startswith('debug.') or isinstance(n.value, ast.Constant):
                continue
            steps.append(s)
        elif isinstance(n, (ast.Assign, ast.AugAssign, ast.Return, ast.Pass)):
            steps.append(u(n))
        else:
            raise TieBroken('%s has an unexpected statement' % what, u(n).split('\n')[0])


def _mro(klass, g):
    """ClassMixin.py__mro__: the whole statement skeleton, and separately the four expressions of
    the innermost loop that decide whether the listing is duplicate-free"""
    fn = klass.find('ClassMixin.py__mro__')
    where = 'jedi/inference/value/klass.py:ClassMixin.py__mro__'
    steps = []
    _skeleton(fn.body, steps, 'klass.py: py__mro__')
    g.define('mroSteps', 'List String', lean_list(steps), where)
    g.define('mroDecorators', 'List String', lean_list([u(d) for d in fn.decorator_list]), where)
    loops = [n for n in ast.walk(fn) if isinstance(n, ast.For)
             and not any(isinstance(m, ast.For) for b in n.body for m in ast.walk(b))]
    if len(loops) != 1:
        raise TieBroken('klass.py: py__mro__ has no single innermost loop', repr(len(loops)))
    loop = loops[0]
    if len(loop.body) != 1 or not isinstance(loop.body[0], ast.If) or loop.body[0].orelse:
        raise TieBroken('klass.py: the innermost loop of py__mro__ is not a single `if`', u(loop))
    test = loop.body[0]
    t = test.test
    if not (isinstance(t, ast.Compare) and len(t.ops) == 1 and isinstance(t.ops[0], ast.NotIn)):
        raise TieBroken('klass.py: py__mro__ does not test `<x> not in <list>`', u(t))
    appended = [c for b in test.body for c in ast.walk(b) if isinstance(c, ast.Call)
                and isinstance(c.func, ast.Attribute) and c.func.attr == 'append'
                and u(c.func.value) == u(t.comparators[0])]
    yielded = [c for b in test.body for c in ast.walk(b) if isinstance(c, ast.Yield)]
    if len(appended) != 1 or len(appended[0].args) != 1 or len(yielded) != 1 or yielded[0].value is None:
        raise TieBroken('klass.py: py__mro__ no longer appends one element and yields one element per '
                        'new class', u(test))
    g.define('mroLoopVar', 'String', lean_list([u(loop.target)])[1:-1], where + ' (innermost loop variable)')
    g.define('mroTested', 'String', lean_list([u(t.left)])[1:-1], where + ' (`<x> not in mro`)')
    g.define('mroSeenList', 'String', lean_list([u(t.comparators[0])])[1:-1], where + ' (the list tested)')
    g.define('mroAppended', 'String', lean_list([u(appended[0].args[0])])[1:-1],
             where + ' (`mro.append(<x>)`)')
    g.define('mroYielded', 'String', lean_list([u(yielded[0].value)])[1:-1], where + ' (`yield <x>`)')
    g.fp(klass, 'ClassMixin.py__mro__')


def _star(mod, g):
    """ModuleMixin.star_imports: the memoiser's re-entry default (the decorator's argument), the
    statement skeleton, and the test in front of the recursive call"""
    fn = mod.find('ModuleMixin.star_imports')
    where = 'jedi/inference/value/module.py:ModuleMixin.star_imports'
    decos = [u(d) for d in fn.decorator_list]
    g.define('starDecorators', 'List String', lean_list(decos), where)
    memo = [d for d in fn.decorator_list if isinstance(d, ast.Call) and u(d.func) == 'inference_state_method_cache']
    if len(memo) != 1 or len(fn.decorator_list) != 1 or memo[0].keywords and \
            [k.arg for k in memo[0].keywords] != ['default']:
        raise TieBroken('module.py: star_imports is not decorated by exactly inference_state_method_cache(..)',
                        repr(decos))
    args = list(memo[0].args) + [k.value for k in memo[0].keywords]
    if not args:
        default = 'none'        # _NO_DEFAULT: nothing is stored before the body runs
    elif len(args) == 1 and isinstance(args[0], ast.List) and not args[0].elts:
        default = 'some []'
    else:
        raise TieBroken('module.py: the default of star_imports\' memoiser is neither absent nor []', repr(decos))
    g.define('starDefault', 'Option (List Nat)', default, where + ' (argument of the memoiser: value stored '
             'under the key while the body runs)')
    steps = []
    _skeleton([n for n in fn.body if not isinstance(n, (ast.Import, ast.ImportFrom))], steps,
              'module.py: star_imports')
    g.define('starSteps', 'List String', lean_list(steps), where)
    rec = [n for n in ast.walk(fn) if isinstance(n, ast.If)
           and any(isinstance(c, ast.Call) and u(c.func).endswith('.star_imports') for b in n.body for c in ast.walk(b))]
    rec = [n for n in rec if not any(m is not n and any(m is x for x in ast.walk(n)) for m in rec)]
    if len(rec) != 1:
        raise TieBroken('module.py: star_imports has no single `if` around its recursive call', repr(len(rec)))
    test = u(rec[0].test)
    if test == 'isinstance(module, ModuleValue)':
        skip = 'false'
    elif test == 'isinstance(module, ModuleValue) and module is not self':
        skip = 'true'
    else:
        raise TieBroken('module.py: unknown test in front of the recursive star_imports() call', test)
    g.define('starRecursionTest', 'String', lean_list([test])[1:-1], where + ' (test before module.star_imports())')
    g.define('starSkipSelf', 'Bool', skip, where + ' (the test excludes the module itself)')
    g.fp(mod, 'ModuleMixin.star_imports')


def generate(repo, g):
    _mro(Src(repo, 'jedi/inference/value/klass.py'), g)
    _star(Src(repo, 'jedi/inference/value/module.py'), g)
    rec = Src(repo, 'jedi/inference/recursion.py')
    cache = Src(repo, 'jedi/inference/cache.py')
    st = Src(repo, 'jedi/inference/syntax_tree.py')
    inf = Src(repo, 'jedi/inference/__init__.py')
    for py, lean in [('recursion_limit', 'recursionLimit'),
                     ('total_function_execution_limit', 'totalLimit'),
                     ('per_function_execution_limit', 'perFnLimit'),
                     ('per_function_recursion_limit', 'perFnRecLimit')]:
        g.define(lean, 'Nat', _nat(rec.const(py), py), 'jedi/inference/recursion.py:' + py)
    # the decisions of push_execution in source order: every `if` test and every `return`
    fn = rec.find('ExecutionRecursionDetector.push_execution')
    steps = []

    def walk(body):
        for n in body:
            if isinstance(n, ast.If):
                steps.append('if ' + u(n.test))
                walk(n.body)
                if n.orelse:
                    steps.append('else')
                    walk(n.orelse)
                steps.append('end')
            elif isinstance(n, ast.Return):
                steps.append('return ' + u(n.value))
            elif isinstance(n, (ast.AugAssign, ast.Assign)):
                if 'funcdef = ' in u(n) or 'module_context = ' in u(n):
                    continue
                steps.append(u(n))
            elif isinstance(n, ast.Expr):
                s = u(n)
                if s.startswith('debug.') or isinstance(n.value, ast.Constant):
                    continue
                steps.append(s)
            else:
                raise TieBroken('recursion.py: push_execution has an unexpected statement', u(n))
    walk(fn.body)
    g.define('pushSteps', 'List String', lean_list(steps),
             'jedi/inference/recursion.py:ExecutionRecursionDetector.push_execution')
    fn = rec.find('ExecutionRecursionDetector.pop_execution')
    g.define('popSteps', 'List String', lean_list([u(n) for n in fn.body]),
             'jedi/inference/recursion.py:ExecutionRecursionDetector.pop_execution')
    # execution_recursion_decorator: push, body unless limit reached, pop in finally
    fn = rec.find('execution_recursion_decorator.decorator.wrapper')
    tries = [n for n in fn.body if isinstance(n, ast.Try)]
    if len(tries) != 1 or [u(n) for n in tries[0].finalbody] != ['detector.pop_execution()']:
        raise TieBroken('recursion.py: execution_recursion_decorator no longer pops in a finally block')
    g.define('decoratorSteps', 'List String',
             lean_list([u(n).split('\n')[0] for n in fn.body if not isinstance(n, ast.Try)]
                       + ['try: ' + ' / '.join(u(n).split('\n')[0] for n in tries[0].body),
                          'finally: ' + ' / '.join(u(n) for n in tries[0].finalbody)]),
             'jedi/inference/recursion.py:execution_recursion_decorator')
    # execution_allowed
    fn = rec.find('execution_allowed')
    ifs = [n for n in fn.body if isinstance(n, ast.If)]
    if len(ifs) != 1:
        raise TieBroken('recursion.py: execution_allowed has no single if')
    g.define('guardTest', 'String', lean_list([u(ifs[0].test)])[1:-1],
             'jedi/inference/recursion.py:execution_allowed')
    # _limit_value_infers: maximum = 300 ; maximum *= 100
    fn = st.find('_limit_value_infers.wrapper')
    cap = factor = None
    for n in ast.walk(fn):
        if isinstance(n, ast.Assign) and u(n.targets[0]) == 'maximum':
            cap = ast.literal_eval(n.value)
        if isinstance(n, ast.AugAssign) and u(n.target) == 'maximum' and isinstance(n.op, ast.Mult):
            factor = ast.literal_eval(n.value)
    if cap is None or factor is None:
        raise TieBroken('syntax_tree.py: _limit_value_infers has no `maximum = N` / `maximum *= K`')
    g.define('nodeCap', 'Nat', _nat(cap, 'maximum'), 'jedi/inference/syntax_tree.py:_limit_value_infers')
    g.define('nodeCapBuiltinFactor', 'Nat', _nat(factor, 'maximum factor'),
             'jedi/inference/syntax_tree.py:_limit_value_infers')
    cmp_ = [u(n.test) for n in ast.walk(fn) if isinstance(n, ast.If) and 'maximum' in u(n.test)]
    g.define('nodeCapTest', 'List String', lean_list(cmp_),
             'jedi/inference/syntax_tree.py:_limit_value_infers')
    # which functions carry the cap
    deco = sorted(f.name for f in st.tree.body if isinstance(f, ast.FunctionDef)
                  and any(u(d) == '_limit_value_infers' for d in f.decorator_list))
    g.define('cappedFunctions', 'List String', lean_list(deco), 'jedi/inference/syntax_tree.py decorators')
    # _memoize_default: the miss branch
    fn = cache.find('_memoize_default.func.wrapper')
    ifs = [n for n in fn.body if isinstance(n, ast.If) and u(n.test) == 'key in memo']
    if len(ifs) != 1:
        raise TieBroken('cache.py: _memoize_default has no `if key in memo`')
    g.define('memoHit', 'List String', lean_list([u(n) for n in ifs[0].body]),
             'jedi/inference/cache.py:_memoize_default hit branch')
    miss = []
    cleans = False
    for n in ifs[0].orelse:
        if isinstance(n, ast.Try) and len(n.body) == 1 and not n.finalbody and not n.orelse \
                and all(isinstance(h.body[-1], ast.Raise) and h.body[-1].exc is None for h in n.handlers):
            # try: rv = function(...) except ...: <remove memo[key]>; raise   -- same normal-path
            # behaviour as the bare call; the clean-up only matters when the body raises
            miss.append(u(n.body[0]))
            cleans = True
        else:
            miss.append(u(n).replace('\n', ' '))
    g.define('memoMiss', 'List String', lean_list(miss),
             'jedi/inference/cache.py:_memoize_default miss branch')
    g.define('memoCleansOnException', 'Bool', 'true' if cleans else 'false',
             'jedi/inference/cache.py:_memoize_default (try/except around the computation)')
    # reset_recursion_limitations: what is recreated per query
    fn = inf.find('InferenceState.reset_recursion_limitations')
    g.define('resetAssigns', 'List String',
             lean_list(sorted(u(n.targets[0]) for n in fn.body if isinstance(n, ast.Assign))),
             'jedi/inference/__init__.py:InferenceState.reset_recursion_limitations')
    for s, d in [(rec, 'ExecutionRecursionDetector.push_execution'),
                 (rec, 'ExecutionRecursionDetector.pop_execution'),
                 (rec, 'execution_recursion_decorator'), (rec, 'execution_allowed'),
                 (cache, '_memoize_default'), (cache, 'inference_state_method_generator_cache'),
                 (st, '_limit_value_infers'), (inf, 'InferenceState.reset_recursion_limitations')]:
        g.fp(s, d)

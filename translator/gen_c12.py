"""C12: settings.auto_import_modules, the decision graph of imports.import_module, the safe-path
filter of _load_builtin_module, the sys.path swap/restore of access.load_module and
functions.get_module_info, the default of Project(load_unsafe_extensions)."""
import ast
from translator.extract import Src, TieBroken, u, lean_list, lean_bool, except_names


def _swap_restore(fn, what, guarded):
    """fn must be  [if sys_path is not None:] <swap> ; try: ... finally: [if ...:] sys.path = temp"""
    body = [s for s in fn.body if not (isinstance(s, ast.Expr) and isinstance(s.value, ast.Constant))]
    swap = body[0]
    if guarded:
        if not (isinstance(swap, ast.If) and u(swap.test) == 'sys_path is not None' and len(swap.body) == 1):
            raise TieBroken('%s: no guarded sys.path swap at the top' % what, u(swap))
        swap = swap.body[0]
    s = u(swap)
    if s not in ('temp, sys.path = (sys.path, sys_path)', 'sys.path, temp = (sys_path, sys.path)'):
        raise TieBroken('%s: first statement is not the sys.path swap' % what, s)
    t = body[1]
    if not isinstance(t, ast.Try) or not t.finalbody:
        raise TieBroken('%s: swap is not followed by try/finally' % what, u(t))
    fin = t.finalbody
    if guarded:
        if not (len(fin) == 1 and isinstance(fin[0], ast.If) and u(fin[0].test) == 'sys_path is not None'):
            raise TieBroken('%s: finally is not guarded like the swap' % what, u(fin[0]))
        fin = fin[0].body
    if [u(x) for x in fin] != ['sys.path = temp']:
        raise TieBroken('%s: finally does not restore sys.path' % what, repr([u(x) for x in fin]))
    # nothing between the swap and the try, nothing in the try body assigns temp
    for n in ast.walk(t):
        if isinstance(n, ast.Assign) and any(u(x) == 'temp' for x in n.targets):
            raise TieBroken('%s: temp is reassigned inside the try' % what)
    handlers = []
    for h in t.handlers:
        handlers += except_names(h)
    return t, handlers


# values of the unchanged source for constants that cannot be extracted when the source lost its expected
# shape: the Lean side still builds (against the model of the unchanged code), the tie is reported and the
# correspondence / failing-input search runs.
EXPECTED = [
    ('lazyImportPathShape', 'String', '"hostOnly"'),
    ('lazyImportModule', 'String', '"numpydoc.docscrape"'),
]


def generate(repo, g):
    import os
    from translator.extract import GEN_DIR, write_if_changed
    defined = set()
    orig_define = g.define

    def define(name, typ, value, source):
        defined.add(name)
        orig_define(name, typ, value, source)
    g.define = define
    broken = []
    try:
        for part in (_generate, _generate_host):
            try:
                part(repo, g)
            except TieBroken as e:
                broken.append(e)
        if broken:
            for name, typ, value in EXPECTED:
                if name not in defined:
                    orig_define(name, typ, value,
                                'FALLBACK (source shape not recognised): value of the unchanged code')
            write_if_changed(os.path.join(GEN_DIR, g.pid + '.lean'), g.text())
            raise broken[0]
    finally:
        g.define = orig_define


def _writes_sys_path(n):
    """does this node rebind or mutate `sys.path`?"""
    def is_sp(t):
        return u(t) == 'sys.path' or (isinstance(t, ast.Subscript) and u(t.value) == 'sys.path')
    if isinstance(n, ast.Assign):
        for t in n.targets:
            if is_sp(t) or (isinstance(t, (ast.Tuple, ast.List)) and any(is_sp(e) for e in t.elts)):
                return True
    if isinstance(n, (ast.AugAssign, ast.AnnAssign)) and is_sp(n.target):
        return True
    if isinstance(n, ast.Delete) and any(is_sp(t) for t in n.targets):
        return True
    if isinstance(n, ast.Call) and isinstance(n.func, ast.Attribute) and u(n.func.value) == 'sys.path' \
            and n.func.attr in ('insert', 'append', 'extend', 'pop', 'remove', 'clear', 'sort', 'reverse',
                                '__setitem__', '__delitem__', '__iadd__'):
        return True
    return False


def _qual_walk(tree):
    """(enclosing def/class names, node) for every node"""
    def rec(node, stack):
        for ch in ast.iter_child_nodes(node):
            st = stack + [ch.name] if isinstance(ch, (ast.FunctionDef, ast.AsyncFunctionDef, ast.ClassDef)) else stack
            yield stack, ch
            yield from rec(ch, st)
    return rec(tree, [])


def _generate_host(repo, g):
    """the host side: jedi's own import statements of modules outside the standard library / jedi / parso
    (optional dependencies, resolved in the process that runs jedi) and every write to sys.path."""
    import os
    import sys
    std = set(sys.stdlib_module_names)
    writes, foreign = set(), set()
    for root, dirs, files in os.walk(os.path.join(repo, 'jedi')):
        dirs[:] = [x for x in dirs if x not in ('third_party', '__pycache__')]
        for f in files:
            if not f.endswith('.py'):
                continue
            rel = os.path.relpath(os.path.join(root, f), repo)
            try:
                with open(os.path.join(root, f), encoding='utf-8') as fh:
                    tree = ast.parse(fh.read())
            except (OSError, SyntaxError):
                continue
            for stack, n in _qual_walk(tree):
                where = '%s:%s' % (rel, '.'.join(stack) or '<module>')
                if _writes_sys_path(n):
                    writes.add(where)
                names = []
                if isinstance(n, ast.Import):
                    names = [a.name for a in n.names]
                elif isinstance(n, ast.ImportFrom) and n.level == 0 and n.module:
                    names = [n.module]
                for nm in names:
                    if nm.split('.')[0] not in std and nm.split('.')[0] not in ('jedi', 'parso'):
                        foreign.add('%s:%s' % (where, nm))
    g.define('sysPathWriteSites', 'List String', lean_list(sorted(writes)),
             'every statement in jedi/*.py that rebinds or mutates sys.path (file:enclosing definition)')
    g.define('foreignImportSites', 'List String', lean_list(sorted(foreign)),
             'every import statement in jedi/*.py of a module outside the standard library, jedi and parso')

    doc = Src(repo, 'jedi/inference/docstrings.py')
    fn = doc.find('_get_numpy_doc_string_cls')
    imps = [n for n in ast.walk(fn) if isinstance(n, (ast.Import, ast.ImportFrom))]
    mods = sorted({(n.module if isinstance(n, ast.ImportFrom) else n.names[0].name) for n in imps})
    if len(mods) != 1 or any(isinstance(n, ast.ImportFrom) and n.level for n in imps):
        raise TieBroken('_get_numpy_doc_string_cls: not exactly one imported module', repr(mods))
    g.define('lazyImportModule', 'String', '"%s"' % mods[0],
             'jedi/inference/docstrings.py:_get_numpy_doc_string_cls (the module its import statement names)')
    dyn = [u(n.func) for n in ast.walk(fn) if isinstance(n, ast.Call) and u(n.func) in
           ('__import__', 'importlib.import_module', 'import_module', 'exec', 'eval')]
    if dyn:
        raise TieBroken('_get_numpy_doc_string_cls: dynamic import', repr(dyn))
    w = [n for n in ast.walk(fn) if _writes_sys_path(n)]
    if not w:
        shape = 'hostOnly'
    else:
        # recognised: temp = sys.path; sys.path = temp + <extra>; try: import  finally: sys.path = temp
        body = [s_ for s_ in fn.body]
        src = [u(s_) for s_ in body]
        shape = None
        if 'temp = sys.path' in src:
            i = src.index('temp = sys.path')
            nxt = body[i + 1] if i + 1 < len(body) else None
            tr = body[i + 2] if i + 2 < len(body) else None
            if isinstance(nxt, ast.Assign) and u(nxt.targets[0]) == 'sys.path' and isinstance(nxt.value, ast.BinOp) \
                    and isinstance(nxt.value.op, ast.Add) and isinstance(tr, ast.Try) \
                    and [u(x) for x in tr.finalbody] == ['sys.path = temp'] \
                    and all(isinstance(x, (ast.Import, ast.ImportFrom)) for x in tr.body) and len(w) == 2:
                if u(nxt.value.left) == 'temp':
                    shape = 'hostThenExtra'
                elif u(nxt.value.right) == 'temp':
                    shape = 'extraThenHost'
        if shape is None:
            raise TieBroken('_get_numpy_doc_string_cls writes sys.path in an unknown way', repr([u(x) for x in w]))
    g.define('lazyImportPathShape', 'String', '"%s"' % shape,
             'jedi/inference/docstrings.py:_get_numpy_doc_string_cls (writes to sys.path around its import statement)')
    g.fp(doc, '_get_numpy_doc_string_cls')
    g.fp(doc, '_search_param_in_numpydocstr')
    g.fp(doc, '_search_return_in_numpydocstr')


def _generate(repo, g):
    settings = Src(repo, 'jedi/settings.py')
    imports = Src(repo, 'jedi/inference/imports.py')
    access = Src(repo, 'jedi/inference/compiled/access.py')
    functions = Src(repo, 'jedi/inference/compiled/subprocess/functions.py')
    project = Src(repo, 'jedi/api/project.py')

    auto = settings.const('auto_import_modules')
    if not isinstance(auto, list) or not all(isinstance(x, str) for x in auto):
        raise TieBroken('settings.auto_import_modules is not a list of strings', repr(auto))
    g.define('autoImportModules', 'List String', lean_list(auto), 'jedi/settings.py:auto_import_modules')

    # Project(load_unsafe_extensions=False)
    init = project.find('Project.__init__')
    names = [a.arg for a in init.args.args + init.args.kwonlyargs]
    defaults = dict(zip([a.arg for a in init.args.kwonlyargs], init.args.kw_defaults))
    pos_defaults = dict(zip([a.arg for a in init.args.args][-len(init.args.defaults):], init.args.defaults)) \
        if init.args.defaults else {}
    d = defaults.get('load_unsafe_extensions', pos_defaults.get('load_unsafe_extensions'))
    if 'load_unsafe_extensions' not in names or d is None or not isinstance(d, ast.Constant):
        raise TieBroken('Project.__init__: load_unsafe_extensions has no literal default')
    g.define('loadUnsafeDefault', 'Bool', lean_bool(bool(d.value)),
             'jedi/api/project.py:Project.__init__(load_unsafe_extensions=%r)' % d.value)

    # _load_builtin_module: the filter
    lb = imports.find('_load_builtin_module')
    ifs = [n for n in lb.body if isinstance(n, ast.If) and u(n.test) == 'not project._load_unsafe_extensions']
    if len(ifs) != 1:
        raise TieBroken('_load_builtin_module: no `if not project._load_unsafe_extensions:` filter')
    body = [u(s) for s in ifs[0].body]
    if body != ['safe_paths = set(project._get_base_sys_path(inference_state))',
                'sys_path = [p for p in sys_path if p in safe_paths]']:
        raise TieBroken('_load_builtin_module: the safe-path filter changed', repr(body))
    calls = [n for n in ast.walk(lb) if isinstance(n, ast.Call) and u(n.func) == 'compiled.load_module']
    if len(calls) != 1 or {k.arg: u(k.value) for k in calls[0].keywords} != \
            {'dotted_name': 'dotted_name', 'sys_path': 'sys_path'}:
        raise TieBroken('_load_builtin_module: compiled.load_module is not called with the filtered sys_path')
    if lb.body.index(ifs[0]) > [i for i, s in enumerate(lb.body) if calls[0] in list(ast.walk(s))][0]:
        raise TieBroken('_load_builtin_module: filter comes after the load')
    g.define('filterToEnvPathWhenSafe', 'Bool', 'true',
             'jedi/inference/imports.py:_load_builtin_module `sys_path = [p for p in sys_path if p in safe_paths]`')

    # _get_base_sys_path: environment path minus ''
    bp = project.find('Project._get_base_sys_path')
    src = u(bp)
    if 'inference_state.environment.get_sys_path()' not in src or "sys_path.remove('')" not in src:
        raise TieBroken('Project._get_base_sys_path changed', src)

    # import_module decision graph
    im = imports.find('import_module')
    first = im.body[1] if isinstance(im.body[0], ast.Expr) else im.body[0]
    if not (isinstance(first, ast.If) and u(first.test) == 'import_names[0] in settings.auto_import_modules'
            and '_load_builtin_module' in u(first.body[0])):
        raise TieBroken('import_module: auto_import_modules test changed', u(first.test))
    chain = [n for n in im.body if isinstance(n, ast.If) and u(n.test) == 'isinstance(file_io_or_ns, ImplicitNSInfo)']
    if len(chain) != 1:
        raise TieBroken('import_module: decision chain not found')
    c = chain[0]
    el = c.orelse[0] if c.orelse and isinstance(c.orelse[0], ast.If) else None
    if el is None or u(el.test) != 'file_io_or_ns is None' or '_load_builtin_module' not in u(el.body[0]) \
            or '_load_python_module' not in u(el.orelse[0]):
        raise TieBroken('import_module: `no source -> builtin loader / source -> parse` chain changed')
    g.define('noSourceGoesToLoader', 'Bool', 'true',
             'jedi/inference/imports.py:import_module `elif file_io_or_ns is None: _load_builtin_module`')
    # _load_python_module only parses
    lp = imports.find('_load_python_module')
    called = sorted({u(n.func) for n in ast.walk(lp) if isinstance(n, ast.Call)})
    allowed = {'inference_state.parse', 'ModuleValue', 'get_cached_code_lines'}
    if not set(called) <= allowed:
        raise TieBroken('_load_python_module calls something new', repr(called))
    g.define('pythonModuleCalls', 'List String', lean_list(called),
             'jedi/inference/imports.py:_load_python_module (every call it makes)')

    # load_module / get_module_info: swap + try/finally restore
    lm = access.find('load_module')
    t, handlers = _swap_restore(lm, 'access.load_module', guarded=False)
    if [u(s) for s in t.body] != ['__import__(dotted_name)']:
        raise TieBroken('access.load_module: try body is not `__import__(dotted_name)`', repr([u(s) for s in t.body]))
    imports_elsewhere = [n for n in ast.walk(lm) if isinstance(n, ast.Call) and u(n.func) in
                         ('__import__', 'importlib.import_module', 'exec', 'eval')]
    if len(imports_elsewhere) != 1:
        raise TieBroken('access.load_module: more than one importing call')
    g.define('loadModuleHandlers', 'List String', lean_list(handlers),
             'jedi/inference/compiled/access.py:load_module except clauses')
    g.define('loadModuleFinallyRestores', 'Bool', 'true',
             'jedi/inference/compiled/access.py:load_module `finally: sys.path = temp`')
    gm = functions.find('get_module_info')
    t, handlers = _swap_restore(gm, 'functions.get_module_info', guarded=True)
    g.define('getModuleInfoHandlers', 'List String', lean_list(handlers),
             'jedi/inference/compiled/subprocess/functions.py:get_module_info except clauses')
    g.define('getModuleInfoFinallyRestores', 'Bool', 'true',
             'jedi/inference/compiled/subprocess/functions.py:get_module_info `finally: sys.path = temp`')

    # nothing else in jedi imports or executes by name
    import os
    offenders = []
    for root, dirs, files in os.walk(os.path.join(repo, 'jedi')):
        dirs[:] = [x for x in dirs if x not in ('third_party', '__pycache__')]
        for f in files:
            if not f.endswith('.py'):
                continue
            rel = os.path.relpath(os.path.join(root, f), repo)
            try:
                with open(os.path.join(root, f), encoding='utf-8') as fh:
                    tree = ast.parse(fh.read())
            except (OSError, SyntaxError):
                continue
            for n in ast.walk(tree):
                if isinstance(n, ast.Call) and u(n.func) in (
                        '__import__', 'importlib.import_module', 'import_module', 'exec', 'eval',
                        'runpy.run_path', 'runpy.run_module', 'execfile', 'compile',
                        'spec.loader.exec_module', 'loader.exec_module', 'loader.load_module'):
                    offenders.append('%s:%s' % (rel, u(n.func)))
    g.define('dynamicImportSites', 'List String', lean_list(sorted(set(offenders))),
             'every call of __import__/importlib.import_module/exec/eval/compile/runpy in jedi/*.py')

    g.fp(imports, 'import_module')
    g.fp(imports, '_load_builtin_module')
    g.fp(imports, '_load_python_module')
    g.fp(access, 'load_module')
    g.fp(functions, 'get_module_info')
    g.fp(functions, '_find_module')
    g.fp(functions, '_from_loader')
    g.fp(project, 'Project._get_base_sys_path')

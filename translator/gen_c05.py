"""C05: the shape of the scan loop of jedi/inference/references.py:find_references (where the map of
not-yet-matching references is created relative to the loop over modules, flow analysis switched off
for the defining names and restored afterwards) and the documented search limits."""
import ast
from translator.extract import Src, TieBroken, u, lean_bool

# values of the unchanged source (fallback so that the Lean side still builds when the shape is lost)
EXPECTED = [
    ('nonMatchingResetPerModule', 'Bool', 'false'),
    ('scanLoops', 'List String', '["potential_modules", "module_context.tree_node.get_used_names().get(search_name, [])"]'),
    ('flowAnalysisOffForDefiningNames', 'Bool', 'true'),
    ('flowAnalysisRestored', 'Bool', 'true'),
    ('shortNameLimit', 'Nat', '2'),
    ('parsedFileLimit', 'Nat', '30'),
    ('openedFileLimit', 'Nat', '2000'),
    ('keywordGotoKinds', 'List Nat', '[0, 1, 2, 3, 4]'),
    ('globalStepSameScopeOnly', 'Bool', 'false'),
]

#: inspect.Parameter kinds by number
PARAM_KINDS = {'POSITIONAL_ONLY': 0, 'POSITIONAL_OR_KEYWORD': 1, 'VAR_POSITIONAL': 2, 'KEYWORD_ONLY': 3, 'VAR_KEYWORD': 4}


def keyword_goto_kinds(repo):
    """the kinds of parameters names.py:AbstractTreeName.goto ties a call keyword `f(k=...)` to: read
    from the `if` inside `for param_name in signature.get_param_names():`.  Recognised conditions:
    `param_name.string_name == name.value` alone (every kind) or in conjunction with
    `param_name.get_kind() ==/!=/in/not in Parameter.X / (Parameter.X, ...)`"""
    src = Src(repo, 'jedi/inference/names.py')
    goto = src.find('AbstractTreeName.goto')
    loops = [n for n in ast.walk(goto) if isinstance(n, ast.For) and isinstance(n.target, ast.Name)
             and n.target.id == 'param_name']
    lost = 'names.py: AbstractTreeName.goto (named param goto) lost the shape '
    if len(loops) != 1 or u(loops[0].iter) != 'signature.get_param_names()':
        raise TieBroken(lost + '`for param_name in signature.get_param_names():`',
                        repr([u(l.iter) for l in loops]))
    body = loops[0].body
    if len(body) != 1 or not isinstance(body[0], ast.If) or body[0].orelse \
            or [u(s) for s in body[0].body] != ['param_names.append(param_name)']:
        raise TieBroken(lost + '`if <condition>: param_names.append(param_name)`', repr([u(s) for s in body]))
    test = body[0].test
    conj = test.values if isinstance(test, ast.BoolOp) and isinstance(test.op, ast.And) else [test]
    texts = [u(c) for c in conj]
    if 'param_name.string_name == name.value' not in texts:
        raise TieBroken(lost + '`param_name.string_name == name.value`', repr(texts))
    kinds = set(PARAM_KINDS.values())

    def kind_of(node):
        if isinstance(node, ast.Attribute) and u(node.value) == 'Parameter' and node.attr in PARAM_KINDS:
            return PARAM_KINDS[node.attr]
        raise TieBroken(lost + '(unrecognised parameter kind)', u(node))

    for c in conj:
        if u(c) == 'param_name.string_name == name.value':
            continue
        if not (isinstance(c, ast.Compare) and u(c.left) == 'param_name.get_kind()' and len(c.ops) == 1):
            raise TieBroken(lost + '(unrecognised conjunct)', u(c))
        op, right = c.ops[0], c.comparators[0]
        if isinstance(op, (ast.Eq, ast.NotEq)):
            sel = {kind_of(right)}
        elif isinstance(op, (ast.In, ast.NotIn)) and isinstance(right, (ast.Tuple, ast.List, ast.Set)):
            sel = {kind_of(e) for e in right.elts}
        else:
            raise TieBroken(lost + '(unrecognised comparison)', u(c))
        kinds &= sel if isinstance(op, (ast.Eq, ast.In)) else (set(PARAM_KINDS.values()) - sel)
    return sorted(kinds), src


def global_step_same_scope_only(src):
    """which `global x` statements of the module references.py:_find_global_variables links to the found
    names: read from the body of `for global_name in method().get(search_name):`.  Recognised shapes:
      * no guard - the body is (in this order, `c = ..` may come first)
            yield global_name
            c = module_context.create_context(global_name.tree_name)
            yield from _add_names_in_same_context(c, global_name.string_name)
        every statement is linked                                                  -> False
      * the same three statements with ONE guard `if <cond>: continue` placed after `c = ..` and before both
        yields, <cond> = `not context.is_module() and c.tree_node is not context.tree_node` (conjuncts in any
        order, `!=`/`is not`), `context = name.parent_context` assigned before the loop: a statement is linked
        only to found names of the module or of the statement's own scope            -> True
    anything else: TieBroken"""
    fn = src.find('_find_global_variables')
    lost = 'references.py: _find_global_variables lost the shape '
    outer = [n for n in ast.walk(fn) if isinstance(n, ast.For) and u(n.target) == 'name' and u(n.iter) == 'names']
    loops = [n for n in ast.walk(fn) if isinstance(n, ast.For) and u(n.target) == 'global_name']
    if len(outer) != 1 or len(loops) != 1 or u(loops[0].iter) != 'method().get(search_name)' or loops[0].orelse:
        raise TieBroken(lost + '`for name in names: ... for global_name in method().get(search_name):`',
                        repr([u(l.iter) for l in loops]))
    # the loop must be reached for every found name that has a tree name and a module with a global filter
    head = [u(s) for s in outer[0].body[:2]]
    if head != ['if name.tree_name is None:\n    continue', 'module_context = name.get_root_context()']:
        raise TieBroken(lost + '(statements before the try)', repr(head))
    Y, C, YF = ('yield global_name', 'c = module_context.create_context(global_name.tree_name)',
                'yield from _add_names_in_same_context(c, global_name.string_name)')
    body = loops[0].body
    texts = [u(s) for s in body]
    if sorted(texts) == sorted([Y, C, YF]) and texts.index(C) < texts.index(YF):
        return False
    guards = [s for s in body if isinstance(s, ast.If)]
    rest = [u(s) for s in body if not isinstance(s, ast.If)]
    if len(guards) == 1 and sorted(rest) == sorted([Y, C, YF]):
        g = guards[0]
        gi = body.index(g)
        before = [u(s) for s in body[:gi]]
        if [u(s) for s in g.body] == ['continue'] and not g.orelse and before == [C] \
                and isinstance(g.test, ast.BoolOp) and isinstance(g.test.op, ast.And):
            conj = sorted(u(c).replace(' != ', ' is not ') for c in g.test.values)
            ctx_assigned = any(u(s) == 'context = name.parent_context' for s in ast.walk(outer[0])
                               if isinstance(s, ast.Assign)) \
                and not any(u(s) == 'context = name.parent_context' for s in ast.walk(loops[0])
                            if isinstance(s, ast.Assign))
            if conj == sorted(['not context.is_module()', 'c.tree_node is not context.tree_node']) and ctx_assigned:
                return True
    raise TieBroken(lost + '(body of the loop over the global names)', repr(texts))


def limits(repo):
    """python-side view of the search limits (the multi-module generator stays inside them)"""
    src = Src(repo, 'jedi/inference/references.py')
    return {'short_name_limit': _short_name_limit(src),
            'parsed_file_limit': src.const('_PARSED_FILE_LIMIT'),
            'opened_file_limit': src.const('_OPENED_FILE_LIMIT')}


def _short_name_limit(src):
    fn = src.find('get_module_contexts_containing_name')
    for n in ast.walk(fn):
        if isinstance(n, ast.If) and isinstance(n.test, ast.Compare) and u(n.test.left) == 'len(name)' \
                and len(n.test.ops) == 1 and isinstance(n.test.ops[0], ast.LtE) \
                and isinstance(n.test.comparators[0], ast.Constant) \
                and len(n.body) == 1 and isinstance(n.body[0], ast.Return):
            return n.test.comparators[0].value
    raise TieBroken('references.py: get_module_contexts_containing_name lost `if len(name) <= N: return`')


def generate(repo, g):
    import os
    from translator.extract import GEN_DIR, write_if_changed
    defined = set()
    orig_define = g.define

    def define(name, typ, value, source):
        defined.add(name)
        orig_define(name, typ, value, source)
    g.define = define
    try:
        _generate(repo, g)
    except TieBroken:
        for name, typ, value in EXPECTED:
            if name not in defined:
                orig_define(name, typ, value, 'FALLBACK (source shape not recognised): value of the unchanged code')
        write_if_changed(os.path.join(GEN_DIR, g.pid + '.lean'), g.text())
        raise
    finally:
        g.define = orig_define


def _assigns_to(node, name):
    out = []
    for n in ast.walk(node):
        if isinstance(n, ast.Assign) and any(isinstance(t, ast.Name) and t.id == name for t in n.targets):
            out.append(n)
    return out


def _generate(repo, g):
    src = Src(repo, 'jedi/inference/references.py')
    fr = src.find('find_references')
    where = 'jedi/inference/references.py:find_references'

    # ---- the scan: `for module_context in potential_modules: for name_leaf in ...get(search_name, [])`
    outer = [n for n in fr.body if isinstance(n, ast.For) and u(n.iter) == 'potential_modules']
    if len(outer) != 1:
        raise TieBroken('references.py: find_references has no single top-level loop over potential_modules')
    outer = outer[0]
    inner = [n for n in outer.body if isinstance(n, ast.For)]
    if len(inner) != 1:
        raise TieBroken('references.py: the loop over potential_modules has no single inner loop over name leaves')
    g.define('scanLoops', 'List String', '["%s", "%s"]' % (u(outer.iter), u(inner[0].iter).replace('"', '\\"')),
             where + ' (outer / inner loop iterables)')
    every = _assigns_to(fr, 'non_matching_reference_maps')
    inside = _assigns_to(outer, 'non_matching_reference_maps')
    before = [n for n in fr.body[:fr.body.index(outer)]
              if isinstance(n, ast.Assign) and any(isinstance(t, ast.Name) and t.id == 'non_matching_reference_maps'
                                                   for t in n.targets)]
    if len(every) != 1 or u(every[0].value) != '{}' or len(inside) + len(before) != 1:
        raise TieBroken('references.py: find_references no longer creates non_matching_reference_maps = {} exactly once',
                        repr([u(n) for n in every]))
    g.define('nonMatchingResetPerModule', 'Bool', lean_bool(bool(inside)),
             where + ' (is `non_matching_reference_maps = {}` executed inside the loop over modules)')

    # ---- flow analysis: off while the defining names are collected, restored in `finally`
    tries = [n for n in fr.body if isinstance(n, ast.Try)]
    off = restored = False
    if tries:
        t = tries[0]
        body = [u(s) for s in t.body]
        off = len(body) >= 2 and body[0] == 'inf.flow_analysis_enabled = False' \
            and body[1].startswith('found_names = _find_defining_names(')
        restored = [u(s) for s in t.finalbody] == ['inf.flow_analysis_enabled = True']
        # the scan itself must come after the try statement (flow analysis on again)
        if fr.body.index(outer) < fr.body.index(t):
            off = False
    g.define('flowAnalysisOffForDefiningNames', 'Bool', lean_bool(off), where)
    g.define('flowAnalysisRestored', 'Bool', lean_bool(restored), where + ' (finally clause)')

    # ---- the global step: which `global x` statements are linked to the found names
    g.define('globalStepSameScopeOnly', 'Bool', lean_bool(global_step_same_scope_only(src)),
             'jedi/inference/references.py:_find_global_variables (False: every `global x` statement of the module is '
             'linked; True: only statements in the scope of a found name, or all of them for a module-level name)')

    # ---- documented search limits
    g.define('shortNameLimit', 'Nat', str(_short_name_limit(src)),
             'jedi/inference/references.py:get_module_contexts_containing_name (`if len(name) <= N: return`)')
    g.define('parsedFileLimit', 'Nat', str(src.const('_PARSED_FILE_LIMIT')), 'jedi/inference/references.py:_PARSED_FILE_LIMIT')
    g.define('openedFileLimit', 'Nat', str(src.const('_OPENED_FILE_LIMIT')), 'jedi/inference/references.py:_OPENED_FILE_LIMIT')

    for fn in ('find_references', '_find_names', '_find_defining_names', '_add_names_in_same_context',
               '_find_global_variables', '_resolve_names', '_dictionarize', 'get_module_contexts_containing_name',
               'search_in_file_ios', '_find_project_modules'):
        g.fp(src, fn)
    # ---- which kinds of parameters the keyword of a call is tied to
    kinds, nsrc = keyword_goto_kinds(repo)
    g.define('keywordGotoKinds', 'List Nat', '[%s]' % ', '.join(map(str, kinds)),
             'jedi/inference/names.py:AbstractTreeName.goto (named param goto: kinds of inspect.Parameter, by number, '
             'that pass the condition of `for param_name in signature.get_param_names(): if ...`)')
    g.fp(nsrc, 'AbstractTreeName.goto')
    rsrc = Src(repo, 'jedi/api/refactoring/__init__.py')
    for fn in ('rename', '_calculate_rename'):
        g.fp(rsrc, fn)

"""C02 (argument binding): the structural facts of
jedi/inference/param.py:get_executed_param_names_and_issues and
jedi/inference/utils.py:PushBackIterator that Model/ArgBind.lean (bindJ) is parameterised by or
transcribes; fingerprints.  A fact that has another *value* is written out as it is (the theorems
stated over it then fail to build); a function that no longer has the expected *shape* raises
TieBroken."""
import ast
from translator.extract import Src, TieBroken, u, lean_bool


def _is(node, text):
    return node is not None and u(node) == text


def _one(nodes, what):
    nodes = list(nodes)
    if len(nodes) != 1:
        raise TieBroken('%s: expected exactly one, found %d' % (what, len(nodes)))
    return nodes[0]


def _calls(node, callee):
    return [c for c in ast.walk(node) if isinstance(c, ast.Call) and u(c.func) == callee]


NEXT = 'key, argument = next(var_arg_iterator, (None, None))'


def generate(repo, g):
    param = Src(repo, 'jedi/inference/param.py')
    utils = Src(repo, 'jedi/inference/utils.py')
    args = Src(repo, 'jedi/inference/arguments.py')
    W = 'param.py:get_executed_param_names_and_issues'
    src = 'jedi/inference/param.py:get_executed_param_names_and_issues'
    fn = param.find('get_executed_param_names_and_issues')
    g.fp(param, 'get_executed_param_names_and_issues')
    g.fp(param, 'get_executed_param_names')
    g.fp(utils, 'PushBackIterator')
    g.fp(args, 'TreeArguments.unpack')

    # ---- the iterator: PushBackIterator(iter(list(arguments.unpack(funcdef))))
    top = [n for n in fn.body]
    if not any(isinstance(n, ast.Assign) and _is(n, 'unpacked_va = list(arguments.unpack(funcdef))') for n in top) \
            or not any(isinstance(n, ast.Assign) and _is(n, 'var_arg_iterator = PushBackIterator(iter(unpacked_va))')
                       for n in top):
        raise TieBroken(W + ': var_arg_iterator is no longer PushBackIterator(iter(list(arguments.unpack(funcdef))))')
    inits = {u(n) for n in top if isinstance(n, ast.Assign)}
    for need in ('keys_used = {}', 'keys_only = False', 'result_params = []', 'param_dict = {}'):
        if need not in inits:
            raise TieBroken(W + ': initialisation `%s` not found' % need)

    # ---- the two loops over funcdef.get_params()
    loops = [n for n in top if isinstance(n, ast.For) and _is(n.iter, 'funcdef.get_params()') and _is(n.target, 'param')]
    if len(loops) != 2:
        raise TieBroken(W + ': expected two `for param in funcdef.get_params()` loops, found %d' % len(loops))
    # param_dict: only normal parameters (`if not param.star_count:`); the source before the repair put
    # the *args / **kwargs parameters in as well
    SETPD = 'param_dict[param.name.value] = param'
    pd = loops[0].body
    if [u(x) for x in pd] == [SETPD]:
        star_names = True
    elif len(pd) == 1 and isinstance(pd[0], ast.If) and _is(pd[0].test, 'not param.star_count') and \
            [u(x) for x in pd[0].body] == [SETPD] and not pd[0].orelse:
        star_names = False
    else:
        raise TieBroken(W + ': param_dict loop', u(loops[0]))
    g.define('starNamesInParamDict', 'Bool', lean_bool(star_names),
             src + ' (`for param in funcdef.get_params(): if not param.star_count: ' + SETPD + '`; true = without the `if`)')
    loop = loops[1]
    body = loop.body
    # statement kinds of the loop body: Assign(is_default), Assign(next), While/If, Try, If chain, Expr(append), If
    if len(body) != 7:
        raise TieBroken(W + ': the parameter loop no longer has 7 statements', str([type(x).__name__ for x in body]))
    s_default, s_next, s_while, s_try, s_chain, s_append, s_used = body
    if not _is(s_default, 'is_default = False') or not _is(s_next, NEXT):
        raise TieBroken(W + ': loop does not start with `is_default = False; ' + NEXT + '`', u(s_next))

    # ---- `while key is not None:`
    if not isinstance(s_while, (ast.While, ast.If)) or not _is(s_while.test, 'key is not None') or s_while.orelse:
        raise TieBroken(W + ': no `while key is not None:` loop', u(s_while)[:200])
    g.define('keyLoopIsWhile', 'Bool', lean_bool(isinstance(s_while, ast.While)), src + ' (`while key is not None:`)')
    wb = s_while.body
    g.define('keyLoopAdvances', 'Bool', lean_bool(bool(wb) and _is(wb[-1], NEXT)),
             src + ' (the while body ends with ' + NEXT + ')')
    tries = [n for n in wb if isinstance(n, ast.Try)]
    t = _one(tries, W + ': try in the while body')
    ok_try = [u(x) for x in t.body] == ['key_param = param_dict[key]'] and len(t.handlers) == 1 and \
        _is(t.handlers[0].type, 'KeyError') and not t.finalbody
    if not ok_try:
        raise TieBroken(W + ': `try: key_param = param_dict[key] except KeyError` changed', u(t)[:300])
    g.define('unknownKeyToNonMatching', 'Bool',
             lean_bool([u(x) for x in t.handlers[0].body] == ['non_matching_keys[key] = argument']),
             src + ' (except KeyError: non_matching_keys[key] = argument)')
    first_wins = False
    if len(t.orelse) == 1 and isinstance(t.orelse[0], ast.If) and _is(t.orelse[0].test, 'key in keys_used'):
        iff = t.orelse[0]
        assigns_in_then = [n for b in iff.body for n in ast.walk(b) if isinstance(n, ast.Assign)
                           and any(u(tg).startswith('keys_used[') for tg in n.targets)]
        first_wins = not assigns_in_then and [u(x) for x in iff.orelse] == \
            ['keys_used[key] = ExecutedParamName(function_value, arguments, key_param, argument)']
    g.define('keywordBindsUnlessUsed', 'Bool', lean_bool(first_wins),
             src + ' (else: if key in keys_used: <error only> else: keys_used[key] = ExecutedParamName(.., key_param, argument))')
    g.define('keyLoopSetsKeysOnly', 'Bool', lean_bool(any(_is(x, 'keys_only = True') for x in wb)),
             src + ' (keys_only = True)')

    # ---- `try: result_params.append(keys_used[param.name.value]); continue / except KeyError: pass`
    ok = isinstance(s_try, ast.Try) and [u(x) for x in s_try.body] == \
        ['result_params.append(keys_used[param.name.value])', 'continue'] and len(s_try.handlers) == 1 and \
        _is(s_try.handlers[0].type, 'KeyError') and [u(x) for x in s_try.handlers[0].body] == ['pass'] and \
        not s_try.orelse and not s_try.finalbody
    g.define('usedParamContinues', 'Bool', lean_bool(ok),
             src + ' (try: result_params.append(keys_used[param.name.value]); continue)')

    # ---- the star_count chain
    if not isinstance(s_chain, ast.If) or len(s_chain.orelse) != 1 or not isinstance(s_chain.orelse[0], ast.If):
        raise TieBroken(W + ': no if/elif/else chain on param.star_count', u(s_chain)[:200])
    br1, br2 = s_chain, s_chain.orelse[0]

    def star_const(test):
        if isinstance(test, ast.Compare) and _is(test.left, 'param.star_count') and len(test.ops) == 1 and \
                isinstance(test.ops[0], ast.Eq) and isinstance(test.comparators[0], ast.Constant) and \
                isinstance(test.comparators[0].value, int):
            return test.comparators[0].value
        raise TieBroken(W + ': branch test is not `param.star_count == <int>`', u(test))
    branches = [(star_const(br1.test), br1.body), (star_const(br2.test), br2.body)]
    tup = [c for c, b in branches if any(_calls(x, 'iterable.FakeTuple') for x in b)]
    dct = [c for c, b in branches if any(_calls(x, 'iterable.FakeDict') for x in b)]
    if len(tup) != 1 or len(dct) != 1 or tup == dct:
        raise TieBroken(W + ': cannot tell the FakeTuple branch from the FakeDict branch')
    g.define('starCountTuple', 'Nat', str(tup[0]), src + ' (`param.star_count == N` of the FakeTuple branch)')
    g.define('starCountDict', 'Nat', str(dct[0]), src + ' (`param.star_count == N` of the FakeDict branch)')
    tbody = dict(branches)[tup[0]]
    dbody = dict(branches)[dct[0]]

    # tuple branch: lazy_value_list = []; if argument is not None: append; for key, argument in it: if key: push_back; break / append
    ok = len(tbody) == 4 and _is(tbody[0], 'lazy_value_list = []') and isinstance(tbody[1], ast.If) and \
        _is(tbody[1].test, 'argument is not None') and not tbody[1].orelse and \
        _is(tbody[2], 'seq = iterable.FakeTuple(function_value.inference_state, lazy_value_list)') and \
        _is(tbody[3], 'result_arg = LazyKnownValue(seq)')
    if not ok:
        raise TieBroken(W + ': *args branch changed', '\n'.join(u(x) for x in tbody)[:400])
    ib = tbody[1].body
    if len(ib) != 2 or not _is(ib[0], 'lazy_value_list.append(argument)') or not isinstance(ib[1], ast.For) or \
            not _is(ib[1].target, '(key, argument)') or not _is(ib[1].iter, 'var_arg_iterator') or ib[1].orelse:
        raise TieBroken(W + ': *args loop changed', u(tbody[1])[:400])
    fb = ib[1].body
    if len(fb) != 2 or not isinstance(fb[0], ast.If) or not _is(fb[0].test, 'key') or fb[0].orelse or \
            not _is(fb[1], 'lazy_value_list.append(argument)') or not fb[0].body or \
            not isinstance(fb[0].body[-1], ast.Break):
        raise TieBroken(W + ': *args loop body changed', u(ib[1])[:400])
    before_break = [u(x) for x in fb[0].body[:-1]]
    if before_break not in ([], ['var_arg_iterator.push_back((key, argument))']):
        raise TieBroken(W + ': unexpected statements before `break` in the *args loop', repr(before_break))
    g.define('pushBackInStarLoop', 'Bool', lean_bool(bool(before_break)),
             src + ' (`if key: var_arg_iterator.push_back((key, argument)); break`)')

    # dict branch
    texts = [u(x) for x in dbody]
    need = ['dct = iterable.FakeDict(function_value.inference_state, dict(non_matching_keys))',
            'result_arg = LazyKnownValue(dct)']
    if not all(n in texts for n in need) or not isinstance(dbody[0], ast.If) or not _is(dbody[0].test, 'argument is not None'):
        raise TieBroken(W + ': **kwargs branch changed', '\n'.join(texts)[:400])
    rest = [x for x in texts[1:] if x not in need]
    if rest not in ([], ['non_matching_keys = {}']):
        raise TieBroken(W + ': unexpected statements in the **kwargs branch', repr(rest))
    g.define('resetsNonMatching', 'Bool', lean_bool(bool(rest)), src + ' (`non_matching_keys = {}` after the FakeDict)')

    # normal branch
    nb = br2.orelse
    ok = len(nb) == 1 and isinstance(nb[0], ast.If) and _is(nb[0].test, 'argument is None') and \
        [u(x) for x in nb[0].orelse] == ['result_arg = argument'] and len(nb[0].body) == 1 and \
        isinstance(nb[0].body[0], ast.If) and _is(nb[0].body[0].test, 'param.default is None')
    if ok:
        inner = nb[0].body[0]
        ok = bool(inner.body) and _is(inner.body[0], 'result_arg = LazyUnknownValue()') and \
            [u(x) for x in inner.orelse] == ['result_arg = LazyTreeValue(default_param_context, param.default)',
                                             'is_default = True']
    g.define('normalBranchShape', 'Bool', lean_bool(ok),
             src + ' (argument given -> the argument; else default if any, else LazyUnknownValue)')

    # result_params.append(...) ; keys_used[param.name.value] = result_params[-1] unless unknown
    if not _is(s_append, 'result_params.append(ExecutedParamName(function_value, arguments, param, result_arg, '
                         'is_default=is_default))'):
        raise TieBroken(W + ': result_params.append(ExecutedParamName(.., param, result_arg, ..)) changed', u(s_append))
    SET = 'keys_used[param.name.value] = result_params[-1]'
    if isinstance(s_used, ast.If) and _is(s_used.test, 'not isinstance(result_arg, LazyUnknownValue)') and \
            [u(x) for x in s_used.body] == [SET] and not s_used.orelse:
        skips = True
    elif _is(s_used, SET):
        skips = False
    else:
        raise TieBroken(W + ': `' + SET + '` changed', u(s_used))
    g.define('keysUsedSkipsUnknown', 'Bool', lean_bool(skips),
             src + ' (`if not isinstance(result_arg, LazyUnknownValue): ' + SET + '`)')

    # ---- PushBackIterator: pushed items are served first
    nxt = utils.find('PushBackIterator.__next__')
    pb = utils.find('PushBackIterator.push_back')
    ok = [u(x) for x in pb.body] == ['self.pushes.append(value)']
    served_first = False
    if len(nxt.body) == 2 and isinstance(nxt.body[0], ast.If) and _is(nxt.body[0].test, 'self.pushes'):
        i = nxt.body[0]
        served_first = [u(x) for x in i.body] == ['self.current = self.pushes.pop()'] and \
            [u(x) for x in i.orelse] == ['self.current = next(self.iterator)'] and _is(nxt.body[1], 'return self.current')
    g.define('pushBackIsCons', 'Bool', lean_bool(ok and served_first),
             'jedi/inference/utils.py:PushBackIterator (push_back appends to pushes; __next__ pops pushes first, '
             'else next(iterator))')

    # ---- TreeArguments.unpack: positional arguments first, keyword arguments after (`yield from named_args` last)
    un = args.find('TreeArguments.unpack')
    last = un.body[-1]
    ok = isinstance(last, ast.Expr) and _is(last, 'yield from named_args') and \
        len([c for c in ast.walk(un) if isinstance(c, ast.Call) and u(c.func) == 'named_args.append']) == 1
    g.define('keywordsAfterPositionals', 'Bool', lean_bool(ok),
             'jedi/inference/arguments.py:TreeArguments.unpack (named_args collected, yielded last)')

    # ---- loop unrolling / per-node cache facts (Model/FlowCache.lean)
    from translator import c02_flow_facts
    c02_flow_facts.generate(repo, g)

    # ---- class-level attribute lookup facts (Model/ClassLookup.lean)
    from translator import c02_lookup_facts
    c02_lookup_facts.generate(repo, g)

    # ---- iteration over a set of iterables (Model/SetIter.lean)
    from translator import c02_setiter_facts
    c02_setiter_facts.generate(repo, g)

"""C07: how ChangedFile.apply opens the file, the phase order of Refactoring.apply, the
get_diff normalisation, the exception classes raised by the refactoring code, whether the
`until` line is validated before it is used as an index; fingerprints."""
import ast
from translator.extract import Src, TieBroken, u, lean_list, lean_bool, lean_str


def _calls(node, name):
    return [n for n in ast.walk(node) if isinstance(n, ast.Call) and u(n.func) == name]


def until_validated(fn, rel):
    """True iff every `self._code_lines[until_line - 1]` in fn is preceded (in an enclosing or
    earlier statement of the same block) by a range check on until_line raising ValueError."""
    subs = [n for n in ast.walk(fn) if isinstance(n, ast.Subscript)
            and u(n.value) == 'self._code_lines' and 'until_line' in u(n.slice)]
    if len(subs) != 1:
        raise TieBroken('%s: %s indexes _code_lines with until_line %d times' % (rel, fn.name, len(subs)))
    raises = [n for n in ast.walk(fn) if isinstance(n, ast.Raise) and n.exc is not None
              and u(n.exc).startswith('ValueError')]
    checks = [n for n in ast.walk(fn) if isinstance(n, ast.If) and 'until_line' in u(n.test)
              and 'len(self._code_lines)' in u(n.test)
              and any(r in ast.walk(n) for r in raises)]
    if not checks:
        return False
    return min(c.lineno for c in checks) < subs[0].lineno


def generate(repo, g):
    ref = Src(repo, 'jedi/api/refactoring/__init__.py')
    ext = Src(repo, 'jedi/api/refactoring/extract.py')
    api = Src(repo, 'jedi/api/__init__.py')
    exc = Src(repo, 'jedi/api/exceptions.py')

    # --- ChangedFile.apply: open(self._from_path, 'w', newline='')
    fn = ref.find('ChangedFile.apply')
    opens = _calls(fn, 'open')
    if len(opens) != 1:
        raise TieBroken('refactoring/__init__.py: ChangedFile.apply has %d open() calls' % len(opens))
    o = opens[0]
    if u(o.args[0]) != 'self._from_path':
        raise TieBroken('refactoring/__init__.py: ChangedFile.apply opens', u(o.args[0]))
    mode = u(o.args[1]) if len(o.args) > 1 else next((u(k.value) for k in o.keywords if k.arg == 'mode'), "'r'")
    if mode != "'w'":
        raise TieBroken('refactoring/__init__.py: ChangedFile.apply open mode', mode)
    nl = [k.value for k in o.keywords if k.arg == 'newline']
    if not nl or (isinstance(nl[0], ast.Constant) and nl[0].value is None):
        val = 'none'
    elif isinstance(nl[0], ast.Constant) and isinstance(nl[0].value, str):
        val = 'some ' + lean_str(nl[0].value)
    else:
        raise TieBroken('refactoring/__init__.py: newline= is not a literal', u(nl[0]))
    g.define('applyNewline', 'Option String', val,
             "jedi/api/refactoring/__init__.py:ChangedFile.apply open(..., 'w', newline=...)")
    writes = [n for n in ast.walk(fn) if isinstance(n, ast.Call) and u(n.func).endswith('.write')]
    if len(writes) != 1 or u(writes[0].args[0]) != 'self.get_new_code()':
        raise TieBroken('refactoring/__init__.py: ChangedFile.apply does not write self.get_new_code()',
                        [u(w) for w in writes])

    # --- Refactoring.apply: phases in source order
    fn = ref.find('Refactoring.apply')
    phases = []
    for st in fn.body:
        if isinstance(st, ast.Expr) and isinstance(st.value, ast.Constant):
            continue
        # `if None in self._file_to_node_changes: raise RefactoringError(..)`: the refusal for a Script
        # without a path, before anything is written (proposed_fixes/c07-pathless-apply-writes-nothing.diff)
        if isinstance(st, ast.If) and u(st.test) == 'None in self._file_to_node_changes' and not st.orelse \
                and len(st.body) == 1 and isinstance(st.body[0], ast.Raise) and st.body[0].exc is not None \
                and u(st.body[0].exc).startswith('RefactoringError('):
            phases.append('refuse-pathless')
            continue
        if not isinstance(st, ast.For):
            raise TieBroken('refactoring/__init__.py: Refactoring.apply statement', u(st))
        it, body = u(st.iter), ' '.join(u(b) for b in st.body)
        if it == 'self.get_changed_files().values()' and body == '%s.apply()' % u(st.target):
            phases.append('writes')
        elif it == 'self.get_renames()' and body == 'old.rename(new)' and u(st.target) == '(old, new)':
            phases.append('renames')
        else:
            raise TieBroken('refactoring/__init__.py: Refactoring.apply loop', u(st))
    g.define('applyOrder', 'List String', lean_list(phases),
             'jedi/api/refactoring/__init__.py:Refactoring.apply')

    # --- ChangedFile.get_diff normalisation
    fn = ref.find('ChangedFile.get_diff')
    sl = _calls(fn, 'split_lines')
    keep = [c for c in sl if any(k.arg == 'keepends' and u(k.value) == 'True' for k in c.keywords)]
    g.define('diffKeepends', 'Bool', lean_bool(len(sl) == 2 and len(keep) == 2),
             'ChangedFile.get_diff: both split_lines(..., keepends=True)')
    srcs = sorted(u(c.args[0]) for c in sl)
    if srcs != ['self._module_node.get_code()', 'self.get_new_code()']:
        raise TieBroken('refactoring/__init__.py: get_diff diffs', srcs)
    appends = [n for n in ast.walk(fn) if isinstance(n, ast.If) and len(n.body) == 1
               and isinstance(n.body[0], ast.AugAssign) and u(n.body[0].value) == "'\\n'"
               and u(n.test) == "%s != ''" % u(n.body[0].target)]
    g.define('diffAppendsNewlineTo', 'List String', lean_list(sorted(u(a.body[0].target) for a in appends)),
             "ChangedFile.get_diff: if lines[-1] != '': lines[-1] += '\\n'")
    ret = [n for n in ast.walk(fn) if isinstance(n, ast.Return)]
    if len(ret) != 1:
        raise TieBroken('refactoring/__init__.py: get_diff returns', len(ret))
    r = ret[0].value
    if isinstance(r, ast.Call) and isinstance(r.func, ast.Attribute) and r.func.attr == 'rstrip' \
            and len(r.args) == 1 and isinstance(r.args[0], ast.Constant) and u(r.func.value) == "''.join(diff)":
        strip = r.args[0].value
    elif u(r) == "''.join(diff)":
        strip = ''
    else:
        raise TieBroken('refactoring/__init__.py: get_diff return expression', u(r))
    g.define('diffRstrip', 'String', lean_str(strip), "ChangedFile.get_diff: ''.join(diff).rstrip(...)")
    ud = _calls(fn, 'difflib.unified_diff')
    if len(ud) != 1 or [u(a) for a in ud[0].args] != ['old_lines', 'new_lines'] \
            or sorted((k.arg, u(k.value)) for k in ud[0].keywords) != [('fromfile', 'str(from_p)'), ('tofile', 'str(to_p)')]:
        raise TieBroken('refactoring/__init__.py: get_diff unified_diff call', [u(x) for x in ud])

    # --- ChangedFile.get_diff: which path each header shows
    #     if <guard> is None: v = <literal>
    #     else:
    #         try: v = <subject>.relative_to(project_path)
    #         except ValueError: v = <fallback>
    # The attribute names are handed to the model as they stand in the source; the theorems
    # diff_header_from / diff_header_to say which attribute each header must render.
    pp = [n for n in fn.body if isinstance(n, ast.Assign) and u(n.targets[0]) == 'project_path']
    if len(pp) != 1 or u(pp[0].value) != 'self._inference_state.project.path':
        raise TieBroken('refactoring/__init__.py: get_diff project_path is', [u(x) for x in pp])
    specs = {}
    for st in fn.body:
        if not (isinstance(st, ast.If) and isinstance(st.test, ast.Compare) and len(st.test.ops) == 1
                and isinstance(st.test.ops[0], ast.Is) and u(st.test.comparators[0]) == 'None'):
            continue
        guard = u(st.test.left)
        if len(st.body) != 1 or not isinstance(st.body[0], ast.Assign) \
                or not isinstance(st.body[0].value, ast.Constant) or not isinstance(st.body[0].value.value, str):
            raise TieBroken('refactoring/__init__.py: get_diff `%s is None` branch' % guard, u(st))
        var, none_text = u(st.body[0].targets[0]), st.body[0].value.value
        if len(st.orelse) != 1 or not isinstance(st.orelse[0], ast.Try):
            raise TieBroken('refactoring/__init__.py: get_diff else branch of `%s is None`' % guard, u(st))
        tr = st.orelse[0]
        if len(tr.body) != 1 or not isinstance(tr.body[0], ast.Assign) or u(tr.body[0].targets[0]) != var \
                or tr.orelse or tr.finalbody or len(tr.handlers) != 1 or tr.handlers[0].type is None \
                or u(tr.handlers[0].type) != 'ValueError' or len(tr.handlers[0].body) != 1 \
                or not isinstance(tr.handlers[0].body[0], ast.Assign) \
                or u(tr.handlers[0].body[0].targets[0]) != var:
            raise TieBroken('refactoring/__init__.py: get_diff try/except of ' + var, u(tr))
        call = tr.body[0].value
        if not (isinstance(call, ast.Call) and isinstance(call.func, ast.Attribute)
                and call.func.attr == 'relative_to' and [u(a) for a in call.args] == ['project_path']
                and not call.keywords):
            raise TieBroken('refactoring/__init__.py: get_diff computes %s by' % var, u(call))
        if var in specs:
            raise TieBroken('refactoring/__init__.py: get_diff assigns %s in two `is None` statements' % var)
        specs[var] = (guard, none_text, u(call.func.value), u(tr.handlers[0].body[0].value))
    if sorted(specs) != ['from_p', 'to_p']:
        raise TieBroken('refactoring/__init__.py: get_diff header variables', sorted(specs))
    for var, name, what in [('from_p', 'diffFromHeader', '--- (fromfile)'), ('to_p', 'diffToHeader', '+++ (tofile)')]:
        g.define(name, 'String × String × String × String',
                 '(%s)' % ', '.join(lean_str(x) for x in specs[var]),
                 'ChangedFile.get_diff, the %s header: (attribute tested for None, text shown for None, '
                 'attribute made relative to the project path, attribute shown when that raises ValueError)' % what)

    # --- Refactoring.get_diff: the `rename from / rename to` lines, _try_relative_to
    fn = ref.find('Refactoring.get_diff')
    loops = [n for n in fn.body if isinstance(n, ast.For)]
    if len(loops) != 1 or u(loops[0].iter) != 'self.get_renames()' or not isinstance(loops[0].target, ast.Tuple) \
            or len(loops[0].body) != 1 or not isinstance(loops[0].body[0], ast.AugAssign):
        raise TieBroken('refactoring/__init__.py: Refactoring.get_diff rename loop', [u(x) for x in loops])
    pair = [u(e) for e in loops[0].target.elts]
    val = loops[0].body[0].value
    if not (isinstance(val, ast.BinOp) and isinstance(val.op, ast.Mod) and isinstance(val.left, ast.Constant)
            and isinstance(val.left.value, str) and isinstance(val.right, ast.Tuple)):
        raise TieBroken('refactoring/__init__.py: Refactoring.get_diff rename text', u(val))
    args = []
    for a in val.right.elts:
        if not (isinstance(a, ast.Call) and u(a.func) == '_try_relative_to' and len(a.args) == 2
                and u(a.args[1]) == 'project_path' and u(a.args[0]) in pair):
            raise TieBroken('refactoring/__init__.py: Refactoring.get_diff rename argument', u(a))
        args.append(pair.index(u(a.args[0])))
    pieces = val.left.value.split('%s')
    if len(pieces) != len(args) + 1 or '%' in ''.join(pieces):
        raise TieBroken('refactoring/__init__.py: Refactoring.get_diff rename format', val.left.value)
    g.define('renameLinePieces', 'List String', lean_list(pieces),
             "Refactoring.get_diff: the text around the %s of 'rename from %s\\nrename to %s\\n'")
    g.define('renameLineArgs', 'List Nat', '[%s]' % ', '.join(str(a) for a in args),
             'Refactoring.get_diff: which element of a get_renames() pair (0 = old, 1 = new) fills each %s')
    pps = [n for n in fn.body if isinstance(n, ast.Assign) and u(n.targets[0]) == 'project_path']
    if len(pps) != 1 or u(pps[0].value) != 'self._inference_state.project.path':
        raise TieBroken('refactoring/__init__.py: Refactoring.get_diff project_path is', [u(x) for x in pps])
    ret = [n for n in ast.walk(fn) if isinstance(n, ast.Return)]
    if len(ret) != 1 or u(ret[0].value) != "text + ''.join((f.get_diff() for f in self.get_changed_files().values()))":
        raise TieBroken('refactoring/__init__.py: Refactoring.get_diff returns', [u(r.value) for r in ret])
    tfn = ref.find('_try_relative_to')
    tparams = [a.arg for a in tfn.args.args]
    body = [st for st in tfn.body if not (isinstance(st, ast.Expr) and isinstance(st.value, ast.Constant))]
    ok = len(tparams) == 2 and len(body) == 1 and isinstance(body[0], ast.Try) and len(body[0].body) == 1 \
        and isinstance(body[0].body[0], ast.Return) and len(body[0].handlers) == 1 \
        and body[0].handlers[0].type is not None and u(body[0].handlers[0].type) == 'ValueError' \
        and len(body[0].handlers[0].body) == 1 and isinstance(body[0].handlers[0].body[0], ast.Return) \
        and not body[0].orelse and not body[0].finalbody
    if ok:
        call = body[0].body[0].value
        ok = isinstance(call, ast.Call) and isinstance(call.func, ast.Attribute) and call.func.attr == 'relative_to' \
            and len(call.args) == 1 and not call.keywords
    if not ok:
        raise TieBroken('refactoring/__init__.py: _try_relative_to has an unknown shape', u(tfn)[:400])
    names = [u(call.func.value), u(call.args[0]), u(body[0].handlers[0].body[0].value)]
    if any(n not in tparams for n in names):
        raise TieBroken('refactoring/__init__.py: _try_relative_to uses', names)
    g.define('tryRelativeToSel', 'Nat × Nat × Nat', '(%s)' % ', '.join(str(tparams.index(n)) for n in names),
             '_try_relative_to(path, base): parameter index (0 = path, 1 = base) of the receiver of '
             '.relative_to, of its argument, and of the value returned on ValueError')

    # --- calculate_to_path: string prefix replacement or component-wise (relative_to)
    fn = ref.find('Refactoring.get_changed_files')
    src_txt = u(fn)
    if 'p.startswith(str(from_))' in src_txt and 'str(to) + p[len(str(from_)):]' in src_txt:
        mode = 'string-prefix'
    elif 'to.joinpath(p.relative_to(from_))' in src_txt and 'startswith' not in src_txt:
        mode = 'components'
    else:
        raise TieBroken('refactoring/__init__.py: calculate_to_path has an unknown shape', src_txt[:600])
    g.define('toPathMode', 'String', lean_str(mode),
             'jedi/api/refactoring/__init__.py:Refactoring.get_changed_files.calculate_to_path')
    # calculate_to_path statement by statement: the path of a changed file is Optional (None for a
    # Script without a path).
    #     [if p is None: return p]           -> toPathNoneGuard
    #     [p = str(p)]                        (string-prefix shape only)
    #     for from_, to in renames:           -> toPathLoop: 'fold' (p = ..., every rename in turn)
    #         <p = ... | return ...>                          'first' (return at the first match)
    #     return p | return Path(p)
    ctp = [n for n in fn.body if isinstance(n, ast.FunctionDef) and n.name == 'calculate_to_path']
    if len(ctp) != 1 or len(ctp[0].args.args) != 1 or ctp[0].args.defaults or ctp[0].args.kwonlyargs \
            or ctp[0].args.vararg or ctp[0].args.kwarg:
        raise TieBroken('refactoring/__init__.py: get_changed_files has no local calculate_to_path(p)', src_txt[:300])
    ctp = ctp[0]
    par = ctp.args.args[0].arg
    body = [st for st in ctp.body if not (isinstance(st, ast.Expr) and isinstance(st.value, ast.Constant))]
    guard = False
    if body and isinstance(body[0], ast.If) and u(body[0].test) == '%s is None' % par and not body[0].orelse \
            and len(body[0].body) == 1 and isinstance(body[0].body[0], ast.Return) \
            and u(body[0].body[0].value) in (par, 'None'):
        guard = True
        body = body[1:]
    if body and isinstance(body[0], ast.Assign) and u(body[0]) == '%s = str(%s)' % (par, par) \
            and mode == 'string-prefix':
        body = body[1:]
    if len(body) != 2 or not isinstance(body[0], ast.For) or not isinstance(body[1], ast.Return) \
            or u(body[1].value) not in (par, 'Path(%s)' % par) or body[0].orelse \
            or u(body[0].iter) != 'renames' or u(body[0].target) != '(from_, to)':
        raise TieBroken('refactoring/__init__.py: calculate_to_path statements', u(ctp)[:600])
    steps = [n for n in ast.walk(body[0]) if isinstance(n, (ast.Assign, ast.AugAssign, ast.Return))]
    if len(steps) != 1 or any(isinstance(n, (ast.Break, ast.Continue, ast.Raise)) for n in ast.walk(body[0])):
        raise TieBroken('refactoring/__init__.py: calculate_to_path loop body', u(body[0])[:400])
    if isinstance(steps[0], ast.Assign) and u(steps[0].targets[0]) == par:
        loop = 'fold'
    elif isinstance(steps[0], ast.Return):
        loop = 'first'
    else:
        raise TieBroken('refactoring/__init__.py: calculate_to_path loop step', u(steps[0]))
    # who is it applied to: the keys of file_to_node_changes, one of which may be None
    calls = [n for n in ast.walk(fn) if isinstance(n, ast.Call) and u(n.func) == 'calculate_to_path']
    if len(calls) != 1 or [u(a) for a in calls[0].args] != ['path']:
        raise TieBroken('refactoring/__init__.py: calculate_to_path is called', [u(c) for c in calls])
    g.define('toPathNoneGuard', 'Bool', lean_bool(guard),
             'calculate_to_path: starts with `if p is None: return p` (the key of a Script without a path)')
    g.define('toPathLoop', 'String', lean_str(loop),
             'calculate_to_path: the loop over the renames assigns p and goes on ("fold") or returns at the '
             'first rename the path is below ("first")')

    # --- exception classes raised by the refactoring code
    raised = set()
    for s, names in [(ref, ['ChangedFile', 'Refactoring', 'rename', 'inline', '_calculate_rename',
                            '_remove_indent_of_prefix', '_try_relative_to']),
                     (ext, None),
                     (api, ['Script.rename', 'Script.inline', 'Script.extract_variable',
                            'Script.extract_function'])]:
        nodes = [s.tree] if names is None else [s.find(n) for n in names]
        for nd in nodes:
            for n in ast.walk(nd):
                if isinstance(n, ast.Raise):
                    if n.exc is None:
                        raised.add('<reraise>')
                    else:
                        e = n.exc.func if isinstance(n.exc, ast.Call) else n.exc
                        raised.add(u(e))
                elif isinstance(n, ast.Assert):
                    raised.add('assert')
    g.define('raisedClasses', 'List String', lean_list(sorted(raised)),
             'raise statements of jedi/api/refactoring/*.py and the four Script entry points')
    # RefactoringError derives from _JediError(Exception), nothing else
    cls = exc.find('RefactoringError')
    g.define('refactoringErrorBases', 'List String', lean_list([u(b) for b in cls.bases]),
             'jedi/api/exceptions.py:RefactoringError')

    # --- until position validated?
    v = [until_validated(api.find('Script.extract_variable'), api.rel),
         until_validated(api.find('Script.extract_function'), api.rel)]
    g.define('untilValidated', 'Bool', lean_bool(all(v)),
             'jedi/api/__init__.py:Script.extract_variable/extract_function range check before '
             'self._code_lines[until_line - 1]')
    decos = []
    for m in ['Script.extract_variable', 'Script.extract_function', 'Script.get_references']:
        decos.append(any(u(d) == 'validate_line_column' for d in api.find(m).decorator_list))
    g.define('entryPointsValidateLineColumn', 'Bool', lean_bool(all(decos)),
             'jedi/api/__init__.py: @validate_line_column on extract_variable, extract_function, '
             'get_references (rename and inline go through get_references)')

    for s, d in [(ref, 'ChangedFile.get_diff'), (ref, 'ChangedFile.get_new_code'), (ref, 'ChangedFile.apply'),
                 (ref, 'Refactoring.get_changed_files'), (ref, 'Refactoring.get_renames'),
                 (ref, 'Refactoring.get_diff'), (ref, 'Refactoring.apply'), (ref, '_calculate_rename'), (ref, '_try_relative_to'),
                 (ref, 'rename'), (api, 'Script.extract_variable'), (api, 'Script.extract_function'),
                 (api, 'Script.rename'), (api, 'Script.inline')]:
        g.fp(s, d)

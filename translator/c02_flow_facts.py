"""C02 (loop unrolling and the per-node inference cache): the facts of
jedi/inference/syntax_tree.py:infer_node / _infer_node_if_inferred and
jedi/inference/value/function.py:BaseFunctionExecutionContext.get_yield_lazy_values that
Model/FlowCache.lean is parameterised by; fingerprints.  Called from translator/gen_c02.py.
(Not named gen_c*.py: extract.all_pids() treats every such file as a property.)"""
import ast
from translator.extract import Src, TieBroken, u, lean_bool

RET_FRESH = 'return _infer_node(context, element)'
RET_CACHED = 'return _infer_node_cached(context, element)'
RET_WALK = 'return _infer_node_if_inferred(context, element)'


def generate(repo, g):
    st = Src(repo, 'jedi/inference/syntax_tree.py')
    fv = Src(repo, 'jedi/inference/value/function.py')
    g.fp(st, 'infer_node')
    g.fp(st, '_infer_node_if_inferred')
    g.fp(st, '_infer_node_cached')
    g.fp(fv, 'BaseFunctionExecutionContext.get_yield_lazy_values')
    g.fp(fv, 'BaseFunctionExecutionContext._get_yield_lazy_value')

    # ---- _infer_node_cached is the memoised _infer_node
    cached = st.find('_infer_node_cached')
    if [u(x) for x in cached.body] != [RET_FRESH] or \
            not any('inference_state_method_cache' in u(d) for d in cached.decorator_list):
        raise TieBroken('syntax_tree.py:_infer_node_cached is no longer the memoised `_infer_node`', u(cached)[:300])

    # ---- infer_node: the nearest enclosing if/for statement with a non-empty dict of predefined names
    W = 'syntax_tree.py:infer_node'
    fn = st.find('infer_node')
    pre = [n for n in fn.body if isinstance(n, ast.Assign) and
           u(n) == 'predefined_if_name_dict = context.predefined_names.get(if_stmt)']
    tops = [n for n in fn.body if isinstance(n, ast.If) and 'predefined_if_name_dict is None' in u(n.test)]
    if len(pre) != 1 or len(tops) != 1 or len(tops[0].orelse) != 1 or not isinstance(tops[0].orelse[0], ast.If):
        raise TieBroken(W + ': `predefined_if_name_dict = context.predefined_names.get(if_stmt)` / '
                            '`if predefined_if_name_dict is None and ..: .. else: if predefined_if_name_dict:` not found')
    inner = tops[0].orelse[0]
    if u(inner.test) != 'predefined_if_name_dict' or [u(x) for x in inner.orelse] != [RET_WALK]:
        raise TieBroken(W + ': `if predefined_if_name_dict: .. else: ' + RET_WALK + '` changed', u(inner)[:300])
    g.define('cacheDirectBypass', 'Bool', lean_bool([u(x) for x in inner.body] == [RET_FRESH]),
             'jedi/inference/syntax_tree.py:infer_node (`if predefined_if_name_dict: ' + RET_FRESH + '`)')

    # ---- _infer_node_if_inferred: the walk over all ancestors
    W = 'syntax_tree.py:_infer_node_if_inferred'
    fn = st.find('_infer_node_if_inferred')
    body = [n for n in fn.body if not (isinstance(n, ast.Expr) and isinstance(n.value, ast.Constant))]
    loops = [n for n in body if isinstance(n, ast.While)]
    if len(loops) != 1 or u(loops[0].test) != 'parent is not None' or loops[0].orelse or u(body[-1]) != RET_CACHED:
        raise TieBroken(W + ': `while parent is not None: ..` followed by `' + RET_CACHED + '` not found')
    wb = loops[0].body
    if len(wb) != 3 or u(wb[0]) != 'parent = parent.parent' or \
            u(wb[1]) != 'predefined_if_name_dict = context.predefined_names.get(parent)' or \
            not isinstance(wb[2], ast.If) or u(wb[2].test) != 'predefined_if_name_dict is not None' or wb[2].orelse:
        raise TieBroken(W + ': the body of the ancestor walk changed', '\n'.join(u(x) for x in wb)[:400])
    then = wb[2].body
    if [u(x) for x in then] == [RET_FRESH]:
        unconditional = True
    elif any(isinstance(x, ast.If) and [u(y) for y in x.body] == [RET_FRESH] for x in then):
        unconditional = False           # bypasses the cache only under a further test
    else:
        raise TieBroken(W + ': what happens when an ancestor has predefined names is not recognised',
                        '\n'.join(u(x) for x in then)[:400])
    g.define('cacheAncestorBypassUnconditional', 'Bool', lean_bool(unconditional),
             'jedi/inference/syntax_tree.py:_infer_node_if_inferred (`if predefined_if_name_dict is not None: '
             + RET_FRESH + '`, nothing else)')

    # ---- get_yield_lazy_values: every element of the sequence predefines the loop variable anew
    W = 'function.py:get_yield_lazy_values'
    fn = fv.find('BaseFunctionExecutionContext.get_yield_lazy_values')
    loops = [n for n in ast.walk(fn) if isinstance(n, ast.For) and u(n.target) == 'lazy_value' and u(n.iter) == 'ordered']
    if len(loops) != 1:
        raise TieBroken(W + ': `for lazy_value in ordered:` not found')
    lb = loops[0].body
    ok = len(lb) == 2 and u(lb[0]) == 'dct = {str(for_stmt.children[1].value): lazy_value.infer()}' and \
        isinstance(lb[1], ast.With) and len(lb[1].items) == 1 and \
        u(lb[1].items[0].context_expr) == 'self.predefine_names(for_stmt, dct)' and len(lb[1].body) == 1 and \
        isinstance(lb[1].body[0], ast.For) and u(lb[1].body[0].iter) == 'yields' and \
        [u(x) for x in lb[1].body[0].body] == ['yield from self._get_yield_lazy_value(%s)' % u(lb[1].body[0].target)]
    g.define('unrollPredefinesPerElement', 'Bool', lean_bool(ok),
             'jedi/inference/value/function.py:get_yield_lazy_values (for lazy_value in ordered: dct = {name: '
             'lazy_value.infer()}; with self.predefine_names(for_stmt, dct): every yield of that for)')
    joins = [n for n in ast.walk(fn) if isinstance(n, ast.If) and u(n.test) == 'for_stmt == last_for_stmt']
    ok = len(joins) == 1 and [u(x) for x in joins[0].body] == ['yields_order[-1][1].append(yield_)'] and \
        [u(x) for x in joins[0].orelse] == ['yields_order.append((for_stmt, [yield_]))']
    g.define('sameForYieldsJoin', 'Bool', lean_bool(ok),
             'jedi/inference/value/function.py:get_yield_lazy_values (yields of one for statement are collected '
             'into one group: yields_order[-1][1].append(yield_))')

    # ---- get_yield_lazy_values: how the yields are grouped, i.e. the ORDER of the element stream
    # (Model/YieldOrder.lean).  Two shapes are modelled: groups of yields that FOLLOW each other in one
    # for statement, every top-level yield a group of its own (list + last_for_stmt tracker), or an
    # insertion-ordered dict keyed by the for statement (None for top-level yields).
    texts = [u(n) for n in ast.walk(fn) if isinstance(n, (ast.Assign, ast.Expr))]
    emit_loops = [n for n in ast.walk(fn) if isinstance(n, ast.For) and u(n.target) == '(for_stmt, yields)']
    if len(emit_loops) != 1:
        raise TieBroken(W + ': `for for_stmt, yields in <groups>:` not found')
    over = u(emit_loops[0].iter)
    adjacent = ok and 'yields_order = []' in texts and 'last_for_stmt = None' in texts and \
        'last_for_stmt = for_stmt' in texts and 'yields_order.append((None, [yield_]))' in texts and \
        over == 'yields_order'
    keyed = 'yields_order = {}' in texts and 'yields_order.setdefault(for_stmt, []).append(yield_)' in texts and \
        'yields_order.setdefault(None, []).append(yield_)' in texts and over == 'yields_order.items()' and \
        not joins
    if adjacent == keyed:
        raise TieBroken(W + ': how the yields are grouped (yields_order) is not recognised',
                        '\n'.join(t for t in texts if 'yields_order' in t or 'last_for_stmt' in t)[:400])
    g.define('yieldGroupsKeyed', 'Bool', lean_bool(keyed),
             'jedi/inference/value/function.py:get_yield_lazy_values (false: yields_order is a list, a yield joins '
             'the last group only `if for_stmt == last_for_stmt`, top-level yields `yields_order.append((None, '
             '[yield_]))`; true: a dict, `yields_order.setdefault(<for_stmt or None>, []).append(yield_)`)')

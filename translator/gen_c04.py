"""C04: sort key components, dedup key, case-folding statements of filter_names, settings defaults, fingerprints."""
import ast
from translator.extract import Src, TieBroken, u, lean_list, lean_bool


def generate(repo, g):
    comp = Src(repo, 'jedi/api/completion.py')
    helpers = Src(repo, 'jedi/api/helpers.py')
    classes = Src(repo, 'jedi/api/classes.py')
    settings = Src(repo, 'jedi/settings.py')
    # sort key components of the `sorted(completions, key=lambda x: (...))` in Completion.complete
    fn = comp.find('Completion.complete')
    keys = [n for n in ast.walk(fn) if isinstance(n, ast.Call) and u(n.func) == 'sorted']
    if len(keys) != 1:
        raise TieBroken('completion.py: Completion.complete has %d sorted() calls' % len(keys))
    call = keys[0]
    kw = [k for k in call.keywords if k.arg == 'key']
    if not kw or not isinstance(kw[0].value, ast.Lambda) or any(k.arg == 'reverse' for k in call.keywords):
        raise TieBroken('completion.py: sorted() without key=lambda or with reverse', u(call))
    lam = kw[0].value
    arg = lam.args.args[0].arg
    body = lam.body
    elts = body.elts if isinstance(body, ast.Tuple) else [body]
    table = {
        'not %s.name.startswith(self._like_name)' % arg: 'not_startswith_like',
        "%s.name.startswith('__')" % arg: 'startswith_dunder',
        "%s.name.startswith('_')" % arg: 'startswith_under',
        '%s.name.lower()' % arg: 'lower',
    }
    comps = []
    for e in elts:
        s = u(e)
        if s not in table:
            raise TieBroken('completion.py: unknown sort key component', s)
        comps.append(table[s])
    g.define('sortKeyComponents', 'List String', lean_list(comps),
             'jedi/api/completion.py:Completion.complete sorted(key=lambda)')
    if u(call.args[0]) != 'completions':
        raise TieBroken('completion.py: sorted() no longer sorts `completions`', u(call))
    # dedup key of filter_names
    fn = comp.find('filter_names')
    ks = [n for n in ast.walk(fn) if isinstance(n, ast.Assign) and u(n.targets[0]) == 'k']
    if len(ks) != 1 or not isinstance(ks[0].value, ast.Tuple):
        raise TieBroken('completion.py: filter_names dedup key assignment not found')
    fields = []
    for e in ks[0].value.elts:
        if not (isinstance(e, ast.Attribute) and u(e.value) == 'new'):
            raise TieBroken('completion.py: dedup key element', u(e))
        fields.append(e.attr)
    g.define('dedupKeyFields', 'List String', lean_list(fields),
             'jedi/api/completion.py:filter_names k = (...)')
    # folding statements of filter_names:
    #   like_name_length = len(like_name)
    #   if settings.case_insensitive_completion: like_name = like_name.<m>()
    #   for name in completion_names: ... if settings.case_insensitive_completion: string = string.<m>()
    KNOWN_FOLDS = ('lower', 'casefold', 'upper')

    def fold_stmt(stmts, var, where):
        """index and method of `if settings.case_insensitive_completion: var = var.<m>()`"""
        hits = []
        for i, st in enumerate(stmts):
            if isinstance(st, ast.If) and u(st.test) == 'settings.case_insensitive_completion':
                if st.orelse or len(st.body) != 1 or not isinstance(st.body[0], ast.Assign):
                    raise TieBroken('completion.py: filter_names: unknown case-folding block', u(st))
                a = st.body[0]
                v = a.value
                if not (u(a.targets[0]) == var and isinstance(v, ast.Call) and not v.args and not v.keywords
                        and isinstance(v.func, ast.Attribute) and u(v.func.value) == var):
                    raise TieBroken('completion.py: filter_names: unknown case-folding assignment', u(a))
                if v.func.attr not in KNOWN_FOLDS:
                    raise TieBroken('completion.py: filter_names folds with an unknown str method', u(a))
                hits.append((i, v.func.attr))
        if len(hits) != 1:
            raise TieBroken('completion.py: filter_names: %d case-folding blocks for %s in %s'
                            % (len(hits), var, where))
        return hits[0]

    i_fold, m_like = fold_stmt(fn.body, 'like_name', 'the function body')
    loops = [st for st in fn.body if isinstance(st, ast.For)]
    if len(loops) != 1 or u(loops[0].iter) != 'completion_names':
        raise TieBroken('completion.py: filter_names: loop over completion_names not found')
    _i, m_name = fold_stmt(loops[0].body, 'string', 'the loop body')
    lens = [i for i, st in enumerate(fn.body) if isinstance(st, ast.Assign)
            and u(st.targets[0]) == 'like_name_length']
    if len(lens) != 1 or u(fn.body[lens[0]].value) != 'len(like_name)':
        raise TieBroken('completion.py: filter_names: like_name_length = len(like_name) not found')
    # every other use of a str case method in filter_names would be outside the model
    others = [u(n) for n in ast.walk(fn) if isinstance(n, ast.Attribute) and n.attr in KNOWN_FOLDS + ('swapcase', 'title', 'capitalize')]
    if len(others) != 2:
        raise TieBroken('completion.py: filter_names uses case methods outside the two folding statements', repr(others))
    g.define('foldLikeMethod', 'String', '"%s"' % m_like, 'jedi/api/completion.py:filter_names like_name = like_name.<m>()')
    g.define('foldNameMethod', 'String', '"%s"' % m_name, 'jedi/api/completion.py:filter_names string = string.<m>()')
    g.define('lengthBeforeFold', 'Bool', lean_bool(lens[0] < i_fold),
             'jedi/api/completion.py:filter_names like_name_length = len(like_name) stands before the fold')
    g.define('caseInsensitiveDefault', 'Bool', lean_bool(settings.const('case_insensitive_completion')),
             'jedi/settings.py')
    g.define('addBracketDefault', 'Bool', lean_bool(settings.const('add_bracket_after_function')),
             'jedi/settings.py')
    for s, d in [(helpers, '_start_match'), (helpers, '_fuzzy_match'), (helpers, 'match'),
                 (comp, 'filter_names'), (comp, '_remove_duplicates'), (comp, 'Completion.complete'),
                 (classes, 'Completion._complete'), (classes, 'Completion.complete'),
                 (classes, 'Completion.name_with_symbols'),
                 (classes, 'Completion.get_completion_prefix_length')]:
        g.fp(s, d)

"""C04: sort key components, dedup key, settings defaults, fingerprints."""
import ast
from translator.extract import Src, TieBroken, u, lean_list, lean_bool


def generate(repo, g):
    comp = Src(repo, 'jedi/api/completion.py')
    helpers = Src(repo, 'jedi/api/helpers.py')
    classes = Src(repo, 'jedi/api/classes.py')
    settings = Src(repo, 'jedi/settings.py')
    # sort key components of the `sorted(completions, key=lambda x: (...))` in Completion.complete
    fn = comp.find('Completion.complete')
    keys = [n for n in ast.walk(fn) if isinstance(n, ast.Call) and u(n.func) == 'sorted']
    if len(keys) != 1:
        raise TieBroken('completion.py: Completion.complete has %d sorted() calls' % len(keys))
    call = keys[0]
    kw = [k for k in call.keywords if k.arg == 'key']
    if not kw or not isinstance(kw[0].value, ast.Lambda) or any(k.arg == 'reverse' for k in call.keywords):
        raise TieBroken('completion.py: sorted() without key=lambda or with reverse', u(call))
    lam = kw[0].value
    arg = lam.args.args[0].arg
    body = lam.body
    elts = body.elts if isinstance(body, ast.Tuple) else [body]
    table = {
        'not %s.name.startswith(self._like_name)' % arg: 'not_startswith_like',
        "%s.name.startswith('__')" % arg: 'startswith_dunder',
        "%s.name.startswith('_')" % arg: 'startswith_under',
        '%s.name.lower()' % arg: 'lower',
    }
    comps = []
    for e in elts:
        s = u(e)
        if s not in table:
            raise TieBroken('completion.py: unknown sort key component', s)
        comps.append(table[s])
    g.define('sortKeyComponents', 'List String', lean_list(comps),
             'jedi/api/completion.py:Completion.complete sorted(key=lambda)')
    if u(call.args[0]) != 'completions':
        raise TieBroken('completion.py: sorted() no longer sorts `completions`', u(call))
    # dedup key of filter_names
    fn = comp.find('filter_names')
    ks = [n for n in ast.walk(fn) if isinstance(n, ast.Assign) and u(n.targets[0]) == 'k']
    if len(ks) != 1 or not isinstance(ks[0].value, ast.Tuple):
        raise TieBroken('completion.py: filter_names dedup key assignment not found')
    fields = []
    for e in ks[0].value.elts:
        if not (isinstance(e, ast.Attribute) and u(e.value) == 'new'):
            raise TieBroken('completion.py: dedup key element', u(e))
        fields.append(e.attr)
    g.define('dedupKeyFields', 'List String', lean_list(fields),
             'jedi/api/completion.py:filter_names k = (...)')
    g.define('caseInsensitiveDefault', 'Bool', lean_bool(settings.const('case_insensitive_completion')),
             'jedi/settings.py')
    g.define('addBracketDefault', 'Bool', lean_bool(settings.const('add_bracket_after_function')),
             'jedi/settings.py')
    for s, d in [(helpers, '_start_match'), (helpers, '_fuzzy_match'), (helpers, 'match'),
                 (comp, 'filter_names'), (comp, '_remove_duplicates'), (comp, 'Completion.complete'),
                 (classes, 'Completion._complete'), (classes, 'Completion.complete'),
                 (classes, 'Completion.name_with_symbols'),
                 (classes, 'Completion.get_completion_prefix_length')]:
        g.fp(s, d)

"""C09: how imported module files are parsed and where the module cache lives.

  cfg.cache / cfg.diff      keywords of the inference_state.parse(...) call in imports._load_python_module
  cfg.modCachePerScript     InferenceState.__init__ assigns self.module_cache = imports.ModuleCache()
                            and Script.__init__ builds its own InferenceState
  memRevalidation / pickleRevalidation
                            the two comparisons of parso's cache.py (the dependency as installed):
                            `p_time <= module_cache_item.change_time`, `p_time > os.path.getmtime(cache_path)`
  cfg.stubListingCached     typeshed._create_stub_map / _merge_create_stub_map (the os.listdir based map
                            "name -> .pyi" that _load_from_typeshed builds for the directory of a *project
                            package* on every sub-module import) carry a memoising decorator
                            (functools.lru_cache / cache, jedi's own *cache* decorators).  No decorator:
                            false.  Props/C09 `stub_listing_fresh` is proved from `cfg.stubListingCached = false`,
                            so adding such a decorator breaks the build.
  cfg.stampIsFsMtime        WHICH time the cache layers compare: every `get_last_modified` reachable from
                            `_load_python_module` / `parse_stub_module` - the classes of jedi/file_io.py
                            (FileIO, KnownContentFileIO, ZipFileIO; the helper's `_from_loader` and typeshed
                            construct exactly these) and the parso classes they inherit from (as installed).
                            Every implementation must be recognised as returning `os.path.getmtime(<path>)`
                            (or the equal `os.stat(<path>).st_mtime`, `super().get_last_modified()`, `None`
                            in an `except` branch): true.  A recognised whole-second reading
                            (`os.stat(p)[stat.ST_MTIME]`, `os.stat(p)[8]`, `int(...)`, `... // 1`,
                            `math.floor/trunc`, `round`, `st_mtime_ns // 10**9`): false - the model then
                            truncates the stamp and `Props.C09.load_fresh_partial` (proved from
                            `cfg.stampIsFsMtime = true` by `rfl`) no longer builds.  Anything else
                            (a decorator, another path, arithmetic, a monkey-patched attribute): TieBroken.
"""
import ast
import importlib.util
import os
from translator.extract import Src, TieBroken, u, lean_bool, lean_str, lean_list


MEMO_NAMES = {'lru_cache', 'cache', 'cached_property', 'memoize_method', 'time_cache', 'signature_time_cache',
              '_memoize_default', 'inference_state_function_cache', 'inference_state_method_cache',
              'inference_state_as_method_param_cache', 'inference_state_method_generator_cache', 'memoize'}


def _helper_state(fns):
    """What the helper-side module jedi/inference/compiled/subprocess/functions.py can REMEMBER between two requests
    of the long-lived helper process: module-level containers, `global` statements, memo decorators, mutable
    default arguments, attributes hung on functions.  importlib's own caches are outside (finding
    C09-finder-stale-directory-listing).  Returns a list of descriptions; [] = the module is stateless."""
    out = []
    mutable = (ast.Dict, ast.List, ast.Set, ast.DictComp, ast.ListComp, ast.SetComp)
    factories = {'dict', 'list', 'set', 'OrderedDict', 'defaultdict', 'deque', 'WeakKeyDictionary',
                 'WeakValueDictionary', 'collections.OrderedDict', 'collections.defaultdict', 'collections.deque',
                 'weakref.WeakKeyDictionary', 'weakref.WeakValueDictionary'}

    def is_container(v):
        return isinstance(v, mutable) or (isinstance(v, ast.Call) and u(v.func) in factories)
    for n in fns.tree.body:
        if isinstance(n, (ast.Assign, ast.AnnAssign)) and n.value is not None and is_container(n.value):
            out.append('module-level container: ' + u(n)[:80])
        if isinstance(n, ast.Assign) and any(isinstance(t, ast.Attribute) for t in n.targets):
            out.append('attribute assigned at module level: ' + u(n)[:80])
    for n in ast.walk(fns.tree):
        if isinstance(n, (ast.Global, ast.Nonlocal)):
            out.append('%s statement: %s' % (type(n).__name__.lower(), u(n)))
        if isinstance(n, (ast.FunctionDef, ast.AsyncFunctionDef)):
            for d in n.decorator_list:
                d = d.func if isinstance(d, ast.Call) else d
                if u(d).split('.')[-1] in MEMO_NAMES:
                    out.append('memo decorator on %s: %s' % (n.name, u(d)))
            for dflt in list(n.args.defaults) + [d for d in n.args.kw_defaults if d is not None]:
                if is_container(dflt):
                    out.append('mutable default argument of %s: %s' % (n.name, u(dflt)))
            names = {x.name for x in ast.walk(fns.tree) if isinstance(x, (ast.FunctionDef, ast.AsyncFunctionDef))}
            for a in ast.walk(n):
                if isinstance(a, (ast.Assign, ast.AugAssign)):
                    for t in (a.targets if isinstance(a, ast.Assign) else [a.target]):
                        if isinstance(t, ast.Attribute) and isinstance(t.value, ast.Name) and t.value.id in names:
                            out.append('attribute hung on a function in %s: %s' % (n.name, u(a)[:80]))
                        if isinstance(t, ast.Subscript) and isinstance(t.value, ast.Name) and t.value.id.isupper():
                            out.append('write into a module constant in %s: %s' % (n.name, u(a)[:80]))
    return sorted(set(out))


def generate(repo, g):
    imports = Src(repo, 'jedi/inference/imports.py')
    inf = Src(repo, 'jedi/inference/__init__.py')
    api = Src(repo, 'jedi/api/__init__.py')
    settings = Src(repo, 'jedi/settings.py')
    fn = imports.find('_load_python_module')
    calls = [n for n in ast.walk(fn) if isinstance(n, ast.Call) and u(n.func) == 'inference_state.parse']
    if len(calls) != 1:
        raise TieBroken('imports._load_python_module: inference_state.parse calls', str(len(calls)))
    kw = {k.arg: u(k.value) for k in calls[0].keywords}

    def flag(expr, what):
        if expr in ('True', 'False'):
            return expr == 'True'
        if expr and expr.startswith('settings.'):
            v = settings.const(expr.split('.', 1)[1])
            if isinstance(v, bool):
                return v
        raise TieBroken('imports._load_python_module: %s=%r' % (what, expr))
    cache = flag(kw.get('cache', 'False'), 'cache')
    diff = flag(kw.get('diff_cache', 'False'), 'diff_cache')
    if kw.get('file_io') != 'file_io':
        raise TieBroken('imports._load_python_module: file_io=', repr(kw))
    if cache and kw.get('cache_path') != 'settings.cache_directory':
        raise TieBroken('imports._load_python_module: cache_path=', repr(kw.get('cache_path')))
    isi = inf.find('InferenceState.__init__')
    mc = [u(n.value) for n in ast.walk(isi) if isinstance(n, ast.Assign) and u(n.targets[0]) == 'self.module_cache']
    sinit = api.find('Script.__init__')
    makes_state = [n for n in ast.walk(sinit) if isinstance(n, ast.Assign)
                   and u(n.targets[0]) == 'self._inference_state' and isinstance(n.value, ast.Call)
                   and u(n.value.func) == 'InferenceState']
    if mc == ['imports.ModuleCache()'] and len(makes_state) == 1:
        per_script = True
    elif mc == []:
        per_script = False
    else:
        raise TieBroken('InferenceState.__init__: self.module_cache =', repr(mc))
    typeshed = Src(repo, 'jedi/inference/gradual/typeshed.py')
    listing_cached = _stub_listing_cached(typeshed)
    fileio = Src(repo, 'jedi/file_io.py')
    fns = Src(repo, 'jedi/inference/compiled/subprocess/functions.py')
    stamp_full = _stamp_is_fs_mtime(fileio, fns, typeshed, inf)
    g.define('helperModuleState', 'List String', lean_list(_helper_state(fns)),
             'jedi/inference/compiled/subprocess/functions.py: everything the module could remember between two '
             'requests of the long-lived helper (module-level containers, global statements, memo decorators, mutable '
             'default arguments, attributes on functions)')
    g.define('cfg', 'JediModel.DiskCache.Cfg',
             '{ cache := %s, diff := %s, modCachePerScript := %s, stubListingCached := %s, '
             'stampIsFsMtime := %s }' % (
                 lean_bool(cache), lean_bool(diff), lean_bool(per_script), lean_bool(listing_cached),
                 lean_bool(stamp_full)),
             'imports._load_python_module, InferenceState.__init__, Script.__init__, settings.fast_parser, '
             'typeshed._create_stub_map/_merge_create_stub_map decorators, get_last_modified of every class in '
             'jedi/file_io.py and of parso/file_io.py (installed)')
    g.lines.insert(1, 'import JediModel.Model.DiskCache')
    g.lines.insert(2, 'import JediModel.Model.NsPath')
    module = Src(repo, 'jedi/inference/value/module.py')
    g.define('nsCfg', 'JediModel.NsPath.Cfg', '{ filterIsdir := %s }' % lean_bool(_ns_filter_isdir(module)),
             'jedi/inference/value/module.py: ModuleValue.py__path__ - the candidate directories '
             'os.path.join(s, name) of a pkgutil / pkg_resources namespace package are kept only if os.path.isdir')
    g.fp(module, 'ModuleValue.py__path__')

    # ---- the dependency: parso's revalidation predicates (as installed; not part of /repo)
    spec = importlib.util.find_spec('parso')
    if spec is None or not spec.origin:
        raise TieBroken('parso not importable')
    ppath = os.path.join(os.path.dirname(spec.origin), 'cache.py')
    with open(ppath, encoding='utf-8') as f:
        ptree = ast.parse(f.read())
    funcs = {n.name: n for n in ptree.body if isinstance(n, ast.FunctionDef)}
    lm = funcs.get('load_module')
    lf = funcs.get('_load_from_file_system')
    if lm is None or lf is None:
        raise TieBroken('parso/cache.py: load_module / _load_from_file_system missing')
    mem_tests = [u(n.test) for n in ast.walk(lm) if isinstance(n, ast.If)
                 and 'change_time' in u(n.test)]
    pk_tests = [u(n.test) for n in ast.walk(lf) if isinstance(n, ast.If) and 'getmtime' in u(n.test)]
    if mem_tests != ['p_time <= module_cache_item.change_time']:
        raise TieBroken('parso load_module: revalidation test', repr(mem_tests))
    if pk_tests != ['p_time > os.path.getmtime(cache_path)']:
        raise TieBroken('parso _load_from_file_system: outdated test', repr(pk_tests))
    g.define('memRevalidation', 'String', lean_str(mem_tests[0]), 'parso/cache.py:load_module (installed dependency)')
    g.define('pickleOutdated', 'String', lean_str(pk_tests[0]), 'parso/cache.py:_load_from_file_system (installed dependency)')
    for s, d in [(imports, '_load_python_module'), (imports, 'import_module'), (imports, 'import_module_by_names'),
                 (imports, 'ModuleCache'), (inf, 'InferenceState.__init__'), (inf, 'InferenceState.parse_and_get_code')]:
        g.fp(s, d)
    for d in ['_create_stub_map', '_merge_create_stub_map', '_load_from_typeshed', '_try_to_load_stub',
              '_try_to_load_stub_from_file', 'parse_stub_module', 'try_to_load_stub_cached']:
        g.fp(typeshed, d)
    for d in ['get_module_info', '_find_module', '_find_module_py33', '_from_loader']:
        g.fp(fns, d)
    for d in ['FileIO', 'KnownContentFileIO', 'ZipFileIO', 'FileIOFolderMixin', 'FolderIO', 'AbstractFolderIO']:
        g.fp(fileio, d)


def _ns_filter_isdir(module):
    """ModuleValue.py__path__: exactly one iteration over `self.inference_state.get_sys_path()`; every directory
    it contributes is `os.path.join(s, <name>)`.  True: it is contributed only under `if os.path.isdir(<that>)`
    (for-loop with an `if`, or a comprehension with that condition); False: contributed unconditionally;
    anything else: TieBroken."""
    fn = module.find('ModuleValue.py__path__')
    where = 'module.ModuleValue.py__path__'
    markers = [n.value for n in ast.walk(fn) if isinstance(n, ast.Constant) and isinstance(n.value, str)]
    if 'declare_namespace(__name__)' not in markers or 'extend_path(__path__' not in markers:
        raise TieBroken(where + ': namespace boilerplate markers', repr(markers)[:200])
    its = []
    for n in ast.walk(fn):
        if isinstance(n, ast.For) and 'get_sys_path()' in u(n.iter):
            its.append(n)
        if isinstance(n, (ast.ListComp, ast.SetComp, ast.GeneratorExp, ast.DictComp)):
            if any('get_sys_path()' in u(c.iter) for c in n.generators):
                its.append(n)
    if len(its) != 1 or 'get_sys_path()' not in u(fn):
        raise TieBroken(where + ': iterations over get_sys_path()', str(len(its)))
    it = its[0]

    def is_join(e, var):
        return (isinstance(e, ast.Call) and u(e.func) == 'os.path.join' and len(e.args) == 2
                and u(e.args[0]) == var)
    if isinstance(it, ast.For):
        if u(it.iter) != 'self.inference_state.get_sys_path()' or not isinstance(it.target, ast.Name) or it.orelse:
            raise TieBroken(where + ': for over the sys path', u(it)[:200])
        var = it.target.id
        body = list(it.body)
        if not (body and isinstance(body[0], ast.Assign) and len(body[0].targets) == 1
                and isinstance(body[0].targets[0], ast.Name) and is_join(body[0].value, var)):
            raise TieBroken(where + ': first statement of the loop is not `other = os.path.join(s, name)`',
                            u(it)[:200])
        other = body[0].targets[0].id
        adds = ('paths.add(%s)' % other, 'paths.append(%s)' % other)
        if len(body) == 2 and isinstance(body[1], ast.If) and not body[1].orelse \
                and u(body[1].test) == 'os.path.isdir(%s)' % other \
                and len(body[1].body) == 1 and u(body[1].body[0]) in adds:
            return True
        if len(body) == 2 and u(body[1]) in adds:
            return False
        raise TieBroken(where + ': loop body', u(it)[:300])
    gens = it.generators
    if len(gens) != 1 or u(gens[0].iter) != 'self.inference_state.get_sys_path()' \
            or not isinstance(gens[0].target, ast.Name) or isinstance(it, ast.DictComp):
        raise TieBroken(where + ': comprehension over the sys path', u(it)[:200])
    var = gens[0].target.id
    if not is_join(it.elt, var):
        raise TieBroken(where + ': comprehension element is not os.path.join(s, name)', u(it.elt))
    conds = [u(c) for c in gens[0].ifs]
    if conds == []:
        return False
    if conds == ['os.path.isdir(%s)' % u(it.elt)]:
        return True
    raise TieBroken(where + ': comprehension condition', repr(conds))


_MEMO_WORDS = ('cache', 'memo')


def _stub_listing_cached(typeshed):
    """the shape of the stub-directory-listing layer:
      _load_from_typeshed: `map_ = _merge_create_stub_map([PathInfo(p, ...) for p in paths])` in the
          sub-module branch (a fresh call per lookup, not a module-level table),
      _merge_create_stub_map: `map_.update(_create_stub_map(directory_path_info))`,
      _create_stub_map: calls os.listdir itself.
    Returns whether one of the two functions is memoised by a decorator."""
    lft = typeshed.find('_load_from_typeshed')
    merge = typeshed.find('_merge_create_stub_map')
    create = typeshed.find('_create_stub_map')
    calls = [n for n in ast.walk(lft) if isinstance(n, ast.Call) and u(n.func) == '_merge_create_stub_map']
    if len(calls) != 1 or 'py__path__' not in u(lft) or 'PathInfo(p' not in u(calls[0]):
        raise TieBroken('typeshed._load_from_typeshed: _merge_create_stub_map call for the package paths',
                        repr([u(c) for c in calls]))
    if not any(isinstance(n, ast.Call) and u(n.func) == '_create_stub_map' for n in ast.walk(merge)):
        raise TieBroken('typeshed._merge_create_stub_map: no call of _create_stub_map')
    if not any(isinstance(n, ast.Call) and u(n.func) == 'os.listdir' for n in ast.walk(create)):
        raise TieBroken('typeshed._create_stub_map: no os.listdir call')
    cached = False
    for fn in (merge, create):
        for dec in fn.decorator_list:
            text = u(dec).lower()
            if any(w in text for w in _MEMO_WORDS):
                cached = True
            else:
                raise TieBroken('typeshed.%s: unknown decorator' % fn.name, u(dec))
    # a hand-written memo: the function consults / fills a module-level table
    for fn in (merge, create):
        for n in ast.walk(fn):
            if isinstance(n, ast.Global):
                raise TieBroken('typeshed.%s: global statement (hand-written memo?)' % fn.name, u(n))
    return cached


# ---------------------------------------------------------------- which time a FileIO reports

_EXPECTED_BASES = {
    'FileIO': ['file_io.FileIO', 'FileIOFolderMixin'],
    'KnownContentFileIO': ['file_io.KnownContentFileIO', 'FileIOFolderMixin'],
    'ZipFileIO': ['file_io.KnownContentFileIO', 'FileIOFolderMixin'],
}
_PATHS = {'ZipFileIO': ('self.path', 'self._zip_path')}
_ERRS = {'FileNotFoundError', 'PermissionError', 'NotADirectoryError', 'OSError'}


def _classify_stamp(expr, env, paths, where, depth=0):
    """'full' (the file system's mtime as os.path.getmtime gives it), 'trunc' (whole seconds) or 'none'"""
    if depth > 6:
        raise TieBroken(where + ': stamp expression too deep', u(expr))
    if isinstance(expr, ast.Name) and expr.id in env:
        return _classify_stamp(env[expr.id], env, paths, where, depth + 1)
    text = u(expr)

    def is_path(e):
        if isinstance(e, ast.Name) and e.id in env:
            return is_path(env[e.id])
        t = u(e)
        return t in paths or t in ['str(%s)' % p for p in paths]

    def is_stat(e):
        if isinstance(e, ast.Name) and e.id in env:
            return is_stat(env[e.id])
        return (isinstance(e, ast.Call) and u(e.func) in ('os.stat', 'os.lstat') and len(e.args) == 1
                and not e.keywords and is_path(e.args[0]))
    if isinstance(expr, ast.Constant) and expr.value is None:
        return 'none'
    if text == 'super().get_last_modified()':
        return 'full'                                  # the parso implementation, checked separately
    if isinstance(expr, ast.Call) and u(expr.func) == 'os.path.getmtime' and len(expr.args) == 1 \
            and not expr.keywords and is_path(expr.args[0]):
        return 'full'
    if isinstance(expr, ast.Attribute) and expr.attr == 'st_mtime' and is_stat(expr.value):
        return 'full'
    if isinstance(expr, ast.Subscript) and is_stat(expr.value) and u(expr.slice) in ('stat.ST_MTIME', 'ST_MTIME', '8'):
        return 'trunc'                                 # the tuple interface of os.stat_result: int seconds
    if isinstance(expr, ast.Call) and u(expr.func) in ('int', 'round', 'math.floor', 'math.trunc') \
            and len(expr.args) == 1 and not expr.keywords:
        if _classify_stamp(expr.args[0], env, paths, where, depth + 1) in ('full', 'trunc'):
            return 'trunc'
    if isinstance(expr, ast.BinOp) and isinstance(expr.op, ast.FloorDiv):
        if u(expr.right) == '1' and _classify_stamp(expr.left, env, paths, where, depth + 1) in ('full', 'trunc'):
            return 'trunc'
        if isinstance(expr.left, ast.Attribute) and expr.left.attr == 'st_mtime_ns' and is_stat(expr.left.value) \
                and u(expr.right) in ('10 ** 9', '1000000000'):
            return 'trunc'
    if isinstance(expr, ast.IfExp):
        kinds = {_classify_stamp(e, env, paths, where, depth + 1) for e in (expr.body, expr.orelse)}
        return 'trunc' if 'trunc' in kinds else 'full' if 'full' in kinds else 'none'
    raise TieBroken(where + ': unrecognised time stamp expression', text)


def _method_stamp(fn, paths, where):
    """resolution of what one get_last_modified implementation returns"""
    if fn.decorator_list:
        raise TieBroken(where + ': decorated (memoised time stamp?)', u(fn.decorator_list[0]))
    if [a.arg for a in fn.args.args] != ['self'] or fn.args.vararg or fn.args.kwarg or fn.args.kwonlyargs:
        raise TieBroken(where + ': signature', u(fn.args))
    env = {}
    rets = []
    for n in ast.walk(fn):
        if isinstance(n, ast.Assign):
            if len(n.targets) != 1 or not isinstance(n.targets[0], ast.Name) or n.targets[0].id in env:
                raise TieBroken(where + ': assignment shape', u(n))
            env[n.targets[0].id] = n.value
        elif isinstance(n, ast.Return):
            rets.append(n.value if n.value is not None else ast.Constant(None))
        elif isinstance(n, ast.ExceptHandler):
            names = [u(e) for e in (n.type.elts if isinstance(n.type, ast.Tuple) else [n.type])] if n.type else ['*']
            if not set(names) <= _ERRS:
                raise TieBroken(where + ': except clause', repr(names))
        elif isinstance(n, (ast.AugAssign, ast.AnnAssign, ast.Global, ast.Nonlocal, ast.With, ast.For, ast.While,
                            ast.Yield, ast.YieldFrom, ast.Lambda, ast.FunctionDef)) and n is not fn:
            raise TieBroken(where + ': statement outside the modelled shape', u(n)[:200])
    if not rets:
        raise TieBroken(where + ': no return statement')
    kinds = {_classify_stamp(r, env, paths, where) for r in rets}
    if kinds == {'none'}:
        raise TieBroken(where + ': never returns a time stamp (nothing is cached)')
    return 'trunc' if 'trunc' in kinds else 'full'


def _stamp_is_fs_mtime(fileio, fns, typeshed, inf):
    # who builds the FileIO handed to the parser for imported modules / stubs / load_module_from_path
    def imported_from_file_io(src, names):
        got = set()
        for n in src.tree.body:
            if isinstance(n, ast.ImportFrom) and n.module == 'jedi.file_io' and n.level == 0:
                got |= {a.name for a in n.names if a.asname is None}
        if not set(names) <= got:
            raise TieBroken('%s: %s not imported from jedi.file_io' % (src.rel, sorted(set(names) - got)))
    imported_from_file_io(fns, ['KnownContentFileIO', 'ZipFileIO'])
    imported_from_file_io(typeshed, ['FileIO'])
    imported_from_file_io(inf, ['FileIO'])
    fl = fns.find('_from_loader')
    made = sorted({u(n.func) for n in ast.walk(fl) if isinstance(n, ast.Call) and u(n.func).endswith('FileIO')})
    if made != ['KnownContentFileIO', 'ZipFileIO']:
        raise TieBroken('functions._from_loader: FileIO classes constructed', repr(made))
    if not any(isinstance(n, ast.ImportFrom) and n.module == 'parso' and [a.name for a in n.names] == ['file_io']
               and n.names[0].asname is None for n in fileio.tree.body):
        raise TieBroken('jedi/file_io.py: `from parso import file_io` missing')
    # no patching of the method from outside a class body
    for n in ast.walk(fileio.tree):
        if isinstance(n, (ast.Assign, ast.AugAssign, ast.AnnAssign)):
            for t in (n.targets if isinstance(n, ast.Assign) else [n.target]):
                if 'get_last_modified' in u(t):
                    raise TieBroken('jedi/file_io.py: get_last_modified assigned', u(n))
        if isinstance(n, ast.Call) and u(n.func) == 'setattr':
            raise TieBroken('jedi/file_io.py: setattr', u(n))
    kinds = []
    classes = {n.name: n for n in fileio.tree.body if isinstance(n, ast.ClassDef)}
    for name, bases in _EXPECTED_BASES.items():
        if name not in classes:
            raise TieBroken('jedi/file_io.py: class %s missing' % name)
        if [u(b) for b in classes[name].bases] != bases or classes[name].keywords or classes[name].decorator_list:
            raise TieBroken('jedi/file_io.py: bases of %s' % name, repr([u(b) for b in classes[name].bases]))
    for cls in [n for n in ast.walk(fileio.tree) if isinstance(n, ast.ClassDef)]:
        for item in ast.walk(cls):
            if isinstance(item, (ast.FunctionDef, ast.AsyncFunctionDef)) and item.name == 'get_last_modified':
                if item not in cls.body or isinstance(item, ast.AsyncFunctionDef):
                    raise TieBroken('jedi/file_io.py: %s.get_last_modified is not a plain method' % cls.name)
                kinds.append(_method_stamp(item, _PATHS.get(cls.name, ('self.path',)),
                                           'jedi/file_io.py:%s.get_last_modified' % cls.name))
    for n in fileio.tree.body:
        if isinstance(n, (ast.FunctionDef, ast.AsyncFunctionDef)) and n.name == 'get_last_modified':
            raise TieBroken('jedi/file_io.py: module-level get_last_modified')
    # the inherited implementation: parso as installed
    spec = importlib.util.find_spec('parso')
    if spec is None or not spec.origin:
        raise TieBroken('parso not importable')
    with open(os.path.join(os.path.dirname(spec.origin), 'file_io.py'), encoding='utf-8') as f:
        ptree = ast.parse(f.read())
    pclasses = {n.name: n for n in ptree.body if isinstance(n, ast.ClassDef)}
    if set(pclasses) != {'FileIO', 'KnownContentFileIO'} or [u(b) for b in pclasses['KnownContentFileIO'].bases] != ['FileIO']:
        raise TieBroken('parso/file_io.py: classes', repr(sorted(pclasses)))
    pm = [(c.name, n) for c in pclasses.values() for n in c.body
          if isinstance(n, ast.FunctionDef) and n.name == 'get_last_modified']
    if [c for c, _ in pm] != ['FileIO']:
        raise TieBroken('parso/file_io.py: get_last_modified defined in', repr([c for c, _ in pm]))
    kinds.append(_method_stamp(pm[0][1], ('self.path',), 'parso/file_io.py:FileIO.get_last_modified'))
    return 'trunc' not in kinds

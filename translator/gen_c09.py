"""C09: how imported module files are parsed and where the module cache lives.

  cfg.cache / cfg.diff      keywords of the inference_state.parse(...) call in imports._load_python_module
  cfg.modCachePerScript     InferenceState.__init__ assigns self.module_cache = imports.ModuleCache()
                            and Script.__init__ builds its own InferenceState
  memRevalidation / pickleRevalidation
                            the two comparisons of parso's cache.py (the dependency as installed):
                            `p_time <= module_cache_item.change_time`, `p_time > os.path.getmtime(cache_path)`
  cfg.stubListingCached     typeshed._create_stub_map / _merge_create_stub_map (the os.listdir based map
                            "name -> .pyi" that _load_from_typeshed builds for the directory of a *project
                            package* on every sub-module import) carry a memoising decorator
                            (functools.lru_cache / cache, jedi's own *cache* decorators).  No decorator:
                            false.  Props/C09 `stub_listing_fresh` is proved from `cfg.stubListingCached = false`,
                            so adding such a decorator breaks the build.
"""
import ast
import importlib.util
import os
from translator.extract import Src, TieBroken, u, lean_bool, lean_str


def generate(repo, g):
    imports = Src(repo, 'jedi/inference/imports.py')
    inf = Src(repo, 'jedi/inference/__init__.py')
    api = Src(repo, 'jedi/api/__init__.py')
    settings = Src(repo, 'jedi/settings.py')
    fn = imports.find('_load_python_module')
    calls = [n for n in ast.walk(fn) if isinstance(n, ast.Call) and u(n.func) == 'inference_state.parse']
    if len(calls) != 1:
        raise TieBroken('imports._load_python_module: inference_state.parse calls', str(len(calls)))
    kw = {k.arg: u(k.value) for k in calls[0].keywords}

    def flag(expr, what):
        if expr in ('True', 'False'):
            return expr == 'True'
        if expr and expr.startswith('settings.'):
            v = settings.const(expr.split('.', 1)[1])
            if isinstance(v, bool):
                return v
        raise TieBroken('imports._load_python_module: %s=%r' % (what, expr))
    cache = flag(kw.get('cache', 'False'), 'cache')
    diff = flag(kw.get('diff_cache', 'False'), 'diff_cache')
    if kw.get('file_io') != 'file_io':
        raise TieBroken('imports._load_python_module: file_io=', repr(kw))
    if cache and kw.get('cache_path') != 'settings.cache_directory':
        raise TieBroken('imports._load_python_module: cache_path=', repr(kw.get('cache_path')))
    isi = inf.find('InferenceState.__init__')
    mc = [u(n.value) for n in ast.walk(isi) if isinstance(n, ast.Assign) and u(n.targets[0]) == 'self.module_cache']
    sinit = api.find('Script.__init__')
    makes_state = [n for n in ast.walk(sinit) if isinstance(n, ast.Assign)
                   and u(n.targets[0]) == 'self._inference_state' and isinstance(n.value, ast.Call)
                   and u(n.value.func) == 'InferenceState']
    if mc == ['imports.ModuleCache()'] and len(makes_state) == 1:
        per_script = True
    elif mc == []:
        per_script = False
    else:
        raise TieBroken('InferenceState.__init__: self.module_cache =', repr(mc))
    typeshed = Src(repo, 'jedi/inference/gradual/typeshed.py')
    listing_cached = _stub_listing_cached(typeshed)
    g.define('cfg', 'JediModel.DiskCache.Cfg',
             '{ cache := %s, diff := %s, modCachePerScript := %s, stubListingCached := %s }' % (
                 lean_bool(cache), lean_bool(diff), lean_bool(per_script), lean_bool(listing_cached)),
             'imports._load_python_module, InferenceState.__init__, Script.__init__, settings.fast_parser, '
             'typeshed._create_stub_map/_merge_create_stub_map decorators')
    g.lines.insert(1, 'import JediModel.Model.DiskCache')

    # ---- the dependency: parso's revalidation predicates (as installed; not part of /repo)
    spec = importlib.util.find_spec('parso')
    if spec is None or not spec.origin:
        raise TieBroken('parso not importable')
    ppath = os.path.join(os.path.dirname(spec.origin), 'cache.py')
    with open(ppath, encoding='utf-8') as f:
        ptree = ast.parse(f.read())
    funcs = {n.name: n for n in ptree.body if isinstance(n, ast.FunctionDef)}
    lm = funcs.get('load_module')
    lf = funcs.get('_load_from_file_system')
    if lm is None or lf is None:
        raise TieBroken('parso/cache.py: load_module / _load_from_file_system missing')
    mem_tests = [u(n.test) for n in ast.walk(lm) if isinstance(n, ast.If)
                 and 'change_time' in u(n.test)]
    pk_tests = [u(n.test) for n in ast.walk(lf) if isinstance(n, ast.If) and 'getmtime' in u(n.test)]
    if mem_tests != ['p_time <= module_cache_item.change_time']:
        raise TieBroken('parso load_module: revalidation test', repr(mem_tests))
    if pk_tests != ['p_time > os.path.getmtime(cache_path)']:
        raise TieBroken('parso _load_from_file_system: outdated test', repr(pk_tests))
    g.define('memRevalidation', 'String', lean_str(mem_tests[0]), 'parso/cache.py:load_module (installed dependency)')
    g.define('pickleOutdated', 'String', lean_str(pk_tests[0]), 'parso/cache.py:_load_from_file_system (installed dependency)')
    for s, d in [(imports, '_load_python_module'), (imports, 'import_module'), (imports, 'import_module_by_names'),
                 (imports, 'ModuleCache'), (inf, 'InferenceState.__init__'), (inf, 'InferenceState.parse_and_get_code')]:
        g.fp(s, d)
    for d in ['_create_stub_map', '_merge_create_stub_map', '_load_from_typeshed', '_try_to_load_stub',
              '_try_to_load_stub_from_file', 'parse_stub_module', 'try_to_load_stub_cached']:
        g.fp(typeshed, d)
    fns = Src(repo, 'jedi/inference/compiled/subprocess/functions.py')
    for d in ['get_module_info', '_find_module', '_find_module_py33', '_from_loader']:
        g.fp(fns, d)


_MEMO_WORDS = ('cache', 'memo')


def _stub_listing_cached(typeshed):
    """the shape of the stub-directory-listing layer:
      _load_from_typeshed: `map_ = _merge_create_stub_map([PathInfo(p, ...) for p in paths])` in the
          sub-module branch (a fresh call per lookup, not a module-level table),
      _merge_create_stub_map: `map_.update(_create_stub_map(directory_path_info))`,
      _create_stub_map: calls os.listdir itself.
    Returns whether one of the two functions is memoised by a decorator."""
    lft = typeshed.find('_load_from_typeshed')
    merge = typeshed.find('_merge_create_stub_map')
    create = typeshed.find('_create_stub_map')
    calls = [n for n in ast.walk(lft) if isinstance(n, ast.Call) and u(n.func) == '_merge_create_stub_map']
    if len(calls) != 1 or 'py__path__' not in u(lft) or 'PathInfo(p' not in u(calls[0]):
        raise TieBroken('typeshed._load_from_typeshed: _merge_create_stub_map call for the package paths',
                        repr([u(c) for c in calls]))
    if not any(isinstance(n, ast.Call) and u(n.func) == '_create_stub_map' for n in ast.walk(merge)):
        raise TieBroken('typeshed._merge_create_stub_map: no call of _create_stub_map')
    if not any(isinstance(n, ast.Call) and u(n.func) == 'os.listdir' for n in ast.walk(create)):
        raise TieBroken('typeshed._create_stub_map: no os.listdir call')
    cached = False
    for fn in (merge, create):
        for dec in fn.decorator_list:
            text = u(dec).lower()
            if any(w in text for w in _MEMO_WORDS):
                cached = True
            else:
                raise TieBroken('typeshed.%s: unknown decorator' % fn.name, u(dec))
    # a hand-written memo: the function consults / fills a module-level table
    for fn in (merge, create):
        for n in ast.walk(fn):
            if isinstance(n, ast.Global):
                raise TieBroken('typeshed.%s: global statement (hand-written memo?)' % fn.name, u(n))
    return cached

"""C03: the comp_for branch of TreeContextMixin.create_context (which context a node of a
comprehension gets): the comparison operator and its two operands, the two return values."""
import ast
from translator.extract import Src, TieBroken, u, lean_list, lean_str

# values of the unchanged source: used when the source lost its expected shape, so that the Lean
# side still builds (against the model of the unchanged code); the tie is reported.
EXPECTED = [
    ('compForTypes', 'List String', lean_list(['comp_for', 'sync_comp_for'])),
    ('compIterCmp', 'String', '">="'),
    ('compIterLeft', 'String', lean_str('node.start_pos')),
    ('compIterRight', 'String', lean_str('scope_node.children[-1].start_pos')),
    ('compIterThen', 'String', '"parent"'),
    ('compIterElse', 'String', '"comp"'),
]

OPS = {ast.GtE: '>=', ast.Gt: '>', ast.LtE: '<=', ast.Lt: '<', ast.Eq: '==', ast.NotEq: '!='}


def generate(repo, g):
    import os
    from translator.extract import GEN_DIR, write_if_changed
    defined = set()
    orig_define = g.define

    def define(name, typ, value, source):
        defined.add(name)
        orig_define(name, typ, value, source)
    g.define = define
    try:
        _generate(repo, g)
    except TieBroken:
        for name, typ, value in EXPECTED:
            if name not in defined:
                orig_define(name, typ, value, 'FALLBACK (source shape not recognised): value of the unchanged code')
        write_if_changed(os.path.join(GEN_DIR, g.pid + '.lean'), g.text())
        raise
    finally:
        g.define = orig_define


def _generate(repo, g):
    src = Src(repo, 'jedi/inference/context.py')
    where = 'jedi/inference/context.py:TreeContextMixin.create_context.from_scope_node'
    fn = src.find('TreeContextMixin.create_context')
    inner = [n for n in fn.body if isinstance(n, ast.FunctionDef) and n.name == 'from_scope_node']
    if len(inner) != 1:
        raise TieBroken('context.py: create_context has no inner from_scope_node')
    # the branch `elif scope_node.type in ('comp_for', 'sync_comp_for'):`
    branches = []
    for n in ast.walk(inner[0]):
        if isinstance(n, ast.If) and isinstance(n.test, ast.Compare) and u(n.test.left) == 'scope_node.type' \
                and len(n.test.ops) == 1 and isinstance(n.test.ops[0], ast.In):
            try:
                types = list(ast.literal_eval(n.test.comparators[0]))
            except Exception:
                continue
            if 'comp_for' in types or 'sync_comp_for' in types:
                branches.append((types, n.body))
    if len(branches) != 1:
        raise TieBroken('context.py: from_scope_node has %d comprehension branches' % len(branches))
    types, body = branches[0]
    g.define('compForTypes', 'List String', lean_list(types), where)
    if len(body) != 3:
        raise TieBroken('context.py: comprehension branch of from_scope_node has %d statements (3 expected)'
                        % len(body), '\n'.join(u(s) for s in body))
    s0, s1, s2 = body
    if u(s0) != 'parent_context = from_scope_node(parent_scope(scope_node.parent))':
        raise TieBroken('context.py: comprehension branch: parent context computed differently', u(s0))
    if not (isinstance(s1, ast.If) and not s1.orelse and isinstance(s1.test, ast.Compare)
            and len(s1.test.ops) == 1 and type(s1.test.ops[0]) in OPS
            and len(s1.body) == 1 and isinstance(s1.body[0], ast.Return)):
        raise TieBroken('context.py: comprehension branch: the iterable test is not a single comparison '
                        'guarding a return', u(s1))
    g.define('compIterCmp', 'String', lean_str(OPS[type(s1.test.ops[0])]), where)
    g.define('compIterLeft', 'String', lean_str(u(s1.test.left)), where)
    g.define('compIterRight', 'String', lean_str(u(s1.test.comparators[0])), where)
    rets = {'parent_context': 'parent', 'CompForContext(parent_context, scope_node)': 'comp'}
    then, other = u(s1.body[0].value), (u(s2.value) if isinstance(s2, ast.Return) and s2.value is not None else '?')
    if then not in rets or other not in rets:
        raise TieBroken('context.py: comprehension branch returns something unknown', '%s / %s' % (then, other))
    g.define('compIterThen', 'String', lean_str(rets[then]), where)
    g.define('compIterElse', 'String', lean_str(rets[other]), where)
    g.fp(src, 'TreeContextMixin.create_context')

"""C06: EXPRESSION_PARTS, the extractable node types, the shape of inline's parenthesisation
condition and of its precondition chain; fingerprints."""
import ast
from translator.extract import Src, TieBroken, u, lean_list, lean_str, lean_bool


def _split_call_words(node, rel, what):
    """`'a b c'.split()` or `NAME + 'a b'.split()` or a tuple of strings -> list of words"""
    if isinstance(node, ast.Call) and isinstance(node.func, ast.Attribute) and node.func.attr == 'split' \
            and not node.args:
        try:
            return str(ast.literal_eval(node.func.value)).split()
        except Exception:
            pass
    if isinstance(node, (ast.Tuple, ast.List)):
        return [ast.literal_eval(e) for e in node.elts]
    raise TieBroken('%s: %s is not a literal word list' % (rel, what), u(node))


def generate(repo, g):
    ref = Src(repo, 'jedi/api/refactoring/__init__.py')
    ext = Src(repo, 'jedi/api/refactoring/extract.py')
    parts = _split_call_words(ref.assign_value('EXPRESSION_PARTS'), ref.rel, 'EXPRESSION_PARTS')
    g.define('expressionParts', 'List String', lean_list(parts),
             'jedi/api/refactoring/__init__.py:EXPRESSION_PARTS')
    v = ext.assign_value('_VARIABLE_EXCTRACTABLE')
    if not (isinstance(v, ast.BinOp) and isinstance(v.op, ast.Add) and u(v.left) == 'EXPRESSION_PARTS'):
        raise TieBroken('extract.py: _VARIABLE_EXCTRACTABLE is not EXPRESSION_PARTS + ...', u(v))
    extra = _split_call_words(v.right, ext.rel, '_VARIABLE_EXCTRACTABLE')
    g.define('variableExtractableExtra', 'List String', lean_list(extra),
             'jedi/api/refactoring/extract.py:_VARIABLE_EXCTRACTABLE (beyond EXPRESSION_PARTS)')
    g.define('definitionScopes', 'List String', lean_list(list(ext.const('_DEFINITION_SCOPES'))),
             'jedi/api/refactoring/extract.py:_DEFINITION_SCOPES')
    # inline: the parenthesisation condition.  Two shapes are accepted: the original one and the one with
    # proposed_fixes/c06-1-inline-parenthesize-slots.diff (+ c06-2-inline-attribute-reference-slot.diff);
    # every disjunct must be one of the forms the Lean model `jediParens` knows.
    fn = ref.find('inline')
    conds = [n for n in ast.walk(fn) if isinstance(n, ast.If) and len(n.body) == 1
             and u(n.body[0]) == "s = '(' + replace_code + ')'"]
    if len(conds) != 1:
        raise TieBroken('refactoring/__init__.py: inline has %d parenthesisation branches' % len(conds))
    test = conds[0].test
    got = u(test)
    disjuncts = test.values if isinstance(test, ast.BoolOp) and isinstance(test.op, ast.Or) else [test]
    var = 'replaced' if 'replaced.' in got else 'tree_name'
    seen = set()
    extra, dstar = [], False
    for d in disjuncts:
        t = u(d)
        if t == "rhs.type == 'testlist_star_expr'":
            seen.add('testlist')
        elif t == '%s.parent.type in EXPRESSION_PARTS' % var:
            seen.add('parts')
        elif t == "%s.parent.type == 'trailer' and %s.parent.get_next_sibling() is not None" % (var, var):
            seen.add('trailer')
        elif t == "%s.parent.type == 'dictorsetmaker' and %s.get_previous_sibling() == '**'" % (var, var):
            dstar = True
        elif isinstance(d, ast.Compare) and len(d.ops) == 1 and isinstance(d.ops[0], ast.In) \
                and u(d.left) == '%s.parent.type' % var and isinstance(d.comparators[0], ast.Name):
            extra += _split_call_words(ref.assign_value(d.comparators[0].id), ref.rel, d.comparators[0].id)
        else:
            raise TieBroken('refactoring/__init__.py: inline parenthesisation condition has an unknown disjunct', t)
    if seen != {'testlist', 'parts', 'trailer'}:
        raise TieBroken('refactoring/__init__.py: inline parenthesisation condition changed', got)
    attr_slot = False
    if var == 'replaced':
        # `replaced` must be: the name, or for a final `.name` trailer the whole `obj.name`
        loop = [n for n in ast.walk(fn) if isinstance(n, ast.For) and conds[0] in n.body]
        if len(loop) != 1:
            raise TieBroken('refactoring/__init__.py: inline: the parenthesisation branch is not in the reference loop')
        body = loop[0].body
        k = body.index(conds[0])
        want2 = ["replaced = tree_name",
                 "if replaced.parent.type == 'trailer' and replaced.parent.children[0] == '.' and "
                 "(replaced.parent.get_next_sibling() is None):\n    replaced = replaced.parent.parent"]
        if k < 2 or [u(x) for x in body[k - 2:k]] != want2:
            raise TieBroken('refactoring/__init__.py: inline: `replaced` is not computed as expected',
                            repr([u(x) for x in body[max(0, k - 2):k]]))
        attr_slot = True
    g.define('inlineParensCondition', 'String', lean_str(got),
             'jedi/api/refactoring/__init__.py:inline')
    g.define('inlineParensExtraParents', 'List String', lean_list(extra),
             'jedi/api/refactoring/__init__.py:inline, `X.parent.type in <list>` disjuncts beyond EXPRESSION_PARTS')
    g.define('inlineParensDictDoubleStar', 'Bool', lean_bool(dstar),
             "jedi/api/refactoring/__init__.py:inline, disjunct `parent.type == 'dictorsetmaker' and previous sibling == '**'`")
    g.define('inlineParensAttributeSlot', 'Bool', lean_bool(attr_slot),
             'jedi/api/refactoring/__init__.py:inline, the slot inspected for a final `.name` trailer is that of `obj.name`')
    # _replace: the text in front of the replaced expression
    rp = ext.find('_replace')
    ifs = [n for n in ast.walk(rp) if isinstance(n, ast.If) and u(n.test) == 'remaining_prefix is None'
           and len(n.body) == 1 and isinstance(n.body[0], ast.Assign) and u(n.body[0].targets[0]) == 'p']
    if len(ifs) != 1 or [u(x) for x in ifs[0].orelse] != ['p = remaining_prefix + _get_indentation(nodes[0])']:
        raise TieBroken('extract.py: _replace no longer computes the prefix of the replaced node as '
                        '`first_node_leaf.prefix` / `remaining_prefix + indentation`',
                        ' | '.join(u(n) for n in ast.walk(rp) if isinstance(n, ast.Assign) and u(n.targets[0]) == 'p'))
    g.define('replaceNodePrefix', 'String', lean_str(u(ifs[0].body[0].value)),
             'jedi/api/refactoring/extract.py:_replace, `p = ...` when remaining_prefix is None')
    uses = [u(n) for n in ast.walk(rp) if isinstance(n, ast.Assign) and 'replacement_dct[nodes[0]]' in u(n.targets[0])]
    if sorted(uses) != sorted(['replacement_dct[nodes[0]] = extracted_prefix + expression_replacement',
                               'replacement_dct[nodes[0]] = p + expression_replacement']):
        raise TieBroken('extract.py: _replace assigns the replaced node differently', ' | '.join(uses))
    # inline: the refusal messages in source order (precondition chain)
    msgs = []
    for n in ast.walk(fn):
        if isinstance(n, ast.Raise) and isinstance(n.exc, ast.Call) and u(n.exc.func) == 'RefactoringError':
            a = n.exc.args[0]
            if isinstance(a, ast.Constant):
                msgs.append((n.lineno, a.value))
            elif isinstance(a, ast.BinOp) and isinstance(a.left, ast.Constant):
                msgs.append((n.lineno, a.left.value))
            else:
                raise TieBroken('refactoring/__init__.py: inline raise with unknown message', u(n))
        elif isinstance(n, ast.Raise):
            raise TieBroken('refactoring/__init__.py: inline raises something else', u(n))
    g.define('inlineRefusals', 'List String', lean_list([m for _, m in sorted(msgs)]),
             'jedi/api/refactoring/__init__.py:inline raise RefactoringError(...) in source order')
    # extract_function: the loop of _find_inputs_and_outputs over the names of the selection.  Two shapes are
    # accepted: the original one and the one of proposed_fixes/c06-4-extract-function-read-in-own-statement.diff
    # (the target of an augmented assignment is looked up as a read too; lookups start at the statement).
    fio = ext.find('_find_inputs_and_outputs')
    body = [u(n) for n in fio.body if not (isinstance(n, ast.Expr) and isinstance(n.value, ast.Constant))]
    frame = ['first = nodes[0].start_pos', 'last = nodes[-1].end_pos', 'inputs = []', 'outputs = []', None,
             'return (inputs, outputs)']
    if len(body) != len(frame) or any(w is not None and w != b for w, b in zip(frame, body)):
        raise TieBroken('extract.py: _find_inputs_and_outputs is no longer `inputs = []; outputs = []; one loop; '
                        'return inputs, outputs`', ' | '.join(b.split('\n')[0] for b in body))
    head = ('for name in _find_non_global_names(nodes):\n'
            '%s'
            '    if name.is_definition():\n'
            '        if name not in outputs:\n'
            '            outputs.append(name.value)\n'
            '%s'
            '        name_definitions = context.goto(name, %s)\n'
            '        if not name_definitions or _is_name_input(module_context, name_definitions, first, last):\n'
            '            inputs.append(name.value)')
    original = head % ('', '    elif name.value not in inputs:\n', 'name.start_pos')
    fixed = head % ('    is_read = True\n',
                    '        is_read = _is_augmented_assignment_target(name)\n'
                    '    if is_read and name.value not in inputs:\n', '_get_lookup_position(name)')
    if body[4] == original:
        reads_aug, position = False, 'name.start_pos'
    elif body[4] == fixed:
        reads_aug, position = True, '_get_lookup_position(name)'
        want = ("def _is_augmented_assignment_target(name):\n    definition = name.get_definition()\n"
                "    if definition is None or definition.type != 'expr_stmt':\n        return False\n"
                "    operator = definition.children[1]\n"
                "    return operator.type == 'operator' and operator.value != '='")
        if u(ext.find('_is_augmented_assignment_target')) != want:
            raise TieBroken('extract.py: _is_augmented_assignment_target changed',
                            u(ext.find('_is_augmented_assignment_target')))
        g.fp(ext, '_is_augmented_assignment_target')
        g.fp(ext, '_get_lookup_position')
    else:
        raise TieBroken('extract.py: _find_inputs_and_outputs: the loop over the names of the selection is neither '
                        'the original one (`elif name.value not in inputs: goto; if outside: inputs.append`) nor '
                        'the one of the proposed fix c06-4', body[4])
    g.define('extractReadsAugTarget', 'Bool', lean_bool(reads_aug),
             'jedi/api/refactoring/extract.py:_find_inputs_and_outputs, the target of `x += 1` is looked up as a read')
    g.define('extractLookupPosition', 'String', lean_str(position),
             'jedi/api/refactoring/extract.py:_find_inputs_and_outputs, second argument of context.goto')
    g.define('extractInputGuard', 'String', lean_str('name.value not in inputs'),
             'jedi/api/refactoring/extract.py:_find_inputs_and_outputs, the only condition under which a read is not '
             'looked up (checked as part of the loop shape)')
    generate_check(ext, g)
    generate_outputs(ext, g)
    g.fp(ext, '_is_name_input')
    g.fp(ext, '_find_non_global_names')
    for s, d in [(ref, 'inline'), (ref, '_remove_indent_of_prefix'), (ext, 'extract_variable'),
                 (ext, '_is_expression_with_error'), (ext, '_find_nodes'), (ext, '_replace'),
                 (ext, '_expression_nodes_to_string'), (ext, '_remove_unwanted_expression_nodes'),
                 (ext, '_is_not_extractable_syntax'), (ext, 'extract_function'),
                 (ext, '_find_inputs_and_outputs'), (ext, '_find_needed_output_variables'),
                 (ext, '_get_code_insertion_node'), (ext, '_suite_nodes_to_string'), (ext, '_split_prefix_at')]:
        g.fp(s, d)


# ---------------------------------------------------------------- _check_for_non_extractables as data

_PARTS = ('children', 'children[:else_index]', 'children[else_index:]')
_FLAGS = ('True', 'False', 'in_loop')
_ELSE_INDEX = ["else_index = len(children)",
               "for i, child in enumerate(children):\n    if child.type == 'keyword' and child.value == 'else':\n"
               "        else_index = i"]


def _check_commands(stmts, where, in_loop_branch):
    """statements of one branch of _check_for_non_extractables -> [(op, a, b)] (see Model/NonExtractable.lean)"""
    out = []
    for st in stmts:
        t = u(st)
        if in_loop_branch and t in _ELSE_INDEX:
            continue
        if isinstance(st, ast.Expr) and isinstance(st.value, ast.Call) \
                and u(st.value.func) == '_check_for_non_extractables':
            c = st.value
            flag = 'False'
            if len(c.args) == 2 and not c.keywords:
                flag = u(c.args[1])
            elif len(c.args) == 1 and len(c.keywords) == 1 and c.keywords[0].arg == 'in_loop':
                flag = u(c.keywords[0].value)
            elif not (len(c.args) == 1 and not c.keywords):
                raise TieBroken('extract.py: _check_for_non_extractables: unknown recursive call in %s' % where, t)
            part = u(c.args[0])
            if part not in _PARTS or flag not in _FLAGS or (part != 'children' and not in_loop_branch):
                raise TieBroken('extract.py: _check_for_non_extractables: unknown recursive call in %s' % where, t)
            out.append(('call', part, flag))
        elif isinstance(st, ast.Assign) and len(st.targets) == 1 and u(st.targets[0]) == 'in_loop' \
                and u(st.value) in _FLAGS:
            out.append(('set', 'in_loop', u(st.value)))
        elif in_loop_branch and t == 'children = children[:else_index]':
            out.append(('narrow', 'children', 'children[:else_index]'))
        else:
            raise TieBroken('extract.py: _check_for_non_extractables: unknown statement in %s' % where, t)
    return out


def _type_list(test, where):
    if isinstance(test, ast.Compare) and len(test.ops) == 1 and isinstance(test.ops[0], ast.In) \
            and u(test.left) == 'n.type' and isinstance(test.comparators[0], (ast.Tuple, ast.List)):
        return [ast.literal_eval(e) for e in test.comparators[0].elts]
    raise TieBroken('extract.py: _check_for_non_extractables: %s is not `n.type in (...)`' % where, u(test))


def generate_check(ext, g):
    fn = ext.find('_check_for_non_extractables')
    src = 'jedi/api/refactoring/extract.py:_check_for_non_extractables'
    if u(fn.args) != 'nodes, in_loop=False':
        raise TieBroken('extract.py: _check_for_non_extractables: signature changed', u(fn.args))
    body = [n for n in fn.body if not (isinstance(n, ast.Expr) and isinstance(n.value, ast.Constant))]
    if len(body) != 1 or not isinstance(body[0], ast.For) or u(body[0].target) != 'n' or u(body[0].iter) != 'nodes' \
            or body[0].orelse or len(body[0].body) != 1 or not isinstance(body[0].body[0], ast.Try):
        raise TieBroken('extract.py: _check_for_non_extractables is no longer `for n in nodes: try: ...`',
                        ' | '.join(u(b).split('\n')[0] for b in body))
    tr = body[0].body[0]
    if [u(x) for x in tr.body] != ['children = n.children'] or len(tr.handlers) != 1 \
            or u(tr.handlers[0].type) != 'AttributeError' or tr.finalbody:
        raise TieBroken('extract.py: _check_for_non_extractables: the try statement changed', u(tr).split('\n')[0])
    always, jumps = [], []
    for st in tr.handlers[0].body:
        ok = isinstance(st, ast.If) and not st.orelse and len(st.body) == 1 and isinstance(st.body[0], ast.Raise) \
            and isinstance(st.body[0].exc, ast.Call) and u(st.body[0].exc.func) == 'RefactoringError'
        if not ok:
            raise TieBroken('extract.py: _check_for_non_extractables: unknown statement in the leaf branch', u(st))
        t = st.test
        if isinstance(t, ast.Compare) and u(t.left) == 'n.value' and len(t.ops) == 1 and isinstance(t.ops[0], ast.Eq) \
                and isinstance(t.comparators[0], ast.Constant):
            always.append(t.comparators[0].value)
        elif isinstance(t, ast.BoolOp) and isinstance(t.op, ast.And) and len(t.values) == 3 \
                and u(t.values[0]) == "n.type == 'keyword'" and u(t.values[2]) == 'not in_loop' \
                and isinstance(t.values[1], ast.Compare) and u(t.values[1].left) == 'n.value' \
                and isinstance(t.values[1].ops[0], ast.In):
            jumps += [ast.literal_eval(e) for e in t.values[1].comparators[0].elts]
        else:
            raise TieBroken('extract.py: _check_for_non_extractables: unknown leaf condition', u(t))
    rest = list(tr.orelse)
    if not rest or not isinstance(rest[0], ast.If):
        raise TieBroken('extract.py: _check_for_non_extractables: no `if n.type in (...)` chain for nodes with children')
    chain, tail = rest[0], rest[1:]
    loop_types = _type_list(chain.test, 'the first branch')
    loop = _check_commands(chain.body, 'the loop branch', True)
    scope_types, scope, other = [], [], []
    if chain.orelse:
        if len(chain.orelse) == 1 and isinstance(chain.orelse[0], ast.If):
            c2 = chain.orelse[0]
            scope_types = _type_list(c2.test, 'the second branch')
            scope = _check_commands(c2.body, 'the scope branch', False)
            other = _check_commands(c2.orelse, 'the else branch', False)
        else:
            other = _check_commands(chain.orelse, 'the else branch', False)
    tail = _check_commands(tail, 'the statements behind the if chain', False)

    def triples(xs):
        return '[' + ', '.join('(%s, %s, %s)' % tuple(lean_str(y) for y in x) for x in xs) + ']'
    T = 'List (String × String × String)'
    g.define('checkAlwaysRefused', 'List String', lean_list(always), src + ', leaf values that raise')
    g.define('checkJumpKeywords', 'List String', lean_list(jumps), src + ', leaf values that raise when not in_loop')
    g.define('checkLoopTypes', 'List String', lean_list(loop_types), src + ', node types of the loop branch')
    g.define('checkScopeTypes', 'List String', lean_list(scope_types), src + ', node types of the scope branch')
    g.define('checkLoopBranch', T, triples(loop), src + ', statements of the loop branch (else_index computation left out)')
    g.define('checkScopeBranch', T, triples(scope), src + ', statements of the funcdef / classdef / lambdef branch')
    g.define('checkOtherBranch', T, triples(other), src + ', statements of the else branch')
    g.define('checkTail', T, triples(tail), src + ', statements behind the if chain (run for every node with children)')
    g.fp(ext, '_check_for_non_extractables')


# ---------------------------------------------------------------- which bound names are handed back

def generate_outputs(ext, g):
    """_find_non_global_names (the walk over the name leaves) and _find_needed_output_variables (which of the names
    the selection binds are used behind it) -> the data of Model/ExtractOut.lean"""
    src = 'jedi/api/refactoring/extract.py:_find_non_global_names'
    fn = ext.find('_find_non_global_names')
    if u(fn.args) != 'nodes':
        raise TieBroken('extract.py: _find_non_global_names: signature changed', u(fn.args))
    body = [n for n in fn.body if not (isinstance(n, ast.Expr) and isinstance(n.value, ast.Constant))]
    if len(body) != 1 or not isinstance(body[0], ast.For) or u(body[0].target) != 'node' \
            or u(body[0].iter) != 'nodes' or body[0].orelse or len(body[0].body) != 1 \
            or not isinstance(body[0].body[0], ast.Try):
        raise TieBroken('extract.py: _find_non_global_names is no longer `for node in nodes: try: ...`',
                        ' | '.join(u(b).split('\n')[0] for b in body))
    tr = body[0].body[0]
    if [u(x) for x in tr.body] != ['children = node.children'] or len(tr.handlers) != 1 \
            or u(tr.handlers[0].type) != 'AttributeError' or tr.finalbody \
            or [u(x) for x in tr.handlers[0].body] != ["if node.type == 'name':\n    yield node"]:
        raise TieBroken('extract.py: _find_non_global_names: the leaf branch changed', u(tr))
    # the branch for nodes with children: optional guards, then ONE recursive call; which children does it get?
    skip_attr = False
    rest = list(tr.orelse)
    if not rest:
        raise TieBroken('extract.py: _find_non_global_names: no branch for nodes with children')
    call = rest.pop()
    for st in rest:
        if u(st) == "if node.type == 'trailer' and node.children[0] == '.':\n    continue":
            skip_attr = True
        else:
            # anything else in front of the recursive call may change what it is called on (e.g. drop the body of
            # a nested function): not a shape the model knows
            raise TieBroken('extract.py: _find_non_global_names: unknown statement in front of the recursive call',
                            u(st))
    ok = isinstance(call, ast.Expr) and isinstance(call.value, ast.YieldFrom) \
        and isinstance(call.value.value, ast.Call) and u(call.value.value.func) == '_find_non_global_names'
    if not ok:
        raise TieBroken('extract.py: _find_non_global_names: the branch for nodes with children does not end in '
                        '`yield from _find_non_global_names(...)`', u(call))
    c = call.value.value
    if len(c.args) != 1 or c.keywords or u(c.args[0]) != 'children':
        raise TieBroken('extract.py: _find_non_global_names: the recursive call no longer gets `children` alone',
                        u(call))
    g.define('nonGlobalSkipsAttributeTrailer', 'Bool', lean_bool(skip_attr),
             src + ", `if node.type == 'trailer' and node.children[0] == '.': continue`")
    g.define('nonGlobalPrunesScopeBody', 'Bool', lean_bool(False),
             src + ', the recursive call gets all `children` of every node (no child of a nested function is left out)')
    # _find_needed_output_variables
    src2 = 'jedi/api/refactoring/extract.py:_find_needed_output_variables'
    fn2 = ext.find('_find_needed_output_variables')
    body = [u(n) for n in fn2.body if not (isinstance(n, ast.Expr) and isinstance(n.value, ast.Constant))]
    want = ('for node in search_node.children:\n'
            '    if node.start_pos < at_least_pos:\n'
            '        continue\n'
            '    return_variables = set(return_variables)\n'
            '    for name in _find_non_global_names([node]):\n'
            '        if not name.is_definition() and name.value in return_variables:\n'
            '            return_variables.remove(name.value)\n'
            '            yield name.value')
    if u(fn2.args) != 'context, search_node, at_least_pos, return_variables' or body != [want]:
        raise TieBroken('extract.py: _find_needed_output_variables is no longer the loop over the later children of '
                        'search_node that yields every candidate at its first non-defining occurrence',
                        ' | '.join(body))
    g.define('neededOutputsWalk', 'String', lean_str('_find_non_global_names([node])'),
             src2 + ', the names of a later sibling that are looked at (checked as part of the loop shape)')
    g.define('neededOutputsCondition', 'String', lean_str('not name.is_definition() and name.value in return_variables'),
             src2 + ', when a candidate is yielded (checked as part of the loop shape)')
    # the expression in extract_function that uses it
    ef = ext.find('extract_function')
    uses = [n for n in ast.walk(ef) if isinstance(n, ast.Assign) and u(n.targets[0]) == 'return_variables'
            and '_find_needed_output_variables' in u(n.value)]
    want = ('list(_find_needed_output_variables(context, nodes[0].parent, nodes[-1].end_pos, return_variables)) '
            'or [return_variables[-1]] if return_variables else []')
    if len(uses) != 1 or u(uses[0].value) != want:
        raise TieBroken('extract.py: extract_function computes the returned names differently',
                        ' | '.join(u(n.value) for n in uses))
    g.define('returnVariablesExpression', 'String', lean_str(want),
             'jedi/api/refactoring/extract.py:extract_function, `return_variables = ...` for a statement selection')

"""C06: EXPRESSION_PARTS, the extractable node types, the shape of inline's parenthesisation
condition and of its precondition chain; fingerprints."""
import ast
from translator.extract import Src, TieBroken, u, lean_list, lean_str, lean_bool


def _split_call_words(node, rel, what):
    """`'a b c'.split()` or `NAME + 'a b'.split()` or a tuple of strings -> list of words"""
    if isinstance(node, ast.Call) and isinstance(node.func, ast.Attribute) and node.func.attr == 'split' \
            and not node.args:
        try:
            return str(ast.literal_eval(node.func.value)).split()
        except Exception:
            pass
    if isinstance(node, (ast.Tuple, ast.List)):
        return [ast.literal_eval(e) for e in node.elts]
    raise TieBroken('%s: %s is not a literal word list' % (rel, what), u(node))


def generate(repo, g):
    ref = Src(repo, 'jedi/api/refactoring/__init__.py')
    ext = Src(repo, 'jedi/api/refactoring/extract.py')
    parts = _split_call_words(ref.assign_value('EXPRESSION_PARTS'), ref.rel, 'EXPRESSION_PARTS')
    g.define('expressionParts', 'List String', lean_list(parts),
             'jedi/api/refactoring/__init__.py:EXPRESSION_PARTS')
    v = ext.assign_value('_VARIABLE_EXCTRACTABLE')
    if not (isinstance(v, ast.BinOp) and isinstance(v.op, ast.Add) and u(v.left) == 'EXPRESSION_PARTS'):
        raise TieBroken('extract.py: _VARIABLE_EXCTRACTABLE is not EXPRESSION_PARTS + ...', u(v))
    extra = _split_call_words(v.right, ext.rel, '_VARIABLE_EXCTRACTABLE')
    g.define('variableExtractableExtra', 'List String', lean_list(extra),
             'jedi/api/refactoring/extract.py:_VARIABLE_EXCTRACTABLE (beyond EXPRESSION_PARTS)')
    g.define('definitionScopes', 'List String', lean_list(list(ext.const('_DEFINITION_SCOPES'))),
             'jedi/api/refactoring/extract.py:_DEFINITION_SCOPES')
    # inline: the parenthesisation condition.  Two shapes are accepted: the original one and the one with
    # proposed_fixes/c06-1-inline-parenthesize-slots.diff (+ c06-2-inline-attribute-reference-slot.diff);
    # every disjunct must be one of the forms the Lean model `jediParens` knows.
    fn = ref.find('inline')
    conds = [n for n in ast.walk(fn) if isinstance(n, ast.If) and len(n.body) == 1
             and u(n.body[0]) == "s = '(' + replace_code + ')'"]
    if len(conds) != 1:
        raise TieBroken('refactoring/__init__.py: inline has %d parenthesisation branches' % len(conds))
    test = conds[0].test
    got = u(test)
    disjuncts = test.values if isinstance(test, ast.BoolOp) and isinstance(test.op, ast.Or) else [test]
    var = 'replaced' if 'replaced.' in got else 'tree_name'
    seen = set()
    extra, dstar = [], False
    for d in disjuncts:
        t = u(d)
        if t == "rhs.type == 'testlist_star_expr'":
            seen.add('testlist')
        elif t == '%s.parent.type in EXPRESSION_PARTS' % var:
            seen.add('parts')
        elif t == "%s.parent.type == 'trailer' and %s.parent.get_next_sibling() is not None" % (var, var):
            seen.add('trailer')
        elif t == "%s.parent.type == 'dictorsetmaker' and %s.get_previous_sibling() == '**'" % (var, var):
            dstar = True
        elif isinstance(d, ast.Compare) and len(d.ops) == 1 and isinstance(d.ops[0], ast.In) \
                and u(d.left) == '%s.parent.type' % var and isinstance(d.comparators[0], ast.Name):
            extra += _split_call_words(ref.assign_value(d.comparators[0].id), ref.rel, d.comparators[0].id)
        else:
            raise TieBroken('refactoring/__init__.py: inline parenthesisation condition has an unknown disjunct', t)
    if seen != {'testlist', 'parts', 'trailer'}:
        raise TieBroken('refactoring/__init__.py: inline parenthesisation condition changed', got)
    attr_slot = False
    if var == 'replaced':
        # `replaced` must be: the name, or for a final `.name` trailer the whole `obj.name`
        loop = [n for n in ast.walk(fn) if isinstance(n, ast.For) and conds[0] in n.body]
        if len(loop) != 1:
            raise TieBroken('refactoring/__init__.py: inline: the parenthesisation branch is not in the reference loop')
        body = loop[0].body
        k = body.index(conds[0])
        want2 = ["replaced = tree_name",
                 "if replaced.parent.type == 'trailer' and replaced.parent.children[0] == '.' and "
                 "(replaced.parent.get_next_sibling() is None):\n    replaced = replaced.parent.parent"]
        if k < 2 or [u(x) for x in body[k - 2:k]] != want2:
            raise TieBroken('refactoring/__init__.py: inline: `replaced` is not computed as expected',
                            repr([u(x) for x in body[max(0, k - 2):k]]))
        attr_slot = True
    g.define('inlineParensCondition', 'String', lean_str(got),
             'jedi/api/refactoring/__init__.py:inline')
    g.define('inlineParensExtraParents', 'List String', lean_list(extra),
             'jedi/api/refactoring/__init__.py:inline, `X.parent.type in <list>` disjuncts beyond EXPRESSION_PARTS')
    g.define('inlineParensDictDoubleStar', 'Bool', lean_bool(dstar),
             "jedi/api/refactoring/__init__.py:inline, disjunct `parent.type == 'dictorsetmaker' and previous sibling == '**'`")
    g.define('inlineParensAttributeSlot', 'Bool', lean_bool(attr_slot),
             'jedi/api/refactoring/__init__.py:inline, the slot inspected for a final `.name` trailer is that of `obj.name`')
    # _replace: the text in front of the replaced expression
    rp = ext.find('_replace')
    ifs = [n for n in ast.walk(rp) if isinstance(n, ast.If) and u(n.test) == 'remaining_prefix is None'
           and len(n.body) == 1 and isinstance(n.body[0], ast.Assign) and u(n.body[0].targets[0]) == 'p']
    if len(ifs) != 1 or [u(x) for x in ifs[0].orelse] != ['p = remaining_prefix + _get_indentation(nodes[0])']:
        raise TieBroken('extract.py: _replace no longer computes the prefix of the replaced node as '
                        '`first_node_leaf.prefix` / `remaining_prefix + indentation`',
                        ' | '.join(u(n) for n in ast.walk(rp) if isinstance(n, ast.Assign) and u(n.targets[0]) == 'p'))
    g.define('replaceNodePrefix', 'String', lean_str(u(ifs[0].body[0].value)),
             'jedi/api/refactoring/extract.py:_replace, `p = ...` when remaining_prefix is None')
    uses = [u(n) for n in ast.walk(rp) if isinstance(n, ast.Assign) and 'replacement_dct[nodes[0]]' in u(n.targets[0])]
    if sorted(uses) != sorted(['replacement_dct[nodes[0]] = extracted_prefix + expression_replacement',
                               'replacement_dct[nodes[0]] = p + expression_replacement']):
        raise TieBroken('extract.py: _replace assigns the replaced node differently', ' | '.join(uses))
    # inline: the refusal messages in source order (precondition chain)
    msgs = []
    for n in ast.walk(fn):
        if isinstance(n, ast.Raise) and isinstance(n.exc, ast.Call) and u(n.exc.func) == 'RefactoringError':
            a = n.exc.args[0]
            if isinstance(a, ast.Constant):
                msgs.append((n.lineno, a.value))
            elif isinstance(a, ast.BinOp) and isinstance(a.left, ast.Constant):
                msgs.append((n.lineno, a.left.value))
            else:
                raise TieBroken('refactoring/__init__.py: inline raise with unknown message', u(n))
        elif isinstance(n, ast.Raise):
            raise TieBroken('refactoring/__init__.py: inline raises something else', u(n))
    g.define('inlineRefusals', 'List String', lean_list([m for _, m in sorted(msgs)]),
             'jedi/api/refactoring/__init__.py:inline raise RefactoringError(...) in source order')
    # extract_function: the loop of _find_inputs_and_outputs over the names of the selection.  Two shapes are
    # accepted: the original one and the one of proposed_fixes/c06-4-extract-function-read-in-own-statement.diff
    # (the target of an augmented assignment is looked up as a read too; lookups start at the statement).
    fio = ext.find('_find_inputs_and_outputs')
    body = [u(n) for n in fio.body if not (isinstance(n, ast.Expr) and isinstance(n.value, ast.Constant))]
    frame = ['first = nodes[0].start_pos', 'last = nodes[-1].end_pos', 'inputs = []', 'outputs = []', None,
             'return (inputs, outputs)']
    if len(body) != len(frame) or any(w is not None and w != b for w, b in zip(frame, body)):
        raise TieBroken('extract.py: _find_inputs_and_outputs is no longer `inputs = []; outputs = []; one loop; '
                        'return inputs, outputs`', ' | '.join(b.split('\n')[0] for b in body))
    head = ('for name in _find_non_global_names(nodes):\n'
            '%s'
            '    if name.is_definition():\n'
            '        if name not in outputs:\n'
            '            outputs.append(name.value)\n'
            '%s'
            '        name_definitions = context.goto(name, %s)\n'
            '        if not name_definitions or _is_name_input(module_context, name_definitions, first, last):\n'
            '            inputs.append(name.value)')
    original = head % ('', '    elif name.value not in inputs:\n', 'name.start_pos')
    fixed = head % ('    is_read = True\n',
                    '        is_read = _is_augmented_assignment_target(name)\n'
                    '    if is_read and name.value not in inputs:\n', '_get_lookup_position(name)')
    if body[4] == original:
        reads_aug, position = False, 'name.start_pos'
    elif body[4] == fixed:
        reads_aug, position = True, '_get_lookup_position(name)'
        want = ("def _is_augmented_assignment_target(name):\n    definition = name.get_definition()\n"
                "    if definition is None or definition.type != 'expr_stmt':\n        return False\n"
                "    operator = definition.children[1]\n"
                "    return operator.type == 'operator' and operator.value != '='")
        if u(ext.find('_is_augmented_assignment_target')) != want:
            raise TieBroken('extract.py: _is_augmented_assignment_target changed',
                            u(ext.find('_is_augmented_assignment_target')))
        g.fp(ext, '_is_augmented_assignment_target')
        g.fp(ext, '_get_lookup_position')
    else:
        raise TieBroken('extract.py: _find_inputs_and_outputs: the loop over the names of the selection is neither '
                        'the original one (`elif name.value not in inputs: goto; if outside: inputs.append`) nor '
                        'the one of the proposed fix c06-4', body[4])
    g.define('extractReadsAugTarget', 'Bool', lean_bool(reads_aug),
             'jedi/api/refactoring/extract.py:_find_inputs_and_outputs, the target of `x += 1` is looked up as a read')
    g.define('extractLookupPosition', 'String', lean_str(position),
             'jedi/api/refactoring/extract.py:_find_inputs_and_outputs, second argument of context.goto')
    g.define('extractInputGuard', 'String', lean_str('name.value not in inputs'),
             'jedi/api/refactoring/extract.py:_find_inputs_and_outputs, the only condition under which a read is not '
             'looked up (checked as part of the loop shape)')
    g.fp(ext, '_is_name_input')
    g.fp(ext, '_find_non_global_names')
    for s, d in [(ref, 'inline'), (ref, '_remove_indent_of_prefix'), (ext, 'extract_variable'),
                 (ext, '_is_expression_with_error'), (ext, '_find_nodes'), (ext, '_replace'),
                 (ext, '_expression_nodes_to_string'), (ext, '_remove_unwanted_expression_nodes'),
                 (ext, '_is_not_extractable_syntax'), (ext, 'extract_function'),
                 (ext, '_find_inputs_and_outputs'), (ext, '_find_needed_output_variables'),
                 (ext, '_get_code_insertion_node'), (ext, '_suite_nodes_to_string'), (ext, '_split_prefix_at')]:
        g.fp(s, d)

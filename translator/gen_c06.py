"""C06: EXPRESSION_PARTS, the extractable node types, the shape of inline's parenthesisation
condition and of its precondition chain; fingerprints."""
import ast
from translator.extract import Src, TieBroken, u, lean_list, lean_str, lean_bool


def _split_call_words(node, rel, what):
    """`'a b c'.split()` or `NAME + 'a b'.split()` or a tuple of strings -> list of words"""
    if isinstance(node, ast.Call) and isinstance(node.func, ast.Attribute) and node.func.attr == 'split' \
            and not node.args:
        try:
            return str(ast.literal_eval(node.func.value)).split()
        except Exception:
            pass
    if isinstance(node, (ast.Tuple, ast.List)):
        return [ast.literal_eval(e) for e in node.elts]
    raise TieBroken('%s: %s is not a literal word list' % (rel, what), u(node))


def generate(repo, g):
    ref = Src(repo, 'jedi/api/refactoring/__init__.py')
    ext = Src(repo, 'jedi/api/refactoring/extract.py')
    parts = _split_call_words(ref.assign_value('EXPRESSION_PARTS'), ref.rel, 'EXPRESSION_PARTS')
    g.define('expressionParts', 'List String', lean_list(parts),
             'jedi/api/refactoring/__init__.py:EXPRESSION_PARTS')
    v = ext.assign_value('_VARIABLE_EXCTRACTABLE')
    if not (isinstance(v, ast.BinOp) and isinstance(v.op, ast.Add) and u(v.left) == 'EXPRESSION_PARTS'):
        raise TieBroken('extract.py: _VARIABLE_EXCTRACTABLE is not EXPRESSION_PARTS + ...', u(v))
    extra = _split_call_words(v.right, ext.rel, '_VARIABLE_EXCTRACTABLE')
    g.define('variableExtractableExtra', 'List String', lean_list(extra),
             'jedi/api/refactoring/extract.py:_VARIABLE_EXCTRACTABLE (beyond EXPRESSION_PARTS)')
    g.define('definitionScopes', 'List String', lean_list(list(ext.const('_DEFINITION_SCOPES'))),
             'jedi/api/refactoring/extract.py:_DEFINITION_SCOPES')
    # inline: the parenthesisation condition
    fn = ref.find('inline')
    conds = [n for n in ast.walk(fn) if isinstance(n, ast.If) and len(n.body) == 1
             and u(n.body[0]) == "s = '(' + replace_code + ')'"]
    if len(conds) != 1:
        raise TieBroken('refactoring/__init__.py: inline has %d parenthesisation branches' % len(conds))
    want = ("rhs.type == 'testlist_star_expr' or tree_name.parent.type in EXPRESSION_PARTS or "
            "(tree_name.parent.type == 'trailer' and tree_name.parent.get_next_sibling() is not None)")
    got = u(conds[0].test)
    if got != want:
        raise TieBroken('refactoring/__init__.py: inline parenthesisation condition changed', got)
    g.define('inlineParensCondition', 'String', lean_str(got),
             'jedi/api/refactoring/__init__.py:inline')
    # inline: the refusal messages in source order (precondition chain)
    msgs = []
    for n in ast.walk(fn):
        if isinstance(n, ast.Raise) and isinstance(n.exc, ast.Call) and u(n.exc.func) == 'RefactoringError':
            a = n.exc.args[0]
            if isinstance(a, ast.Constant):
                msgs.append((n.lineno, a.value))
            elif isinstance(a, ast.BinOp) and isinstance(a.left, ast.Constant):
                msgs.append((n.lineno, a.left.value))
            else:
                raise TieBroken('refactoring/__init__.py: inline raise with unknown message', u(n))
        elif isinstance(n, ast.Raise):
            raise TieBroken('refactoring/__init__.py: inline raises something else', u(n))
    g.define('inlineRefusals', 'List String', lean_list([m for _, m in sorted(msgs)]),
             'jedi/api/refactoring/__init__.py:inline raise RefactoringError(...) in source order')
    for s, d in [(ref, 'inline'), (ref, '_remove_indent_of_prefix'), (ext, 'extract_variable'),
                 (ext, '_is_expression_with_error'), (ext, '_find_nodes'), (ext, '_replace'),
                 (ext, '_expression_nodes_to_string'), (ext, '_remove_unwanted_expression_nodes'),
                 (ext, '_is_not_extractable_syntax'), (ext, 'extract_function'),
                 (ext, '_find_inputs_and_outputs'), (ext, '_find_needed_output_variables'),
                 (ext, '_get_code_insertion_node'), (ext, '_suite_nodes_to_string'), (ext, '_split_prefix_at')]:
        g.fp(s, d)

"""C18: BaseName._mapping / _tuple_mapping tables, the comparison shapes of Script.get_context and
TreeContextMixin.create_context, node-type lists, fingerprints.

Expected source shape = jedi with the repairs `fix: get_context compares the column with the start of
the async statement` and `fix: parent() of a lambda in a class body is the class` (proposed_fixes/
c18-async-def-column.diff, c18-lambda-parent-in-class.diff): the indentation loop of get_context moves
from the funcdef to its async_stmt / async_funcdef parent before it compares columns, and
BaseName.parent sends lambda names through create_context(lambda node).  The older shape (column of
`def`, LambdaName.parent_context) raises TieBroken: the model no longer describes it."""
import ast
from translator.extract import Src, TieBroken, u, lean_list, lean_str, lean_bool


def _cmp_shape(node):
    """'a < b <= c' -> ['a', '<', 'b', '<=', 'c']"""
    ops = {ast.Lt: '<', ast.LtE: '<=', ast.Gt: '>', ast.GtE: '>=', ast.Eq: '==', ast.NotEq: '!=',
           ast.Is: 'is', ast.IsNot: 'is not', ast.In: 'in', ast.NotIn: 'not in'}
    out = [u(node.left)]
    for op, c in zip(node.ops, node.comparators):
        out += [ops[type(op)], u(c)]
    return out


def _stmts(fn):
    """body of a function without its docstring"""
    body = list(fn.body)
    if body and isinstance(body[0], ast.Expr) and isinstance(body[0].value, ast.Constant) \
            and isinstance(body[0].value.value, str):
        body = body[1:]
    return body


def _flow(stmts):
    """flat, unambiguous rendering of a statement list: 'if <test>' ... ['else' ...] 'end', 'return <e>',
    other statements unparsed"""
    out = []
    for st in stmts:
        if isinstance(st, ast.If):
            out.append('if ' + u(st.test))
            out += _flow(st.body)
            if st.orelse:
                out.append('else')
                out += _flow(st.orelse)
            out.append('end')
        elif isinstance(st, ast.Return):
            out.append('return ' + (u(st.value) if st.value is not None else ''))
        else:
            out.append(u(st))
    return out


def _plus_chain(node):
    """operands of `a + b + c` (source text), left to right"""
    if isinstance(node, ast.BinOp) and isinstance(node.op, ast.Add):
        return _plus_chain(node.left) + _plus_chain(node.right)
    return [u(node)]


def _qualified_names(g, names, function, context, classes):
    """The get_qualified_names family (the `full_name` clause).  Model/Nesting.joinNames evaluates the
    final return of AbstractNameDefinition.get_qualified_names from its operand list; everything before
    it must be exactly the four statements the model transcribes - a further statement (e.g. a
    conditional that drops a component which repeats the module's name) is a broken tie."""
    gq = names.find('AbstractNameDefinition.get_qualified_names')
    if u(gq.args) != 'self, include_module_names=False':
        raise TieBroken('names.py: get_qualified_names signature', u(gq.args))
    body = _stmts(gq)
    want = ['qualified_names = self._get_qualified_names()',
            'if qualified_names is None or not include_module_names', 'return qualified_names', 'end',
            'module_names = self.get_root_context().string_names',
            'if module_names is None', 'return None', 'end']
    if not body or not isinstance(body[-1], ast.Return) or body[-1].value is None:
        raise TieBroken('names.py: get_qualified_names does not end in a return of the joined names', u(gq))
    if _flow(body[:-1]) != want:
        raise TieBroken('names.py: get_qualified_names: statements before the final return are not the ones the '
                        'model transcribes (a component may be dropped or rewritten conditionally)',
                        '%r != %r' % (_flow(body[:-1]), want))
    ops = _plus_chain(body[-1].value)
    if not ops or any(o not in ('module_names', 'qualified_names') for o in ops):
        raise TieBroken('names.py: get_qualified_names returns something else than a + chain of module_names / '
                        'qualified_names', u(body[-1]))
    g.define('moduleJoin', 'List String', lean_list(ops),
             'jedi/inference/names.py:AbstractNameDefinition.get_qualified_names final `return`: operands of the + chain')
    # the rest of the family: flat statement shapes, compared literally by Props.C18.qualified_name_shapes
    for const, src, dotted in [
            ('treeNameQual', names, 'AbstractTreeName._get_qualified_names'),
            ('valueNameQual', names, 'ValueNameMixin._get_qualified_names'),
            ('funcClassQual', function, 'FunctionAndClassBase.get_qualified_names'),
            ('methodQual', function, 'MethodValue.get_qualified_names'),
            ('abstractContextQual', context, 'AbstractContext.get_qualified_names'),
            ('valueContextQual', context, 'ValueContext.get_qualified_names')]:
        g.define(const, 'List String', lean_list(_flow(_stmts(src.find(dotted)))), '%s:%s' % (src.rel, dotted))
    tn = _flow(_stmts(names.find('AbstractTreeName.get_qualified_names')))
    if len(tn) < 3 or tn[0] != "import_node = self.tree_name.search_ancestor('import_name', 'import_from')" \
            or not tn[1].startswith('if import_node is not None and ') \
            or tn[-1] != 'return super().get_qualified_names(include_module_names)' \
            or sum(1 for t in tn if t == 'end') != 2 or tn[-2] != 'end':
        raise TieBroken('names.py: AbstractTreeName.get_qualified_names: outside import nodes it must delegate to '
                        'AbstractNameDefinition.get_qualified_names', repr(tn))
    g.define('treeNameDelegates', 'String', lean_str(tn[-1]),
             'jedi/inference/names.py:AbstractTreeName.get_qualified_names (names outside import statements)')
    fn = classes.find('BaseName.full_name')
    calls = [u(n) for n in ast.walk(fn) if isinstance(n, ast.Call) and isinstance(n.func, ast.Attribute)
             and n.func.attr == 'get_qualified_names']
    g.define('fullNameCall', 'List String', lean_list(calls), 'jedi/api/classes.py:BaseName.full_name')
    rets = [u(n.value) for n in ast.walk(fn) if isinstance(n, ast.Return) and n.value is not None]
    g.define('fullNameReturns', 'List String', lean_list(rets), 'jedi/api/classes.py:BaseName.full_name')


# values of the unchanged code, used when the shape below is not recognised (the Lean side still builds,
# correspondence and oracle streams still run)
FALLBACK = {'boundMethodOwnQual': False, 'mroShape': ['self', 'bases-in-order', 'base-mro-in-order', 'not-in-mro']}


def _members(g, instance, function, klass, base_value):
    """Names reached through references (Model/Members): which get_qualified_names answers for a method
    fetched through an instance, and the listing order of ClassMixin.py__mro__."""
    bm = instance.find('BoundMethod')
    bases = [u(b) for b in bm.bases]
    own = [n.name for n in bm.body if isinstance(n, (ast.FunctionDef, ast.AsyncFunctionDef))]
    if bases != ['FunctionMixin', 'ValueWrapper']:
        raise TieBroken('instance.py: BoundMethod bases', repr(bases))
    fm = function.find('FunctionMixin')
    fm_own = [n.name for n in fm.body if isinstance(n, (ast.FunctionDef, ast.AsyncFunctionDef))]
    ga = base_value.find('_ValueWrapperBase.__getattr__')
    if [u(n.value) for n in ast.walk(ga) if isinstance(n, ast.Return)] != ['getattr(self._wrapped_value, name)']:
        raise TieBroken('base_value.py: _ValueWrapperBase.__getattr__ no longer forwards to the wrapped value', u(ga))
    vw = base_value.find('ValueWrapper')
    vwb = base_value.find('_ValueWrapperBase')
    wrapper_own = [n.name for c in (vw, vwb) for n in c.body if isinstance(n, (ast.FunctionDef, ast.AsyncFunctionDef))]
    hits = [w for w, names in (('BoundMethod', own), ('FunctionMixin', fm_own), ('ValueWrapper', wrapper_own))
            for n in names if n in ('get_qualified_names', '_get_qualified_names')]
    if hits:
        # the wrapped MethodValue (the class whose body holds the def) no longer answers: which class the new
        # method names is not something the model knows
        raise TieBroken('instance.py: get_qualified_names of a BoundMethod is no longer the wrapped MethodValue\'s '
                        '(ValueWrapper.__getattr__): defined by ' + ', '.join(hits),
                        u(bm.body[[n.name if hasattr(n, 'name') else '' for n in bm.body].index('get_qualified_names')])
                        if 'get_qualified_names' in own else repr(hits))
    g.define('boundMethodOwnQual', 'Bool', lean_bool(False),
             'jedi/inference/value/instance.py:BoundMethod (no get_qualified_names of its own, nor in FunctionMixin / '
             'ValueWrapper: ValueWrapper.__getattr__ forwards to the wrapped MethodValue)')
    # py__mro__: `mro = [self]; yield self; for lazy_cls in self.py__bases__(): for cls in lazy_cls.infer(): ...
    # for cls_new in mro_method(): if cls_new not in mro: mro.append(cls_new); yield cls_new`
    mro = klass.find('ClassMixin.py__mro__')
    body = _stmts(mro)
    fors = [n for n in ast.walk(mro) if isinstance(n, ast.For)]
    shape = []
    if len(body) >= 3 and u(body[0]) == 'mro = [self]' and u(body[1]) == 'yield self':
        shape.append('self')
    if len(fors) == 3 and u(fors[0].iter) == 'self.py__bases__()' and u(fors[1].iter) == 'lazy_cls.infer()':
        shape.append('bases-in-order')
        if u(fors[2].iter) == 'mro_method()' and fors[2] in list(ast.walk(fors[1])):
            shape.append('base-mro-in-order')
            inner = fors[2].body
            if len(inner) == 1 and isinstance(inner[0], ast.If) and u(inner[0].test) == 'cls_new not in mro' \
                    and [u(x) for x in inner[0].body] == ['mro.append(cls_new)', 'yield cls_new'] and not inner[0].orelse:
                shape.append('not-in-mro')
    if shape != FALLBACK['mroShape']:
        raise TieBroken('klass.py: ClassMixin.py__mro__ is not the depth-first listing the model transcribes', u(mro))
    g.define('mroShape', 'List String', lean_list(shape), 'jedi/inference/value/klass.py:ClassMixin.py__mro__')
    g.fp(klass, 'ClassMixin.py__mro__')
    g.fp(base_value, '_ValueWrapperBase.__getattr__')


def generate(repo, g):
    classes = Src(repo, 'jedi/api/classes.py')
    api = Src(repo, 'jedi/api/__init__.py')
    context = Src(repo, 'jedi/inference/context.py')
    names = Src(repo, 'jedi/inference/names.py')
    function = Src(repo, 'jedi/inference/value/function.py')
    putils = Src(repo, 'jedi/parser_utils.py')
    instance = Src(repo, 'jedi/inference/value/instance.py')

    base = classes.find('BaseName')
    mapping = classes.const('_mapping', base)
    if not isinstance(mapping, dict) or not all(isinstance(k, str) and isinstance(v, str) for k, v in mapping.items()):
        raise TieBroken('classes.py: BaseName._mapping is not a str->str dict literal')
    g.define('mapping', 'List (String × String)',
             '[' + ', '.join('(%s, %s)' % (lean_str(k), lean_str(v)) for k, v in mapping.items()) + ']',
             'jedi/api/classes.py:BaseName._mapping')
    tm = classes.assign_value('_tuple_mapping', base)
    dicts = [n for n in ast.walk(tm) if isinstance(n, ast.Dict)]
    if len(dicts) != 1:
        raise TieBroken('classes.py: BaseName._tuple_mapping shape', u(tm))
    try:
        tmd = ast.literal_eval(dicts[0])
    except Exception:
        raise TieBroken('classes.py: BaseName._tuple_mapping is not a literal', u(tm))
    g.define('tupleMapping', 'List (List String × String)',
             '[' + ', '.join('(%s, %s)' % (lean_list(k.split('.')), lean_str(v)) for k, v in tmd.items()) + ']',
             'jedi/api/classes.py:BaseName._tuple_mapping')
    # _tuple_mapping must stay unused by full_name (the model ignores it)
    fn = classes.find('BaseName.full_name')
    used = sorted({n.attr for n in ast.walk(fn) if isinstance(n, ast.Attribute) and n.attr.endswith('_mapping')})
    g.define('fullNameTables', 'List String', lean_list(used), 'jedi/api/classes.py:BaseName.full_name')
    subs = [n for n in ast.walk(fn) if isinstance(n, ast.Subscript) and isinstance(n.ctx, ast.Store)]
    if len(subs) != 1 or u(subs[0]) != 'names[0]':
        raise TieBroken('classes.py: full_name no longer rewrites names[0]', u(fn))
    g.define('fullNameMappedIndex', 'Nat', '0', 'jedi/api/classes.py:BaseName.full_name names[0] = ...')

    # get_context: the comparisons
    gc = api.find('Script.get_context')
    cmps = [_cmp_shape(n) for n in ast.walk(gc) if isinstance(n, ast.Compare)]
    want = [['leaf.start_pos', '>', 'pos'], ["leaf.type", '==', "'endmarker'"], ['n', 'is not', 'None'],
            ['n.start_pos', '<', 'pos', '<=', 'n.children[-1].start_pos'],
            ['context.name', 'is', 'None'], ['definition.type', '!=', "'module'"],
            ['tree_name', 'is not', 'None'], ['scope.start_pos[1]', '<', 'column'],
            ['previous_leaf', 'is not', 'None'],
            ['scope.parent.type', 'in', "('async_stmt', 'async_funcdef')"]]
    for w in want:
        if w not in cmps:
            raise TieBroken('api/__init__.py: get_context comparison changed', '%r not in %r' % (w, cmps))
    if len(cmps) != len(want):
        raise TieBroken('api/__init__.py: get_context has %d comparisons, expected %d' % (len(cmps), len(want)), repr(cmps))
    g.define('headerRule', 'List String', lean_list(['n.start_pos', '<', 'pos', '<=', 'n.children[-1].start_pos']),
             'jedi/api/__init__.py:Script.get_context')
    g.define('indentRule', 'List String', lean_list(['scope.start_pos[1]', '<', 'column']),
             'jedi/api/__init__.py:Script.get_context')
    # the indentation loop: scope = tree_name.get_definition(); async statements: scope = scope.parent;
    # then the column comparison -- in this order, in one block
    blocks = [n for n in ast.walk(gc) if isinstance(n, ast.If) and u(n.test) == 'tree_name is not None']
    if len(blocks) != 1 or len(blocks[0].body) != 3 or blocks[0].orelse:
        raise TieBroken('api/__init__.py: get_context indentation loop shape', u(gc))
    first, asy, col = blocks[0].body
    if u(first) != 'scope = tree_name.get_definition()' or not isinstance(asy, ast.If) or asy.orelse \
            or [u(x) for x in asy.body] != ['scope = scope.parent'] \
            or not isinstance(asy.test, ast.Compare) or u(asy.test.left) != 'scope.parent.type' \
            or not isinstance(asy.test.ops[0], ast.In) \
            or not isinstance(col, ast.If) or u(col.test) != 'scope.start_pos[1] < column' \
            or [u(x) for x in col.body] != ['break']:
        raise TieBroken('api/__init__.py: get_context indentation loop: expected get_definition(), the move to the '
                        'async statement, the column comparison', u(blocks[0]))
    g.define('indentStatementParents', 'List String', lean_list(list(ast.literal_eval(asy.test.comparators[0]))),
             'jedi/api/__init__.py:Script.get_context `if scope.parent.type in (...): scope = scope.parent`')
    calls = [n for n in ast.walk(gc) if isinstance(n, ast.Call) and isinstance(n.func, ast.Attribute)
             and n.func.attr == 'search_ancestor']
    if len(calls) != 1:
        raise TieBroken('api/__init__.py: get_context search_ancestor calls', str(len(calls)))
    g.define('contextAncestorTypes', 'List String', lean_list([ast.literal_eval(a) for a in calls[0].args]),
             'jedi/api/__init__.py:Script.get_context leaf.search_ancestor(...)')
    kw = [n for n in ast.walk(gc) if isinstance(n, ast.keyword) and n.arg == 'include_prefixes']
    if len(kw) != 1 or not isinstance(kw[0].value, ast.Constant):
        raise TieBroken('api/__init__.py: get_context include_prefixes')
    g.define('includePrefixes', 'Bool', lean_bool(kw[0].value.value), 'jedi/api/__init__.py:Script.get_context')

    # BaseName.parent: types that take the tree route, ancestor types
    par = classes.find('BaseName.parent')
    ins = [n for n in ast.walk(par) if isinstance(n, ast.Compare) and isinstance(n.ops[0], ast.In)
           and u(n.left) == 'self.type']
    if len(ins) != 1:
        raise TieBroken('classes.py: BaseName.parent type test')
    g.define('parentTreeTypes', 'List String', lean_list(list(ast.literal_eval(ins[0].comparators[0]))),
             'jedi/api/classes.py:BaseName.parent')
    calls = [n for n in ast.walk(par) if isinstance(n, ast.Call) and isinstance(n.func, ast.Attribute)
             and n.func.attr == 'search_ancestor']
    if len(calls) != 1:
        raise TieBroken('classes.py: BaseName.parent search_ancestor calls', str(len(calls)))
    g.define('parentAncestorTypes', 'List String', lean_list([ast.literal_eval(a) for a in calls[0].args]),
             'jedi/api/classes.py:BaseName.parent')
    # lambdas: if <tree route> elif isinstance(name, (LambdaName, FunctionNameInClass)): create_context(lambda node)
    # else: name.parent_context
    top = [n for n in par.body if isinstance(n, ast.If) and ins[0] in list(ast.walk(n.test))]
    if len(top) != 1 or len(top[0].orelse) != 1 or not isinstance(top[0].orelse[0], ast.If):
        raise TieBroken('classes.py: BaseName.parent has no lambda branch after the tree route', u(par))
    lam_if = top[0].orelse[0]
    if [u(x) for x in lam_if.orelse] != ['context = self._name.parent_context']:
        raise TieBroken('classes.py: BaseName.parent fallback branch', u(lam_if))
    body = [u(x) for x in lam_if.body]
    if len(body) != 2 or body[0] != 'lambda_value, = self._name.infer()' or not body[1].startswith('context = '):
        raise TieBroken('classes.py: BaseName.parent lambda branch', repr(body))
    g.define('lambdaParentTest', 'String', lean_str(u(lam_if.test)), 'jedi/api/classes.py:BaseName.parent')
    g.define('lambdaParentContext', 'String', lean_str(body[1][len('context = '):]),
             'jedi/api/classes.py:BaseName.parent')

    # create_context: header comparison and the scope node types
    cc = context.find('TreeContextMixin.create_context')
    cmps = [_cmp_shape(n) for n in ast.walk(cc) if isinstance(n, ast.Compare)]
    for w in (['node.start_pos', '<', 'colon.start_pos'], ['node.start_pos', '>=', 'scope_node.children[-1].start_pos'],
              ["scope_node.type", 'in', "('funcdef', 'classdef')"],
              ["scope_node.type", 'in', "('funcdef', 'lambdef', 'classdef')"],
              ["scope_node.type", 'in', "('comp_for', 'sync_comp_for')"]):
        if w not in cmps:
            raise TieBroken('context.py: create_context comparison changed', '%r not in %r' % (w, cmps))
    g.define('createContextHeaderRule', 'List String', lean_list(['node.start_pos', '<', 'colon.start_pos']),
             'jedi/inference/context.py:TreeContextMixin.create_context')
    g.define('compLastChildRule', 'List String',
             lean_list(['node.start_pos', '>=', 'scope_node.children[-1].start_pos']),
             'jedi/inference/context.py:TreeContextMixin.create_context')
    isc = putils.find('is_scope')
    rets = [n for n in ast.walk(isc) if isinstance(n, ast.Return) and isinstance(n.value, ast.Compare)
            and isinstance(n.value.ops[0], ast.In)]
    if len(rets) != 1:
        raise TieBroken('parser_utils.py: is_scope shape')
    g.define('scopeNodeTypes', 'List String', lean_list(list(ast.literal_eval(rets[0].value.comparators[0]))),
             'jedi/parser_utils.py:is_scope')
    # lambda name
    lam = function.find('LambdaName')
    g.define('lambdaName', 'String', lean_str(function.const('string_name', lam)),
             'jedi/inference/value/function.py:LambdaName.string_name')
    linf = function.find('LambdaName.infer')
    rets = [u(n.value) for n in ast.walk(linf) if isinstance(n, ast.Return)]
    if rets != ['ValueSet([self._lambda_value])']:
        raise TieBroken('function.py: LambdaName.infer no longer returns the lambda value alone', repr(rets))

    _qualified_names(g, names, function, context, classes)

    # a tie broken here is raised after all definitions (FALLBACK values), so that the Lean side still builds
    deferred = None
    try:
        _members(g, instance, function, Src(repo, 'jedi/inference/value/klass.py'),
                 Src(repo, 'jedi/inference/base_value.py'))
    except TieBroken as e:
        deferred = e
        done = '\n'.join(g.lines)
        for name, typ, value in [('boundMethodOwnQual', 'Bool', lean_bool(FALLBACK['boundMethodOwnQual'])),
                                 ('mroShape', 'List String', lean_list(FALLBACK['mroShape']))]:
            if 'def %s ' % name not in done:
                g.define(name, typ, value, 'FALLBACK (source shape not recognised): value of the unchanged code')

    for s, d in [(api, 'Script.get_context'), (context, 'TreeContextMixin.create_context'),
                 (context, 'TreeContextMixin.create_value'), (classes, 'BaseName.parent'),
                 (classes, 'BaseName.full_name'), (names, 'AbstractNameDefinition.get_qualified_names'),
                 (names, 'AbstractTreeName.get_qualified_names'), (names, 'AbstractTreeName._get_qualified_names'),
                 (names, 'ValueNameMixin._get_qualified_names'), (names, '_ParamMixin.get_qualified_names'),
                 (function, 'FunctionAndClassBase.get_qualified_names'), (function, 'MethodValue.get_qualified_names'),
                 (function, 'FunctionValue.from_context'), (function, 'FunctionMixin.name'),
                 (function, 'LambdaName.infer'), (function, 'MethodValue.name'),
                 (instance, 'BoundMethod.name'),
                 (context, 'AbstractContext.get_qualified_names'), (context, 'ValueContext.get_qualified_names'),
                 (putils, 'is_scope')]:
        g.fp(s, d)
    if deferred is not None:
        import os
        from translator.extract import GEN_DIR, write_if_changed
        write_if_changed(os.path.join(GEN_DIR, g.pid + '.lean'), g.text())
        raise deferred

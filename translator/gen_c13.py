"""C13: the tables and guard expressions of safe-mode object access.

Extracted (python `ast` only):
  * ALLOWED_GETITEM_TYPES / ALLOWED_DESCRIPTOR_ACCESS as lists of CPython type names
  * the guard expressions of DirectObjectAccess.py__simple_getitem__ / py__iter__list /
    is_allowed_getattr and of CompiledValueFilter._get, translated to Lean `Bool` functions
  * the guard of DirectObjectAccess.py__bool__ and what _has_builtin_bool looks at (names in lookup
    order, accepted `type(method)`s)
  * shape checks (TieBroken otherwise) of the code the model transcribes by hand:
      getattr_static        metaclass looked at for types; its data descriptors beat class attributes;
                            every metaclass hit reports `__get__`
      lookup_special_method_static   `_check_class(type(obj), name)` - reads class dictionaries only
      has_iter / py__iter__list      reach `self._obj` only through that static lookup (plus the guarded
                                     loop over the listed builtin containers); no `iter(obj)`, no `obj.__iter__`
  * settings default and the line that copies the setting onto the inference state
"""
import ast
from translator.extract import Src, TieBroken, u, lean_list, lean_bool

# expression in access.py -> CPython type(...).__name__
TYPE_NAMES = {
    'str': 'str', 'list': 'list', 'tuple': 'tuple', 'bytes': 'bytes', 'bytearray': 'bytearray',
    'dict': 'dict', 'set': 'set', 'frozenset': 'frozenset',
    'types.FunctionType': 'function',
    'types.GetSetDescriptorType': 'getset_descriptor',
    'types.MemberDescriptorType': 'member_descriptor',
    'types.MethodType': 'method',
    'types.BuiltinFunctionType': 'builtin_function_or_method',
    'MethodDescriptorType': 'method_descriptor',
    'WrapperDescriptorType': 'wrapper_descriptor',
    'ClassMethodDescriptorType': 'classmethod_descriptor',
    'staticmethod': 'staticmethod',
    'classmethod': 'classmethod',
    'property': 'property',
}
# module level aliases that must keep their meaning
ALIASES = {
    'MethodDescriptorType': 'type(str.replace)',
    'WrapperDescriptorType': 'type(set.__iter__)',
    'ClassMethodDescriptorType': "type(object_class_dict['__subclasshook__'])",
}


def type_list(src, name):
    v = src.assign_value(name)
    if not isinstance(v, ast.Tuple):
        raise TieBroken('%s: %s is not a tuple literal' % (src.rel, name), u(v))
    out = []
    for e in v.elts:
        s = u(e)
        if s not in TYPE_NAMES:
            raise TieBroken('%s: %s has an element the model does not know' % (src.rel, name), s)
        if s in ALIASES and u(src.assign_value(s)) != ALIASES[s]:
            raise TieBroken('%s: alias %s changed' % (src.rel, s), u(src.assign_value(s)))
        out.append(TYPE_NAMES[s])
    return out


def to_lean(e, names):
    """python boolean expression over known atoms -> Lean Bool expression"""
    if isinstance(e, ast.BoolOp):
        op = ' && ' if isinstance(e.op, ast.And) else ' || '
        return '(' + op.join(to_lean(v, names) for v in e.values) + ')'
    if isinstance(e, ast.UnaryOp) and isinstance(e.op, ast.Not):
        return '!' + to_lean(e.operand, names)
    s = u(e)
    if s in names:
        return names[s]
    if isinstance(e, ast.Compare) and len(e.ops) == 1 and isinstance(e.ops[0], ast.NotIn):
        s2 = '%s in %s' % (u(e.left), u(e.comparators[0]))
        if s2 in names:
            return '!' + names[s2]
    raise TieBroken('guard expression has an atom the model does not know', s)


def ifs_of(fn):
    return [n for n in fn.body if isinstance(n, ast.If)]


def code_body(fn):
    """statements of a function without its docstring"""
    body = list(fn.body)
    if body and isinstance(body[0], ast.Expr) and isinstance(body[0].value, ast.Constant) \
            and isinstance(body[0].value.value, str):
        body = body[1:]
    return body


def expect_body(src, dotted, expected, why):
    """the function is exactly this list of statements (compared after ast.unparse)"""
    fn = src.find(dotted)
    got = [u(n) for n in code_body(fn)]
    want = [u(ast.parse(e).body[0]) for e in expected]
    if got != want:
        raise TieBroken('%s: %s %s' % (src.rel, dotted, why), u(fn))
    return fn


def obj_uses(fn, receiver='self._obj'):
    """how the live object is touched: (attribute reads on it, calls it is an argument of)"""
    attrs, calls = [], []
    for n in ast.walk(fn):
        if isinstance(n, ast.Attribute) and u(n.value) == receiver:
            attrs.append(n.attr)
        elif isinstance(n, ast.Call) and any(u(a) == receiver for a in n.args):
            calls.append(u(n.func))
        elif isinstance(n, ast.Subscript) and u(n.value) == receiver:
            attrs.append('[]')
        elif isinstance(n, ast.For) and receiver in u(n.iter):
            calls.append('for')
    return attrs, calls


def has_builtin_bool_shape(fn):
    """(tuple node of the names, the returned comparison, classes-in-the-outer-loop?)"""
    def tie(why):
        return TieBroken('access.py: _has_builtin_bool shape changed (%s)' % why, u(fn))
    body = code_body(fn)
    if len(body) < 2 or u(body[-1]) != 'return True':
        raise tie('does not end in `return True`')
    loops = [n for n in body[:-1] if isinstance(n, ast.For)]
    if len(loops) != 1 or any(not isinstance(n, (ast.For, ast.Assign)) for n in body[:-1]) or loops[0].orelse:
        raise tie('not one loop')
    outer = loops[0]
    if isinstance(outer.iter, ast.Tuple):
        # names in the outer loop: only this exact body
        ok = len(body) == 2 and u(outer.target) == 'name' and len(outer.body) == 2 \
            and u(outer.body[0]) == 'method = lookup_special_method_static(obj, name, _sentinel)' \
            and isinstance(outer.body[1], ast.If) and u(outer.body[1].test) == 'method is not _sentinel' \
            and len(outer.body[1].body) == 1 and isinstance(outer.body[1].body[0], ast.Return) \
            and not outer.body[1].orelse
        if not ok:
            raise tie('names-outer loop body')
        ret = outer.body[1].body[0].value
        if not (isinstance(ret, ast.Compare) and u(ret.left) == 'type(method)'):
            raise TieBroken('access.py: _has_builtin_bool does not decide by type(method)', u(ret))
        return outer.iter, ret, False
    # classes in the outer loop
    it = u(outer.iter)
    if not isinstance(outer.target, ast.Name) or it not in ('_static_getmro(type(obj))', 'type(obj).__mro__',
                                                            'type.mro(type(obj))'):
        raise tie('outer loop is neither over the names nor over the MRO of type(obj)')
    klass = outer.target.id
    inner = [n for n in outer.body if isinstance(n, ast.For)]
    assigns = [n for n in outer.body if isinstance(n, ast.Assign)]
    if len(inner) != 1 or len(inner) + len(assigns) != len(outer.body) or inner[0].orelse \
            or not isinstance(inner[0].iter, ast.Tuple) or u(inner[0].target) != 'name' or len(inner[0].body) != 1:
        raise tie('MRO-outer loop body')
    test = inner[0].body[0]
    if not (isinstance(test, ast.If) and not test.orelse and len(test.body) == 1
            and isinstance(test.body[0], ast.Return) and isinstance(test.test, ast.Compare)
            and len(test.test.ops) == 1 and isinstance(test.test.ops[0], ast.In) and u(test.test.left) == 'name'):
        raise tie('MRO-outer decision')
    d = u(test.test.comparators[0])
    # the dictionary asked must be the one of the class of this iteration
    src_of_d = {u(a.targets[0]): a.value for a in assigns if len(a.targets) == 1}
    dict_expr = src_of_d.get(d)
    ok = d in ('%s.__dict__' % klass, 'vars(%s)' % klass) or (
        dict_expr is not None and any(isinstance(n, ast.Name) and n.id == klass for n in ast.walk(dict_expr)))
    ret = test.body[0].value
    if not ok or not (isinstance(ret, ast.Compare) and u(ret.left) == 'type(%s[name])' % d):
        raise tie('MRO-outer: which dictionary / entry decides')
    return inner[0].iter, ret, True


# values of the unchanged source: used for the constants that can no longer be extracted when the
# source lost its expected shape, so that the Lean side still builds (against the model of the
# unchanged code) and the correspondence streams / the failing-input search can run.  The tie is reported.
EXPECTED = [
    ('allowedGetitemTypes', 'List String', lean_list(['str', 'list', 'tuple', 'bytes', 'bytearray', 'dict'])),
    ('allowedDescriptorAccess', 'List String',
     lean_list(['function', 'getset_descriptor', 'member_descriptor', 'method_descriptor', 'wrapper_descriptor',
                'classmethod_descriptor', 'staticmethod', 'classmethod'])),
    ('getitemRefuses (safe typeAllowed : Bool)', 'Bool', '(safe && !typeAllowed)'),
    ('iterListRefuses (typeAllowed : Bool)', 'Bool', '!typeAllowed'),
    ('mixedGetitemUsesCompiled (typeAllowed : Bool)', 'Bool', 'typeAllowed'),
    ('isDescriptorCond (isGet typeAllowed : Bool)', 'Bool', '(isGet && !typeAllowed)'),
    ('getAbsentCond (checkHas has : Bool)', 'Bool', '(checkHas && !has)'),
    ('getEmptyCond (isDescr has allowUnsafe : Bool)', 'Bool', '((isDescr || !has) && !allowUnsafe)'),
    ('getNotInDirCond (isInstance inDir : Bool)', 'Bool', '(isInstance && !inDir)'),
    ('boolRefuses (safe builtinBool : Bool)', 'Bool', '(safe && !builtinBool)'),
    ('boolLookupOrder', 'List String', lean_list(['__bool__', '__len__'])),
    ('builtinMethodTypes', 'List String', lean_list(['wrapper_descriptor'])),
    ('boolWalkMroOuter', 'Bool', 'false'),
    ('allowUnsafeDefault', 'Bool', 'true'),
]


def generate(repo, g):
    import os
    from translator.extract import GEN_DIR, write_if_changed
    defined = set()
    orig_define = g.define

    def define(name, typ, value, source):
        defined.add(name)
        orig_define(name, typ, value, source)
    g.define = define
    try:
        _generate(repo, g)
    except TieBroken:
        for name, typ, value in EXPECTED:
            if name not in defined:
                orig_define(name, typ, value, 'FALLBACK (source shape not recognised): value of the unchanged code')
        write_if_changed(os.path.join(GEN_DIR, g.pid + '.lean'), g.text())
        raise
    finally:
        g.define = orig_define


def _generate(repo, g):
    access = Src(repo, 'jedi/inference/compiled/access.py')
    static = Src(repo, 'jedi/inference/compiled/getattr_static.py')
    value = Src(repo, 'jedi/inference/compiled/value.py')
    mixed = Src(repo, 'jedi/inference/compiled/mixed.py')
    api = Src(repo, 'jedi/api/__init__.py')
    settings = Src(repo, 'jedi/settings.py')

    g.define('allowedGetitemTypes', 'List String', lean_list(type_list(access, 'ALLOWED_GETITEM_TYPES')),
             'jedi/inference/compiled/access.py:ALLOWED_GETITEM_TYPES')
    g.define('allowedDescriptorAccess', 'List String',
             lean_list(type_list(access, 'ALLOWED_DESCRIPTOR_ACCESS')),
             'jedi/inference/compiled/access.py:ALLOWED_DESCRIPTOR_ACCESS')

    # --- py__simple_getitem__: `if safe and type(self._obj) not in ALLOWED_GETITEM_TYPES: return None`
    fn = access.find('DirectObjectAccess.py__simple_getitem__')
    ifs = ifs_of(fn)
    if len(ifs) != 1 or u(ifs[0].body[0]) != 'return None' or ifs[0].orelse \
            or u(fn.body[-1]) != 'return self._create_access_path(self._obj[index])':
        raise TieBroken('access.py: py__simple_getitem__ no longer is guard + obj[index]', u(fn))
    names = {'safe': 'safe', 'type(self._obj) in ALLOWED_GETITEM_TYPES': 'typeAllowed'}
    g.define('getitemRefuses (safe typeAllowed : Bool)', 'Bool', to_lean(ifs[0].test, names),
             'access.py:DirectObjectAccess.py__simple_getitem__ guard')
    kw = [a for a in fn.args.kwonlyargs if a.arg == 'safe']
    if not kw or u(fn.args.kw_defaults[fn.args.kwonlyargs.index(kw[0])]) != 'True':
        raise TieBroken('access.py: py__simple_getitem__ safe= default is not True')

    # --- lookup_special_method_static: the static `_PyType_Lookup`
    expect_body(static, 'lookup_special_method_static',
                ['result = _check_class(type(obj), name)',
                 'if result is _sentinel:\n    return default',
                 'return result'],
                'is not `_check_class(type(obj), name)` with a default')

    # --- py__iter__list: static lookup of __iter__ / annotation / type guard / loop
    fn = access.find('DirectObjectAccess.py__iter__list')
    attrs, calls = obj_uses(fn)
    if attrs or 'iter' in calls:
        raise TieBroken('access.py: py__iter__list reads an attribute of the live object / calls iter(obj) '
                        '(runs user descriptors, __getattr__, __iter__)', u(fn))
    body = code_body(fn)
    ifs = ifs_of(fn)
    if len(ifs) != 3 or len(body) < 6 \
            or u(body[0]) != "iter_method = lookup_special_method_static(self._obj, '__iter__')" \
            or u(body[1]) != 'if iter_method is None:\n    return None' \
            or u(body[2]) != 'p = DirectObjectAccess(self._inference_state, iter_method).get_return_annotation()' \
            or u(body[3]) != 'if p is not None:\n    return [p]' \
            or body[4] is not ifs[2] or u(ifs[2].body[-1]) != 'return []' or ifs[2].orelse \
            or sorted(set(calls)) != ['enumerate', 'for', 'lookup_special_method_static', 'type'] \
            or not isinstance(body[-2], ast.For) or u(body[-2].iter) != 'enumerate(self._obj)' \
            or u(body[-1]) != 'return lst':
        raise TieBroken('access.py: py__iter__list shape changed', u(fn))
    g.define('iterListRefuses (typeAllowed : Bool)', 'Bool',
             to_lean(ifs[2].test, {'type(self._obj) in ALLOWED_GETITEM_TYPES': 'typeAllowed'}),
             'access.py:DirectObjectAccess.py__iter__list guard')

    # --- MixedObject.py__simple_getitem__: compiled path only for allowed types
    fn = mixed.find('MixedObject.py__simple_getitem__')
    ifs = ifs_of(fn)
    if len(ifs) != 1 or u(ifs[0].test) != 'type(python_object) in ALLOWED_GETITEM_TYPES' \
            or u(ifs[0].body[0]) != 'return self.compiled_value.py__simple_getitem__(index)' \
            or u(fn.body[-1]) != 'return self._wrapped_value.py__simple_getitem__(index)':
        raise TieBroken('mixed.py: MixedObject.py__simple_getitem__ shape changed', u(fn))
    g.define('mixedGetitemUsesCompiled (typeAllowed : Bool)', 'Bool', 'typeAllowed',
             'mixed.py:MixedObject.py__simple_getitem__')

    # --- CompiledValue.py__simple_getitem__ passes safe=not allow_unsafe_executions
    fn = value.find('CompiledValue.py__simple_getitem__')
    calls = [n for n in ast.walk(fn) if isinstance(n, ast.Call)
             and u(n.func) == 'self.access_handle.py__simple_getitem__']
    if len(calls) != 1 or [u(k.value) for k in calls[0].keywords if k.arg == 'safe'] != \
            ['not self.inference_state.allow_unsafe_executions']:
        raise TieBroken('value.py: CompiledValue.py__simple_getitem__ does not pass '
                        'safe=not allow_unsafe_executions', u(fn))

    # --- is_allowed_getattr: `if is_get_descriptor and type(attr) not in ALLOWED_DESCRIPTOR_ACCESS`
    fn = access.find('DirectObjectAccess.is_allowed_getattr')
    tr = [n for n in fn.body if isinstance(n, ast.Try)]
    if len(tr) != 1 or u(tr[0].body[0]) != 'attr, is_get_descriptor = getattr_static(self._obj, name)':
        raise TieBroken('access.py: is_allowed_getattr shape changed', u(fn))
    ifs = [n for n in tr[0].orelse if isinstance(n, ast.If)]
    if len(ifs) != 1 or u(ifs[0].body[-1]) != 'return (True, True, None)' \
            or u(fn.body[-1]) != 'return (True, False, None)':
        raise TieBroken('access.py: is_allowed_getattr else-branch shape changed', u(fn))
    g.define('isDescriptorCond (isGet typeAllowed : Bool)', 'Bool',
             to_lean(ifs[0].test, {'is_get_descriptor': 'isGet',
                                   'type(attr) in ALLOWED_DESCRIPTOR_ACCESS': 'typeAllowed'}),
             'access.py:DirectObjectAccess.is_allowed_getattr')
    h = tr[0].handlers[0]
    hif = [n for n in h.body if isinstance(n, ast.If)]
    if u(h.type) != 'AttributeError' or len(hif) != 1 or u(hif[0].test) != 'not safe' \
            or u(h.body[-1]) != 'return (False, False, None)':
        raise TieBroken('access.py: is_allowed_getattr AttributeError branch changed', u(h))

    # --- CompiledValueFilter._get: three guards in order
    fn = value.find('CompiledValueFilter._get')
    ifs = ifs_of(fn)
    if len(ifs) != 4 or u(ifs[0].test) != 'property_return_annotation is not None':
        raise TieBroken('value.py: CompiledValueFilter._get no longer has 4 ifs', u(fn))
    names = {'check_has_attribute': 'checkHas', 'has_attribute': 'has', 'is_descriptor': 'isDescr',
             'self._inference_state.allow_unsafe_executions': 'allowUnsafe',
             'self.is_instance': 'isInstance', 'in_dir_callback(name)': 'inDir'}
    if u(ifs[1].body[0]) != 'return []' or u(ifs[3].body[0]) != 'return []' \
            or u(ifs[2].body[0]) != 'return [self._get_cached_name(name, is_empty=True)]' \
            or u(fn.body[-1]) != 'return [self._get_cached_name(name, is_descriptor=is_descriptor)]':
        raise TieBroken('value.py: CompiledValueFilter._get results changed', u(fn))
    g.define('getAbsentCond (checkHas has : Bool)', 'Bool', to_lean(ifs[1].test, names),
             'value.py:CompiledValueFilter._get 2nd if')
    g.define('getEmptyCond (isDescr has allowUnsafe : Bool)', 'Bool', to_lean(ifs[2].test, names),
             'value.py:CompiledValueFilter._get 3rd if')
    g.define('getNotInDirCond (isInstance inDir : Bool)', 'Bool', to_lean(ifs[3].test, names),
             'value.py:CompiledValueFilter._get 4th if')
    # get(): check_has_attribute=True and safe = not allow_unsafe ; values(): no check_has
    fn = value.find('CompiledValueFilter.get')
    if 'safe = not self._inference_state.allow_unsafe_executions' not in [u(n) for n in fn.body] \
            or 'check_has_attribute=True' not in u(fn):
        raise TieBroken('value.py: CompiledValueFilter.get changed', u(fn))
    fn = value.find('CompiledValueFilter.values')
    if 'check_has_attribute' in u(fn) or 'for name in dir_infos:' not in u(fn):
        raise TieBroken('value.py: CompiledValueFilter.values changed', u(fn))
    fn = access.find('DirectObjectAccess.get_dir_infos')
    if '(name, self.is_allowed_getattr(name)) for name in self.dir()' not in u(fn):
        raise TieBroken('access.py: get_dir_infos changed', u(fn))

    # --- getattr_static: order of the decisions, metaclass handling
    fn = static.find('getattr_static')
    tops = [n for n in code_body(fn) if isinstance(n, ast.If)]
    tests = [u(n.test) for n in tops]
    want = ['not _is_type(obj)',
            'meta_result is not _sentinel and klass_result is not _sentinel',
            'instance_result is not _sentinel and klass_result is not _sentinel',
            'instance_result is not _sentinel', 'klass_result is not _sentinel',
            'meta_result is not _sentinel', 'default is not _sentinel']
    if tests != want:
        if 'obj is klass' in tests:
            raise TieBroken('getattr_static.py: the metaclass is only looked at after the class attributes '
                            '(a data descriptor of the metaclass shadowing a class attribute is missed)', u(fn))
        raise TieBroken('getattr_static.py: getattr_static decisions changed', repr(tests))
    by = dict(zip(want, tops))
    stmts = [u(n) for n in code_body(fn)]
    first = by['not _is_type(obj)']
    if [u(n) for n in first.orelse] != ['klass = obj', 'meta_result = _check_class(type(klass), attr)'] \
            or u(first.body[0]) != 'klass = type(obj)' \
            or 'meta_result' in u(ast.Module(body=first.body, type_ignores=[])) \
            or stmts[:2] != ['instance_result = _sentinel', 'meta_result = _sentinel'] \
            or 'klass_result = _check_class(klass, attr)' not in stmts:
        raise TieBroken('getattr_static.py: instance / class / metaclass lookups changed', u(fn))
    prio = by['meta_result is not _sentinel and klass_result is not _sentinel']
    if len(prio.body) != 1 or not isinstance(prio.body[0], ast.If) or prio.orelse or u(prio.body[0].test) != \
            "_safe_hasattr(meta_result, '__get__') and _safe_is_data_descriptor(meta_result)" \
            or u(prio.body[0].body[-1]) != 'return (meta_result, True)' or prio.body[0].orelse:
        raise TieBroken('getattr_static.py: metaclass data-descriptor priority rule changed', u(prio))
    prio = by['instance_result is not _sentinel and klass_result is not _sentinel']
    if len(prio.body) != 1 or not isinstance(prio.body[0], ast.If) or prio.orelse or u(prio.body[0].test) != \
            "_safe_hasattr(klass_result, '__get__') and _safe_is_data_descriptor(klass_result)" \
            or u(prio.body[0].body[-1]) != 'return (klass_result, True)' or prio.body[0].orelse:
        raise TieBroken('getattr_static.py: data-descriptor priority rule changed', u(prio))
    for test, ret in [('instance_result is not _sentinel', 'return (instance_result, False)'),
                      ('klass_result is not _sentinel',
                       "return (klass_result, _safe_hasattr(klass_result, '__get__'))"),
                      ('meta_result is not _sentinel',
                       "return (meta_result, _safe_hasattr(meta_result, '__get__'))"),
                      ('default is not _sentinel', 'return (default, False)')]:
        if [u(n) for n in by[test].body] != [ret] or by[test].orelse:
            raise TieBroken('getattr_static.py: `if %s` no longer is `%s`' % (test, ret), u(by[test]))
    if stmts[-1] != 'raise AttributeError(attr)':
        raise TieBroken('getattr_static.py: getattr_static no longer ends in AttributeError', stmts[-1])

    # --- has_iter: two static lookups, nothing is called on the object
    fn = access.find('DirectObjectAccess.has_iter')
    attrs, calls = obj_uses(fn)
    if 'iter' in calls or attrs:
        raise TieBroken('access.py: has_iter calls iter(self._obj) / reads an attribute of the live object '
                        '(runs a user-defined __iter__)', u(fn))
    expect_body(access, 'DirectObjectAccess.has_iter',
                ["iter_method = lookup_special_method_static(self._obj, '__iter__', _sentinel)",
                 "if iter_method is _sentinel:\n"
                 "    getitem = lookup_special_method_static(self._obj, '__getitem__', _sentinel)\n"
                 "    return getitem is not _sentinel",
                 'return iter_method is not None'],
                'is not the static __iter__ / __getitem__ lookup')
    fn = value.find('CompiledValue.py__iter__')
    if not any(isinstance(n, ast.If) and u(n.test) == 'not self.access_handle.has_iter()' for n in fn.body) \
            or 'access_path_list = self.access_handle.py__iter__list()' not in [u(n) for n in fn.body]:
        raise TieBroken('value.py: CompiledValue.py__iter__ is not has_iter() + py__iter__list()', u(fn))

    # --- py__bool__: `if safe and not _has_builtin_bool(self._obj): return None` ; bool(obj)
    fn = access.find('DirectObjectAccess.py__bool__')
    body = code_body(fn)
    if len(body) == 1 and u(body[0]) == 'return bool(self._obj)':
        raise TieBroken('access.py: py__bool__ is an unguarded bool(self._obj) '
                        '(runs user-defined __bool__ / __len__)', u(fn))
    if len(body) != 2 or not isinstance(body[0], ast.If) or u(body[0].body[-1]) != 'return None' \
            or body[0].orelse or u(body[1]) != 'return bool(self._obj)':
        raise TieBroken('access.py: py__bool__ no longer is guard + bool(obj)', u(fn))
    g.define('boolRefuses (safe builtinBool : Bool)', 'Bool',
             to_lean(body[0].test, {'safe': 'safe', '_has_builtin_bool(self._obj)': 'builtinBool'}),
             'access.py:DirectObjectAccess.py__bool__ guard')
    kw = [a for a in fn.args.kwonlyargs if a.arg == 'safe']
    if not kw or u(fn.args.kw_defaults[fn.args.kwonlyargs.index(kw[0])]) != 'True':
        raise TieBroken('access.py: py__bool__ safe= default is not True')
    fn = value.find('CompiledValue.py__bool__')
    calls = [n for n in ast.walk(fn) if isinstance(n, ast.Call) and u(n.func) == 'self.access_handle.py__bool__']
    if len(calls) != 1 or [u(k.value) for k in calls[0].keywords if k.arg == 'safe'] != \
            ['not self.inference_state.allow_unsafe_executions']:
        raise TieBroken('value.py: CompiledValue.py__bool__ does not pass safe=not allow_unsafe_executions',
                        u(fn))
    # _has_builtin_bool: two loop nestings are understood (everything else: TieBroken)
    #   names outer:  for name in (<names>): method = lookup_special_method_static(obj, name, _sentinel)
    #                     if method is not _sentinel: return type(method) is <T>
    #   MRO outer:    for klass in <mro of type(obj)>: [d = <dict of klass>]
    #                     for name in (<names>): if name in d: return type(d[name]) is <T>
    # followed by `return True`; the nesting is a constant of the model (Cfg.boolWalkMroOuter)
    fn = access.find('_has_builtin_bool')
    names_tuple, ret, mro_outer = has_builtin_bool_shape(fn)
    try:
        order = [ast.literal_eval(e) for e in names_tuple.elts]
    except ValueError:
        raise TieBroken('access.py: _has_builtin_bool names are not literals', u(names_tuple))
    if not (isinstance(ret, ast.Compare) and len(ret.ops) == 1):
        raise TieBroken('access.py: _has_builtin_bool does not decide by type(method)', u(ret))
    if isinstance(ret.ops[0], ast.Is):
        accepted = [ret.comparators[0]]
    elif isinstance(ret.ops[0], ast.In) and isinstance(ret.comparators[0], ast.Tuple):
        accepted = ret.comparators[0].elts
    else:
        raise TieBroken('access.py: _has_builtin_bool does not decide by type(method) is/in', u(ret))
    acc = []
    for e in accepted:
        n = u(e)
        if n not in TYPE_NAMES:
            raise TieBroken('access.py: _has_builtin_bool accepts a type the model does not know', n)
        if n in ALIASES and u(access.assign_value(n)) != ALIASES[n]:
            raise TieBroken('access.py: alias %s changed' % n, u(access.assign_value(n)))
        acc.append(TYPE_NAMES[n])
    g.define('boolLookupOrder', 'List String', lean_list(order), 'access.py:_has_builtin_bool names')
    g.define('builtinMethodTypes', 'List String', lean_list(acc),
             'access.py:_has_builtin_bool `type(method) is ...`')
    g.define('boolWalkMroOuter', 'Bool', lean_bool(mro_outer), 'access.py:_has_builtin_bool loop nesting')

    # --- settings
    g.define('allowUnsafeDefault', 'Bool', lean_bool(settings.const('allow_unsafe_interpreter_executions')),
             'jedi/settings.py')
    fn = api.find('Interpreter.__init__')
    if 'self._inference_state.allow_unsafe_executions = settings.allow_unsafe_interpreter_executions' \
            not in [u(n) for n in fn.body]:
        raise TieBroken('api/__init__.py: Interpreter.__init__ no longer copies the setting')
    istate = Src(repo, 'jedi/inference/__init__.py')
    fn = istate.find('InferenceState.__init__')
    if 'self.allow_unsafe_executions = False' not in [u(n) for n in fn.body]:
        raise TieBroken('inference/__init__.py: allow_unsafe_executions default is not False')

    for s, d in [(static, 'getattr_static'), (static, '_check_instance'), (static, '_check_class'),
                 (static, 'lookup_special_method_static'), (access, '_has_builtin_bool'),
                 (value, 'CompiledValue.py__bool__'),
                 (static, '_shadowed_dict'), (static, '_safe_hasattr'), (static, '_safe_is_data_descriptor'),
                 (access, 'DirectObjectAccess.is_allowed_getattr'),
                 (access, 'DirectObjectAccess.py__simple_getitem__'),
                 (access, 'DirectObjectAccess.py__iter__list'),
                 (access, 'DirectObjectAccess.has_iter'), (access, 'DirectObjectAccess.py__bool__'),
                 (access, 'DirectObjectAccess.getattr_paths'), (access, 'DirectObjectAccess.get_dir_infos'),
                 (value, 'CompiledValueFilter._get'), (value, 'CompiledValueFilter.get'),
                 (value, 'CompiledValueFilter.values'), (value, 'CompiledValue.py__simple_getitem__'),
                 (value, 'CompiledValue.py__iter__'), (value, 'create_from_name'),
                 (mixed, 'MixedObject.py__simple_getitem__'), (api, 'Interpreter.__init__')]:
        g.fp(s, d)

"""C13: the tables and guard expressions of safe-mode object access.

Extracted (python `ast` only):
  * ALLOWED_GETITEM_TYPES / ALLOWED_DESCRIPTOR_ACCESS as lists of CPython type names
  * the guard expressions of DirectObjectAccess.py__simple_getitem__ / py__iter__list /
    is_allowed_getattr and of CompiledValueFilter._get, translated to Lean `Bool` functions
  * three facts about code shape that decide whether the FULL statement can hold:
      metaHitReportsGet   getattr_static's metaclass branch reports `__get__` of the hit
      hasIterExecutes     DirectObjectAccess.has_iter calls iter(obj)
      boolExecutes        DirectObjectAccess.py__bool__ calls bool(obj) without a type guard
  * settings default and the line that copies the setting onto the inference state
"""
import ast
from translator.extract import Src, TieBroken, u, lean_list, lean_bool

# expression in access.py -> CPython type(...).__name__
TYPE_NAMES = {
    'str': 'str', 'list': 'list', 'tuple': 'tuple', 'bytes': 'bytes', 'bytearray': 'bytearray',
    'dict': 'dict', 'set': 'set', 'frozenset': 'frozenset',
    'types.FunctionType': 'function',
    'types.GetSetDescriptorType': 'getset_descriptor',
    'types.MemberDescriptorType': 'member_descriptor',
    'types.MethodType': 'method',
    'types.BuiltinFunctionType': 'builtin_function_or_method',
    'MethodDescriptorType': 'method_descriptor',
    'WrapperDescriptorType': 'wrapper_descriptor',
    'ClassMethodDescriptorType': 'classmethod_descriptor',
    'staticmethod': 'staticmethod',
    'classmethod': 'classmethod',
    'property': 'property',
}
# module level aliases that must keep their meaning
ALIASES = {
    'MethodDescriptorType': 'type(str.replace)',
    'WrapperDescriptorType': 'type(set.__iter__)',
    'ClassMethodDescriptorType': "type(object_class_dict['__subclasshook__'])",
}


def type_list(src, name):
    v = src.assign_value(name)
    if not isinstance(v, ast.Tuple):
        raise TieBroken('%s: %s is not a tuple literal' % (src.rel, name), u(v))
    out = []
    for e in v.elts:
        s = u(e)
        if s not in TYPE_NAMES:
            raise TieBroken('%s: %s has an element the model does not know' % (src.rel, name), s)
        if s in ALIASES and u(src.assign_value(s)) != ALIASES[s]:
            raise TieBroken('%s: alias %s changed' % (src.rel, s), u(src.assign_value(s)))
        out.append(TYPE_NAMES[s])
    return out


def to_lean(e, names):
    """python boolean expression over known atoms -> Lean Bool expression"""
    if isinstance(e, ast.BoolOp):
        op = ' && ' if isinstance(e.op, ast.And) else ' || '
        return '(' + op.join(to_lean(v, names) for v in e.values) + ')'
    if isinstance(e, ast.UnaryOp) and isinstance(e.op, ast.Not):
        return '!' + to_lean(e.operand, names)
    s = u(e)
    if s in names:
        return names[s]
    if isinstance(e, ast.Compare) and len(e.ops) == 1 and isinstance(e.ops[0], ast.NotIn):
        s2 = '%s in %s' % (u(e.left), u(e.comparators[0]))
        if s2 in names:
            return '!' + names[s2]
    raise TieBroken('guard expression has an atom the model does not know', s)


def ifs_of(fn):
    return [n for n in fn.body if isinstance(n, ast.If)]


def generate(repo, g):
    access = Src(repo, 'jedi/inference/compiled/access.py')
    static = Src(repo, 'jedi/inference/compiled/getattr_static.py')
    value = Src(repo, 'jedi/inference/compiled/value.py')
    mixed = Src(repo, 'jedi/inference/compiled/mixed.py')
    api = Src(repo, 'jedi/api/__init__.py')
    settings = Src(repo, 'jedi/settings.py')

    g.define('allowedGetitemTypes', 'List String', lean_list(type_list(access, 'ALLOWED_GETITEM_TYPES')),
             'jedi/inference/compiled/access.py:ALLOWED_GETITEM_TYPES')
    g.define('allowedDescriptorAccess', 'List String',
             lean_list(type_list(access, 'ALLOWED_DESCRIPTOR_ACCESS')),
             'jedi/inference/compiled/access.py:ALLOWED_DESCRIPTOR_ACCESS')

    # --- py__simple_getitem__: `if safe and type(self._obj) not in ALLOWED_GETITEM_TYPES: return None`
    fn = access.find('DirectObjectAccess.py__simple_getitem__')
    ifs = ifs_of(fn)
    if len(ifs) != 1 or u(ifs[0].body[0]) != 'return None' or ifs[0].orelse \
            or u(fn.body[-1]) != 'return self._create_access_path(self._obj[index])':
        raise TieBroken('access.py: py__simple_getitem__ no longer is guard + obj[index]', u(fn))
    names = {'safe': 'safe', 'type(self._obj) in ALLOWED_GETITEM_TYPES': 'typeAllowed'}
    g.define('getitemRefuses (safe typeAllowed : Bool)', 'Bool', to_lean(ifs[0].test, names),
             'access.py:DirectObjectAccess.py__simple_getitem__ guard')
    kw = [a for a in fn.args.kwonlyargs if a.arg == 'safe']
    if not kw or u(fn.args.kw_defaults[fn.args.kwonlyargs.index(kw[0])]) != 'True':
        raise TieBroken('access.py: py__simple_getitem__ safe= default is not True')

    # --- py__iter__list: try obj.__iter__ / annotation / type guard / loop
    fn = access.find('DirectObjectAccess.py__iter__list')
    ifs = ifs_of(fn)
    if len(ifs) != 1 or u(ifs[0].body[-1]) != 'return []' or not isinstance(fn.body[0], ast.Try) \
            or u(fn.body[0].body[0]) != 'iter_method = self._obj.__iter__':
        raise TieBroken('access.py: py__iter__list shape changed', u(fn))
    g.define('iterListRefuses (typeAllowed : Bool)', 'Bool',
             to_lean(ifs[0].test, {'type(self._obj) in ALLOWED_GETITEM_TYPES': 'typeAllowed'}),
             'access.py:DirectObjectAccess.py__iter__list guard')

    # --- MixedObject.py__simple_getitem__: compiled path only for allowed types
    fn = mixed.find('MixedObject.py__simple_getitem__')
    ifs = ifs_of(fn)
    if len(ifs) != 1 or u(ifs[0].test) != 'type(python_object) in ALLOWED_GETITEM_TYPES' \
            or u(ifs[0].body[0]) != 'return self.compiled_value.py__simple_getitem__(index)' \
            or u(fn.body[-1]) != 'return self._wrapped_value.py__simple_getitem__(index)':
        raise TieBroken('mixed.py: MixedObject.py__simple_getitem__ shape changed', u(fn))
    g.define('mixedGetitemUsesCompiled (typeAllowed : Bool)', 'Bool', 'typeAllowed',
             'mixed.py:MixedObject.py__simple_getitem__')

    # --- CompiledValue.py__simple_getitem__ passes safe=not allow_unsafe_executions
    fn = value.find('CompiledValue.py__simple_getitem__')
    calls = [n for n in ast.walk(fn) if isinstance(n, ast.Call)
             and u(n.func) == 'self.access_handle.py__simple_getitem__']
    if len(calls) != 1 or [u(k.value) for k in calls[0].keywords if k.arg == 'safe'] != \
            ['not self.inference_state.allow_unsafe_executions']:
        raise TieBroken('value.py: CompiledValue.py__simple_getitem__ does not pass '
                        'safe=not allow_unsafe_executions', u(fn))

    # --- is_allowed_getattr: `if is_get_descriptor and type(attr) not in ALLOWED_DESCRIPTOR_ACCESS`
    fn = access.find('DirectObjectAccess.is_allowed_getattr')
    tr = [n for n in fn.body if isinstance(n, ast.Try)]
    if len(tr) != 1 or u(tr[0].body[0]) != 'attr, is_get_descriptor = getattr_static(self._obj, name)':
        raise TieBroken('access.py: is_allowed_getattr shape changed', u(fn))
    ifs = [n for n in tr[0].orelse if isinstance(n, ast.If)]
    if len(ifs) != 1 or u(ifs[0].body[-1]) != 'return (True, True, None)' \
            or u(fn.body[-1]) != 'return (True, False, None)':
        raise TieBroken('access.py: is_allowed_getattr else-branch shape changed', u(fn))
    g.define('isDescriptorCond (isGet typeAllowed : Bool)', 'Bool',
             to_lean(ifs[0].test, {'is_get_descriptor': 'isGet',
                                   'type(attr) in ALLOWED_DESCRIPTOR_ACCESS': 'typeAllowed'}),
             'access.py:DirectObjectAccess.is_allowed_getattr')
    h = tr[0].handlers[0]
    hif = [n for n in h.body if isinstance(n, ast.If)]
    if u(h.type) != 'AttributeError' or len(hif) != 1 or u(hif[0].test) != 'not safe' \
            or u(h.body[-1]) != 'return (False, False, None)':
        raise TieBroken('access.py: is_allowed_getattr AttributeError branch changed', u(h))

    # --- CompiledValueFilter._get: three guards in order
    fn = value.find('CompiledValueFilter._get')
    ifs = ifs_of(fn)
    if len(ifs) != 4 or u(ifs[0].test) != 'property_return_annotation is not None':
        raise TieBroken('value.py: CompiledValueFilter._get no longer has 4 ifs', u(fn))
    names = {'check_has_attribute': 'checkHas', 'has_attribute': 'has', 'is_descriptor': 'isDescr',
             'self._inference_state.allow_unsafe_executions': 'allowUnsafe',
             'self.is_instance': 'isInstance', 'in_dir_callback(name)': 'inDir'}
    if u(ifs[1].body[0]) != 'return []' or u(ifs[3].body[0]) != 'return []' \
            or u(ifs[2].body[0]) != 'return [self._get_cached_name(name, is_empty=True)]' \
            or u(fn.body[-1]) != 'return [self._get_cached_name(name, is_descriptor=is_descriptor)]':
        raise TieBroken('value.py: CompiledValueFilter._get results changed', u(fn))
    g.define('getAbsentCond (checkHas has : Bool)', 'Bool', to_lean(ifs[1].test, names),
             'value.py:CompiledValueFilter._get 2nd if')
    g.define('getEmptyCond (isDescr has allowUnsafe : Bool)', 'Bool', to_lean(ifs[2].test, names),
             'value.py:CompiledValueFilter._get 3rd if')
    g.define('getNotInDirCond (isInstance inDir : Bool)', 'Bool', to_lean(ifs[3].test, names),
             'value.py:CompiledValueFilter._get 4th if')
    # get(): check_has_attribute=True and safe = not allow_unsafe ; values(): no check_has
    fn = value.find('CompiledValueFilter.get')
    if 'safe = not self._inference_state.allow_unsafe_executions' not in [u(n) for n in fn.body] \
            or 'check_has_attribute=True' not in u(fn):
        raise TieBroken('value.py: CompiledValueFilter.get changed', u(fn))
    fn = value.find('CompiledValueFilter.values')
    if 'check_has_attribute' in u(fn) or 'for name in dir_infos:' not in u(fn):
        raise TieBroken('value.py: CompiledValueFilter.values changed', u(fn))
    fn = access.find('DirectObjectAccess.get_dir_infos')
    if '(name, self.is_allowed_getattr(name)) for name in self.dir()' not in u(fn):
        raise TieBroken('access.py: get_dir_infos changed', u(fn))

    # --- getattr_static: metaclass branch
    fn = static.find('getattr_static')
    meta_if = [n for n in fn.body if isinstance(n, ast.If) and u(n.test) == 'obj is klass']
    rets = [n for i in meta_if for n in ast.walk(i) if isinstance(n, ast.Return)]
    if len(meta_if) != 1 or len(rets) != 1 or not isinstance(rets[0].value, ast.Tuple) \
            or len(rets[0].value.elts) != 2:
        raise TieBroken('getattr_static.py: metaclass branch not found', u(fn))
    flag = u(rets[0].value.elts[1])
    if flag == 'False':
        meta = False
    elif '_safe_hasattr' in flag and '__get__' in flag:
        meta = True
    else:
        raise TieBroken('getattr_static.py: metaclass branch returns an unknown descriptor flag', flag)
    g.define('metaHitReportsGet', 'Bool', lean_bool(meta),
             'getattr_static.py:getattr_static `if obj is klass:` return (hit, <flag>)')
    # priority rule for data descriptors
    prio = [n for n in fn.body if isinstance(n, ast.If)
            and u(n.test) == 'instance_result is not _sentinel and klass_result is not _sentinel']
    if len(prio) != 1 or u(prio[0].body[0].test) != \
            "_safe_hasattr(klass_result, '__get__') and _safe_is_data_descriptor(klass_result)":
        raise TieBroken('getattr_static.py: data-descriptor priority rule changed', u(fn))

    # --- has_iter / py__bool__
    fn = access.find('DirectObjectAccess.has_iter')
    has_iter_exec = any(isinstance(n, ast.Call) and u(n) == 'iter(self._obj)' for n in ast.walk(fn))
    g.define('hasIterExecutes', 'Bool', lean_bool(has_iter_exec),
             'access.py:DirectObjectAccess.has_iter contains iter(self._obj)')
    fn = access.find('DirectObjectAccess.py__bool__')
    body = [n for n in fn.body if not (isinstance(n, ast.Expr) and isinstance(n.value, ast.Constant))]
    bool_exec = len(body) == 1 and u(body[0]) == 'return bool(self._obj)'
    if not bool_exec and not any(isinstance(n, ast.If) for b in body for n in ast.walk(b)):
        raise TieBroken('access.py: py__bool__ is neither bool(obj) nor guarded', u(fn))
    g.define('boolExecutes', 'Bool', lean_bool(bool_exec),
             'access.py:DirectObjectAccess.py__bool__ is `return bool(self._obj)`')

    # --- settings
    g.define('allowUnsafeDefault', 'Bool', lean_bool(settings.const('allow_unsafe_interpreter_executions')),
             'jedi/settings.py')
    fn = api.find('Interpreter.__init__')
    if 'self._inference_state.allow_unsafe_executions = settings.allow_unsafe_interpreter_executions' \
            not in [u(n) for n in fn.body]:
        raise TieBroken('api/__init__.py: Interpreter.__init__ no longer copies the setting')
    istate = Src(repo, 'jedi/inference/__init__.py')
    fn = istate.find('InferenceState.__init__')
    if 'self.allow_unsafe_executions = False' not in [u(n) for n in fn.body]:
        raise TieBroken('inference/__init__.py: allow_unsafe_executions default is not False')

    for s, d in [(static, 'getattr_static'), (static, '_check_instance'), (static, '_check_class'),
                 (static, '_shadowed_dict'), (static, '_safe_hasattr'), (static, '_safe_is_data_descriptor'),
                 (access, 'DirectObjectAccess.is_allowed_getattr'),
                 (access, 'DirectObjectAccess.py__simple_getitem__'),
                 (access, 'DirectObjectAccess.py__iter__list'),
                 (access, 'DirectObjectAccess.has_iter'), (access, 'DirectObjectAccess.py__bool__'),
                 (access, 'DirectObjectAccess.getattr_paths'), (access, 'DirectObjectAccess.get_dir_infos'),
                 (value, 'CompiledValueFilter._get'), (value, 'CompiledValueFilter.get'),
                 (value, 'CompiledValueFilter.values'), (value, 'CompiledValue.py__simple_getitem__'),
                 (value, 'CompiledValue.py__iter__'), (value, 'create_from_name'),
                 (mixed, 'MixedObject.py__simple_getitem__'), (api, 'Interpreter.__init__')]:
        g.fp(s, d)

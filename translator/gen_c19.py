"""C19: ignore-folder table, python suffixes, open/parse limits, .gitignore line filter, fingerprints."""
import ast
from translator.extract import Src, TieBroken, u, lean_list, lean_bool


def _calls(node, name):
    return [n for n in ast.walk(node) if isinstance(n, ast.Call) and u(n.func) == name]


def generate(repo, g):
    refs = Src(repo, 'jedi/inference/references.py')
    fio = Src(repo, 'jedi/file_io.py')
    helpers = Src(repo, 'jedi/api/helpers.py')
    comp = Src(repo, 'jedi/api/completion.py')
    proj = Src(repo, 'jedi/api/project.py')

    ign = refs.const('_IGNORE_FOLDERS')
    if not isinstance(ign, (tuple, list, set, frozenset)) or not all(isinstance(x, str) for x in ign):
        raise TieBroken('references.py: _IGNORE_FOLDERS is not a collection of strings', repr(ign))
    g.define('ignoreFolders', 'List String', lean_list(sorted(ign) if isinstance(ign, (set, frozenset)) else list(ign)),
             'jedi/inference/references.py:_IGNORE_FOLDERS')
    for nm, lean in [('_OPENED_FILE_LIMIT', 'openedFileLimit'), ('_PARSED_FILE_LIMIT', 'parsedFileLimit')]:
        v = refs.const(nm)
        if not isinstance(v, int) or isinstance(v, bool) or v < 0:
            raise TieBroken('references.py: %s is not a natural number' % nm, repr(v))
        g.define(lean, 'Nat', str(v), 'jedi/inference/references.py:' + nm)

    # recurse_find_python_folders_and_files: `path.suffix in (...)`, `path.name == '.gitignore'`,
    # and the three conjuncts of the folder filter
    fn = refs.find('recurse_find_python_folders_and_files')
    suffixes = None
    gitname = None
    for n in ast.walk(fn):
        if isinstance(n, ast.Compare) and len(n.ops) == 1:
            if u(n.left) == 'path.suffix' and isinstance(n.ops[0], ast.In):
                suffixes = ast.literal_eval(n.comparators[0])
            if u(n.left) == 'path.name' and isinstance(n.ops[0], ast.Eq):
                gitname = ast.literal_eval(n.comparators[0])
    if suffixes is None or gitname is None:
        raise TieBroken('references.py: suffix test / .gitignore test not found in recurse_find_python_folders_and_files')
    g.define('pySuffixes', 'List String', lean_list(list(suffixes)),
             'jedi/inference/references.py:recurse_find_python_folders_and_files `path.suffix in`')
    g.define('gitignoreName', 'String', lean_list([gitname])[1:-1],
             'jedi/inference/references.py:recurse_find_python_folders_and_files `path.name ==`')
    comps = [n for n in ast.walk(fn) if isinstance(n, ast.ListComp)]
    if len(comps) != 1 or len(comps[0].generators) != 1 or len(comps[0].generators[0].ifs) != 1:
        raise TieBroken('references.py: folder filter comprehension not found')
    cond = comps[0].generators[0].ifs[0]
    if not isinstance(cond, ast.BoolOp) or not isinstance(cond.op, ast.And):
        raise TieBroken('references.py: folder filter is not a conjunction', u(cond))
    table = {
        'folder_io.path not in except_paths': 'not_in_except_paths',
        'folder_io.path not in except_paths_relative_expanded': 'not_in_relative_expanded',
        'folder_io.get_base_name() not in _IGNORE_FOLDERS': 'base_name_not_ignored',
    }
    conj = []
    for v in cond.values:
        s = u(v)
        if s not in table:
            raise TieBroken('references.py: unknown folder filter conjunct', s)
        conj.append(table[s])
    g.define('folderFilterConjuncts', 'List String', lean_list(conj),
             'jedi/inference/references.py:recurse_find_python_folders_and_files folder_ios[:] = [...]')

    # gitignored_paths: the skip condition
    fn = refs.find('gitignored_paths')
    ifs = [n for n in ast.walk(fn) if isinstance(n, ast.If)]
    skip = [i for i in ifs if len(i.body) == 1 and isinstance(i.body[0], ast.Continue)]
    if len(skip) != 1:
        raise TieBroken('references.py: gitignored_paths skip condition not found')
    want = "not l or l.startswith(b'#') or l.startswith(b'!') or (b'*' in l)"
    got = u(skip[0].test)
    if got.replace('(', '').replace(')', '') != want.replace('(', '').replace(')', ''):
        raise TieBroken('references.py: gitignored_paths skip condition changed', got)
    g.define('gitignoreSkipPrefixes', 'List Char', "['#', '!']",
             'jedi/inference/references.py:gitignored_paths `l.startswith(b..)`')
    g.define('gitignoreSkipContains', 'List Char', "['*']",
             "jedi/inference/references.py:gitignored_paths `b'*' in l`")

    # split_search_string: the 'def' -> 'function' alias
    fn = helpers.find('split_search_string')
    alias = [(ast.literal_eval(i.test.comparators[0]), ast.literal_eval(i.body[0].value))
             for i in ast.walk(fn) if isinstance(i, ast.If) and isinstance(i.test, ast.Compare)
             and u(i.test.left) == 'type' and len(i.body) == 1 and isinstance(i.body[0], ast.Assign)]
    if alias != [('def', 'function')]:
        raise TieBroken('helpers.py: split_search_string alias table changed', repr(alias))
    g.define('searchTypeAlias', 'List (String × String)', '[("def", "function")]',
             'jedi/api/helpers.py:split_search_string')

    for s, d in [(refs, 'recurse_find_python_folders_and_files'), (refs, 'gitignored_paths'),
                 (refs, 'expand_relative_ignore_paths'), (refs, 'search_in_file_ios'), (refs, '_check_fs'),
                 (fio, 'FolderIO.walk'), (helpers, 'split_search_string'), (helpers, 'get_module_names'),
                 (comp, 'search_in_module'), (proj, '_try_to_skip_duplicates'),
                 (proj, 'Project._search_func'), (proj, '_remove_imports')]:
        g.fp(s, d)

"""C19: ignore-folder table, python suffixes, open/parse limits, .gitignore line filter, fingerprints."""
import ast
from translator.extract import Src, TieBroken, u, lean_list, lean_bool, lean_str


def _calls(node, name):
    return [n for n in ast.walk(node) if isinstance(n, ast.Call) and u(n.func) == name]


def generate(repo, g):
    refs = Src(repo, 'jedi/inference/references.py')
    fio = Src(repo, 'jedi/file_io.py')
    helpers = Src(repo, 'jedi/api/helpers.py')
    comp = Src(repo, 'jedi/api/completion.py')
    proj = Src(repo, 'jedi/api/project.py')

    ign = refs.const('_IGNORE_FOLDERS')
    if not isinstance(ign, (tuple, list, set, frozenset)) or not all(isinstance(x, str) for x in ign):
        raise TieBroken('references.py: _IGNORE_FOLDERS is not a collection of strings', repr(ign))
    g.define('ignoreFolders', 'List String', lean_list(sorted(ign) if isinstance(ign, (set, frozenset)) else list(ign)),
             'jedi/inference/references.py:_IGNORE_FOLDERS')
    for nm, lean in [('_OPENED_FILE_LIMIT', 'openedFileLimit'), ('_PARSED_FILE_LIMIT', 'parsedFileLimit')]:
        v = refs.const(nm)
        if not isinstance(v, int) or isinstance(v, bool) or v < 0:
            raise TieBroken('references.py: %s is not a natural number' % nm, repr(v))
        g.define(lean, 'Nat', str(v), 'jedi/inference/references.py:' + nm)

    # recurse_find_python_folders_and_files (shape after the fix "gitignore-file-entries-and-prefix"):
    #   except_paths = set(str(p) for p in except_paths)
    #   for root_folder_io, folder_ios, file_ios in folder_io.walk():
    #       for file_io in file_ios:  if file_io.path.name == '.gitignore': ... |= ...
    #       except_paths_relative_expanded = expand_relative_ignore_paths(root_folder_io, except_paths_relative)
    #       for file_io in file_ios:  if path.suffix in (...):  if <file filter>:  yield None, file_io
    #       folder_ios[:] = [... if <folder filter>]
    #       for folder_io in folder_ios: yield folder_io, None
    fn = refs.find('recurse_find_python_folders_and_files')
    first = u(fn.body[0]) if fn.body else ''
    if first not in ('except_paths = set((str(p) for p in except_paths))', 'except_paths = {str(p) for p in except_paths}'):
        raise TieBroken('references.py: except_paths is no longer converted to a set of str first', first)
    loops = [n for n in fn.body if isinstance(n, ast.For)]
    if len(loops) != 1 or u(loops[0].iter) != 'folder_io.walk()':
        raise TieBroken('references.py: the loop over folder_io.walk() not found')
    body = loops[0].body
    kinds = [type(n).__name__ for n in body]
    if kinds != ['For', 'Assign', 'For', 'Assign', 'For']:
        raise TieBroken('references.py: body of the walk loop is not [read .gitignore, expand, yield files, '
                        'filter folders, yield folders]', repr(kinds))
    read_loop, expand_assign, file_loop, filter_assign, folder_loop = body
    # (1) the .gitignore loop: nothing but `if file_io.path.name == <name>: read, |=, |=`
    gitname = None
    if len(read_loop.body) == 1 and isinstance(read_loop.body[0], ast.If) and not read_loop.body[0].orelse:
        t = read_loop.body[0].test
        if isinstance(t, ast.Compare) and len(t.ops) == 1 and isinstance(t.ops[0], ast.Eq) \
                and u(t.left) == 'file_io.path.name':
            gitname = ast.literal_eval(t.comparators[0])
        inner = [u(x) for x in read_loop.body[0].body]
        if inner != ['ignored_paths_abs, ignored_paths_rel = gitignored_paths(root_folder_io, file_io)',
                     'except_paths |= ignored_paths_abs', 'except_paths_relative |= ignored_paths_rel']:
            raise TieBroken('references.py: body of the .gitignore branch changed', repr(inner))
    if gitname is None or u(read_loop.iter) != 'file_ios' or any(isinstance(n, (ast.Yield, ast.YieldFrom))
                                                                 for n in ast.walk(read_loop)):
        raise TieBroken('references.py: first loop of the walk step is not the .gitignore reader')
    # (2) expansion for this folder, after every .gitignore of the listing was read
    if u(expand_assign) != ('except_paths_relative_expanded = '
                            'expand_relative_ignore_paths(root_folder_io, except_paths_relative)'):
        raise TieBroken('references.py: expand_relative_ignore_paths call changed', u(expand_assign))
    # (3) the file loop: suffix test, then the file filter, then the yield
    suffixes = None
    fconj = None
    if u(file_loop.iter) == 'file_ios' and len(file_loop.body) == 2 and u(file_loop.body[0]) == 'path = file_io.path' \
            and isinstance(file_loop.body[1], ast.If) and not file_loop.body[1].orelse:
        outer = file_loop.body[1]
        t = outer.test
        if isinstance(t, ast.Compare) and len(t.ops) == 1 and isinstance(t.ops[0], ast.In) and u(t.left) == 'path.suffix':
            suffixes = ast.literal_eval(t.comparators[0])
        if len(outer.body) == 1 and isinstance(outer.body[0], ast.If) and not outer.body[0].orelse \
                and [u(x) for x in outer.body[0].body] == ['yield (None, file_io)']:
            c = outer.body[0].test
            vals = c.values if isinstance(c, ast.BoolOp) and isinstance(c.op, ast.And) else [c]
            ftable = {'str(path) not in except_paths': 'not_in_except_paths',
                      'str(path) not in except_paths_relative_expanded': 'not_in_relative_expanded'}
            fconj = []
            for v in vals:
                if u(v) not in ftable:
                    raise TieBroken('references.py: unknown file filter conjunct', u(v))
                fconj.append(ftable[u(v)])
    if suffixes is None or fconj is None:
        raise TieBroken('references.py: file loop of the walk step is not `suffix test -> file filter -> yield`',
                        u(file_loop))
    # (4), (5)
    if u(filter_assign.targets[0]) != 'folder_ios[:]' or u(folder_loop) != \
            'for folder_io in folder_ios:\n    yield (folder_io, None)':
        raise TieBroken('references.py: folder filter assignment / folder yield loop changed')
    g.define('pySuffixes', 'List String', lean_list(list(suffixes)),
             'jedi/inference/references.py:recurse_find_python_folders_and_files `path.suffix in`')
    g.define('gitignoreName', 'String', lean_list([gitname])[1:-1],
             'jedi/inference/references.py:recurse_find_python_folders_and_files `file_io.path.name ==`')
    g.define('fileFilterConjuncts', 'List String', lean_list(fconj),
             'jedi/inference/references.py:recurse_find_python_folders_and_files `if str(path) not in ...: yield`')
    comps = [n for n in ast.walk(fn) if isinstance(n, ast.ListComp)]
    if len(comps) != 1 or len(comps[0].generators) != 1 or len(comps[0].generators[0].ifs) != 1:
        raise TieBroken('references.py: folder filter comprehension not found')
    cond = comps[0].generators[0].ifs[0]
    if not isinstance(cond, ast.BoolOp) or not isinstance(cond.op, ast.And):
        raise TieBroken('references.py: folder filter is not a conjunction', u(cond))
    table = {
        'folder_io.path not in except_paths': 'not_in_except_paths',
        'folder_io.path not in except_paths_relative_expanded': 'not_in_relative_expanded',
        'folder_io.get_base_name() not in _IGNORE_FOLDERS': 'base_name_not_ignored',
    }
    conj = []
    for v in cond.values:
        s = u(v)
        if s not in table:
            raise TieBroken('references.py: unknown folder filter conjunct', s)
        conj.append(table[s])
    g.define('folderFilterConjuncts', 'List String', lean_list(conj),
             'jedi/inference/references.py:recurse_find_python_folders_and_files folder_ios[:] = [...]')

    # expand_relative_ignore_paths: separator-aware test
    fn = refs.find('expand_relative_ignore_paths')
    sc = [n for n in ast.walk(fn) if isinstance(n, ast.SetComp)]
    ok = (len(sc) == 1 and u(sc[0].elt) == 'os.path.join(curr_path, p[1])' and len(sc[0].generators) == 1
          and u(sc[0].generators[0].iter) == 'relative_paths' and len(sc[0].generators[0].ifs) == 1
          and u(fn.body[0]) == 'curr_path = folder_io.path')
    want = 'curr_path == p[0] or curr_path.startswith(p[0].rstrip(os.path.sep) + os.path.sep)'
    if not ok or u(sc[0].generators[0].ifs[0]) != want:
        raise TieBroken('references.py: expand_relative_ignore_paths is not the separator-aware comprehension',
                        u(fn))
    g.define('relativeEntryTest', 'String', '"eq_or_sep_prefix"',
             'jedi/inference/references.py:expand_relative_ignore_paths `if curr_path == p[0] or ...`')

    # gitignored_paths: the skip condition
    fn = refs.find('gitignored_paths')
    ifs = [n for n in ast.walk(fn) if isinstance(n, ast.If)]
    skip = [i for i in ifs if len(i.body) == 1 and isinstance(i.body[0], ast.Continue)]
    if len(skip) != 1:
        raise TieBroken('references.py: gitignored_paths skip condition not found')
    want = "not l or l.startswith(b'#') or l.startswith(b'!') or (b'*' in l)"
    got = u(skip[0].test)
    if got.replace('(', '').replace(')', '') != want.replace('(', '').replace(')', ''):
        raise TieBroken('references.py: gitignored_paths skip condition changed', got)
    g.define('gitignoreSkipPrefixes', 'List Char', "['#', '!']",
             'jedi/inference/references.py:gitignored_paths `l.startswith(b..)`')
    g.define('gitignoreSkipContains', 'List Char', "['*']",
             "jedi/inference/references.py:gitignored_paths `b'*' in l`")

    # split_search_string: the 'def' -> 'function' alias
    fn = helpers.find('split_search_string')
    alias = [(ast.literal_eval(i.test.comparators[0]), ast.literal_eval(i.body[0].value))
             for i in ast.walk(fn) if isinstance(i, ast.If) and isinstance(i.test, ast.Compare)
             and u(i.test.left) == 'type' and len(i.body) == 1 and isinstance(i.body[0], ast.Assign)]
    if alias != [('def', 'function')]:
        raise TieBroken('helpers.py: split_search_string alias table changed', repr(alias))
    g.define('searchTypeAlias', 'List (String × String)', '[("def", "function")]',
             'jedi/api/helpers.py:split_search_string')

    # Project._search_func, step 1 (modules / packages named like the first search word) and the
    # collection of the files step 2 scans for identifiers:
    #   ios = recurse_find_python_folders_and_files(FolderIO(str(self._path)))
    #   file_ios = []
    #   for folder_io, file_io in ios:
    #       if file_io is None: <folder: file_name == name or file_name == stub_folder_name ... else: continue>
    #       else: <FILE BRANCH: statements over {file_ios.append(file_io), m = load_module_from_path(..),
    #              continue, if Path(file_io.path).name in (name + sfx, ..): .. else: ..}>
    #       debug.dbg(..); yield from search_in_module(.., names=[m.name], ..)
    #   for module_context in search_in_file_ios(inference_state, file_ios, name, complete=complete): ...
    # The file branch is transcribed statement by statement (not pattern-matched against the one
    # expected text): WHERE `file_ios.append` stands decides which files reach step 2, and the
    # theorem `search_complete` is stated over this transcription.
    fn = proj.find('Project._search_func')
    assigns = {u(n.targets[0]): u(n.value) for n in fn.body if isinstance(n, ast.Assign) and len(n.targets) == 1}
    if assigns.get('ios') != 'recurse_find_python_folders_and_files(FolderIO(str(self._path)))':
        raise TieBroken('project.py: _search_func no longer walks FolderIO(str(self._path))', repr(assigns.get('ios')))
    if assigns.get('file_ios') != '[]':
        raise TieBroken('project.py: _search_func: file_ios is not initialised with []', repr(assigns.get('file_ios')))
    if assigns.get('name') != 'wanted_names[0]':
        raise TieBroken('project.py: _search_func: name is not wanted_names[0]', repr(assigns.get('name')))
    stub = assigns.get('stub_folder_name', '')
    if not (stub.startswith('name + ') and isinstance(ast.literal_eval(stub[len('name + '):]), str)):
        raise TieBroken('project.py: _search_func: stub_folder_name is not name + <literal>', stub)
    loops = [n for n in fn.body if isinstance(n, ast.For)]
    if len(loops) != 2 or u(loops[0].target) != '(folder_io, file_io)' or u(loops[0].iter) != 'ios':
        raise TieBroken('project.py: _search_func: the loop `for folder_io, file_io in ios` / the identifier loop not found')
    step1, step2 = loops
    if len(step1.body) != 3 or not isinstance(step1.body[0], ast.If) or u(step1.body[0].test) != 'file_io is None' \
            or not u(step1.body[1]).startswith('debug.dbg(') \
            or not (isinstance(step1.body[2], ast.Expr) and isinstance(step1.body[2].value, ast.YieldFrom)
                    and u(step1.body[2].value.value).startswith('search_in_module(')
                    and 'names=[m.name]' in u(step1.body[2].value.value)):
        raise TieBroken('project.py: _search_func: step-1 loop body is not [if file_io is None, debug.dbg, '
                        'yield from search_in_module(names=[m.name])]', u(step1)[:400])
    folder_branch, file_branch = step1.body[0].body, step1.body[0].orelse
    # folder branch: `file_name = folder_io.get_base_name()`, `if file_name == name or file_name == stub_folder_name: .. else: continue`
    if len(folder_branch) != 2 or u(folder_branch[0]) != 'file_name = folder_io.get_base_name()' \
            or not isinstance(folder_branch[1], ast.If) \
            or u(folder_branch[1].test) != 'file_name == name or file_name == stub_folder_name' \
            or [u(x) for x in folder_branch[1].orelse] != ['continue']:
        raise TieBroken('project.py: _search_func: folder branch of step 1 changed', u(step1.body[0])[:400])

    def simple(st):
        t = u(st)
        if t == 'file_ios.append(file_io)':
            return 'append'
        if t == 'm = load_module_from_path(inference_state, file_io).as_context()':
            return 'load'
        if isinstance(st, ast.Continue):
            return 'continue'
        raise TieBroken('project.py: _search_func: unknown statement in the file branch of step 1', t)

    suffixes = []

    def stmt(st):
        if isinstance(st, ast.If):
            t = st.test
            ok = (isinstance(t, ast.Compare) and len(t.ops) == 1 and isinstance(t.ops[0], ast.In)
                  and u(t.left) == 'Path(file_io.path).name' and isinstance(t.comparators[0], ast.Tuple))
            if ok:
                for e in t.comparators[0].elts:
                    if not (isinstance(e, ast.BinOp) and isinstance(e.op, ast.Add) and u(e.left) == 'name'
                            and isinstance(e.right, ast.Constant) and isinstance(e.right.value, str)):
                        ok = False
                        break
                    suffixes.append(e.right.value)
            if not ok:
                raise TieBroken('project.py: _search_func: the file-name test of step 1 is not '
                                '`Path(file_io.path).name in (name + <sfx>, ...)`', u(t))
            return '("if_named", %s, %s)' % (lean_list([simple(x) for x in st.body]),
                                             lean_list([simple(x) for x in st.orelse]))
        return '(%s, [], [])' % lean_str(simple(st))
    branch = [stmt(st) for st in file_branch]
    if sum(1 for b in branch if b.startswith('("if_named"')) != 1:
        raise TieBroken('project.py: _search_func: file branch of step 1 has not exactly one file-name test', u(step1.body[0])[:400])
    n_refs = sum(1 for n in ast.walk(fn) if isinstance(n, ast.Name) and n.id == 'file_ios')
    call = step2.iter
    if not (isinstance(call, ast.Call) and u(call.func) == 'search_in_file_ios' and len(call.args) == 3
            and u(call.args[1]) == 'file_ios' and u(call.args[2]) == 'name') or n_refs != 3:
        raise TieBroken('project.py: _search_func: step 2 does not iterate search_in_file_ios(.., file_ios, name, ..) '
                        'or file_ios is touched elsewhere', u(call))
    g.define('searchFileBranch', 'List (String × List String × List String)', '[' + ', '.join(branch) + ']',
             'jedi/api/project.py:Project._search_func step 1, `else:` branch of `if file_io is None` '
             '(statement, then-branch, else-branch)')
    g.define('moduleFileSuffixes', 'List String', lean_list(suffixes),
             'jedi/api/project.py:Project._search_func `Path(file_io.path).name in (name + ..)`')
    g.define('stubFolderSuffix', 'String', lean_str(ast.literal_eval(stub[len('name + '):])),
             'jedi/api/project.py:Project._search_func `stub_folder_name = name + ..`')

    # the regex pre-filter of step 2: search_in_file_ios builds the pattern, _check_fs applies it.
    #   regex = re.compile(r'\b' + re.escape(name) + (r'' if complete else r'\b'))
    #   def _check_fs(inference_state, file_io, regex):
    #       try: code = file_io.read()  except FileNotFoundError: return None
    #       code = python_bytes_to_unicode(code, errors='replace')
    #       if not regex.search(code): return None
    #       new_file_io = KnownContentFileIO(file_io.path, code); m = load_module_from_path(..); ...
    # Transcribed: the parts of the pattern, whether it is a bytes pattern (`.encode(..)`), the flags,
    # and the ORDER of the steps of _check_fs (what regex.search sees: the decoded text or the raw
    # bytes).  `prefilter_complete` is stated over these constants.
    fn = refs.find('search_in_file_ios')
    regs = [n for n in fn.body if isinstance(n, ast.Assign) and u(n.targets[0]) == 'regex']
    if len(regs) != 1 or not (isinstance(regs[0].value, ast.Call) and u(regs[0].value.func) == 're.compile'
                              and regs[0].value.args):
        raise TieBroken('references.py: search_in_file_ios: `regex = re.compile(..)` not found')
    call = regs[0].value
    flags = []
    for extra in call.args[1:] + [k.value for k in call.keywords]:
        for part in u(extra).split('|'):
            part = part.strip()
            if not part.startswith('re.'):
                raise TieBroken('references.py: search_in_file_ios: unknown regex flag', u(extra))
            flags.append({'A': 'ASCII', 'I': 'IGNORECASE', 'U': 'UNICODE'}.get(part[3:], part[3:]))
    pat = call.args[0]
    is_bytes = False
    if isinstance(pat, ast.Call) and isinstance(pat.func, ast.Attribute) and pat.func.attr == 'encode':
        is_bytes = True
        pat = pat.func.value

    def flat(e):
        if isinstance(e, ast.BinOp) and isinstance(e.op, ast.Add):
            return flat(e.left) + flat(e.right)
        return [e]
    parts = []
    for e in flat(pat):
        t = u(e)
        if isinstance(e, ast.Constant) and e.value in ('\\b', b'\\b'):
            is_bytes = is_bytes or isinstance(e.value, bytes)
            parts.append('\\b')
        elif t == 're.escape(name)':
            parts.append('escape(name)')
        elif t in ("'' if complete else '\\\\b'", "b'' if complete else b'\\\\b'"):
            parts.append('\\b unless complete')
        elif t == "'\\\\b' if re.match('\\\\w', name) else ''":
            parts.append('\\b if name starts with \\w')
        elif t == "'\\\\b' if not complete and re.search('\\\\w$', name) else ''":
            parts.append('\\b unless complete if name ends with \\w')
        else:
            raise TieBroken('references.py: search_in_file_ios: unknown part of the pre-filter pattern', t)
    g.define('prefilterPattern', 'List String', lean_list(parts),
             'jedi/inference/references.py:search_in_file_ios `regex = re.compile(..)`')
    g.define('prefilterPatternIsBytes', 'Bool', lean_bool(is_bytes),
             'jedi/inference/references.py:search_in_file_ios: the pattern is encoded / a bytes literal')
    g.define('prefilterFlags', 'List String', lean_list(flags),
             'jedi/inference/references.py:search_in_file_ios: flags of re.compile')
    uses = [n for n in ast.walk(fn) if isinstance(n, ast.Call) and u(n.func) == '_check_fs']
    if len(uses) != 1 or [u(x) for x in uses[0].args] != ['inference_state', 'file_io', 'regex']:
        raise TieBroken('references.py: search_in_file_ios no longer calls _check_fs(inference_state, file_io, regex)')
    fn = refs.find('_check_fs')
    steps = []
    for st in fn.body:
        t = u(st)
        if isinstance(st, ast.Try):
            if [u(x) for x in st.body] != ['code = file_io.read()']:
                raise TieBroken('references.py: _check_fs: the try block is not `code = file_io.read()`', t)
            steps.append('read')
        elif t.startswith('code = python_bytes_to_unicode(code'):
            steps.append('decode')
        elif t == 'if not regex.search(code):\n    return None':
            steps.append('search')
        elif t == 'new_file_io = KnownContentFileIO(file_io.path, code)':
            steps.append('wrap')
        elif t == 'm = load_module_from_path(inference_state, new_file_io)':
            steps.append('load')
        elif t == 'if m.is_compiled():\n    return None':
            steps.append('compiled')
        elif t == 'return m.as_context()':
            steps.append('return')
        else:
            raise TieBroken('references.py: _check_fs: unknown statement', t)
    g.define('checkFsSteps', 'List String', lean_list(steps),
             'jedi/inference/references.py:_check_fs, statement by statement')

    # ---- _try_to_skip_duplicates: statement by statement (Model/Search.skipLoop is its transcription: the key of
    # a result is the tree-name OBJECT (identity; parso nodes define no __eq__), modules are keyed by module_path)
    sd = proj.find('_try_to_skip_duplicates.wrapper')
    want = ['found_tree_nodes = []',
            'found_modules = []',
            'for definition in func(*args, **kwargs):\n'
            '    tree_node = definition._name.tree_name\n'
            '    if tree_node is not None and tree_node in found_tree_nodes:\n'
            '        continue\n'
            "    if definition.type == 'module' and definition.module_path is not None:\n"
            '        if definition.module_path in found_modules:\n'
            '            continue\n'
            '        found_modules.append(definition.module_path)\n'
            '    yield definition\n'
            '    found_tree_nodes.append(tree_node)']
    got = [u(x) for x in sd.body]
    if got != want:
        raise TieBroken('project.py: _try_to_skip_duplicates.wrapper is not the modelled loop (key = the tree name '
                        'object, modules by module_path)', repr(got))
    g.define('skipDuplicatesKey', 'List String', lean_list(['definition._name.tree_name', 'definition.module_path']),
             'jedi/api/project.py:_try_to_skip_duplicates (what two results are compared by: the tree name object - '
             'node identity - and, for modules, the module path)')
    for s, d in [(refs, 'recurse_find_python_folders_and_files'), (refs, 'gitignored_paths'),
                 (refs, 'expand_relative_ignore_paths'), (refs, 'search_in_file_ios'), (refs, '_check_fs'),
                 (fio, 'FolderIO.walk'), (helpers, 'split_search_string'), (helpers, 'get_module_names'),
                 (comp, 'search_in_module'), (proj, '_try_to_skip_duplicates'),
                 (proj, 'Project._search_func'), (proj, '_remove_imports')]:
        g.fp(s, d)

"""C08: which object each cache of a buffer's answers is keyed on, read from the source.

  cfg.keyOnTree     filters._get_definition_names / parser_utils._get_parent_scope_cache subscript
                    their weak dictionaries with `parso_cache_node`, which _AbstractUsedNamesFilter
                    takes from get_parso_cache_node(...) = parser_cache[grammar._hashed][path]
  cfg.sigCachesUnmatched  helpers.cache_signatures: is a key whose before_bracket is None cached
  cfg.sigKeyFresh   helpers.cache_signatures yields (module_path, before_bracket, start_pos) with
                    before_bracket = re.match(...)   (a match object: identity comparison)
  cfg.memoPerScript InferenceState.__init__ assigns self.memoize_cache = {} and Script.__init__
                    builds its own InferenceState
  cfg.scriptCache   the `cache=` keyword of Script.__init__'s parse_and_get_code call
  cfg.diffCache     the `diff_cache=` keyword (settings.fast_parser)
  cfg.validity      settings.call_signatures_validity
  cfg.treeMemo      where Script.__init__ takes self._module_node from: 0 = the one unconditional
                    statement `self._module_node, code = self._inference_state.parse_and_get_code(...)`
                    (parso is asked on every construction and its answer is the Script's tree).  Any
                    other shape (a second assignment, an assignment under if/try/loop, a value that is
                    not the call) is not modelled: TieBroken, the Lean side is built with the value of
                    the unchanged code (FALLBACK) so that correspondence and oracle still run.
"""
import ast
from translator.extract import Src, TieBroken, u, lean_bool


def _subscript_bases(fn, dict_name):
    """index expressions used on `dict_name[...]` inside fn"""
    out = []
    for n in ast.walk(fn):
        if isinstance(n, ast.Subscript) and u(n.value) == dict_name:
            out.append(u(n.slice))
    return out


FALLBACK = {'treeMemo': 0}


def tree_source(api, sinit, call):
    """0 when Script.__init__ gets its module node from parso, unconditionally, every time"""
    stores = [n for n in ast.walk(api.tree) if isinstance(n, ast.Attribute) and n.attr == '_module_node'
              and isinstance(n.ctx, (ast.Store, ast.Del))]
    in_init = [n for n in ast.walk(sinit) if isinstance(n, ast.Attribute) and n.attr == '_module_node'
               and isinstance(n.ctx, (ast.Store, ast.Del))]
    if len(stores) != 1 or len(in_init) != 1:
        raise TieBroken('jedi/api/__init__.py: _module_node is assigned in %d places (%d in Script.__init__), '
                        'model knows exactly one' % (len(stores), len(in_init)),
                        'the tree of a Script must be the answer parso gives for this construction')
    top = [st for st in sinit.body if isinstance(st, ast.Assign) and any(
        n is in_init[0] for t in st.targets for n in ast.walk(t))]
    if len(top) != 1:
        raise TieBroken('Script.__init__: self._module_node is not assigned by an unconditional statement of '
                        'the function body', 'assigned under if/try/loop/with')
    st = top[0]
    tgt = st.targets[0]
    if not (len(st.targets) == 1 and isinstance(tgt, ast.Tuple) and [u(e) for e in tgt.elts] ==
            ['self._module_node', 'code'] and st.value is call):
        raise TieBroken('Script.__init__: self._module_node is not taken from parse_and_get_code', u(st)[:300])
    return 0


def generate(repo, g):
    api = Src(repo, 'jedi/api/__init__.py')
    filters = Src(repo, 'jedi/inference/filters.py')
    putils = Src(repo, 'jedi/parser_utils.py')
    helpers = Src(repo, 'jedi/api/helpers.py')
    inf = Src(repo, 'jedi/inference/__init__.py')
    settings = Src(repo, 'jedi/settings.py')
    cache = Src(repo, 'jedi/cache.py')

    # ---- derived caches: keyed on what?
    fn = filters.find('_get_definition_names')
    params = [a.arg for a in fn.args.args]
    idx = _subscript_bases(fn, '_definition_name_cache')
    if not idx or not params:
        raise TieBroken('filters._get_definition_names no longer subscripts _definition_name_cache', u(fn)[:400])
    if set(idx) != {params[0]}:
        raise TieBroken('filters._get_definition_names: cache indexed with %r, first parameter is %r' % (idx, params[0]))
    # the None short cut
    first = fn.body[0]
    if not (isinstance(first, ast.If) and u(first.test) == '%s is None' % params[0]):
        raise TieBroken('filters._get_definition_names lost the `is None` short cut', u(first)[:200])
    wrapper = putils.find('_get_parent_scope_cache.wrapper')
    wparams = [a.arg for a in wrapper.args.args]
    widx = _subscript_bases(wrapper, 'cache')
    if set(widx) != {wparams[0]}:
        raise TieBroken('parser_utils._get_parent_scope_cache.wrapper: cache indexed with %r' % widx)
    # where the first argument comes from
    init = filters.find('_AbstractUsedNamesFilter.__init__')
    srcs = [u(n.value) for n in ast.walk(init) if isinstance(n, ast.Assign)
            and u(n.targets[0]) == 'self._parso_cache_node']
    calls = [s for s in srcs if s != 'None']
    if len(calls) != 1 or not calls[0].startswith('get_parso_cache_node('):
        raise TieBroken('_AbstractUsedNamesFilter.__init__: self._parso_cache_node assigned from', repr(srcs))
    uses = [u(a) for f_ in ('_AbstractUsedNamesFilter.get', '_AbstractUsedNamesFilter.values')
            for n in ast.walk(filters.find(f_)) if isinstance(n, ast.Call) and u(n.func) == '_get_definition_names'
            for a in n.args[:1]]
    if uses != ['self._parso_cache_node'] * 2:
        raise TieBroken('_AbstractUsedNamesFilter.get/values: first argument of _get_definition_names', repr(uses))
    gp = putils.find('get_parso_cache_node')
    rets = [u(n.value) for n in ast.walk(gp) if isinstance(n, ast.Return)]
    if rets == ['parser_cache[grammar._hashed][path]']:
        key_on_tree = False
    elif rets == ['parser_cache[grammar._hashed][path].node']:
        key_on_tree = True
    else:
        raise TieBroken('parser_utils.get_parso_cache_node returns', repr(rets))

    # ---- signature cache key
    cs = helpers.find('cache_signatures')
    yields = [n.value for n in ast.walk(cs) if isinstance(n, ast.Yield)]
    tuples = [y for y in yields if isinstance(y, ast.Tuple)]
    if len(tuples) != 1 or len(tuples[0].elts) != 3:
        raise TieBroken('helpers.cache_signatures: key tuple', repr([u(y) for y in yields if y is not None]))
    key_elts = [u(e) for e in tuples[0].elts]
    assigns = {u(n.targets[0]): n.value for n in ast.walk(cs) if isinstance(n, ast.Assign)}
    mid = tuples[0].elts[1]
    if isinstance(mid, ast.Name) and mid.id in assigns and isinstance(assigns[mid.id], ast.Call) \
            and u(assigns[mid.id].func) in ('re.match', 're.search'):
        sig_fresh = True       # a re.Match object: compared by identity
    elif key_elts[0] == 'module_path':
        sig_fresh = False      # strings / positions: equal across Scripts
    else:
        raise TieBroken('helpers.cache_signatures: cannot classify key', repr(key_elts))
    # which keys are not cached at all: `if <test>: yield None`
    guards = [n for n in ast.walk(cs) if isinstance(n, ast.If) and any(
        isinstance(y, ast.Yield) and (y.value is None or u(y.value) == 'None') for b in n.body for y in ast.walk(b))]
    if len(guards) != 1:
        raise TieBroken('helpers.cache_signatures: expected one `if ...: yield None`', str(len(guards)))
    test = u(guards[0].test)
    if test == 'module_path is None':
        caches_unmatched = True
    elif 'module_path is None' in test and ('%s is None' % u(mid)) in test and ' or ' in test and ' and ' not in test:
        caches_unmatched = False
    else:
        raise TieBroken('helpers.cache_signatures: cannot classify the no-cache guard', test)
    # the text the regex runs on: lines after the bracket line up to the cursor (the off-by-one that
    # makes the regex fail for a cursor below the bracket's line)
    other = assigns.get('other_lines')
    if other is None or u(other) not in ('code_lines[bracket_leaf.start_pos[0]:line_index]',
                                          'code_lines[bracket_leaf.start_pos[0] - 1:line_index]'):
        raise TieBroken('helpers.cache_signatures: other_lines =', u(other) if other is not None else 'missing')
    if u(other) == 'code_lines[bracket_leaf.start_pos[0] - 1:line_index]':
        caches_unmatched = False    # the bracket's own line is included: the regex always matches
    deco = [u(d) for d in cs.decorator_list]
    if deco != ["signature_time_cache('call_signatures_validity')"]:
        raise TieBroken('helpers.cache_signatures decorators', repr(deco))
    validity = settings.const('call_signatures_validity')
    if not isinstance(validity, (int, float)) or validity < 0:
        raise TieBroken('settings.call_signatures_validity', repr(validity))

    # ---- memoize cache per inference state, one inference state per Script
    isi = inf.find('InferenceState.__init__')
    memo = [u(n.value) for n in ast.walk(isi) if isinstance(n, ast.Assign)
            and u(n.targets[0]) == 'self.memoize_cache']
    sinit = api.find('Script.__init__')
    makes_state = [n for n in ast.walk(sinit) if isinstance(n, ast.Assign)
                   and u(n.targets[0]) == 'self._inference_state' and isinstance(n.value, ast.Call)
                   and u(n.value.func) == 'InferenceState']
    memo_per_script = memo == ['{}'] and len(makes_state) == 1
    if not memo_per_script and memo not in ([], ['{}']):
        raise TieBroken('InferenceState.__init__: self.memoize_cache =', repr(memo))

    # ---- the parse of the buffer
    calls = [n for n in ast.walk(sinit) if isinstance(n, ast.Call)
             and u(n.func) == 'self._inference_state.parse_and_get_code']
    if len(calls) != 1:
        raise TieBroken('Script.__init__: parse_and_get_code calls', str(len(calls)))
    kw = {k.arg: u(k.value) for k in calls[0].keywords}

    def flag(expr, what):
        if expr in ('True', 'False'):
            return expr == 'True'
        if expr and expr.startswith('settings.'):
            v = settings.const(expr.split('.', 1)[1])
            if isinstance(v, bool):
                return v
        raise TieBroken('Script.__init__: %s=%r' % (what, expr))
    script_cache = flag(kw.get('cache'), 'cache')
    diff_cache = flag(kw.get('diff_cache'), 'diff_cache')
    if kw.get('path') != 'self.path' or kw.get('code') != 'code':
        raise TieBroken('Script.__init__: parse_and_get_code(code=, path=)', repr(kw))
    clears = any(isinstance(n, ast.Call) and u(n.func) == 'cache.clear_time_caches' and not n.args
                 and not n.keywords for n in ast.walk(sinit))
    # ---- where the Script's tree comes from (a tie broken here is raised after the definitions, so
    # that the other decisions are still the extracted ones)
    deferred = None
    try:
        tree_memo = tree_source(api, sinit, calls[0])
    except TieBroken as e:
        deferred = e
        tree_memo = FALLBACK['treeMemo']

    g.define('cfg', 'JediModel.Caches.Cfg',
             '{ keyOnTree := %s, sigKeyFresh := %s, sigCachesUnmatched := %s, memoPerScript := %s, scriptCache := %s, '
             'diffCache := %s, validity := %d, treeMemo := %d }' % (
                 lean_bool(key_on_tree), lean_bool(sig_fresh), lean_bool(caches_unmatched), lean_bool(memo_per_script),
                 lean_bool(script_cache), lean_bool(diff_cache), int(validity), tree_memo),
             ('FALLBACK for treeMemo (source shape not recognised): value of the unchanged code; ' if deferred else '') +
             'filters._get_definition_names, parser_utils.get_parso_cache_node/_get_parent_scope_cache, '
             'helpers.cache_signatures, InferenceState.__init__, Script.__init__, settings')
    g.define('clearsTimeCaches', 'Bool', lean_bool(clears), 'jedi/api/__init__.py:Script.__init__')
    g.lines.insert(1, 'import JediModel.Model.Caches')
    for s, d in [(api, 'Script.__init__'), (filters, '_get_definition_names'),
                 (filters, '_AbstractUsedNamesFilter.__init__'), (putils, 'get_parso_cache_node'),
                 (putils, '_get_parent_scope_cache'), (helpers, 'cache_signatures'),
                 (inf, 'InferenceState.__init__'), (inf, 'InferenceState.parse_and_get_code'),
                 (cache, 'clear_time_caches'), (cache, 'signature_time_cache'), (cache, 'memoize_method')]:
        g.fp(s, d)
    if deferred is not None:
        import os
        from translator.extract import GEN_DIR, write_if_changed
        write_if_changed(os.path.join(GEN_DIR, g.pid + '.lean'), g.text())
        raise deferred

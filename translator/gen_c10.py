"""C10: shape of the import walk (imports.py) and of transform_path_to_dotted (sys_path.py)."""
import ast
import os
from translator.extract import Src, TieBroken, u, lean_list, lean_bool, lean_str, GEN_DIR, write_if_changed
from translator.gen_c20 import has


def lean_chars(s):
    return lean_str(s) + '.toList'


EXPECTED = [
    ('pathSuffixes', 'List (List Char)', None),   # filled at run time
    ('dottedSepFix', 'Bool', 'false'),
    ('fromImportAttributeFirst', 'Bool', 'true'),
    ('moduleInfoProducers', 'List String', lean_list(['get_module_info', 'get_module_info'])),
    ('importModuleFileProbes', 'List String', '[]'),
    ('starImportsOwnContext', 'Bool', 'true'),
]


def suffixes():
    from importlib.machinery import all_suffixes
    return all_suffixes() + ['.pyi']


def generate(repo, g):
    defined = set()
    orig_define = g.define

    def define(name, typ, value, source):
        defined.add(name)
        orig_define(name, typ, value, source)
    g.define = define
    try:
        _generate(repo, g)
    except TieBroken:
        for name, typ, value in EXPECTED:
            if name not in defined:
                if name == 'pathSuffixes':
                    value = lean_list(suffixes(), lean_chars)
                orig_define(name, typ, value, 'FALLBACK (source shape not recognised): value of the unchanged code')
        write_if_changed(os.path.join(GEN_DIR, g.pid + '.lean'), g.text())
        raise
    finally:
        g.define = orig_define


def _generate(repo, g):
    sp = Src(repo, 'jedi/inference/sys_path.py')
    imp = Src(repo, 'jedi/inference/imports.py')
    mod = Src(repo, 'jedi/inference/value/module.py')
    fun = Src(repo, 'jedi/inference/compiled/subprocess/functions.py')

    # ---- remove_python_path_suffix: `all_suffixes() + ['.pyi']`
    rps = sp.find('remove_python_path_suffix')
    loops = [n for n in ast.walk(rps) if isinstance(n, ast.For)]
    if len(loops) != 1 or not u(loops[0].iter).startswith('all_suffixes() + '):
        raise TieBroken('sys_path.py: remove_python_path_suffix no longer iterates all_suffixes() + [...]')
    extra = ast.literal_eval(loops[0].iter.right)
    from importlib.machinery import all_suffixes
    g.define('pathSuffixes', 'List (List Char)', lean_list(all_suffixes() + list(extra), lean_chars),
             'jedi/inference/sys_path.py:remove_python_path_suffix (all_suffixes() of the running CPython + literal)')
    for needle in ('if path.suffix == suffix:\n path = path.with_name(path.stem)\n break',):
        if not has(u(rps), needle):
            raise TieBroken('sys_path.py: remove_python_path_suffix no longer contains `%s`' % needle)

    # ---- transform_path_to_dotted
    t = sp.find('transform_path_to_dotted')
    text = u(t)
    fix = ("elif not (p.endswith(os.path.sep) or p.endswith('/')):\n continue")
    sep_fix = has(text, fix)
    needles = [
        'module_path = remove_python_path_suffix(module_path)',
        "if module_path.name.startswith('.'):\n return (None, False)",
        "is_package = module_path.name == '__init__'\nif is_package:\n module_path = module_path.parent",
        'for p in sys_path:\n if str(module_path).startswith(p):\n rest = str(module_path)[len(p):]\n'
        "if rest.startswith(os.path.sep) or rest.startswith('/'):\n rest = rest[1:]\n"
        + (fix + '\n' if sep_fix else '') +
        "if rest:\n split = rest.split(os.path.sep)\n if not all(split):\n return\n"
        "yield tuple((re.sub('-stubs$', '', s) for s in split))",
        'potential_solutions = tuple(iter_potential_solutions())\nif not potential_solutions:\n return (None, False)',
        'return (sorted(potential_solutions, key=lambda p: len(p))[0], is_package)',
    ]
    for needle in needles:
        if not has(text, needle):
            raise TieBroken('sys_path.py: transform_path_to_dotted no longer contains `%s`' % needle)
    g.define('dottedSepFix', 'Bool', lean_bool(sep_fix),
             'jedi/inference/sys_path.py:transform_path_to_dotted skips sys.path entries that are only a string prefix')

    # ---- Importer.__init__ level rewriting
    init = u(imp.find('Importer.__init__'))
    for needle in ('if level:\n base = module_context.get_value().py__package__()\n if level <= len(base):\n'
                   ' base = tuple(base)\n if level > 1:\n base = base[:-level + 1]\n'
                   ' import_path = base + tuple(import_path)\n else:',
                   'path = module_context.py__file__()\nproject_path = self._inference_state.project.path',
                   'if path is None:\n directory = project_path\n else:\n directory = os.path.dirname(path)',
                   'base_import_path, base_directory = _level_to_base_import_path(project_path, directory, level)',
                   'if base_directory is None:\n self._infer_possible = False\n else:\n'
                   ' self._fixed_sys_path = [base_directory]',
                   'else:\n import_path = base_import_path + import_path',
                   'self.import_path = import_path'):
        if not has(init, needle):
            raise TieBroken('imports.py: Importer.__init__ no longer contains `%s`' % needle)
    lvl = u(imp.find('_level_to_base_import_path'))
    for needle in ('for i in range(level - 1):\n old = directory\n directory = os.path.dirname(directory)\n'
                   ' if old == directory:\n return (None, None)',
                   'while True:\n if d == project_path:\n return (level_import_paths, d)\n'
                   ' dir_name = os.path.basename(d)\n if dir_name:\n level_import_paths.insert(0, dir_name)\n'
                   ' d = os.path.dirname(d)\n else:\n return (None, directory)'):
        if not has(lvl, needle):
            raise TieBroken('imports.py: _level_to_base_import_path no longer contains `%s`' % needle)

    # ---- follow / import_module_by_names / import_module
    fol = u(imp.find('Importer.follow'))
    for needle in ('if not self.import_path:\n if self._fixed_sys_path:',
                   'if not self._infer_possible:\n return NO_VALUES',
                   'sys_path = self._sys_path_with_modifications(is_completion=False)\n'
                   'return import_module_by_names(self._inference_state, self.import_path, sys_path, '
                   'self._module_context)'):
        if not has(fol, needle):
            raise TieBroken('imports.py: Importer.follow no longer contains `%s`' % needle)
    byn = u(imp.find('import_module_by_names'))
    for needle in ('base = [None]\nfor i, name in enumerate(import_names):\n'
                   ' base = value_set = ValueSet.from_sets([import_module(inference_state, str_import_names[:i + 1], '
                   'parent_module_value, sys_path, prefer_stubs=prefer_stubs) for parent_module_value in base])\n'
                   ' if not value_set:',
                   'return NO_VALUES\nreturn value_set'):
        if not has(byn, needle):
            raise TieBroken('imports.py: import_module_by_names no longer contains `%s`' % needle)
    im = u(imp.find('import_module'))
    for needle in ("if parent_module_value is None:\n file_io_or_ns, is_pkg = "
                   "inference_state.compiled_subprocess.get_module_info(string=import_names[-1], "
                   "full_name=module_name, sys_path=sys_path, is_global_search=True)",
                   'paths = parent_module_value.py__path__()\n if paths is None:\n return NO_VALUES',
                   "get_module_info(string=import_names[-1], path=paths, full_name=module_name, "
                   "is_global_search=False)"):
        if not has(im, needle):
            raise TieBroken('imports.py: import_module no longer contains `%s`' % needle)
    # which file a dotted name stands for is decided by the target interpreter's finders ONLY: every producer of
    # `file_io_or_ns` / `is_pkg` in import_module is a get_module_info call, and import_module (with the helpers it
    # calls in this file before that) never looks at the file system itself
    imf = imp.find('import_module')
    producers = []
    for n in ast.walk(imf):
        if isinstance(n, ast.Assign) and any('file_io_or_ns' in u(t) or 'is_pkg' in u(t) for t in n.targets):
            v = n.value
            producers.append(u(v.func).split('.')[-1] if isinstance(v, ast.Call) else u(v))
    g.define('moduleInfoProducers', 'List String', lean_list(producers),
             'jedi/inference/imports.py:import_module - what `file_io_or_ns, is_pkg` are assigned from')
    FS = ('os.path.', 'os.listdir', 'os.scandir', 'os.stat', 'os.walk', 'Path(', '.exists(', '.is_file(', '.is_dir(',
          '.isfile(', '.isdir(', 'glob', 'open(', 'FileIO(', 'FolderIO(')
    local_funcs = {n.name: n for n in imp.tree.body if isinstance(n, (ast.FunctionDef, ast.AsyncFunctionDef))}
    probes = []
    seen = set()

    def scan(fn, depth):
        if fn.name in seen or depth > 2:
            return
        seen.add(fn.name)
        for c in ast.walk(fn):
            if isinstance(c, ast.Call):
                t = u(c.func)
                if any(k in t + '(' for k in FS):
                    probes.append('%s: %s' % (fn.name, u(c)[:70]))
                # helpers defined in imports.py that import_module calls BEFORE it has a file (loaders excluded)
                if isinstance(c.func, ast.Name) and c.func.id in local_funcs \
                        and c.func.id not in ('_load_python_module', '_load_builtin_module'):
                    scan(local_funcs[c.func.id], depth + 1)
    scan(imf, 0)
    g.define('importModuleFileProbes', 'List String', lean_list(sorted(set(probes))),
             'jedi/inference/imports.py:import_module and the module-level helpers it calls before it has a file: '
             'calls that look at the file system')
    # ---- infer_import: attribute of the package first, then the sub-module
    inf = u(imp.find('infer_import'))
    attr_first = has(inf, 'if from_import_name is not None:\n values = values.py__getattribute__('
                          'from_import_name, name_context=context, analysis_errors=False)\n'
                          ' if not values:\n path = import_path + (from_import_name,)\n'
                          ' importer = Importer(context.inference_state, path, module_context, level)\n'
                          ' values = importer.follow()')
    if not attr_first:
        raise TieBroken('imports.py: infer_import no longer tries the attribute first, then the sub-module')
    g.define('fromImportAttributeFirst', 'Bool', lean_bool(attr_first),
             'jedi/inference/imports.py:infer_import attribute of the package, then the sub-module')
    pk = u(mod.find('ModuleValue.py__package__'))
    if not has(pk, 'if self.string_names is None:\n return []\nif self._is_package:\n return self.string_names\n'
                   'return self.string_names[:-1]'):
        raise TieBroken('module.py: ModuleValue.py__package__ shape')
    # ---- ModuleMixin.star_imports: every star import is followed in the context of the module that CONTAINS it
    # (the recursion is `module.star_imports()`, which builds that module's own `self.as_context()`)
    star = u(mod.find('ModuleMixin.star_imports'))
    for needle in ('modules = []\nmodule_context = self.as_context()\nfor i in self.tree_node.iter_imports():\n'
                   ' if i.is_star_import():\n new = Importer(self.inference_state, import_path=i.get_paths()[-1], '
                   'module_context=module_context, level=i.level).follow()\n'
                   ' for module in new:\n if isinstance(module, ModuleValue):\n'
                   ' modules += module.star_imports()\n modules += new\nreturn modules',):
        if not has(star, needle):
            raise TieBroken('module.py: ModuleMixin.star_imports no longer follows every star import in the own '
                            'context of the module that contains it (`%s`)' % needle)
    g.define('starImportsOwnContext', 'Bool', lean_bool(True),
             'jedi/inference/value/module.py:ModuleMixin.star_imports - module_context = self.as_context(); the '
             'recursion is module.star_imports()')
    for s, d in [(sp, 'remove_python_path_suffix'), (sp, 'transform_path_to_dotted'),
                 (imp, 'Importer.__init__'), (imp, '_level_to_base_import_path'), (imp, 'Importer.follow'),
                 (imp, 'import_module_by_names'), (imp, 'import_module'), (imp, 'infer_import'),
                 (imp, 'goto_import'), (imp, '_prepare_infer_import'),
                 (mod, 'ModuleValue.py__package__'), (mod, 'ModuleValue.py__path__'), (mod, 'ModuleMixin.star_imports'),
                 (fun, 'get_module_info'), (fun, '_find_module'), (fun, '_find_module_py33'), (fun, '_from_loader')]:
        g.fp(s, d)

"""C01: validate_line_column (bounds, operators, defaults, endswith table, raised classes) and
the table of position-taking Script methods (decorated / delegating)."""
import ast
from translator.extract import Src, TieBroken, u, lean_list, lean_bool, lean_str


def lean_char(ch):
    o = ord(ch)
    if ch == '\n':
        return "'\\n'"
    if ch == '\r':
        return "'\\r'"
    if ch == '\t':
        return "'\\t'"
    if ch == "'":
        return "'\\''"
    if ch == '\\':
        return "'\\\\'"
    if o < 32 or o == 127:
        return "'\\x%02x'" % o
    if o < 127:
        return "'%s'" % ch
    return "'\\u{%x}'" % o


def lean_chars(s):
    return '[' + ', '.join(lean_char(c) for c in s) + ']'


def _chain(test, var, hi_src, what):
    """`not (LO op var op HI)` -> (lo, lo_strict, hi_strict)"""
    if not (isinstance(test, ast.UnaryOp) and isinstance(test.op, ast.Not)
            and isinstance(test.operand, ast.Compare)):
        raise TieBroken('helpers.py: validate_line_column %s guard is not `not (a op x op b)`' % what, u(test))
    c = test.operand
    if len(c.ops) != 2 or not isinstance(c.left, ast.Constant) or not isinstance(c.left.value, int) \
            or u(c.comparators[0]) != var or u(c.comparators[1]) != hi_src:
        raise TieBroken('helpers.py: validate_line_column %s guard shape' % what, u(test))
    stricts = []
    for op in c.ops:
        if isinstance(op, ast.Lt):
            stricts.append(True)
        elif isinstance(op, ast.LtE):
            stricts.append(False)
        else:
            raise TieBroken('helpers.py: validate_line_column %s guard operator' % what, u(test))
    return c.left.value, stricts[0], stricts[1]


def _raised(ifnode, what):
    if len(ifnode.body) != 1 or not isinstance(ifnode.body[0], ast.Raise) or ifnode.orelse:
        raise TieBroken('helpers.py: validate_line_column %s guard body is not a single raise' % what)
    exc = ifnode.body[0].exc
    return u(exc.func) if isinstance(exc, ast.Call) else u(exc)


def generate(repo, g):
    helpers = Src(repo, 'jedi/api/helpers.py')
    api = Src(repo, 'jedi/api/__init__.py')
    w = helpers.find('validate_line_column.wrapper')
    a = w.args
    if [x.arg for x in a.args] != ['self', 'line', 'column'] or [u(d) for d in a.defaults] != ['None', 'None'] \
            or a.vararg is None or a.kwarg is None:
        raise TieBroken('helpers.py: validate_line_column.wrapper signature', u(a))
    body = [s for s in w.body if not (isinstance(s, ast.Expr) and isinstance(s.value, ast.Constant))]
    if len(body) != 8:
        raise TieBroken('helpers.py: validate_line_column.wrapper has %d statements, expected 8' % len(body))
    s0, s1, s2, s3, s4, s5, s6, s7 = body
    # line = max(len(self._code_lines), 1) if line is None else line
    ok = isinstance(s0, ast.Assign) and u(s0.targets[0]) == 'line' and isinstance(s0.value, ast.IfExp) \
        and u(s0.value.test) == 'line is None' and u(s0.value.orelse) == 'line'
    if ok:
        m = s0.value.body
        ok = isinstance(m, ast.Call) and u(m.func) == 'max' and len(m.args) == 2 \
            and u(m.args[0]) == 'len(self._code_lines)' and isinstance(m.args[1], ast.Constant) \
            and isinstance(m.args[1].value, int)
    if not ok:
        raise TieBroken('helpers.py: validate_line_column default line expression', u(s0))
    g.define('defaultLineMin', 'Int', str(s0.value.body.args[1].value), 'helpers.py:validate_line_column `max(len(lines), N)`')
    if not isinstance(s1, ast.If):
        raise TieBroken('helpers.py: validate_line_column statement 2 is not the line guard', u(s1))
    lo, ls_, hs_ = _chain(s1.test, 'line', 'len(self._code_lines)', 'line')
    g.define('lineLo', 'Int', str(lo), 'helpers.py:validate_line_column line guard')
    g.define('lineLoStrict', 'Bool', lean_bool(ls_), 'helpers.py:validate_line_column line guard, left operator is <')
    g.define('lineHiStrict', 'Bool', lean_bool(hs_), 'helpers.py:validate_line_column line guard, right operator is <')
    g.define('lineErr', 'String', lean_str(_raised(s1, 'line')), 'helpers.py:validate_line_column raise in the line guard')
    # line_string = self._code_lines[line - 1]
    ok = isinstance(s2, ast.Assign) and u(s2.targets[0]) == 'line_string' and isinstance(s2.value, ast.Subscript) \
        and u(s2.value.value) == 'self._code_lines' and isinstance(s2.value.slice, ast.BinOp) \
        and isinstance(s2.value.slice.op, ast.Sub) and u(s2.value.slice.left) == 'line' \
        and isinstance(s2.value.slice.right, ast.Constant) and isinstance(s2.value.slice.right.value, int)
    if not ok:
        raise TieBroken('helpers.py: validate_line_column line lookup', u(s2))
    g.define('indexOffset', 'Int', str(s2.value.slice.right.value), 'helpers.py:validate_line_column `lines[line - N]`')
    if u(s3) != 'line_len = len(line_string)':
        raise TieBroken('helpers.py: validate_line_column line_len', u(s3))
    # endswith chain
    table = []
    node = s4
    while True:
        if not (isinstance(node, ast.If) and isinstance(node.test, ast.Call)
                and u(node.test.func) == 'line_string.endswith' and len(node.test.args) == 1
                and isinstance(node.test.args[0], ast.Constant) and isinstance(node.test.args[0].value, str)
                and len(node.body) == 1 and isinstance(node.body[0], ast.AugAssign)
                and isinstance(node.body[0].op, ast.Sub) and u(node.body[0].target) == 'line_len'
                and isinstance(node.body[0].value, ast.Constant) and isinstance(node.body[0].value.value, int)
                and node.body[0].value.value >= 0):
            raise TieBroken('helpers.py: validate_line_column endswith chain', u(node))
        table.append((node.test.args[0].value, node.body[0].value.value))
        if not node.orelse:
            break
        if len(node.orelse) != 1:
            raise TieBroken('helpers.py: validate_line_column endswith chain else branch', u(node))
        node = node.orelse[0]
    g.define('strip', 'List (List Char × Nat)',
             '[' + ', '.join('(%s, %d)' % (lean_chars(s), n) for s, n in table) + ']',
             'helpers.py:validate_line_column endswith chain')
    ok = isinstance(s5, ast.Assign) and u(s5.targets[0]) == 'column' and u(s5.value) == 'line_len if column is None else column'
    if not ok:
        raise TieBroken('helpers.py: validate_line_column default column expression', u(s5))
    if not isinstance(s6, ast.If):
        raise TieBroken('helpers.py: validate_line_column statement 7 is not the column guard', u(s6))
    lo, ls_, hs_ = _chain(s6.test, 'column', 'line_len', 'column')
    g.define('colLo', 'Int', str(lo), 'helpers.py:validate_line_column column guard')
    g.define('colLoStrict', 'Bool', lean_bool(ls_), 'helpers.py:validate_line_column column guard, left operator is <')
    g.define('colHiStrict', 'Bool', lean_bool(hs_), 'helpers.py:validate_line_column column guard, right operator is <')
    g.define('colErr', 'String', lean_str(_raised(s6, 'column')), 'helpers.py:validate_line_column raise in the column guard')
    if u(s7) != 'return func(self, line, column, *args, **kwargs)':
        raise TieBroken('helpers.py: validate_line_column does not forward (line, column)', u(s7))
    # outer decorator returns wrapper
    outer = helpers.find('validate_line_column')
    if u(outer.body[-1]) != 'return wrapper':
        raise TieBroken('helpers.py: validate_line_column does not return wrapper')

    # ---- position-taking methods of Script
    script = api.find('Script')
    rows = []
    methods = [n for n in script.body if isinstance(n, ast.FunctionDef)]
    decorated = {m.name for m in methods if any(u(d) == 'validate_line_column' for d in m.decorator_list)}
    for m in methods:
        names = [x.arg for x in m.args.args]
        if names[1:3] != ['line', 'column']:
            if m.name in decorated:
                raise TieBroken('api/__init__.py: decorated method without (line, column)', m.name)
            continue
        if m.name.startswith('_'):
            continue
        # loads of line / column that are not arguments of a call self.<decorated>(line, column, ...)
        guarded_loads = set()
        targets = []
        for c in ast.walk(m):
            if isinstance(c, ast.Call) and isinstance(c.func, ast.Attribute) and u(c.func.value) == 'self' \
                    and len(c.args) >= 2 and u(c.args[0]) == 'line' and u(c.args[1]) == 'column':
                targets.append(c.func.attr)
                if c.func.attr in decorated:
                    guarded_loads.add(id(c.args[0]))
                    guarded_loads.add(id(c.args[1]))
        direct = sum(1 for c in ast.walk(m) if isinstance(c, ast.Name) and c.id in ('line', 'column')
                     and isinstance(c.ctx, ast.Load) and id(c) not in guarded_loads)
        rows.append((m.name, m.name in decorated, direct, sorted(set(targets))))
    g.define('positionMethods', 'List (String × Bool × Nat × List String)',
             '[' + ', '.join('(%s, %s, %d, %s)' % (lean_str(n), lean_bool(d), k, lean_list(t))
                             for n, d, k, t in rows) + ']',
             'jedi/api/__init__.py: public Script methods taking (line, column): '
             '(name, has @validate_line_column, uses of line/column outside a call to a decorated method, '
             'self.<m>(line, column, ..) calls)')
    for s, d in [(helpers, 'validate_line_column'), (helpers, 'get_on_completion_name'), (helpers, '_get_code')]:
        g.fp(s, d)
    pu = Src(repo, 'jedi/parser_utils.py')
    g.fp(pu, 'cut_value_at_position')

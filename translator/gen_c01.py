"""C01: validate_line_column (bounds, operators, defaults, endswith table, raised classes) and
the table of position-taking Script methods (decorated / delegating); the `.value` reads of
helpers._iter_arguments with the tests that dominate them."""
import ast
from translator.extract import Src, TieBroken, u, lean_list, lean_bool, lean_str


def lean_char(ch):
    o = ord(ch)
    if ch == '\n':
        return "'\\n'"
    if ch == '\r':
        return "'\\r'"
    if ch == '\t':
        return "'\\t'"
    if ch == "'":
        return "'\\''"
    if ch == '\\':
        return "'\\\\'"
    if o < 32 or o == 127:
        return "'\\x%02x'" % o
    if o < 127:
        return "'%s'" % ch
    return "'\\u{%x}'" % o


def lean_chars(s):
    return '[' + ', '.join(lean_char(c) for c in s) + ']'


def _chain(test, var, hi_src, what):
    """`not (LO op var op HI)` -> (lo, lo_strict, hi_strict)"""
    if not (isinstance(test, ast.UnaryOp) and isinstance(test.op, ast.Not)
            and isinstance(test.operand, ast.Compare)):
        raise TieBroken('helpers.py: validate_line_column %s guard is not `not (a op x op b)`' % what, u(test))
    c = test.operand
    if len(c.ops) != 2 or not isinstance(c.left, ast.Constant) or not isinstance(c.left.value, int) \
            or u(c.comparators[0]) != var or u(c.comparators[1]) != hi_src:
        raise TieBroken('helpers.py: validate_line_column %s guard shape' % what, u(test))
    stricts = []
    for op in c.ops:
        if isinstance(op, ast.Lt):
            stricts.append(True)
        elif isinstance(op, ast.LtE):
            stricts.append(False)
        else:
            raise TieBroken('helpers.py: validate_line_column %s guard operator' % what, u(test))
    return c.left.value, stricts[0], stricts[1]


def _raised(ifnode, what):
    if len(ifnode.body) != 1 or not isinstance(ifnode.body[0], ast.Raise) or ifnode.orelse:
        raise TieBroken('helpers.py: validate_line_column %s guard body is not a single raise' % what)
    exc = ifnode.body[0].exc
    return u(exc.func) if isinstance(exc, ast.Call) else u(exc)


def generate(repo, g):
    helpers = Src(repo, 'jedi/api/helpers.py')
    api = Src(repo, 'jedi/api/__init__.py')
    w = helpers.find('validate_line_column.wrapper')
    a = w.args
    if [x.arg for x in a.args] != ['self', 'line', 'column'] or [u(d) for d in a.defaults] != ['None', 'None'] \
            or a.vararg is None or a.kwarg is None:
        raise TieBroken('helpers.py: validate_line_column.wrapper signature', u(a))
    body = [s for s in w.body if not (isinstance(s, ast.Expr) and isinstance(s.value, ast.Constant))]
    if len(body) != 8:
        raise TieBroken('helpers.py: validate_line_column.wrapper has %d statements, expected 8' % len(body))
    s0, s1, s2, s3, s4, s5, s6, s7 = body
    # line = max(len(self._code_lines), 1) if line is None else line
    ok = isinstance(s0, ast.Assign) and u(s0.targets[0]) == 'line' and isinstance(s0.value, ast.IfExp) \
        and u(s0.value.test) == 'line is None' and u(s0.value.orelse) == 'line'
    if ok:
        m = s0.value.body
        ok = isinstance(m, ast.Call) and u(m.func) == 'max' and len(m.args) == 2 \
            and u(m.args[0]) == 'len(self._code_lines)' and isinstance(m.args[1], ast.Constant) \
            and isinstance(m.args[1].value, int)
    if not ok:
        raise TieBroken('helpers.py: validate_line_column default line expression', u(s0))
    g.define('defaultLineMin', 'Int', str(s0.value.body.args[1].value), 'helpers.py:validate_line_column `max(len(lines), N)`')
    if not isinstance(s1, ast.If):
        raise TieBroken('helpers.py: validate_line_column statement 2 is not the line guard', u(s1))
    lo, ls_, hs_ = _chain(s1.test, 'line', 'len(self._code_lines)', 'line')
    g.define('lineLo', 'Int', str(lo), 'helpers.py:validate_line_column line guard')
    g.define('lineLoStrict', 'Bool', lean_bool(ls_), 'helpers.py:validate_line_column line guard, left operator is <')
    g.define('lineHiStrict', 'Bool', lean_bool(hs_), 'helpers.py:validate_line_column line guard, right operator is <')
    g.define('lineErr', 'String', lean_str(_raised(s1, 'line')), 'helpers.py:validate_line_column raise in the line guard')
    # line_string = self._code_lines[line - 1]
    ok = isinstance(s2, ast.Assign) and u(s2.targets[0]) == 'line_string' and isinstance(s2.value, ast.Subscript) \
        and u(s2.value.value) == 'self._code_lines' and isinstance(s2.value.slice, ast.BinOp) \
        and isinstance(s2.value.slice.op, ast.Sub) and u(s2.value.slice.left) == 'line' \
        and isinstance(s2.value.slice.right, ast.Constant) and isinstance(s2.value.slice.right.value, int)
    if not ok:
        raise TieBroken('helpers.py: validate_line_column line lookup', u(s2))
    g.define('indexOffset', 'Int', str(s2.value.slice.right.value), 'helpers.py:validate_line_column `lines[line - N]`')
    if u(s3) != 'line_len = len(line_string)':
        raise TieBroken('helpers.py: validate_line_column line_len', u(s3))
    # endswith chain
    table = []
    node = s4
    while True:
        if not (isinstance(node, ast.If) and isinstance(node.test, ast.Call)
                and u(node.test.func) == 'line_string.endswith' and len(node.test.args) == 1
                and isinstance(node.test.args[0], ast.Constant) and isinstance(node.test.args[0].value, str)
                and len(node.body) == 1 and isinstance(node.body[0], ast.AugAssign)
                and isinstance(node.body[0].op, ast.Sub) and u(node.body[0].target) == 'line_len'
                and isinstance(node.body[0].value, ast.Constant) and isinstance(node.body[0].value.value, int)
                and node.body[0].value.value >= 0):
            raise TieBroken('helpers.py: validate_line_column endswith chain', u(node))
        table.append((node.test.args[0].value, node.body[0].value.value))
        if not node.orelse:
            break
        if len(node.orelse) != 1:
            raise TieBroken('helpers.py: validate_line_column endswith chain else branch', u(node))
        node = node.orelse[0]
    g.define('strip', 'List (List Char × Nat)',
             '[' + ', '.join('(%s, %d)' % (lean_chars(s), n) for s, n in table) + ']',
             'helpers.py:validate_line_column endswith chain')
    ok = isinstance(s5, ast.Assign) and u(s5.targets[0]) == 'column' and u(s5.value) == 'line_len if column is None else column'
    if not ok:
        raise TieBroken('helpers.py: validate_line_column default column expression', u(s5))
    if not isinstance(s6, ast.If):
        raise TieBroken('helpers.py: validate_line_column statement 7 is not the column guard', u(s6))
    lo, ls_, hs_ = _chain(s6.test, 'column', 'line_len', 'column')
    g.define('colLo', 'Int', str(lo), 'helpers.py:validate_line_column column guard')
    g.define('colLoStrict', 'Bool', lean_bool(ls_), 'helpers.py:validate_line_column column guard, left operator is <')
    g.define('colHiStrict', 'Bool', lean_bool(hs_), 'helpers.py:validate_line_column column guard, right operator is <')
    g.define('colErr', 'String', lean_str(_raised(s6, 'column')), 'helpers.py:validate_line_column raise in the column guard')
    if u(s7) != 'return func(self, line, column, *args, **kwargs)':
        raise TieBroken('helpers.py: validate_line_column does not forward (line, column)', u(s7))
    # outer decorator returns wrapper
    outer = helpers.find('validate_line_column')
    if u(outer.body[-1]) != 'return wrapper':
        raise TieBroken('helpers.py: validate_line_column does not return wrapper')

    # ---- position-taking methods of Script
    script = api.find('Script')
    rows = []
    methods = [n for n in script.body if isinstance(n, ast.FunctionDef)]
    decorated = {m.name for m in methods if any(u(d) == 'validate_line_column' for d in m.decorator_list)}
    for m in methods:
        names = [x.arg for x in m.args.args]
        if names[1:3] != ['line', 'column']:
            if m.name in decorated:
                raise TieBroken('api/__init__.py: decorated method without (line, column)', m.name)
            continue
        if m.name.startswith('_'):
            continue
        # loads of line / column that are not arguments of a call self.<decorated>(line, column, ...)
        guarded_loads = set()
        targets = []
        for c in ast.walk(m):
            if isinstance(c, ast.Call) and isinstance(c.func, ast.Attribute) and u(c.func.value) == 'self' \
                    and len(c.args) >= 2 and u(c.args[0]) == 'line' and u(c.args[1]) == 'column':
                targets.append(c.func.attr)
                if c.func.attr in decorated:
                    guarded_loads.add(id(c.args[0]))
                    guarded_loads.add(id(c.args[1]))
        direct = sum(1 for c in ast.walk(m) if isinstance(c, ast.Name) and c.id in ('line', 'column')
                     and isinstance(c.ctx, ast.Load) and id(c) not in guarded_loads)
        rows.append((m.name, m.name in decorated, direct, sorted(set(targets))))
    g.define('positionMethods', 'List (String × Bool × Nat × List String)',
             '[' + ', '.join('(%s, %s, %d, %s)' % (lean_str(n), lean_bool(d), k, lean_list(t))
                             for n, d, k, t in rows) + ']',
             'jedi/api/__init__.py: public Script methods taking (line, column): '
             '(name, has @validate_line_column, uses of line/column outside a call to a decorated method, '
             'self.<m>(line, column, ..) calls)')
    for s, d in [(helpers, 'validate_line_column'), (helpers, 'get_on_completion_name'), (helpers, '_get_code')]:
        g.fp(s, d)
    pu = Src(repo, 'jedi/parser_utils.py')
    g.fp(pu, 'cut_value_at_position')
    iter_arguments_reads(helpers, g)
    sort_key(helpers, g)
    # last: on an unknown shape the constants of the unchanged code are written (so that the Lean
    # side still builds against the model of the unchanged code and the correspondence /
    # failing-input search can run) and the tie is reported
    try:
        error_node_start(Src(repo, 'jedi/inference/imports.py'), g)
    except TieBroken:
        import os
        from translator.extract import GEN_DIR, write_if_changed
        have = {l.split()[1] for l in g.lines if l.startswith('def ')}
        for name, typ, value in ES_EXPECTED:
            if name not in have:
                g.define(name, typ, value, 'FALLBACK (source shape not recognised): value of the unchanged code')
        write_if_changed(os.path.join(GEN_DIR, g.pid + '.lean'), g.text())
        raise


# ---------------------------------------------------------------------------------------------
# `.value` reads of helpers._iter_arguments and the tests that dominate them

LEAF_TESTS = ('tree.PythonLeaf', 'tree.Leaf', 'PythonLeaf', 'Leaf')


def _conj(test, src):
    """facts known when `test` is true: [(source, polarity)]"""
    if isinstance(test, ast.BoolOp) and isinstance(test.op, ast.And):
        return [f for v in test.values for f in _conj(v, src)]
    if isinstance(test, ast.UnaryOp) and isinstance(test.op, ast.Not):
        return _neg(test.operand, src)
    return [(src(test), True)]


def _neg(test, src):
    """facts known when `test` is false"""
    if isinstance(test, ast.BoolOp) and isinstance(test.op, ast.Or):
        return [f for v in test.values for f in _neg(v, src)]
    if isinstance(test, ast.UnaryOp) and isinstance(test.op, ast.Not):
        return _conj(test.operand, src)
    return [(src(test), False)]


def _exits(stmts):
    return bool(stmts) and isinstance(stmts[-1], (ast.Return, ast.Raise, ast.Continue, ast.Break))


def value_reads(fn):
    """every `<subject>.value` read (Load) in `fn`, nested defs included:
    [(def name, subject source, source of the enclosing comparison / call, [(test source, polarity)])]
    Sources are canonical: a local name assigned exactly once from an access path
    (`first = node.children[0]`, `before = nodes_before[i - 1]`) is replaced by that path.
    The tests are the ones that dominate the read: enclosing `if` / `elif` tests (earlier arms
    negated), earlier conjuncts of an `and`, earlier `if …: return` statements of the block."""
    counts = {}
    for n in ast.walk(fn):
        targets = []
        if isinstance(n, ast.Assign):
            targets = n.targets
        elif isinstance(n, (ast.AugAssign, ast.AnnAssign, ast.For, ast.comprehension, ast.NamedExpr)):
            targets = [n.target]
        elif isinstance(n, (ast.With,)):
            targets = [i.optional_vars for i in n.items if i.optional_vars is not None]
        for t in targets:
            for m in ast.walk(t):
                if isinstance(m, ast.Name):
                    counts[m.id] = counts.get(m.id, 0) + 1
    alias = {}

    class Sub(ast.NodeTransformer):
        def visit_Name(self, node):
            if isinstance(node.ctx, ast.Load) and node.id in alias:
                return ast.parse(alias[node.id], mode='eval').body
            return node

    def src(node):
        return u(Sub().visit(ast.parse(u(node), mode='eval').body))

    def is_path(e):
        while isinstance(e, (ast.Attribute, ast.Subscript)):
            e = e.value
        return isinstance(e, ast.Name)

    reads = []

    def expr(e, path, encl, where):
        if isinstance(e, ast.BoolOp):
            p = list(path)
            for v in e.values:
                expr(v, p, encl, where)
                p += _conj(v, src) if isinstance(e.op, ast.And) else _neg(v, src)
            return
        if isinstance(e, ast.IfExp):
            expr(e.test, path, encl, where)
            expr(e.body, path + _conj(e.test, src), encl, where)
            expr(e.orelse, path + _neg(e.test, src), encl, where)
            return
        if isinstance(e, (ast.Compare, ast.Call)):
            encl = e
        if isinstance(e, ast.Attribute) and e.attr == 'value' and isinstance(e.ctx, ast.Load):
            reads.append((where, src(e.value), src(encl) if encl is not None else '', list(path)))
        for c in ast.iter_child_nodes(e):
            if isinstance(c, (ast.expr, ast.comprehension, ast.keyword, ast.arguments, ast.arg)):
                expr(c, path, encl, where)

    def block(stmts, path, where):
        path = list(path)
        for s in stmts:
            stmt(s, path, where)
            if isinstance(s, ast.If) and not s.orelse and _exits(s.body):
                path += _neg(s.test, src)

    def stmt(s, path, where):
        if isinstance(s, ast.If):
            expr(s.test, path, None, where)
            block(s.body, path + _conj(s.test, src), where)
            block(s.orelse, path + _neg(s.test, src), where)
        elif isinstance(s, (ast.For, ast.While)):
            expr(s.iter if isinstance(s, ast.For) else s.test, path, None, where)
            block(s.body, path, where)
            block(s.orelse, path, where)
        elif isinstance(s, (ast.FunctionDef, ast.AsyncFunctionDef)):
            block(s.body, [], s.name)
        elif isinstance(s, (ast.With, ast.Try)):
            raise TieBroken('helpers.py:_iter_arguments contains a with/try statement (not modelled)', u(s)[:200])
        else:
            for c in ast.iter_child_nodes(s):
                if isinstance(c, ast.expr):
                    expr(c, path, None, where)
            if isinstance(s, ast.Assign) and len(s.targets) == 1 and isinstance(s.targets[0], ast.Name) \
                    and counts.get(s.targets[0].id) == 1 and is_path(s.value):
                alias[s.targets[0].id] = src(s.value)

    block(fn.body, [], fn.name)
    return reads


def guard_kind(subject, test, polarity):
    """1 `S.type == 'name'`  2 not `S.type != 'name'`  3 `isinstance(S, <parso leaf class>)`
    4 `S == '<str>'` (only parso Operator / Keyword leaves compare equal to a str)
    5 `S in ('<str>', ...)`   0 anything else"""
    import re
    if polarity and test == "%s.type == 'name'" % subject:
        return 1
    if not polarity and test == "%s.type != 'name'" % subject:
        return 2
    if polarity and test in ['isinstance(%s, %s)' % (subject, c) for c in LEAF_TESTS]:
        return 3
    if polarity and re.fullmatch(re.escape(subject) + r" == '[^'\\]*'", test):
        return 4
    if polarity and re.fullmatch(re.escape(subject) + r" in \('[^'\\]*'(, '[^'\\]*')*,?\)", test):
        return 5
    return 0


def iter_arguments_reads(helpers, g):
    fn = helpers.find('_iter_arguments')
    rows = []
    docs = []
    for where, subject, encl, path in value_reads(fn):
        has = lambda t, p=True: (t, p) in path
        if where == 'remove_after_pos' and subject == 'name':
            site = 1
        elif subject == 'node.children[0]' and has("node.type == 'argument'"):
            site = 2 if has("node.children[1] == '='") else 3
        elif subject == 'node' and encl == "node.value == ','":
            site = 4
        elif subject == 'node' and encl == "node.value in ('*', '**')":
            site = 5
        elif subject == 'node' and encl == 'len(node.value)':
            site = 6
        elif subject == 'nodes_before[i - 1]' and has("node == '='"):
            site = 7
        else:
            raise TieBroken('helpers.py:_iter_arguments reads `.value` at a place the model does not know',
                            '%s.value in `%s` (in %s) under %r' % (subject, encl, where, path))
        kinds = [(guard_kind(subject, t, p), p) for t, p in path]
        kinds = [(k, p) for k, p in kinds if k]
        rows.append((site, kinds))
        docs.append('site %d: %s.value in `%s` of %s; dominating tests on the same object: %s' % (
            site, subject, encl or subject + '.value', where,
            [('' if p else 'not ') + t for t, p in path if guard_kind(subject, t, p)] or 'NONE'))
    g.define('iaReads', 'List (Nat × List (Nat × Bool))',
             '[' + ', '.join('(%d, [%s])' % (s_, ', '.join('(%d, %s)' % (k, lean_bool(p)) for k, p in ks))
                             for s_, ks in rows) + ']',
             "jedi/api/helpers.py:_iter_arguments: every `<x>.value` read as (site, [(kind of a dominating test on x, "
             "polarity)]); sites 1 remove_after_pos 2 keyword argument first 3 star argument first 4 `node.value == ','` "
             "5 `node.value in ('*', '**')` 6 `len(node.value)` 7 the node before a bare `=`; kinds 1 `x.type == 'name'` "
             "2 `x.type != 'name'` (negated) 3 `isinstance(x, tree.PythonLeaf)` 4 `x == '<str>'` 5 `x in ('<str>', ..)`")
    g.define('iaReadsDoc', 'List String', lean_list(docs), 'jedi/api/helpers.py:_iter_arguments (the same, readable)')
    # the statements the model transcribes literally (a change of one of them is a change of shape)
    tests = [u(n.test) for n in ast.walk(fn) if isinstance(n, ast.If)]
    g.define('iaTests', 'List String', lean_list(tests), 'jedi/api/helpers.py:_iter_arguments (if tests, ast.walk order)')
    yields = [u(n.value) if n.value is not None else '' for n in ast.walk(fn) if isinstance(n, (ast.Yield, ast.YieldFrom))]
    g.define('iaYields', 'List String', lean_list(yields), 'jedi/api/helpers.py:_iter_arguments (yield expressions, ast.walk order)')
    g.fp(helpers, '_iter_arguments')
    g.fp(helpers, 'get_signature_details')
    g.fp(helpers, '_get_signature_details_from_error_node')


# ---------------------------------------------------------------------------------------------
# the key of helpers.sorted_definitions

def sort_key(helpers, g):
    """`return sorted(defs, key=lambda x: (<component>, ...))`; a component is
    `[str(] x.<attribute path> [or <int or str literal>] [)]`.  Output: one row per component:
    (attribute path, wrapped in str(), int literal after `or`, str literal after `or`)."""
    fn = helpers.find('sorted_definitions')
    body = [s for s in fn.body if not (isinstance(s, ast.Expr) and isinstance(s.value, ast.Constant))]
    if [a.arg for a in fn.args.args] != ['defs'] or len(body) != 1 or not isinstance(body[0], ast.Return):
        raise TieBroken('helpers.py: sorted_definitions is not a single `return sorted(defs, key=...)`')
    call = body[0].value
    ok = isinstance(call, ast.Call) and u(call.func) == 'sorted' and [u(a) for a in call.args] == ['defs'] \
        and [k.arg for k in call.keywords] == ['key'] and isinstance(call.keywords[0].value, ast.Lambda)
    if not ok:
        raise TieBroken('helpers.py: sorted_definitions is not `sorted(defs, key=lambda ...)`', u(body[0]))
    lam = call.keywords[0].value
    if [a.arg for a in lam.args.args] != ['x'] or not isinstance(lam.body, ast.Tuple):
        raise TieBroken('helpers.py: sorted_definitions key is not `lambda x: (..., ...)`', u(lam))
    rows = []
    for e in lam.body.elts:
        src = u(e)
        wrapped = False
        if isinstance(e, ast.Call) and u(e.func) == 'str' and len(e.args) == 1 and not e.keywords:
            wrapped, e = True, e.args[0]
        int_default = str_default = None
        if isinstance(e, ast.BoolOp):
            if not (isinstance(e.op, ast.Or) and len(e.values) == 2 and isinstance(e.values[1], ast.Constant)):
                raise TieBroken('helpers.py: sorted_definitions key component is not `<attr> or <literal>`', src)
            lit = e.values[1].value
            if isinstance(lit, bool) or not isinstance(lit, (int, str)) or (isinstance(lit, int) and lit < 0):
                raise TieBroken('helpers.py: sorted_definitions key default is not an int / str literal', src)
            if isinstance(lit, int):
                int_default = lit
            else:
                str_default = lit
            e = e.values[0]
        path = []
        while isinstance(e, ast.Attribute):
            path.append(e.attr)
            e = e.value
        if not (isinstance(e, ast.Name) and e.id == 'x' and path):
            raise TieBroken('helpers.py: sorted_definitions key component is not an attribute of the definition', src)
        rows.append(('.'.join(reversed(path)), wrapped, int_default, str_default))
    opt = lambda v, f: 'none' if v is None else '(some %s)' % f(v)
    g.define('sortKey', 'List (String × Bool × Option Nat × Option String)',
             '[' + ', '.join('(%s, %s, %s, %s)' % (lean_str(a), lean_bool(w), opt(i, str), opt(sd, lean_str))
                             for a, w, i, sd in rows) + ']',
             'jedi/api/helpers.py:sorted_definitions key tuple: (attribute of the definition, wrapped in str(), '
             'int literal after `or`, str literal after `or`)')
    g.fp(helpers, 'sorted_definitions')


# ---------------------------------------------------------------------------------------------
# the statement-start scan of imports.follow_error_node_imports_if_possible

ES_EXPECTED = [
    ('esInit', 'Nat', '0'),
    ('esStrict', 'Bool', 'true'),
    ('esNameEnd', 'Bool', 'false'),
    ('esBreakFirst', 'Bool', 'true'),
    ('esOffset', 'Nat', '1'),
    ('esSeparator', 'String', '";"'),
    ('esUse', 'List String', lean_list(['nodes = error_node.children[start_index:]',
                                        'first_name = nodes[0].get_first_leaf().value'])),
]


def error_node_start(imports, g):
    """```
    error_node = name.search_ancestor('error_node')
    if error_node is not None:
        start_index = <init>
        for index, n in enumerate(error_node.children):
            if n.start_pos <> or >=> name.<start_pos or end_pos>:
                break
            if n == '<sep>':
                start_index = index + <offset>
        nodes = error_node.children[start_index:]
        first_name = nodes[0].get_first_leaf().value
    ```
    the two `if`s of the loop body in either order"""
    where = 'jedi/inference/imports.py:follow_error_node_imports_if_possible'
    fn = imports.find('follow_error_node_imports_if_possible')
    if [a.arg for a in fn.args.args] != ['context', 'name']:
        raise TieBroken(where + ': parameters', u(fn.args))
    body = [s for s in fn.body if not (isinstance(s, ast.Expr) and isinstance(s.value, ast.Constant))]
    if len(body) != 3 or u(body[0]) != "error_node = name.search_ancestor('error_node')" \
            or not isinstance(body[1], ast.If) or u(body[1].test) != 'error_node is not None' or body[1].orelse \
            or u(body[2]) != 'return None':
        raise TieBroken(where + ': not `error_node = ...; if error_node is not None: ...; return None`',
                        u(fn)[:300])
    inner = body[1].body
    if len(inner) < 4:
        raise TieBroken(where + ': statements under `if error_node is not None`', u(body[1])[:300])
    s0, loop, s2, s3 = inner[:4]
    ok = isinstance(s0, ast.Assign) and u(s0.targets[0]) == 'start_index' and isinstance(s0.value, ast.Constant) \
        and isinstance(s0.value.value, int) and not isinstance(s0.value.value, bool) and s0.value.value >= 0
    if not ok:
        raise TieBroken(where + ': no `start_index = <int>` in front of the loop', u(s0))
    ok = isinstance(loop, ast.For) and u(loop.target).strip('()') == 'index, n' and u(loop.iter) == 'enumerate(error_node.children)' \
        and not loop.orelse and len(loop.body) == 2 and all(isinstance(x, ast.If) and not x.orelse and len(x.body) == 1
                                                            for x in loop.body)
    if not ok:
        raise TieBroken(where + ': the statement-start scan is not `for index, n in enumerate(error_node.children):` '
                                'with two plain `if`s', u(loop)[:300])
    brk = [i for i, x in enumerate(loop.body) if isinstance(x.body[0], ast.Break)]
    if len(brk) != 1:
        raise TieBroken(where + ': the loop does not have exactly one `if ...: break`', u(loop)[:300])
    b, a = loop.body[brk[0]], loop.body[1 - brk[0]]
    t = b.test
    ok = isinstance(t, ast.Compare) and len(t.ops) == 1 and isinstance(t.ops[0], (ast.Gt, ast.GtE)) \
        and u(t.left) == 'n.start_pos' and u(t.comparators[0]) in ('name.start_pos', 'name.end_pos')
    if not ok:
        raise TieBroken(where + ': break test is not `n.start_pos > / >= name.start_pos / name.end_pos`', u(t))
    asg = a.body[0]
    ok = isinstance(a.test, ast.Compare) and len(a.test.ops) == 1 and isinstance(a.test.ops[0], ast.Eq) \
        and u(a.test.left) == 'n' and isinstance(a.test.comparators[0], ast.Constant) \
        and isinstance(a.test.comparators[0].value, str) \
        and isinstance(asg, ast.Assign) and u(asg.targets[0]) == 'start_index' and isinstance(asg.value, ast.BinOp) \
        and isinstance(asg.value.op, ast.Add) and u(asg.value.left) == 'index' \
        and isinstance(asg.value.right, ast.Constant) and isinstance(asg.value.right.value, int) \
        and not isinstance(asg.value.right.value, bool) and asg.value.right.value >= 0
    if not ok:
        raise TieBroken(where + ": separator test is not `if n == '<str>': start_index = index + <int>`", u(a))
    g.define('esInit', 'Nat', str(s0.value.value), where + ' `start_index = N` in front of the loop')
    g.define('esStrict', 'Bool', lean_bool(isinstance(t.ops[0], ast.Gt)), where + ' break test operator is `>` (not `>=`)')
    g.define('esNameEnd', 'Bool', lean_bool(u(t.comparators[0]) == 'name.end_pos'),
             where + ' break test compares with name.end_pos (not name.start_pos)')
    g.define('esBreakFirst', 'Bool', lean_bool(brk[0] == 0), where + ' the break test stands in front of the separator test')
    g.define('esOffset', 'Nat', str(asg.value.right.value), where + ' `start_index = index + N`')
    g.define('esSeparator', 'String', lean_str(a.test.comparators[0].value), where + " `n == '<separator>'`")
    g.define('esUse', 'List String', lean_list([u(s2), u(s3)]), where + ' the two statements behind the loop')
    g.fp(imports, 'follow_error_node_imports_if_possible')

"""C02 (iteration over a set of iterables): the shape of ValueSet.iterate in
jedi/inference/base_value.py that Model/SetIter.lean is parameterised by - which function merges the
element streams of the members, and whether the fillers of exhausted streams are dropped."""
import ast
from translator.extract import Src, TieBroken, u, lean_bool, lean_str


def generate(repo, g):
    bv = Src(repo, 'jedi/inference/base_value.py')
    fn = bv.find('ValueSet.iterate')
    g.fp(bv, 'ValueSet.iterate')
    g.fp(bv, 'iterate_values')
    body = [s for s in fn.body if not isinstance(s, (ast.ImportFrom, ast.Import))
            and not (isinstance(s, ast.Expr) and isinstance(s.value, ast.Constant))]
    if len(body) != 2 or not isinstance(body[0], ast.Assign) or not isinstance(body[1], ast.For):
        raise TieBroken('base_value.py: ValueSet.iterate is no longer `type_iters = [...]` + one for loop',
                        repr([u(s) for s in body]))
    if u(body[0]) != 'type_iters = [c.iterate(contextualized_node, is_async=is_async) for c in self._set]':
        raise TieBroken('base_value.py: ValueSet.iterate builds the member streams differently', u(body[0]))
    loop = body[1]
    it = loop.iter
    if not (isinstance(it, ast.Call) and len(it.args) == 1 and isinstance(it.args[0], ast.Starred)
            and u(it.args[0].value) == 'type_iters' and not it.keywords) or u(loop.target) != 'lazy_values':
        raise TieBroken('base_value.py: ValueSet.iterate does not loop over <zipper>(*type_iters)', u(loop.iter))
    zipper = u(it.func)
    if zipper.endswith('zip_longest'):
        # the name must be itertools' function
        imported = any(isinstance(n, ast.ImportFrom) and n.module == 'itertools'
                       and any(a.name == 'zip_longest' and a.asname is None for a in n.names) for n in bv.tree.body)
        if not imported and zipper != 'itertools.zip_longest':
            raise TieBroken('base_value.py: zip_longest is not itertools.zip_longest')
    g.define('iterateZipper', 'String', lean_str(zipper),
             'jedi/inference/base_value.py:ValueSet.iterate `for lazy_values in ZIPPER(*type_iters)`')
    if len(loop.body) != 1 or loop.orelse:
        raise TieBroken('base_value.py: ValueSet.iterate loop body changed', u(loop))
    y = loop.body[0]
    drops = u(y) == 'yield get_merged_lazy_value([l for l in lazy_values if l is not None])'
    keeps = u(y) == 'yield get_merged_lazy_value(lazy_values)' or u(y) == 'yield get_merged_lazy_value(list(lazy_values))'
    if not (drops or keeps):
        raise TieBroken('base_value.py: ValueSet.iterate yields something else than the merged column', u(y))
    g.define('iterateDropsFillers', 'Bool', lean_bool(drops),
             'jedi/inference/base_value.py:ValueSet.iterate `[l for l in lazy_values if l is not None]`')
    iv = bv.find('iterate_values')
    rets = [n for n in ast.walk(iv) if isinstance(n, ast.Return)]
    want = ('ValueSet.from_sets((lazy_value.infer() for lazy_value in values.iterate(contextualized_node, '
            'is_async=is_async)))')
    if len(rets) != 1 or u(rets[0].value) != want:
        raise TieBroken('base_value.py: iterate_values is no longer the union over values.iterate(..)', u(iv))

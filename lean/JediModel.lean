-- root of the library; `lake build JediModel` builds every module under JediModel/ (see lakefile globs)
import JediModel.Proto

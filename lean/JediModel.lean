-- root of the library: every model, proof and driver module (setup.sh builds this target)
import JediModel.Proto
import JediModel.Props.C04

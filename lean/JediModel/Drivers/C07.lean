import JediModel.Proto
import JediModel.Model.Diff
import JediModel.Model.RefactorFS
import JediModel.Lemmas.TreeRender
import JediModel.Gen.C07
open Lean Proto JediModel.Text JediModel.Tree JediModel.Diff JediModel.RefactorFS

instance : Inhabited T := ⟨.leaf 0 "?" [] []⟩

/-- tree: leaf `["L", id, type, prefix, value]`, node `["N", id, type, [children]]` -/
partial def parseTree (j : Json) : T :=
  match asArr j with
  | [tag, i, ty, a, b] =>
    if asStr tag == "L" then .leaf (asNat i) (asStr ty) (asStr a).toList (asStr b).toList
    else .node (asNat i) (asStr ty) ((asArr a).map parseTree)
  | [_, i, ty, a] => .node (asNat i) (asStr ty) ((asArr a).map parseTree)
  | _ => .leaf 0 "?" [] []

def parseMap (j : Json) : Map :=
  (asArr j).map fun p => match asArr p with
    | [i, s] => (asNat i, (asStr s).toList)
    | _ => (0, [])

def parseTag (s : String) : Tag :=
  match s with
  | "equal" => .equal | "replace" => .replace | "delete" => .delete | _ => .insert

def parseGroups (j : Json) : List Group :=
  (asArr j).map fun g => (asArr g).map fun o => match asArr o with
    | [t, a, b, c, d] => ⟨parseTag (asStr t), asNat a, asNat b, asNat c, asNat d⟩
    | _ => ⟨.equal, 0, 0, 0, 0⟩

def parsePath (j : Json) : Path := (asArr j).map asStr
def parseOptPath (j : Json) : Option Path := match j with
  | .null => none
  | j => some (parsePath j)

def jlines (ls : List Line) : Json := jarr (ls.map jchars)

def parseChange (j : Json) : FileChange :=
  { path := parseOptPath (obj j "path"), tree := parseTree (obj j "tree"), map := parseMap (obj j "map") }

def excStr : Except Exc (Option (Int × Int)) → String
  | .ok none => "ok:none"
  | .ok (some (l, c)) => s!"ok:{l},{c}"
  | .error .valueError => "ValueError"
  | .error .indexError => "IndexError"

def handle (j : Json) : Json :=
  match str j "op" with
  | "render" =>
    let t := parseTree (obj j "tree")
    let m := parseMap (obj j "map")
    let ps := pieces m t
    jobj [("code", jchars (code t)), ("render", jchars (render m t)),
          ("kept", jnat (ps.filter (·.mapped.isNone)).length),
          ("replaced", jarr ((ps.filter (·.mapped.isSome)).map fun p =>
              jarr [jnat (p.mapped.getD 0), jchars p.old]))]
  | "diff" =>
    let project := parsePath (obj j "project")
    let fromP := parseOptPath (obj j "from")
    let renames := (arr j "renames").map fun r => match asArr r with
      | [a, b] => (parsePath a, parsePath b)
      | _ => ([], [])
    match calcToPath JediModel.Gen.C07.toPathNoneGuard JediModel.Gen.C07.toPathLoop
        JediModel.Gen.C07.toPathMode renames fromP with
    | .error _ => jobj [("error", jstr "calculate_to_path: AttributeError")]
    | .ok toP =>
    match normLines (chars j "old"), normLines (chars j "new") with
    | some a, some b =>
      let gs := parseGroups (obj j "groups")
      let valid := decide (Valid gs a b)
      match format a b gs, headerPath JediModel.Gen.C07.diffFromHeader project fromP toP,
          headerPath JediModel.Gen.C07.diffToHeader project fromP toP with
      | some hs, .ok fh, .ok th =>
        jobj [("a", jlines a), ("b", jlines b), ("valid", jbool valid),
              ("text", jchars (diffText fh th hs)),
              ("applied", jopt jlines (applyPatch hs a))]
      | some _, _, _ => jobj [("error", jstr "header")]
      | none, _, _ => jobj [("a", jlines a), ("b", jlines b), ("valid", jbool valid), ("text", .null), ("applied", .null)]
    | _, _ => jobj [("error", jstr "IndexError")]
  | "renames" =>
    let project := parsePath (obj j "project")
    let renames := (arr j "renames").map fun r => match asArr r with
      | [a, b] => (parsePath a, parsePath b)
      | _ => ([], [])
    jchars (renameLines JediModel.Gen.C07.tryRelativeToSel JediModel.Gen.C07.renameLinePieces
      JediModel.Gen.C07.renameLineArgs project renames)
  | "fs" =>
    let files := (arr j "files").map fun f => match asArr f with
      | [p, c] => (parsePath p, (asStr c).toList)
      | _ => ([], [])
    let fs : FS := fun q => (files.find? (·.1 = q)).map (·.2)
    let r : Refactoring := {
      changes := (arr j "changes").map parseChange,
      renames := (arr j "renames").map fun r => match asArr r with
        | [a, b] => (parsePath a, parsePath b)
        | _ => ([], []) }
    let req : Req := match str j "req" with
      | "apply" => .apply | "get_diff" => .getDiff | "get_new_code" => .getNewCode
      | "get_changed_files" => .getChangedFiles | _ => .getRenames
    let out := step JediModel.Gen.C07.applyNewline (chars j "linesep") JediModel.Gen.C07.applyOrder r req fs
    jobj [("err", match out.err with | none => .null | some _ => jstr "RefactoringError"),
          ("files", jarr ((arr j "query").map fun q => jarr [q, jopt jchars (out.fs (parsePath q))]))]
  | "until" =>
    let lens := nats j "lens"
    jstr (excStr (untilPos JediModel.Gen.C07.untilValidated lens.length (fun k => lens.getD k 0)
      (nat j "line") (optInt j "ul") (optInt j "uc")))
  | op => jobj [("error", jstr ("unknown op " ++ op))]

def main : IO Unit := Proto.run handle

import JediModel.Proto
import JediModel.Model.WalkSrc
import JediModel.Model.Prefilter
open Lean Proto JediModel.Walk JediModel.Search

def parseFile (j : Json) : FileEnt := { name := chars j "name", content := chars j "content" }

instance : Inhabited Forest := ⟨.nil⟩

partial def parseForest : List Json → Forest
  | [] => .nil
  | d :: ds => .cons (chars d "name") ((arr d "files").map parseFile) (parseForest (arr d "dirs")) (parseForest ds)

def lookupLower (tbl : List (Str × Str)) (s : Str) : Str :=
  match tbl.find? (·.1 == s) with
  | some p => p.2
  | none => s

def parseLower (j : Json) : Str → Str :=
  lookupLower ((arr j "lower").map fun p =>
    match asArr p with
    | [a, b] => ((asStr a).toList, (asStr b).toList)
    | _ => ([], []))

def optStr (j : Json) (k : String) : Option Str :=
  match j.getObjVal? k with
  | .ok (.str s) => some s.toList
  | _ => none

def parseNm (j : Json) : Nm :=
  { str := chars j "str", type := chars j "type", treeId := (optInt j "id").map Int.toNat,
    modPath := optStr j "mod", line := nat j "line" }

def nmJson (n : Nm) : Json :=
  jarr [jopt jchars n.modPath, jnat n.line, jchars n.str, jchars n.type, jopt jnat n.treeId]

def parseInfo (j : Json) : PathInfo :=
  { path := chars j "path", modName := parseNm (obj j "modname"), mentions := bool j "mentions",
    names := (arr j "names").map parseNm }

def parseSt (j : Json) : St :=
  { exc := ((strs j "except_path") ++ (strs j "except_str")).map String.toList
    rel := [] }

def runWalk (j : Json) : List Ev :=
  let t := obj j "tree"
  (walkRoot srcCfg (chars j "root") (parseSt j) ((arr t "files").map parseFile) (parseForest (arr t "dirs"))).1

def handle (j : Json) : Json :=
  match str j "op" with
  | "sync" => jarr ((sync (strs j "dirs") (nats j "modified")).map jstr)
  | "gitignore" =>
    let r := gitignoredPaths srcCfg (chars j "folder") (chars j "content")
    jobj [("abs", jarr (r.1.map jchars)), ("rel", jarr (r.2.map fun p => jarr [jchars p.1, jchars p.2]))]
  | "expand" =>
    let rel := (arr j "rel").map fun p =>
      match asArr p with
      | [a, b] => ((asStr a).toList, (asStr b).toList)
      | _ => ([], [])
    jarr ((expandRel (chars j "curr") rel).map jchars)
  | "suffix" => jchars (suffix (chars j "name"))
  | "walk" => jarr ((runWalk j).map fun e => jarr [jbool e.isFile, jchars e.path])
  | "split" =>
    let r := splitSearchString srcAlias (chars j "s")
    jarr [jchars r.1, jarr (r.2.map jchars)]
  | "filter" =>
    let r := searchFilter (parseLower j) ((arr j "names").map parseNm) (chars j "type") (chars j "last")
      (bool j "complete") (bool j "fuzzy")
    jarr (r.map nmJson)
  | "search" =>
    let evs := runWalk j
    match projectSearch srcFileBranch srcModuleSuffixes srcStubSuffix (parseLower j) ((arr j "table").map parseInfo)
      ((arr j "sys_names").map parseNm) (nat j "parse_limit")
      (nat j "open_limit") (chars j "type") (chars j "name") (bool j "complete") evs with
    | some r => jarr (r.map nmJson)
    | none => jobj [("model_outcome", jstr "error: the file branch of step 1 reaches `yield from` without `m`")]
  | "prefilter" =>
    -- the filter step of _check_fs with the pattern / step order / flags of the source; `words` = the
    -- characters of this request that python's `re` counts as \w
    let words := chars j "words"
    match JediModel.Prefilter.patternOf JediModel.Gen.C19.prefilterPattern with
    | none => jobj [("model_outcome", jstr "error: unknown pattern shape")]
    | some p =>
      match JediModel.Prefilter.passes (fun c => words.contains c) JediModel.Prefilter.utf8
          JediModel.Gen.C19.checkFsSteps p JediModel.Gen.C19.prefilterPatternIsBytes
          (JediModel.Gen.C19.prefilterFlags.contains "ASCII") (bool j "complete") (chars j "name")
          (nats j "data") (chars j "text") with
      | some b => jbool b
      | none => jstr "TypeError"
  | op => jobj [("error", jstr ("unknown op " ++ op))]

def main : IO Unit := Proto.run handle

import JediModel.Proto
import JediModel.Model.SetIter
import JediModel.Model.YieldOrder
import JediModel.Gen.C02
import JediModel.Model.PyCore
import JediModel.Lemmas.PyCoreExact
import JediModel.Model.ArgBind
import JediModel.Model.ClassLookup
open Lean Proto JediModel.PyCore

instance : Inhabited Expr := ⟨.int⟩

partial def parseExpr (j : Json) : Expr :=
  match asArr j with
  | tag :: rest =>
    match asStr tag, rest with
    | "int", _ => .int
    | "str", _ => .str
    | "name", [x] => .name (asNat x)
    | "self", _ => .self
    | "tuple", [es] => .tuple ((asArr es).map parseExpr)
    | "index", [e, k] => .index (parseExpr e) (asNat k)
    | "call", [f, args] => .call (parseExpr f) ((asArr args).map parseExpr)
    | "attr", [e, a] => .attr (parseExpr e) (asNat a)
    | "tern", [c, a, b] => .tern (asBool c) (parseExpr a) (parseExpr b)
    | _, _ => .int
  | [] => .int

def parseStmt (j : Json) : Stmt :=
  match asArr j with
  | tag :: rest =>
    match asStr tag, rest with
    | "assign", [x, e] => .assign (asNat x) (parseExpr e)
    | "unpack", [xs, e] => .unpack ((asArr xs).map asNat) (parseExpr e)
    | "def", [f, ps, e] => .defn (asNat f) ((asArr ps).map asNat) (parseExpr e)
    | "class", [c, b, attrs, init, methods] =>
      let pairs (j : Json) : List (Nat × Expr) := (asArr j).map fun ae => match asArr ae with
          | [a, e] => (asNat a, parseExpr e)
          | _ => (0, .int)
      .klass (asNat c) (match b with | .null => none | b => some (asNat b))
        (pairs attrs)
        (match init with
         | .null => none
         | i => match asArr i with
           | [ps, asg] => some { params := (asArr ps).map asNat, assigns := pairs asg }
           | _ => none)
        ((asArr methods).map fun m => match asArr m with
          | [nm, ps, ret] => { name := asNat nm, params := (asArr ps).map asNat, ret := parseExpr ret }
          | _ => { name := 0, params := [], ret := .int })
    | "probe", [e] => .probe (parseExpr e)
    | _, _ => .probe .int
  | [] => .probe .int

partial def valJson : Val → Json
  | .int => jstr "int"
  | .str => jstr "str"
  | .tuple vs => jarr [jstr "tuple", jarr (vs.map valJson)]
  | .func i => jarr [jstr "func", jnat i]
  | .cls i => jarr [jstr "cls", jnat i]
  | .inst i _ => jarr [jstr "inst", jnat i]
  | .bound _ c m => jarr [jstr "meth", jnat c, jnat m]

partial def shapeJson : Shape → Json
  | .int => jstr "int"
  | .str => jstr "str"
  | .tuple es => jarr [jstr "tuple", jarr (es.map fun s => jarr (s.map shapeJson))]
  | .func i => jarr [jstr "func", jnat i]
  | .cls i => jarr [jstr "cls", jnat i]
  | .inst i _ => jarr [jstr "inst", jnat i]
  | .bound _ c m => jarr [jstr "meth", jnat c, jnat m]

/-! ### argument binding (Model/ArgBind): `bind` -/
namespace Bind
open JediModel.ArgBind

def parseKind : String → Kind
  | "star" => .star
  | "kwonly" => .kwOnly
  | "dstar" => .dstar
  | _ => .pos

def parseParam (j : Json) : Param :=
  match asArr j with
  | [n, k, d] => { name := asNat n, kind := parseKind (asStr k), hasDefault := asBool d }
  | _ => { name := 0, kind := .pos, hasDefault := false }

def parseKw (j : Json) : Nat × Nat :=
  match asArr j with
  | [k, a] => (asNat k, asNat a)
  | _ => (0, 0)

def kvJson (kv : Nat × Nat) : Json := jarr [jnat kv.1, jnat kv.2]

def boundJson : Bound → Json
  | .arg a => jarr [jstr "arg", jnat a]
  | .default => jarr [jstr "default"]
  | .tuple l => jarr [jstr "tuple", jarr (l.map jnat)]
  | .dict kvs => jarr [jstr "dict", jarr (kvs.map kvJson)]
  | .unknown => jarr [jstr "unknown"]

def envJson (env : List (Nat × Bound)) : Json :=
  jarr (env.map fun (n, b) => jarr [jnat n, boundJson b])

def issueJson : Issue → Json
  | .tooFew => jarr [jstr "too-few"]
  | .tooMany a => jarr [jstr "too-many", jnat a]
  | .multipleValues k => jarr [jstr "multiple-values", jnat k]
  | .unexpectedKeyword k => jarr [jstr "unexpected-keyword", jnat k]

/-- the driver answers with the model of the source *as validated* (`cfgRef`), never with the
constants read from the source under test: a changed source must disagree here -/
def handle (j : Json) : Json :=
  let ps := (arr j "params").map parseParam
  let pos := nats j "pos"
  let kws := (arr j "kws").map parseKw
  let (env, issues) := bindJFull cfgRef ps (callArgs pos kws)
  jobj [
    ("wf", jbool (WFSig ps)),
    ("avoid", jbool (kwsAvoidStarNames ps kws)),
    ("jedi", envJson env),
    ("issues", jarr (issues.map issueJson)),
    ("nopush", envJson (bindJ { cfgRef with pushBack := false } ps (callArgs pos kws))),
    ("py", jopt envJson (bindPy ps pos kws))]
end Bind

/-! ### class-level lookup of classmethods (Model/ClassLookup): `lookup` -/
namespace Lookup
open JediModel.ClassLookup

def parseClass (j : Json) : ClassDef :=
  match asArr j with
  | [b, ns] => { base := (match b with | .null => none | b => some (asNat b)), cms := (asArr ns).map asNat }
  | _ => { base := none, cms := [] }

/-- answers with the model of the source as validated (the filter carries the lookup class) -/
def handle (j : Json) : Json :=
  let h : Hier := (arr j "hier").map parseClass
  let names := nat j "names"
  jobj [("queries", jarr ((List.range h.length).flatMap fun c => (List.range names).map fun n =>
    jobj [("c", jnat c), ("n", jnat n),
          ("jedi", jopt jnat (jediBoundCls true h c n)),
          ("py", jopt jnat (pyBoundCls h c n))]))]
end Lookup

def handle (j : Json) : Json :=
  match str j "op" with
  | "setiter" =>
    -- `ValueSet.iterate` over member streams of tags, merged by the function named in the source
    let ss : List (List Nat) := (arr j "streams").map fun s => (asArr s).map asNat
    match (JediModel.SetIter.zipperOf JediModel.Gen.C02.iterateZipper : Option (List (List Nat) → _)) with
    | none => jobj [("cols", .null)]
    | some z =>
      let cols := z ss
      jobj [("cols", jarr (cols.map fun c => jarr (c.map jnat))),
            ("all", jarr ((JediModel.SetIter.allValues cols).map jnat))]
  | "yieldorder" =>
    -- get_yield_lazy_values: `parents` = [[yield id, tag, for id]] (tag 0 top, 1 simple for, 2 other),
    -- `lens` = [[for id, number of elements]]
    let ps : List (Nat × JediModel.YieldOrder.Par) := (arr j "parents").map fun p =>
      match (asArr p).map asNat with
      | [y, 0, _] => (y, .top)
      | [y, 1, f] => (y, .simpleFor f)
      | y :: _ => (y, .other)
      | [] => (0, .other)
    let lens : List (Nat × Nat) := (arr j "lens").map fun p =>
      match (asArr p).map asNat with
      | [f, n] => (f, n)
      | _ => (0, 0)
    let len (f : Nat) : Nat := ((lens.find? fun p => p.1 == f).map (·.2)).getD 0
    jobj [("order", jopt (fun out => jarr (out.map fun (q : Nat × Option Nat) =>
      jarr [jnat q.1, jopt jnat q.2])) (JediModel.YieldOrder.order JediModel.Gen.C02.yieldGroupsKeyed len ps))]
  | "bind" => Bind.handle j
  | "lookup" => Lookup.handle j
  | "run" =>
    let p : Prog := (arr j "prog").map parseStmt
    let fuel := nat j "fuel"
    jobj [
      ("wf", jbool (WFClasses p)),
      ("single", jbool (SingleAssignInit p)),
      ("ternfree", jbool p.ternFree),
      ("probes", jarr ((probes p).map fun (i, e) => jobj [
        ("pos", jnat i),
        ("exec", jopt valJson (evalC p fuel (.module i) e)),
        ("compl",
          -- what jedi offers after `e.`: the union over the inferred shapes; only reported when
          -- every shape is an instance or class of the analysed source
          let shapes := mayE p fuel (.module i) e
          if shapes.isEmpty || shapes.any (fun s => match s with
              | .inst _ _ => false
              | .cls _ => false
              | _ => true) then .null
          else jarr ((shapes.flatMap fun s => match s with
              | .inst id _ => complNames p fuel true id
              | .cls id => complNames p fuel false id
              | _ => []).map jnat)),
        ("may", jarr ((mayE p fuel (.module i) e).map shapeJson))]))]
  | op => jobj [("error", jstr ("unknown op " ++ op))]

def main : IO Unit := Proto.run handle

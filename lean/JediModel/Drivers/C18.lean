import JediModel.Proto
import JediModel.Model.Nesting
import JediModel.Gen.C18
import JediModel.Lemmas.Nesting
import JediModel.Model.Members
open Lean Proto JediModel.Nesting
open JediModel.Scopes (Kind)

def parseKind : Nat → Kind
  | 0 => .module | 1 => .function | 2 => .klass | 3 => .lambda | _ => .comp

def parsePos (j : Json) : Pos :=
  match asArr j with
  | [l, c] => ⟨asNat l, asNat c⟩
  | _ => ⟨0, 0⟩

def parseRole (r arg : Nat) : LeafRole :=
  match r with
  | 0 => .other | 1 => .newline | 2 => .endmarker | 3 => .use | 4 => .bind | 5 => .param
  | _ => .defName arg

def parseProg (j : Json) : NProg :=
  { scopes := (arr j "scopes").map fun s =>
      match asArr s with
      | [k, ps, st, co, su, en, _, nm, ss] =>
        { kind := parseKind (asNat k), pscope := asNat ps, start := parsePos st, colon := parsePos co,
          suite := parsePos su, stop := parsePos en, name := asStr nm, stmt := parsePos ss }
      | _ => { kind := .module, pscope := 0, start := ⟨1, 0⟩, colon := ⟨1, 0⟩, suite := ⟨1, 0⟩,
               stop := ⟨1, 0⟩, name := "" },
    leaves := (arr j "leaves").map fun l =>
      match asArr l with
      | [sl, sc, el, ec, ps, ip, r, a, nm] =>
        { start := ⟨asNat sl, asNat sc⟩, stop := ⟨asNat el, asNat ec⟩, pscope := asNat ps,
          isParamName := asNat ip == 1, role := parseRole (asNat r) (asNat a), name := asStr nm }
      | _ => { start := ⟨0, 0⟩, stop := ⟨0, 0⟩, pscope := 0, isParamName := false, role := .other, name := "" },
    modNames := match j.getObjVal? "modnames" with
      | .ok (.arr a) => some (a.toList.map asStr)
      | _ => none }

def jres : Except Err Nat → Json
  | .ok n => jnat n
  | .error .valueError => jstr "ValueError"
  | .error .internal => jstr "internal"

def jnames : Option (List String) → Json
  | none => .null
  | some l => jstr (".".intercalate l)

def handle (j : Json) : Json :=
  match str j "op" with
  | "analyse" =>
    let p := parseProg j
    let mp := JediModel.Gen.C18.mapping
    let jn := JediModel.Gen.C18.moduleJoin
    let poss := (arr j "positions").map parsePos
    let defs := (List.range p.leaves.length).filter fun i =>
      match p.leaves[i]? with
      | some l => (match l.role with | .defName _ | .bind | .param => true | _ => false)
      | none => false
    jobj [
      ("wf", jbool (WF p)),
      ("context", jarr (poss.map fun pos => jres (getContext p pos))),
      ("body", jarr (poss.map fun pos => jnat (innermostBody p pos))),
      ("hyp", jarr (poss.map fun pos => jbool (ContextHyp p pos &&
        (match chooseLeaf p pos with
         | .ok i => (match p.leaves[i]? with | some l => TreeMatchesText p pos l | none => false)
         | _ => false)))),
      ("defs", jarr (defs.map jnat)),
      ("chain", jarr (defs.map fun i => jarr ((parentChain p i).map jnat))),
      ("chainhyp", jarr (defs.map fun i => jbool (ChainHyp p i))),
      ("nolambdahyp", jarr (defs.map fun i => jbool (NoLambdaHyp p i))),
      ("chainspec", jarr (defs.map fun i =>
        match p.leaves[i]? with
        | some l => jarr ((defChain p p.fuel (chainStart p l) ++ [0]).map jnat)
        | none => .null)),
      ("lambdas", jarr (((List.range p.scopes.length).filter fun s => !notLambda p s).map jnat)),
      ("full", jarr (defs.map fun i => jnames (fullNameOfLeaf mp jn p i))),
      ("scopefull", jarr ((List.range p.scopes.length).map fun s => jnames (fullNameOfScope mp jn p s))),
      ("qualname", jarr ((List.range p.scopes.length).map fun s => jstr (".".intercalate (qualnameOf p s)))),
      ("allclass", jarr ((List.range p.scopes.length).map fun s => jbool (allClassAncestors p p.fuel s)))]
  | "members" =>
    let h : JediModel.Members.Hier := (arr j "classes").map fun c =>
      { path := (arr c "path").map asStr, bases := (arr c "bases").map asNat,
        members := (arr c "members").map asStr }
    let mods := (arr j "modnames").map asStr
    let qs := (arr j "queries").map fun q =>
      match asArr q with
      | [c, a] => (asNat c, asStr a)
      | _ => (0, "")
    jobj [
      ("mro", jarr ((List.range h.length).map fun c => jarr ((JediModel.Members.mro h c).map jnat))),
      ("found", jarr (qs.map fun (c, a) =>
        match JediModel.Members.lookup h c a with
        | some d => jnat d
        | none => .null)),
      ("full", jarr (qs.map fun (c, a) =>
        jnames (JediModel.Members.memberFullName JediModel.Gen.C18.mapping JediModel.Gen.C18.moduleJoin
          JediModel.Gen.C18.boundMethodOwnQual mods h c a))),
      ("qualname", jarr (qs.map fun (c, a) =>
        match JediModel.Members.lookup h c a with
        | some d => jstr (".".intercalate (JediModel.Members.defQualname h d a))
        | none => .null))]
  | op => jobj [("error", jstr ("unknown op " ++ op))]

def main : IO Unit := Proto.run handle

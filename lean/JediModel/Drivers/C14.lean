import JediModel.Proto
import JediModel.Model.Helper
import JediModel.Gen.C14
open Lean Proto JediModel.Helper

def srcCfg : Cfg :=
  { dumpCatch := JediModel.Gen.C14.sendDumpCatch,
    loadCatch := JediModel.Gen.C14.sendLoadCatch,
    envCatch := JediModel.Gen.C14.envCatch,
    closeStreams := JediModel.Gen.C14.cleanupCloseStreams.filterMap Stream.ofName?,
    closePerStream := JediModel.Gen.C14.cleanupClosePerStream,
    closeCatch := JediModel.Gen.C14.cleanupCloseCatch,
    usedSetBeforeRun := JediModel.Gen.C14.usedSetBeforeRun,
    listenCatch := JediModel.Gen.C14.listenRunCatch }

def parseFault (phase cls : String) : Fault :=
  match phase with
  | "before_send" => .beforeSend
  | "after_send" => .afterSend
  | "trunc" => .trunc cls
  -- "the helper raises": the except clause of `Listener.listen` read from the source decides whether
  -- the helper reports the exception or dies, not the name of the phase
  | "raises" => listenFault srcCfg (if cls = "" then "RuntimeError" else cls)
  | "raises_fatal" => listenFault srcCfg (if cls = "" then "KeyboardInterrupt" else cls)
  | _ => .none

def parsePlan (j : Json) : Plan :=
  planOf ((arr j "plan").map fun t =>
    (nat t "h", nat t "k", parseFault (str t "phase") (str t "cls")))

def parseOp (j : Json) : Op :=
  match str j "op" with
  | "new" => .newState (nat j "s")
  | "sys" => .sysPath
  | "call" => .call (nat j "s")
  | "drop" => .drop (nat j "s")
  | _ => .dropEnv

def outJson : Out → Json
  | .ok => jstr "ok"
  | .raised c => jstr c
  | .remote c => jstr c

def procJson (p : Proc) : Json :=
  jobj [("idx", jnat p.idx), ("crashed", jbool p.crashed), ("started", jbool p.started),
        ("alive", jbool p.alive), ("reaped", jbool p.reaped), ("cleanups", jnat p.cleanups),
        ("queue", jarr (p.queue.reverse.map jnat)), ("child", jarr (p.child.map jnat)),
        ("nreq", jnat p.nreq), ("fds", jnat p.fds.length)]

def envJson (e : Env) : Json :=
  jobj [("procs", jarr (e.procs.reverse.map procJson)),
        ("iss", jarr (e.iss.map fun i => jarr [jnat i.s, jbool i.used, jnat i.proc]))]

def trace (plan : Plan) : Env → List Op → List Json
  | _, [] => []
  | e, op :: ops =>
    let (e', o) := step srcCfg plan e op
    jobj [("out", outJson o), ("env", envJson e')] :: trace plan e' ops

def handle (j : Json) : Json :=
  match str j "op" with
  | "trace" => jarr (trace (parsePlan j) {} ((arr j "ops").map parseOp))
  | "caught" => jbool (caught (str j "cls") (strs j "clause"))
  | "listen" => jstr (match listenFault srcCfg (str j "cls") with
      | .raises _ => "reported"
      | _ => "dies")
  | op => jobj [("error", jstr ("unknown op " ++ op))]

def main : IO Unit := Proto.run handle

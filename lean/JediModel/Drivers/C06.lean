import JediModel.Proto
import JediModel.Model.Refactor
import JediModel.Model.ExtractIO
import JediModel.Model.NonExtractable
import JediModel.Model.ExtractOut
import JediModel.Gen.C06
open Lean Proto JediModel.Text JediModel.Tree JediModel.Refactor

def rule : ParenRule :=
  ⟨JediModel.Gen.C06.expressionParts, JediModel.Gen.C06.inlineParensExtraParents,
   JediModel.Gen.C06.inlineParensDictDoubleStar, JediModel.Gen.C06.inlineParensAttributeSlot⟩

def parseName (j : Json) : NameInfo :=
  { apiType := str j "api_type", hasTree := bool j "has_tree", isDef := bool j "is_def", id := nat j "id",
    pfx := chars j "prefix", parentType := str j "parent_type", parentNext := bool j "parent_next",
    parentId := nat j "parent_id", dotTrailer := bool j "dot_trailer", firstPfx := chars j "first_prefix",
    before := nats j "before", prevDstar := bool j "prev_dstar", slotParentType := str j "slot_parent_type",
    slotParentNext := bool j "slot_parent_next", slotPrevDstar := bool j "slot_prev_dstar" }

def parseDef (j : Json) : DefInfo :=
  { stmtType := str j "stmt_type", stmtId := nat j "stmt_id", nDefined := nat j "n_defined",
    child1Type := str j "child1_type", child1Value := chars j "child1_value", child1Code := chars j "child1_code",
    annLen := nat j "ann_len", ann2Value := chars j "ann2_value", rhsType := str j "rhs_type",
    rhsCode := chars j "rhs_code", stmtPfx := chars j "stmt_prefix", nextId := nat j "next_id",
    nextPfx := chars j "next_prefix", nextType := str j "next_type", nextValue := chars j "next_value" }

def jmap (m : Map) : Json := jarr (m.map fun p => jarr [jnat p.1, jchars p.2])

def optChars (j : Json) (k : String) : Option Str :=
  match j.getObjVal? k with
  | .ok (.str s) => some s.toList
  | _ => none

/-- a list of parso nodes (json: {"k": "leaf", "v": value} | {"k": "loop", "b": [...], "e": [...]} |
{"k": "scope" | "other", "c": [...]}) as a forest -/
partial def parseSel : List Json → JediModel.NonExtractable.Sel
  | [] => .done
  | j :: rest =>
    match str j "k" with
    | "leaf" => .leaf (str j "v") (parseSel rest)
    | "loop" => .loop (parseSel (arr j "b")) (parseSel (arr j "e")) (parseSel rest)
    | "scope" => .scope (parseSel (arr j "c")) (parseSel rest)
    | _ => .other (parseSel (arr j "c")) (parseSel rest)

/-- a list of parso nodes as the forest of `ExtractOut` (json: {"k": "name", "v": value, "d": is_definition} |
{"k": "leaf"} | {"k": "attr", "c": [...]} | {"k": "scope", "h": [children[:-1]], "b": [children[-1:]]} |
{"k": "node", "c": [...]}) -/
partial def parseForest : List Json → JediModel.ExtractOut.Forest
  | [] => .done
  | j :: rest =>
    match str j "k" with
    | "name" => .name (str j "v") (bool j "d") (parseForest rest)
    | "leaf" => .leaf (parseForest rest)
    | "attr" => .attr (parseForest (arr j "c")) (parseForest rest)
    | "scope" => .scope (parseForest (arr j "h")) (parseForest (arr j "b")) (parseForest rest)
    | _ => .node (parseForest (arr j "c")) (parseForest rest)

def outWalk : JediModel.ExtractOut.Walk :=
  ⟨JediModel.Gen.C06.nonGlobalSkipsAttributeTrailer, JediModel.Gen.C06.nonGlobalPrunesScopeBody⟩

def checkProg : Option JediModel.NonExtractable.Prog :=
  JediModel.NonExtractable.Prog.decode JediModel.Gen.C06.checkAlwaysRefused JediModel.Gen.C06.checkJumpKeywords
    JediModel.Gen.C06.checkLoopBranch JediModel.Gen.C06.checkScopeBranch JediModel.Gen.C06.checkOtherBranch
    JediModel.Gen.C06.checkTail

def handle (j : Json) : Json :=
  match str j "op" with
  | "table" =>
    jarr (allPairs.map fun p => jobj [
      ("ctx", jstr p.1.name), ("parent", jstr p.1.parent), ("template", jstr p.1.template),
      ("rhs", jstr p.2.type), ("sample", jstr p.2.sample),
      ("needs", jbool (needsParens p.1 p.2)),
      ("jedi", jbool (jediParens rule p.2.type p.1.parent p.1.trailerNext p.1.dstar))])
  | "inline" =>
    match JediModel.Refactor.inline rule ((arr j "names").map parseName) (parseDef (obj j "def")) with
    | .error e => jobj [("error", jstr e)]
    | .ok m => jobj [("map", jmap m)]
  | "parens" => jbool (jediParens rule (str j "rhs_type") (str j "parent_type") (bool j "parent_next")
      (bool j "prev_dstar"))
  | "replace" =>
    match replaceMap indentBlock (bool j "same") (nat j "node0") (chars j "first_prefix") (nat j "ins_id")
        (chars j "ins_prefix") (chars j "ins_value") (nats j "rest") (chars j "replacement")
        (chars j "extracted") (optChars j "remaining") with
    | none => jobj [("error", jstr "IndexError")]
    | some m => jobj [("map", jmap m)]
  | "inputs" =>
    let occs : List JediModel.ExtractIO.Occ := (arr j "occs").map fun o =>
      { value := str o "value", isDef := bool o "is_def", augTarget := bool o "aug", outer := bool o "outer" }
    let st := JediModel.ExtractIO.findInputsOutputs ⟨JediModel.Gen.C06.extractReadsAugTarget⟩ occs
    jobj [("inputs", jarr (st.inputs.map jstr)), ("outputs", jarr (st.outputs.map jstr))]
  | "needed" =>
    let sibs : List JediModel.ExtractOut.Sibling := (arr j "sibs").map fun x =>
      { before := bool x "before", tree := parseForest (arr x "tree") }
    let rv := strs j "rv"
    jobj [("needed", jarr ((JediModel.ExtractOut.needed outWalk sibs rv).map jstr)),
          ("returned", jarr ((JediModel.ExtractOut.returnVariables outWalk sibs rv).map jstr)),
          ("names", jarr ((sibs.flatMap fun x => JediModel.ExtractOut.names outWalk x.tree).map fun o =>
            jarr [jstr o.1, jbool o.2])),
          ("reads_later", jarr ((JediModel.ExtractOut.readsLater sibs).map jstr))]
  | "nonextractable" =>
    match checkProg with
    | none => jobj [("error", jstr "the translated _check_for_non_extractables does not decode")]
    | some P =>
      let sel := parseSel (arr j "nodes")
      jobj [("refused", jbool (JediModel.NonExtractable.refuses P sel)),
            ("loose", jbool (JediModel.NonExtractable.loose sel false))]
  | op => jobj [("error", jstr ("unknown op " ++ op))]

def main : IO Unit := Proto.run handle

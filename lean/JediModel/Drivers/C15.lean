import JediModel.Proto
import JediModel.Model.Recursion
import JediModel.Model.Mro
import JediModel.Model.StarImports
import JediModel.Gen.C15
open Lean Proto JediModel.Recursion

def parseLimits (j : Json) : Limits :=
  match j.getObjVal? "limits" with
  | .ok l => { recursionLimit := nat l "rec", totalLimit := nat l "total",
               perFnLimit := nat l "perfn", perFnRecLimit := nat l "perfnrec" }
  | _ => { recursionLimit := JediModel.Gen.C15.recursionLimit, totalLimit := JediModel.Gen.C15.totalLimit,
           perFnLimit := JediModel.Gen.C15.perFnLimit, perFnRecLimit := JediModel.Gen.C15.perFnRecLimit }

def parseOp (j : Json) : Op :=
  match j with
  | .arr a =>
    match a.toList with
    | [f, b, t] => .push ⟨asNat f, asBool b, asBool t⟩
    | _ => .pop
  | _ => .pop

def evJson : Ev → Json
  | .pushed _ lim lvl nested => jarr [jbool lim, jnat lvl, jnat nested]
  | .popped => jstr "pop"
  | .popError => jstr "IndexError"

def nthList (ls : List (List Nat)) (v : Nat) : List Nat := ls.getD v []

def insertSorted (x : Nat) : List Nat → List Nat
  | [] => [x]
  | y :: ys => if x < y then x :: y :: ys else if x = y then y :: ys else y :: insertSorted x ys

def setUnion (v : Nat) (vals : List (List Nat)) : List Nat :=
  (vals.flatten).foldl (fun acc x => insertSorted x acc) [v]

def seqCombine (v : Nat) (vals : List (List Nat)) : List Nat := (v :: vals.flatten).take 8

def errStr : Err → String
  | .fuel => "fuel"
  | .index => "IndexError"

def handle (j : Json) : Json :=
  match str j "op" with
  | "trace" =>
    let L := parseLimits j
    let ops := (arr j "ops").map parseOp
    let r := runTrace L Det.fresh ops
    let fns := nats j "fns"
    jobj [("ev", jarr (r.2.map evJson)), ("level", jnat r.1.level),
          ("parents", jarr (r.1.parents.reverse.map jnat)), ("execCount", jnat r.1.execCount),
          ("counts", jarr (fns.map fun f => jnat (r.1.counts f)))]
  | "exec" =>
    let L := parseLimits j
    let bodies := (arr j "body").map fun b => (asArr b).map asNat
    let bl := (arr j "builtin").map asBool
    let ty := (arr j "typing").map asBool
    let P : Prog := { body := nthList bodies, builtin := fun f => bl.getD f false, typing := fun f => ty.getD f false }
    match exec L P (nat j "fuel") Det.fresh (nat j "root") with
    | .ok (d, w) => jobj [("ok", jnat w), ("level", jnat d.level), ("execCount", jnat d.execCount)]
    | .error e => jobj [("error", jstr (errStr e))]
  | "memo" =>
    let depsL := (arr j "deps").map fun b => (asArr b).map asNat
    let dflt : Option (List Nat) := match j.getObjVal? "default" with
      | .ok (.arr a) => some (a.toList.map asNat)
      | _ => none
    let comb : Nat → List (List Nat) → List Nat := if str j "combine" == "seq" then seqCombine else setUnion
    let G : Graph (List Nat) := { deps := nthList depsL, combine := comb, «default» := dflt }
    let fuel := nat j "fuel"
    -- roots one after the other on one memo, reporting result and work of each
    let rec go (m : Memo (List Nat)) (roots : List Nat) (acc : List Json) : List Json :=
      match roots with
      | [] => acc.reverse
      | v :: vs =>
        match eval G fuel m v with
        | .ok (m', r, w) => go m' vs (jobj [("r", jarr (r.map jnat)), ("bodies", jnat w.bodies), ("calls", jnat w.calls)] :: acc)
        | .error e => (jobj [("error", jstr (errStr e))] :: acc).reverse
    jarr (go Memo.empty (nats j "roots") [])
  | "star" =>
    -- ModuleValue.star_imports() of the roots, one after the other on one memo; shapes from the source
    let impL := (arr j "imports").map fun b => (asArr b).map asNat
    let cfg : JediModel.StarImports.Cfg :=
      { «default» := JediModel.Gen.C15.starDefault, skipSelf := JediModel.Gen.C15.starSkipSelf }
    let fuel := nat j "fuel"
    let rec goStar (m : Memo (List Nat)) (roots : List Nat) (acc : List Json) : List Json :=
      match roots with
      | [] => acc.reverse
      | v :: vs =>
        match JediModel.StarImports.starEval cfg (nthList impL) fuel m v with
        | .ok (m', r, w) => goStar m' vs (jobj [("r", jarr (r.map jnat)), ("calls", jnat w.calls)] :: acc)
        | .error e => (jobj [("error", jstr (errStr e))] :: acc).reverse
    jarr (goStar Memo.empty (nats j "roots") [])
  | "guard" =>
    let depsL := (arr j "deps").map fun b => (asArr b).map asNat
    match evalGuard (nthList depsL) (nat j "fuel") [] (nat j "root") with
    | .ok (_, w) => jobj [("ok", jnat w)]
    | .error e => jobj [("error", jstr (errStr e))]
  | "limit" =>
    let calls := (arr j "calls").map fun c =>
      match asArr c with
      | [n, g] => (asNat n, asBool g)
      | _ => (0, false)
    jarr ((limitRun (nat j "cap") (nat j "factor") Counts.empty calls).2.map jbool)
  | "mro" =>
    -- list(root.py__mro__()) plus the inner-loop iterations of every class body (each runs once)
    let basesL := (arr j "bases").map fun b => (asArr b).map asNat
    let record := if str j "record" == "base" then JediModel.Mro.recordBase else JediModel.Mro.recordYielded
    let fuel := nat j "fuel"
    let bodies := (List.range basesL.length).map fun c =>
      match JediModel.Mro.mroWith record (nthList basesL) fuel c with
      | .ok s => jobj [("len", jnat s.out.length), ("steps", jnat s.steps)]
      | .error e => jobj [("error", jstr (errStr e))]
    match JediModel.Mro.mroWith record (nthList basesL) fuel (nat j "root") with
    | .ok s => jobj [("out", jarr (s.out.map jnat)), ("bodies", jarr bodies)]
    | .error e => jobj [("error", jstr (errStr e))]
  | op => jobj [("error", jstr ("unknown op " ++ op))]

def main : IO Unit := Proto.run handle

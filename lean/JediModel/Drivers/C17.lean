import JediModel.Proto
import JediModel.Lemmas.Tree
import JediModel.Model.Names
import JediModel.Model.ParsoPos
import JediModel.Model.ScriptParse
import JediModel.Model.DefRange
import JediModel.Gen.C17
open Lean Proto JediModel.Text JediModel.Tree JediModel.Names JediModel.ParsoPos

def posJson (p : Pos) : Json := jarr [jnat p.line, jnat p.col]

def parseLeaves (j : Json) : List T :=
  (arr j "leaves").zipIdx.map fun (l, i) =>
    match asArr l with
    | [t, p, v] => T.leaf (i + 1) (asStr t) (asStr p).toList (asStr v).toList
    | _ => T.leaf (i + 1) "?" [] []

def parseOcc (j : Json) : Occ :=
  match asArr j with
  | [l, c, v, d, m] => { pos := ⟨asNat l, asNat c⟩, value := (asStr v).toList, isDef := asBool d, moduleScope := asBool m }
  | _ => { pos := ⟨0, 0⟩, value := [], isDef := false, moduleScope := false }

def parseFileOp (j : Json) : JediModel.ScriptParse.Op :=
  let code : Option Nat := (optInt j "code").map Int.toNat
  match str j "op" with
  | "write" => .write (nat j "content") (nat j "mtime")
  | "remove" => .remove
  | "restart" => .restart
  | "script" => .script code (nat j "now")
  | _ => .parse (bool j "cache") (bool j "diff") code (nat j "now")

def handle (j : Json) : Json :=
  match str j "op" with
  | "layout" =>
    let t := T.node 0 "file_input" (parseLeaves j)
    let ps := parsoPositions t
    let ls := splitLines (code t)
    jobj [("pos", jarr (ps.map fun lp => posJson lp.2)),
          ("safe", jbool (decide (CRLFSafe t))),
          ("textok", jarr (ps.map fun lp =>
            match textFrom ls lp.2 with
            | some s => jbool (lp.1.value.isPrefixOf s)
            | none => jbool false))]
  | "linecode" =>
    jchars (getLineCode (splitLines (chars j "text")) (int j "line") (int j "before") (int j "after"))
  | "names" =>
    let occs := (arr j "occs").map parseOcc
    jarr ((scriptNames occs (bool j "all") (bool j "defs") (bool j "refs")).map fun o =>
      jarr [jnat o.pos.line, jnat o.pos.col, jchars o.value, jbool o.isDef])
  | "nameshist" =>
    -- a history of `_names(flags)` calls on ONE Script; the source of the names as the translator found it
    let occs := (arr j "occs").map parseOcc
    let fs : List Flags := (arr j "flags").map fun f =>
      match asArr f with
      | [a, d, r] => (asBool a, asBool d, asBool r)
      | _ => (false, false, false)
    jarr ((namesHistory ⟨JediModel.Gen.C17.namesSourceMemoised, JediModel.Gen.C17.namesSourceOneShot⟩ occs [] fs).map
      fun ans => jarr (ans.map fun o => jarr [jnat o.pos.line, jnat o.pos.col, jchars o.value, jbool o.isDef]))
  | "scripthist" =>
    -- a history of ONE path: writes / removals / restarts / Script(...) / grammar.parse(...); the cache policy of
    -- Script.__init__ as the translator found it
    let ops := (arr j "ops").map parseFileOp
    let cfg := JediModel.ScriptParse.cfgOf JediModel.Gen.C17.scriptParseCache JediModel.Gen.C17.scriptDiffCache
    jarr ((ops.zip (JediModel.ScriptParse.run cfg {} ops)).map fun (op, r) =>
      match op, r with
      | .script .., some s => jarr [jnat s.tree, jnat s.code]
      | .parse .., some s => jarr [jnat s.tree, jnat s.code]
      | .script .., none => jstr "no-file"
      | .parse .., none => jstr "no-file"
      | _, _ => .null)
  | "defrange" =>
    -- get_definition_start_position / get_definition_end_position on the leaves of the definition node
    let lv : List LeafInfo := (arr j "leaves").zipIdx.map fun (l, i) =>
      match asArr l with
      | [t, p, v] => ⟨i + 1, asStr t, (asStr p).toList, (asStr v).toList⟩
      | _ => ⟨i + 1, "?", [], []⟩
    let p0 : Pos := match asArr (j.getObjValD "p") with
      | [l, c] => ⟨asNat l, asNat c⟩
      | _ => ⟨1, 0⟩
    let cfg : JediModel.DefRange.Cfg :=
      { scopeTypes := JediModel.Gen.C17.defRangeScopeTypes, newlineType := JediModel.Gen.C17.defRangeNewlineType,
        usesPreviousLeafEnd := JediModel.Gen.C17.defRangeUsesPreviousLeafEnd }
    let sp := JediModel.DefRange.spans p0 lv
    let before : Option JediModel.DefRange.Span := match asArr (j.getObjValD "before") with
      | [t, sl, sc, el, ec] => some ⟨⟨0, asStr t, [], []⟩, ⟨asNat sl, asNat sc⟩, ⟨asNat el, asNat ec⟩⟩
      | _ => Option.none
    match sp[nat j "name"]? with
    | Option.none => jobj [("error", jstr "name index")]
    | some nm =>
      let hasDef := bool j "hasdef"
      let d := if hasDef then some sp else Option.none
      jobj [("name", jarr [posJson nm.start, posJson nm.stop]),
            ("start", match JediModel.DefRange.defStart nm d with | some q => posJson q | Option.none => .null),
            ("end", match JediModel.DefRange.defEnd cfg (str j "type") nm before d with
              | some q => posJson q | Option.none => .null)]
  | "textat" =>
    match textFrom (splitLines (chars j "text")) ⟨nat j "line", nat j "col"⟩ with
    | some s => jchars (s.take (nat j "n"))
    | none => .null
  | op => jobj [("error", jstr ("unknown op " ++ op))]

def main : IO Unit := Proto.run handle

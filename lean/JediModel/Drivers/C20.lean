import JediModel.Proto
import JediModel.Model.SysPath
import JediModel.Model.ProjFile
import JediModel.Model.DefaultProject
import JediModel.Gen.C20
open Lean Proto JediModel.SysPath
open JediModel.Gen.C20

def parsePyVal (j : Json) : PyVal :=
  match j with
  | .null => .none
  | .bool b => .bool b
  | .str s => .str s
  | .arr a =>
    .seq (a.toList.map fun e =>
      match e with
      | .str s => Entry.str s
      | _ => match e.getObjVal? "path" with
        | .ok (.arr q) => Entry.path (q.toList.map asStr)
        | _ => Entry.str "?")
  | .num _ => .int (asInt j)
  | .obj _ =>
    match j.getObjVal? "path" with
    | .ok (.arr a) => .path (a.toList.map asStr)
    | _ => .other

def jparts (p : Parts) : Json := jarr (p.map jstr)

def jPyVal : PyVal → Json
  | .none => .null
  | .bool b => .bool b
  | .int n => jint n
  | .str s => .str s
  | .strList l => jarr (l.map jstr)
  | .seq l => jarr (l.map fun e => match e with
      | .str s => jstr s
      | .path q => jobj [("path", jparts q)])
  | .path p => jobj [("path", jparts p)]
  | .other => jobj [("other", .null)]

def jErr : Err → Json
  | .typeError => jobj [("error", jstr "TypeError")]
  | .keyError => jobj [("error", jstr "KeyError")]
  | .wrongVersion => jobj [("error", jstr "WrongVersion")]

def jProject (p : Project) : Json :=
  jobj [("path", jparts p.path), ("environment_path", jPyVal p.envPath),
        ("sys_path", jPyVal (optList p.sysPath)), ("added_sys_path", jarr (p.added.map jstr)),
        ("smart_sys_path", jbool p.smart), ("load_unsafe_extensions", jbool p.unsafeExt)]

def parseKw (j : Json) : List (String × PyVal) :=
  (asArr j).map fun kv =>
    match asArr kv with
    | [k, v] => (asStr k, parsePyVal v)
    | _ => ("", .other)

def handle (j : Json) : Json :=
  match str j "op" with
  | "dedup" => jarr ((removeDups (strs j "path")).map jstr)
  | "parse" => jparts (parsePath (str j "s"))
  | "str" => jstr (pathStr (strs j "parts"))
  | "parents" => jarr ((parentsOf (strs j "parts")).map jparts)
  | "syspath" =>
    let sysPath : Option (List String) :=
      match j.getObjVal? "sys_path" with
      | .ok (.arr a) => some (a.toList.map asStr)
      | _ => none
    let c : Cfg := { projPath := strs j "proj", sysPath := sysPath, added := strs j "added",
                     smart := bool j "smart", django := bool j "django" }
    let inits : List Parts := (arr j "inits").map fun x => (asArr x).map asStr
    let script : Option Parts :=
      match j.getObjVal? "script" with
      | .ok (.arr a) => some (a.toList.map asStr)
      | _ => none
    let w : World := { envSysPath := strs j "env", scriptPath := script, buildout := strs j "buildout",
                       hasInit := fun d => inits.contains d }
    jarr ((getSysPath composeOrder traversedReversed c w (bool j "add_parent") (bool j "add_init")).map jstr)
  | "project_syspath" =>
    -- Project(**kw) in cwd, then _get_sys_path for the three flag combinations
    let cwd := strs j "cwd"
    match init initParams envPathStr pathAlwaysAbsolute cwd (parseKw (obj j "kw")) with
    | .error e => jobj [("init", jErr e)]
    | .ok p =>
      let c : Cfg := { projPath := p.path, sysPath := p.sysPath, added := p.added, smart := p.smart,
                       django := bool j "django" }
      let inits : List Parts := (arr j "inits").map fun x => (asArr x).map asStr
      let script : Option Parts :=
        match j.getObjVal? "script" with
        | .ok (.arr a) => some (a.toList.map asStr)
        | _ => none
      let w : World := { envSysPath := strs j "env", scriptPath := script, buildout := strs j "buildout",
                         hasInit := fun d => inits.contains d }
      let run := fun ap ai => jarr ((getSysPath composeOrder traversedReversed c w ap ai).map jstr)
      jobj [("constructed", jProject p),
            ("default", run defaultAddParentPaths defaultAddInitPaths),
            ("init_paths", run true true), ("no_parents", run false false)]
  | "saveload" =>
    -- construct with kwargs, optionally touch `_environment` / `_django`, save, load
    let cwd := strs j "cwd"
    match init initParams envPathStr pathAlwaysAbsolute cwd (parseKw (obj j "kw")) with
    | .error e => jobj [("init", jErr e)]
    | .ok p =>
      let p := { p with environment := bool j "environment", django := bool j "django" }
      match save initAttrs savePopped serializerVersion p with
      | .error e => jobj [("constructed", jProject p), ("save", jErr e)]
      | .ok file =>
        match load initParams envPathStr pathAlwaysAbsolute cwd file with
        | .error e => jobj [("constructed", jProject p), ("load", jErr e)]
        | .ok q => jobj [("constructed", jProject p),
                         ("file", jarr (file.2.map fun kv => jarr [jstr kv.1, jPyVal kv.2])),
                         ("loaded", jProject q)]
  | "defaultproject" =>
    -- get_default_project on the chain of directories (innermost first): [load, hasInit, isFile, django, potential]
    let chain : List JediModel.DefaultProject.Dir := (arr j "chain").zipIdx.map fun (d, i) =>
      match asArr d with
      | [l, a, b, c, e] =>
        { id := i, load := (match asStr l with
            | "loaded" => .loaded
            | "notadir" => .notADirectory
            | _ => .missing),
          hasInit := asBool a, isFile := asBool b, django := asBool c, potential := asBool e }
      | _ => { id := i, load := .missing, hasInit := false, isFile := false, django := false, potential := false }
    match JediModel.DefaultProject.defaultProject chain with
    | .config d => jobj [("kind", jstr "config"), ("dir", jnat d)]
    | .django d => jobj [("kind", jstr "django"), ("dir", jnat d)]
    | .probable d => jobj [("kind", jstr "probable"), ("dir", jnat d)]
    | .noInit d => jobj [("kind", jstr "noinit"), ("dir", jnat d)]
    | .curdir => jobj [("kind", jstr "curdir"), ("dir", .null)]
  | "savehist" =>
    -- a history of saves into one project directory: the file after every save, for the open mode of the source
    let pre : Option (List Char) := match j.getObjVal? "pre" with
      | .ok (.str s) => some s.toList
      | _ => Option.none
    let ws := (strs j "writes").map String.toList
    match JediModel.ProjFile.modeOf saveOpenMode with
    | Option.none => jobj [("mode", jstr saveOpenMode), ("trace", .null)]
    | some m => jobj [("mode", jstr saveOpenMode),
                      ("trace", jarr ((JediModel.ProjFile.trace m pre ws).map fun c => jstr (String.ofList c)))]
  | op => jobj [("error", jstr ("unknown op " ++ op))]

def main : IO Unit := Proto.run handle

import JediModel.Proto
import JediModel.Model.NoExec
import JediModel.Gen.C12
open Lean Proto JediModel.NoExec

def parseFound : String → Found
  | "source" => .source
  | "noSource" => .noSource
  | "namespace" => .namespace
  | _ => .notFound

def actionJson : Action → Json
  | .nothing => jobj [("kind", jstr "nothing")]
  | .parse => jobj [("kind", jstr "parse")]
  | .namespaceValue => jobj [("kind", jstr "namespace")]
  | .internalError => jobj [("kind", jstr "internalError")]
  | .realImport d p => jobj [("kind", jstr "import"), ("dotted", jstr d), ("path", jarr (p.map jstr))]

def resultJson : Result → Json
  | .value => jstr "value"
  | .noneReturned => jstr "none"
  | .propagates c => jstr ("propagates:" ++ c)

def handle (j : Json) : Json :=
  match str j "op" with
  | "import" =>
    actionJson (importModule JediModel.Gen.C12.autoImportModules (bool j "unsafe") (strs j "envPath")
      (strs j "sysPath") (strs j "names") (parseFound (str j "found")))
  | "load" =>
    let st : HState := { sysPath := { ident := 0, items := strs j "before" } }
    let o : ImpOutcome := if str j "outcome" == "ok" then .ok else .raises (str j "outcome")
    let r := guardedCall JediModel.Gen.C12.loadModuleHandlers
      JediModel.Gen.C12.loadModuleFinallyRestores st { ident := 1, items := strs j "sp" } o
    jobj [("result", resultJson r.2), ("restored", jbool (r.1.sysPath == st.sysPath)),
          ("during", jarr ((r.1.seenDuringCall.map (·.items)).getD [] |>.map jstr))]
  | "hostimport" =>
    match PathShape.ofString JediModel.Gen.C12.lazyImportPathShape with
    | none => jobj [("error", jstr ("unknown path shape " ++ JediModel.Gen.C12.lazyImportPathShape))]
    | some shape =>
      let providers := strs j "providers"
      let st := lazyHistory shape (fun d => providers.contains d) (strs j "hostPath") {}
        ((arr j "history").map fun e => (asArr e).map asStr)
      jobj [("executed", jarr (st.executed.map jstr)),
            ("loadedFrom", match st.loadedFrom with | some d => jstr d | none => Json.null),
            ("shape", jstr JediModel.Gen.C12.lazyImportPathShape)]
  | op => jobj [("error", jstr ("unknown op " ++ op))]

def main : IO Unit := Proto.run handle

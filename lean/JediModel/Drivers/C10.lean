import JediModel.Proto
import JediModel.Model.Imports
import JediModel.Model.StarChain
import JediModel.Gen.C10
open Lean Proto JediModel.SysPath JediModel.Imports
open JediModel.Gen.C10

def partsOf (j : Json) : Parts := (asArr j).map asStr
def partsList (j : Json) (k : String) : List Parts := (arr j k).map partsOf
def jparts (p : Parts) : Json := jarr (p.map jstr)

def fsOf (j : Json) : FS :=
  let files := partsList j "files"
  let dirs := partsList j "dirs"
  { isFile := fun p => files.contains p, isDir := fun p => dirs.contains p }

def jFound : Found → Json
  | .pkg d => jobj [("kind", jstr "module"), ("file", jparts (d ++ ["__init__.py"])), ("package", jbool true)]
  | .mod f => jobj [("kind", jstr "module"), ("file", jparts f), ("package", jbool false)]
  | .ns ds => jobj [("kind", jstr "namespace"), ("paths", jarr (ds.map jparts))]

def jTarget : Target → Json
  | .module f => jFound f
  | .attr m n => jobj [("kind", jstr "attr"), ("of", jFound m), ("name", jstr n)]

def jImporter (i : Importer) : Json :=
  jobj [("import_path", jarr (i.importPath.map jstr)),
        ("fixed_sys_path", match i.fixedSysPath with
          | none => .null
          | some (d, isStr) => jobj [("dir", jparts d), ("is_str", jbool isStr)]),
        ("infer_possible", jbool i.inferPossible)]

def optParts (j : Json) (k : String) : Option Parts :=
  match j.getObjVal? k with
  | .ok (.arr a) => some (a.toList.map asStr)
  | _ => none

def handle (j : Json) : Json :=
  match str j "op" with
  | "find" => jopt jFound (pyFind (fsOf j) (str j "name") (partsList j "path"))
  | "import" =>
    let fs := fsOf j
    let sp := partsList j "sys_path"
    let names := strs j "names"
    jobj [("python", jopt jFound (pyImport fs sp names)),
          ("jedi", jarr ((importModuleByNames (pyFind fs) (fun _ => none) sp names).map jFound))]
  | "importer" =>
    let i := Importer.init (strs j "import_path") (nat j "level") (strs j "pkg") (optParts j "file")
      (partsOf (obj j "project"))
    jobj [("importer", jImporter i),
          ("resolve_name", if nat j "level" = 0 then .null else match resolveName (strs j "pkg") (nat j "level") (strs j "import_path") with
            | .ok r => jarr (r.map jstr)
            | .error .noParentPackage => jstr "no-parent-package"
            | .error .beyondTopLevel => jstr "beyond-top-level")]
  | "dotted" =>
    let (names, isPkg) := transformPathToDotted dottedSepFix pathSuffixes
      ((strs j "sys_path").map String.toList) (partsOf (obj j "module_path"))
    jobj [("names", jopt (fun ns => jarr (ns.map jchars)) names), ("is_package", jbool isPkg)]
  | "resolve" =>
    -- an import statement in a module: Importer.init, follow, (from-import: attribute first)
    let fs := fsOf j
    let sp := partsList j "sys_path"
    let defs : List (Parts × String) := (arr j "defines").map fun d =>
      match asArr d with
      | [f, n] => (partsOf f, asStr n)
      | _ => ([], "")
    let defines : Found → String → Bool := fun m n =>
      match m with
      | .pkg d => defs.contains (d ++ ["__init__.py"], n)
      | .mod f => defs.contains (f, n)
      | .ns _ => false
    let level := nat j "level"
    let file := optParts j "file"
    -- Script._get_module: the module's names come from transform_path_to_dotted, else ('__main__',)
    let naming : Option (List String × Bool) :=
      match j.getObjVal? "naming_sys_path", file with
      | .ok (.arr a), some f =>
        let (names, isPkg) := transformPathToDotted dottedSepFix pathSuffixes
          (a.toList.map fun x => (asStr x).toList) f
        names.map fun ns => (ns.map String.ofList, isPkg)
      | _, _ => none
    let pkg : List String :=
      match naming with
      | some (ns, isPkg) => if isPkg then ns else ns.dropLast
      | none => strs j "pkg"
    -- module_cache as seeded by Script._get_module
    let cache : List String → Option Found := fun names =>
      match naming, file with
      | some (ns, isPkg), some f =>
        if names = ns then some (if isPkg then Found.pkg f.dropLast else Found.mod f) else none
      | _, _ => none
    let project := partsOf (obj j "project")
    let follow := fun path => (Importer.init path level pkg file project).follow (pyFind fs) cache sp
    let res : List Target :=
      match j.getObjVal? "from_name" with
      | .ok (.str n) =>
        if fromImportAttributeFirst then inferFromImport follow defines (strs j "import_path") n
        else (follow (strs j "import_path" ++ [n])).map Target.module
      | _ => (follow (strs j "import_path")).map Target.module
    jarr (res.map jTarget)
  | "starchain" =>
    -- ModuleMixin.star_imports of the module `start` in a world of modules given by their dotted names
    let tbl : List (JediModel.StarChain.Name × JediModel.StarChain.Mod) := (arr j "modules").map fun m =>
      (strs m "name", { pkg := strs m "pkg", defs := strs m "defs",
                        stars := (arr m "stars").map fun s => { level := nat s "level", path := strs s "path" } })
    let w := JediModel.StarChain.worldOf tbl
    jarr ((JediModel.StarChain.starImportsOf w starImportsOwnContext (nat j "fuel") (strs j "start")).map
      fun n => jarr (n.map jstr))
  | op => jobj [("error", jstr ("unknown op " ++ op))]

def main : IO Unit := Proto.run handle

import JediModel.Proto
import JediModel.Model.Call
import JediModel.Model.DocLit
import JediModel.Model.SigCache
import JediModel.Gen.C11
open Lean Proto JediModel.Call

def optChars (j : Json) (k : String) : Option Str :=
  match j.getObjVal? k with
  | .ok (.str s) => some s.toList
  | _ => none

def parseP (j : Json) : P := { name := chars j "name", ann := optChars j "ann", dflt := optChars j "dflt" }

def optP (j : Json) (k : String) : Option P :=
  match j.getObjVal? k with
  | .ok .null => none
  | .ok v => some (parseP v)
  | _ => none

def parseSig (j : Json) : Sig :=
  { po := (arr j "po").map parseP, pk := (arr j "pk").map parseP, vp := optP j "vp",
    ko := (arr j "ko").map parseP, vk := optP j "vk" }

def parseExpr (j : Json) (k : String) : Expr :=
  match optChars j k with
  | some s => .name s
  | none => .other

def parseArg (j : Json) : Arg :=
  match str j "t" with
  | "kw" => .kw (chars j "n")
  | "star" => .star (nat j "k") (parseExpr j "name")
  | _ => .pos (parseExpr j "name")

def parseCur (j : Json) : Cur :=
  match str j "t" with
  | "name" => .name (chars j "s") (nat j "cut")
  | "expr" => .expr
  | "kwArg" => .kwArg (chars j "s") (nat j "cut") (bool j "eqBefore")
  | "kwOpen" => .kwOpen (chars j "s")
  | "starOpen" => .starOpen (nat j "k")
  | "starArg" => .starArg (nat j "k") (parseExpr j "name") (nat j "cut")
  | _ => .empty

def parseNode0 (j : Json) : Node0 :=
  match str j "t" with
  | "argKw" => .argKw (optChars j "first") (nat j "cut") (bool j "eqBefore")
  | "argStar" => .argStar (nat j "k") (optChars j "second") (nat j "cut")
  | "argOther" => .argOther (optChars j "firstLeaf") (nat j "cut") (bool j "atOrAfter")
  | "comma" => .comma
  | "starLeaf" => .starLeaf (nat j "k")
  | "eqLeaf" => .eqLeaf
  | "nameLeaf" => .nameLeaf (chars j "v") (nat j "cut")
  | _ => .other

def parseNode (j : Json) : Node :=
  match str j "t" with
  | "arglist" => .arglist ((arr j "children").map parseNode0)
  | _ => .plain (parseNode0 j)

def joptChars : Option Str → Json := jopt jchars

def encNode0 : Node0 → Json
  | .argKw f c e => jobj [("t", jstr "argKw"), ("first", joptChars f), ("cut", jnat c), ("eqBefore", jbool e)]
  | .argStar k s c => jobj [("t", jstr "argStar"), ("k", jnat k), ("second", joptChars s), ("cut", jnat c)]
  | .argOther f c a => jobj [("t", jstr "argOther"), ("firstLeaf", joptChars f), ("cut", jnat c), ("atOrAfter", jbool a)]
  | .comma => jobj [("t", jstr "comma")]
  | .starLeaf k => jobj [("t", jstr "starLeaf"), ("k", jnat k)]
  | .eqLeaf => jobj [("t", jstr "eqLeaf")]
  | .nameLeaf v c => jobj [("t", jstr "nameLeaf"), ("v", jchars v), ("cut", jnat c)]
  | .other => jobj [("t", jstr "other")]

def encTriple (t : Triple) : Json := jarr [jnat t.star, joptChars t.key, jbool t.eq]
def encTriples (ts : List Triple) : Json := jarr (ts.map encTriple)

def encTok : PTok → Json
  | .param n s a d => jobj [("t", jstr "param"), ("name", jchars n), ("stars", jnat s),
      ("ann", joptChars a), ("dflt", joptChars d)]
  | .star => jobj [("t", jstr "star")]
  | .slash => jobj [("t", jstr "slash")]

def parseTok (j : Json) : PTok :=
  match str j "t" with
  | "param" => .param (chars j "name") (nat j "stars") (optChars j "ann") (optChars j "dflt")
  | "star" => .star
  | _ => .slash

def encParam (n : PName) : Json :=
  jobj [("name", jchars (publicName n.name)), ("kind", jnat n.kind.toNat), ("str", jchars n.toStr)]

def parseCArg (j : Json) : CArg :=
  match str j "t" with
  | "kw" => .kw (chars j "n")
  | _ => .pos

/-- a history of `cache_signatures` calls against the global dictionary: per request the answer
(`fresh` numbers the Script that computed it), whether an entry was stored and under which text -/
def sigCacheHistory (cfg : JediModel.SigCache.Cfg) (reqs : List Json) : List Json :=
  let rec go (st : JediModel.SigCache.State Nat) : List Json → List Json
    | [] => []
    | j :: rest =>
      let pos := fun (k : String) => match nats j k with | [a, b] => (a, b) | _ => (0, 0)
      let rq : JediModel.SigCache.Req Nat :=
        { path := match j.getObjVal? "path" with | .ok (.str p) => some p | _ => none,
          lines := (strs j "lines").map String.toList, bracket := pos "bracket", cursor := pos "cursor",
          scriptAt := nat j "scriptAt", now := nat j "now", fresh := nat j "fresh" }
      let st := JediModel.SigCache.newScript st rq.scriptAt
      let (a, st') := JediModel.SigCache.call cfg st rq
      let key := (JediModel.SigCache.whole rq).bind fun w => JediModel.SigCache.keyOf cfg st.nextObj rq w
      let stored := match key with
        | some k => (match JediModel.SigCache.lookup k st.dct with
                     | some (e, _) => !(e > rq.now)
                     | none => true)
        | none => false
      let text : Option (List Char) :=
        if key.isSome then (JediModel.SigCache.whole rq).bind JediModel.SigCache.upToLastParen else none
      jobj [("answer", jopt jnat a), ("stored", jbool stored), ("keyed", jbool key.isSome),
            ("text", joptChars text), ("size", jnat st'.dct.length)] :: go st' rest
  go {} reqs

def handle (j : Json) : Json :=
  match str j "op" with
  | "case" =>
    -- a definition given as a valid parameter list, a call prefix, optionally the real nodes
    let s := parseSig (obj j "sig")
    let toks := s.toks
    let ps := signatureParams (bool j "bound") (paramNames toks)
    let prev := (arr j "prev").map parseArg
    let cur := parseCur (obj j "cur")
    let gtr := argTriples prev cur
    let rnodes := (arr j "nodes").map parseNode
    let rtr := iterArguments rnodes
    jobj [
      ("toks", jarr (toks.map encTok)),
      ("params", jarr (ps.map encParam)),
      ("to_string", jchars (sigToString (chars j "fname") ps (chars j "ret"))),
      ("gnodes", jarr ((nodesOf prev cur).map encNode0)),
      ("gtriples", encTriples gtr),
      ("gindex", jopt jnat (calculateIndex ps gtr)),
      ("rtriples", jopt encTriples rtr),
      ("rindex", match rtr with | some t => jopt jnat (calculateIndex ps t) | none => jstr "IndexError"),
      ("count_pos", jnat (countPositional gtr)),
      ("used_kw", jarr ((usedKeywords gtr).map jchars))]
  | "kinds" =>
    -- raw child list (possibly not a valid parameter list)
    let toks := (arr j "toks").map parseTok
    let ps := signatureParams (bool j "bound") (paramNames toks)
    jobj [("params", jarr (ps.map encParam)),
          ("to_string", jchars (sigToString (chars j "fname") ps (chars j "ret")))]
  | "pybind" =>
    let s := parseSig (obj j "sig")
    jopt jnat (pyBind s ((arr j "prev").map parseCArg) (parseCArg (obj j "cur")))
  | "fwd" =>
    -- a wrapper whose `**kwargs` is forwarded to the given callees (one level)
    let outer := parseSig (obj j "outer")
    let callees := (arr j "callees").map fun c =>
      calleeParams (bool c "bound") (nat c "count") ((strs c "keys").map String.toList)
        (paramNames (parseSig (obj c "sig")).toks)
    let ps0 := processParamsKw (paramNames outer.toks) callees
    let ps := if bool j "bound" then removeBoundParam ps0 else ps0
    jobj [("params", jarr (ps.map encParam)),
          ("to_string", jchars (sigToString (chars j "fname") ps (chars j "ret")))]
  | "pyaccepts" =>
    let s := parseSig (obj j "sig")
    let kws := (strs j "kws").map String.toList
    jobj [("accepts", jbool (pyAccepts s (nat j "npos") kws)),
          ("wrapper_runs", jbool (pyRunsKwWrapper s (nat j "npos") kws)),
          ("forwarded_accepts", jbool (pyAccepts (kwForwarded s) (nat j "npos") kws))]
  | "pybound" =>
    -- the Python side of bound_eq_pyBound: parameters of `inspect.signature` of the bound method
    let s := parseSig (obj j "sig")
    jopt (fun (s' : Sig) => jarr (s'.params.map fun n => jarr [jchars n.name, jnat n.kind.toNat])) (pyBound s)
  | "doc" =>
    jchars (docAssemble (joinLines ((strs j "sigs").map String.toList)) (chars j "doc"))
  | "doclit" =>
    -- `_clean_docstring_literal(value)` given the type `ast.literal_eval(value)` yields
    let ev := match str j "ev" with
      | "str" => JediModel.DocLit.Evald.str
      | "bytes" => JediModel.DocLit.Evald.bytes
      | _ => JediModel.DocLit.Evald.notLiteral
    match JediModel.DocLit.jediCleanDocstringLiteral (chars j "value") ev with
    | .cleandoc => jstr "cleandoc"
    | .emptyDoc => jstr "empty"
    | .raises => jstr "raises"
  | "pyprefix" =>
    -- Python side: is this prefix legal, is a literal with it a docstring, what does literal_eval yield
    let p := chars j "prefix"
    jobj [("legal", jbool (JediModel.DocLit.legalPrefixes.contains p)),
          ("docstring", jbool (JediModel.DocLit.pyIsDocstring p)),
          ("evald", jstr (match JediModel.DocLit.pyEvald p with
                          | .str => "str" | .bytes => "bytes" | .notLiteral => "notLiteral"))]
  | "sigcache" =>
    -- configuration of the source (Gen) unless the request names one
    let textKey := match j.getObjVal? "textKey" with
      | .ok (.bool b) => b
      | _ => JediModel.Gen.C11.sigKeyMid == "matched-text"
    jarr (sigCacheHistory { textKey := textKey, validity := JediModel.Gen.C11.sigValidityMs } (arr j "reqs"))
  | op => jobj [("error", jstr ("unknown op " ++ op))]

def main : IO Unit := Proto.run handle

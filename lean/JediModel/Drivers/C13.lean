import JediModel.Proto
import JediModel.Model.ObjModel
import JediModel.Model.ObjCfg
open Lean Proto JediModel.ObjModel

def parseTag (s : String) : Tag :=
  match s.splitOn ":" with
  | ["plain"] => .plain
  | ["getNonData"] => .getNonData
  | ["getData"] => .getData
  | ["setOnly"] => .setOnly
  | ["prop"] => .prop false
  | ["propAnn"] => .prop true
  | ["slot"] => .slotMember
  | ["b", ty, d] => .builtinDescr ty (d == "1")
  | _ => .plain

def parseEntry (j : Json) : Entry := { name := str j "n", tag := parseTag (str j "t"), id := nat j "id" }

def parseDict (j : Json) : List Entry := (asArr j).map parseEntry

def parseTarget (j : Json) : Target :=
  { isType := bool j "isType",
    inst := match j.getObjVal? "inst" with
      | .ok (.arr a) => some (a.toList.map parseEntry)
      | _ => none,
    mro := (arr j "mro").map parseDict,
    metaMro := (arr j "meta").map parseDict }

def parseTy (j : Json) : Ty :=
  match j.getObjVal? "user" with
  | .ok (.num _) =>
    .user { id := nat j "user", getitem := bool j "getitem", iter := bool j "iter", next := bool j "next",
            bool := bool j "bool", len := bool j "len" }
  | _ => .builtin (str j "builtin")

def evStr : Ev → String
  | .getitem => "__getitem__" | .iter => "__iter__" | .next => "__next__"
  | .bool => "__bool__" | .len => "__len__" | .get id => "__get__:" ++ toString id

def outcomeStr : GetOutcome → String
  | .annotated => "annotated" | .absent => "absent" | .emptyName => "emptyName"
  | .realName d => if d then "realName:descriptor" else "realName"

def iterStr : IterOutcome → String
  | .noIter => "noIter" | .annotation => "annotation" | .refused => "refused" | .items => "items"

def jGet (r : GetResult) : Json :=
  jobj [("found", jopt (fun (e : Entry) => jnat e.id) r.found), ("viaGet", jbool r.viaGet),
        ("trace", jarr (r.trace.map jnat))]

def parseGet (j : Json) : GetResult :=
  { found := match j.getObjVal? "found" with
      | .ok (.num _) => some { name := "__iter__", tag := .plain, id := nat j "found" }
      | _ => none,
    viaGet := bool j "viaGet", trace := nats j "trace" }

def cfg : Cfg := JediModel.Props.C13.genCfg

/-- result of the `self._obj.__iter__` fetch: computed by the model from the target description -/
def iterAttrOf (j : Json) : GetResult :=
  match j.getObjVal? "target" with
  | .ok t => pyGetattr (parseTarget t) "__iter__"
  | _ => parseGet (obj j "iterAttr")

def handle (j : Json) : Json :=
  match str j "op" with
  | "static" =>
    match getattrStatic cfg (parseTarget (obj j "target")) (str j "name") with
    | none => .null
    | some (e, g) => jobj [("id", jnat e.id), ("isGet", jbool g)]
  | "getattr" => jGet (pyGetattr (parseTarget (obj j "target")) (str j "name"))
  | "allowed" =>
    let (a, b, c) := isAllowedGetattr cfg (parseTarget (obj j "target")) (str j "name") (bool j "safe")
      (bool j "dynHas")
    jarr [jbool a, jbool b, jbool c]
  | "get" =>
    jstr (outcomeStr (filterGet cfg (bool j "has") (bool j "isDescr") (bool j "annPresent")
      (bool j "annValues") (bool j "checkHas") (bool j "unsafe") (bool j "isInstance") (bool j "inDir")))
  | "filter" =>
    let (o, tr) := filterGetInfer cfg (parseTarget (obj j "target")) (str j "name") (bool j "unsafe")
      (bool j "isInstance") (bool j "inDir") (bool j "dynHas") (bool j "annValues")
    jobj [("outcome", jstr (outcomeStr o)), ("trace", jarr (tr.map jnat))]
  | "values" =>
    let infos := (arr j "infos").map fun i =>
      ({ name := str i "n", has := bool i "has", isDescr := bool i "isDescr",
         annPresent := bool i "annPresent", annValues := bool i "annValues" } : DirInfo)
    jarr ((filterValues cfg infos (bool j "unsafe") (bool j "isInstance")).map jstr)
  | "getitem" =>
    let (r, ev) := pySimpleGetitem cfg (parseTy (obj j "ty")) (bool j "safe")
    jobj [("reached", jbool r), ("events", jarr (ev.map (jstr ∘ evStr)))]
  | "mixedgetitem" =>
    let (r, ev) := mixedSimpleGetitem cfg (parseTy (obj j "ty")) (bool j "unsafe")
    jobj [("reached", jbool r), ("events", jarr (ev.map (jstr ∘ evStr)))]
  | "iterlist" =>
    let (o, ev) := pyIterList cfg (parseTy (obj j "ty")) (iterAttrOf j) (bool j "annotated")
    jobj [("outcome", jstr (iterStr o)), ("events", jarr (ev.map (jstr ∘ evStr)))]
  | "hasiter" => jarr ((hasIter cfg (parseTy (obj j "ty")) (iterAttrOf j)).map (jstr ∘ evStr))
  | "pyiter" =>
    jarr ((compiledPyIter cfg (parseTy (obj j "ty")) (iterAttrOf j) (bool j "annotated")).map
      (jstr ∘ evStr))
  | "bool" => jarr ((pyBool cfg (parseTy (obj j "ty"))).map (jstr ∘ evStr))
  | "flags" => jobj [("metaHitReportsGet", jbool cfg.metaHitReportsGet),
                     ("hasIterExecutes", jbool cfg.hasIterExecutes), ("boolExecutes", jbool cfg.boolExecutes)]
  | op => jobj [("error", jstr ("unknown op " ++ op))]

def main : IO Unit := Proto.run handle

import JediModel.Proto
import JediModel.Model.ObjModel
import JediModel.Model.ObjCfg
open Lean Proto JediModel.ObjModel

def parseTag (s : String) : Tag :=
  match s.splitOn ":" with
  | ["plain"] => .plain
  | ["getNonData"] => .getNonData
  | ["getData"] => .getData
  | ["setOnly"] => .setOnly
  | ["prop"] => .prop false
  | ["propAnn"] => .prop true
  | ["slot"] => .slotMember
  | ["b", ty, d] => .builtinDescr ty (d == "1")
  | _ => .plain

def parseEntry (j : Json) : Entry := { name := str j "n", tag := parseTag (str j "t"), id := nat j "id" }

def parseDict (j : Json) : List Entry := (asArr j).map parseEntry

def parseTarget (j : Json) : Target :=
  { isType := bool j "isType",
    inst := match j.getObjVal? "inst" with
      | .ok (.arr a) => some (a.toList.map parseEntry)
      | _ => none,
    mro := (arr j "mro").map parseDict,
    metaMro := (arr j "meta").map parseDict }

def parseSlot (s : String) : Slot :=
  match s.splitOn ":" with
  | ["absent"] => .absent
  | ["user"] => .user
  | ["none"] => .noneVal
  | ["b", ty] => .builtin ty
  | _ => .other

def parseTy (j : Json) : Ty :=
  match j.getObjVal? "user" with
  | .ok (.num _) =>
    .user { id := nat j "user", getitem := parseSlot (str j "getitem"), iter := parseSlot (str j "iter"),
            next := parseSlot (str j "next"), bool := parseSlot (str j "bool"), len := parseSlot (str j "len") }
  | _ => .builtin (str j "builtin")

def parseClassSlots (j : Json) : ClassSlots := (asArr j).map fun e => (str e "n", parseSlot (str e "s"))

def parseMroSlots (j : Json) : List ClassSlots := (arr j "mro").map parseClassSlots

def evStr : Ev → String
  | .getitem => "__getitem__" | .iter => "__iter__" | .next => "__next__"
  | .bool => "__bool__" | .len => "__len__" | .get id => "__get__:" ++ toString id

def outcomeStr : GetOutcome → String
  | .annotated => "annotated" | .absent => "absent" | .emptyName => "emptyName"
  | .realName d => if d then "realName:descriptor" else "realName"

def iterStr : IterOutcome → String
  | .noIter => "noIter" | .annotation => "annotation" | .refused => "refused" | .items => "items"

def jGet (r : GetResult) : Json :=
  jobj [("found", jopt (fun (e : Entry) => jnat e.id) r.found), ("viaGet", jbool r.viaGet),
        ("trace", jarr (r.trace.map jnat))]

def cfg : Cfg := JediModel.Props.C13.genCfg

def handle (j : Json) : Json :=
  match str j "op" with
  | "static" =>
    match getattrStatic (parseTarget (obj j "target")) (str j "name") with
    | none => .null
    | some (e, g) => jobj [("id", jnat e.id), ("isGet", jbool g)]
  | "getattr" => jGet (pyGetattr (parseTarget (obj j "target")) (str j "name"))
  | "allowed" =>
    let (a, b, c) := isAllowedGetattr cfg (parseTarget (obj j "target")) (str j "name") (bool j "safe")
      (bool j "dynHas")
    jarr [jbool a, jbool b, jbool c]
  | "get" =>
    jstr (outcomeStr (filterGet cfg (bool j "has") (bool j "isDescr") (bool j "annPresent")
      (bool j "annValues") (bool j "checkHas") (bool j "unsafe") (bool j "isInstance") (bool j "inDir")))
  | "filter" =>
    let (o, tr) := filterGetInfer cfg (parseTarget (obj j "target")) (str j "name") (bool j "unsafe")
      (bool j "isInstance") (bool j "inDir") (bool j "dynHas") (bool j "annValues")
    jobj [("outcome", jstr (outcomeStr o)), ("trace", jarr (tr.map jnat))]
  | "values" =>
    let infos := (arr j "infos").map fun i =>
      ({ name := str i "n", has := bool i "has", isDescr := bool i "isDescr",
         annPresent := bool i "annPresent", annValues := bool i "annValues" } : DirInfo)
    jarr ((filterValues cfg infos (bool j "unsafe") (bool j "isInstance")).map jstr)
  | "getitem" =>
    let (r, ev) := pySimpleGetitem cfg (parseTy (obj j "ty")) (bool j "safe")
    jobj [("reached", jbool r), ("events", jarr (ev.map (jstr ∘ evStr)))]
  | "mixedgetitem" =>
    let (r, ev) := mixedSimpleGetitem cfg (parseTy (obj j "ty")) (bool j "unsafe")
    jobj [("reached", jbool r), ("events", jarr (ev.map (jstr ∘ evStr)))]
  | "iterlist" =>
    let (o, ev) := pyIterList cfg (parseTy (obj j "ty")) (parseSlot (str j "iter")) (bool j "annotated")
    jobj [("outcome", jstr (iterStr o)), ("events", jarr (ev.map (jstr ∘ evStr)))]
  | "hasiter" =>
    jobj [("result", jbool (hasIter (parseSlot (str j "iter")) (parseSlot (str j "getitem")))),
          ("events", jarr [])]
  | "pyiter" =>
    jarr ((compiledPyIter cfg (parseTy (obj j "ty")) (parseSlot (str j "iter")) (bool j "annotated")).map
      (jstr ∘ evStr))
  | "bool" =>
    let (r, ev) := pyBool cfg (parseTy (obj j "ty")) (bool j "safe")
    jobj [("reached", jbool r), ("events", jarr (ev.map (jstr ∘ evStr)))]
  | "builtinbool" => jbool (hasBuiltinBool cfg (parseTy (obj j "ty")))
  | "builtinboolmro" => jbool (hasBuiltinBoolMro cfg (parseMroSlots j))
  | "boolmro" =>
    let (r, ev) := pyBoolMro cfg (parseMroSlots j) (bool j "safe")
    jobj [("reached", jbool r), ("events", jarr (ev.map (jstr ∘ evStr)))]
  | "config" => jobj [("boolLookupOrder", jarr (cfg.boolLookupOrder.map jstr)),
                      ("builtinMethodTypes", jarr (cfg.builtinMethodTypes.map jstr)),
                      ("boolWalkMroOuter", jbool cfg.boolWalkMroOuter)]
  | op => jobj [("error", jstr ("unknown op " ++ op))]

def main : IO Unit := Proto.run handle

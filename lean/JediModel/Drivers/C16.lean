import JediModel.Proto
import JediModel.Model.Determinism
import JediModel.Gen.C16
open Lean Proto JediModel.Recursion JediModel.Determinism

def codes (s : String) : List Nat := s.toList.map Char.toNat

instance : Inhabited Act := ⟨.skip⟩

def parseName (j : Json) : JediModel.Determinism.Name :=
  let pos : Option (Nat × Nat) := match j.getObjVal? "pos" with
    | .ok (.arr a) => match a.toList with
      | [l, c] => some (asNat l, asNat c)
      | _ => none
    | _ => none
  let path : Option (List Nat) := match j.getObjVal? "path" with
    | .ok (.str s) => some (codes s)
    | _ => none
  { startPos := pos, path := path, name := codes (str j "name"), apiType := codes (str j "api_type"),
    kind := nat j "kind" }

partial def parseAct (j : Json) : Act :=
  match j with
  | .str "skip" => .skip
  | .str "raise" => .raise
  | .str "execute" => .execute
  | .str "memoise" => .memoise
  | .arr a =>
    match a.toList with
    | [.str "seq", x, y] => .seq (parseAct x) (parseAct y)
    | [.str "capped", n] => .capped (asNat n)
    | [.str "flowOff", b] => .flowOff (parseAct b)
    | [.str "analysis", b] => .analysis (parseAct b)
    | [.str "predefine", b] => .predefine (parseAct b)
    | [.str "dynParam", n, b] => .dynParam (asNat n) (parseAct b)
    | [.str "searchArgs", n] => .searchArgs (asNat n)
    | _ => .skip
  | _ => .skip

def handle (j : Json) : Json :=
  match str j "op" with
  | "sort" =>
    let names := (arr j "names").map parseName
    let out := inferResult JediModel.Gen.C16.sortKeyComponents JediModel.Gen.C16.eqFields names
    jarr (out.map fun n => jnat n.kind)
  | "session" =>
    let qs := (arr j "queries").map parseAct
    -- the bracket of `_avoid_recursions` and MAX_PARAM_SEARCHES as they stand in the source
    let c : Cfg := { cap := nat j "cap", factor := nat j "factor",
                     maxSearches := JediModel.Gen.C16.maxParamSearches, bracket := JediModel.Gen.C16.dynBracket }
    let r := session JediModel.Gen.C16.resetAssigns c QState.init qs
    jobj [("flow", jbool r.1.flowAnalysisEnabled), ("analysis", jbool r.1.isAnalysis),
          ("predefined", jnat r.1.predefined), ("dyn", jint r.1.dynamicParamsDepth),
          ("pushed", jnat r.1.pushed.length),
          ("queries", jarr (r.2.map fun q => jarr [jbool q.1, jarr (q.2.map jbool)]))]
  | "memo" =>
    -- a memoised function producing 0 … n-1, read by successive consumers that take `reads[i]` elements
    let xs := List.range (nat j "n")
    let st : Stored Nat := match str j "kind" with
      | "plain" => .oneShot xs
      | "generator_cache" => .replaying [] xs
      | _ => .materialised xs
    jarr ((st.reads (nats j "reads")).map fun l => jarr (l.map jnat))
  | "stack" =>
    jbool (entryReplayable ("", strs j "decorators", bool j "one_shot"))
  | "dictkeys" =>
    -- `_completions_for_dicts` with the sorts where they stand in the source
    let cfg : DictCfg := { globalSort := JediModel.Gen.C16.dictKeysGlobalSort,
                           perDictSort := JediModel.Gen.C16.dictKeysPerDictSort }
    let dicts : List DictVal := (arr j "dicts").map fun d =>
      { isDict := bool d "dict",
        keys := (arr d "keys").map fun k => match k with
          | .str s => some (codes s)
          | _ => none }
    let out := completionsForDicts cfg (codes (str j "literal")) (codes (str j "cut")) dicts
    jarr (out.map fun s => jstr (String.ofList (s.map Char.ofNat)))
  | op => jobj [("error", jstr ("unknown op " ++ op))]

def main : IO Unit := Proto.run handle

import JediModel.Proto
import JediModel.Model.Completion
import JediModel.Gen.C04
open Lean Proto JediModel.Match JediModel.Completion

def lookupLower (tbl : List (List Char × List Char)) (s : List Char) : List Char :=
  match tbl.find? (·.1 == s) with
  | some p => p.2
  | none => s

def parseCand (j : Json) : Cand :=
  { str := chars j "str", pub := chars j "pub", isFunc := bool j "func", isDel := bool j "del" }

def handle (j : Json) : Json :=
  match str j "op" with
  | "match" => jbool (pmatch (chars j "s") (chars j "like") (bool j "fuzzy"))
  | "complete" =>
    let tbl := (arr j "lower").map fun p =>
      match asArr p with
      | [a, b] => ((asStr a).toList, (asStr b).toList)
      | _ => ([], [])
    let st : Settings := { caseInsens := bool j "ci", addBracket := bool j "bracket" }
    let lower := lookupLower tbl
    let cands := (arr j "cands").map parseCand
    let imported := (strs j "imported").map String.toList
    let out := completePython JediModel.Gen.C04.sortKeyComponents st lower cands (chars j "like")
      (bool j "fuzzy") imported
    jarr (out.map fun c => jobj [
      ("name", jchars c.name),
      ("complete", jopt jchars (c.complete st)),
      ("nws", jchars (c.nameWithSymbols st)),
      ("plen", jnat c.prefixLength)])
  | op => jobj [("error", jstr ("unknown op " ++ op))]

def main : IO Unit := Proto.run handle

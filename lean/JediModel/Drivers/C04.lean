import JediModel.Proto
import JediModel.Model.Completion
import JediModel.Gen.C04
open Lean Proto JediModel.Match JediModel.Completion

def lookupLower (tbl : List (List Char × List Char)) (s : List Char) : List Char :=
  match tbl.find? (·.1 == s) with
  | some p => p.2
  | none => s

/-- the folding statements of `filter_names` as read from the source -/
def srcShape : FoldShape :=
  ⟨JediModel.Gen.C04.foldLikeMethod, JediModel.Gen.C04.foldNameMethod, JediModel.Gen.C04.lengthBeforeFold⟩

def parseCand (j : Json) : Cand :=
  { str := chars j "str", pub := chars j "pub", isFunc := bool j "func", isDel := bool j "del" }

def handle (j : Json) : Json :=
  match str j "op" with
  | "match" => jbool (pmatch (chars j "s") (chars j "like") (bool j "fuzzy"))
  | "complete" =>
    let tbl := (arr j "lower").map fun p =>
      match asArr p with
      | [a, b] => ((asStr a).toList, (asStr b).toList)
      | _ => ([], [])
    let st : Settings := { caseInsens := bool j "ci", addBracket := bool j "bracket" }
    let lower := lookupLower tbl
    let cands := (arr j "cands").map parseCand
    let imported := (strs j "imported").map String.toList
    let out := completePython JediModel.Gen.C04.sortKeyComponents st lower cands (chars j "like")
      (bool j "fuzzy") imported
    jarr (out.map fun c => jobj [
      ("name", jchars c.name),
      ("complete", jopt jchars (c.complete st)),
      ("nws", jchars (c.nameWithSymbols st)),
      ("plen", jnat c.prefixLength)])
  | "complete_src" =>
    -- `filter_names` + sort with the folding statements as the translator found them
    let tbl (k : String) : List (List Char × List Char) := (arr j k).map fun p =>
      match asArr p with
      | [a, b] => ((asStr a).toList, (asStr b).toList)
      | _ => ([], [])
    let F : Folds := ⟨lookupLower (tbl "lower"), lookupLower (tbl "casefold"), lookupLower (tbl "upper")⟩
    let st : Settings := { caseInsens := bool j "ci", addBracket := bool j "bracket" }
    let out := completePythonSrc JediModel.Gen.C04.sortKeyComponents srcShape st F
      ((arr j "cands").map parseCand) (chars j "like") (bool j "fuzzy")
      ((strs j "imported").map String.toList)
    jarr (out.map fun c => jobj [
      ("name", jchars c.name),
      ("complete", jopt jchars (c.complete st)),
      ("nws", jchars (c.nameWithSymbols st)),
      ("plen", jnat c.prefixLength)])
  | "expand" =>
    -- a case mapping applied code point by code point (table: code point -> string)
    let tbl := (arr j "table").map fun p =>
      match asArr p with
      | [a, b] => ((asStr a).toList, (asStr b).toList)
      | _ => ([], [])
    let f : Char → List Char := fun ch => lookupLower tbl [ch]
    let s := chars j "s"
    jobj [("out", jchars (expand f s)), ("unit", jbool (unitOn f s))]
  | op => jobj [("error", jstr ("unknown op " ++ op))]

def main : IO Unit := Proto.run handle

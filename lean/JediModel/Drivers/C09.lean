import JediModel.Proto
import JediModel.Model.DiskCache
import JediModel.Model.NsPath
import JediModel.Gen.C09
open Lean Proto JediModel.DiskCache

/-! Driver for C09.  One request = one history over one scratch project:
`{"op":"history","steps":[{"t":"write","p":"a/m.py","b":3,"m":100},{"t":"delete","p":..},
  {"t":"rename","s":..,"d":..},{"t":"load","p":..},{"t":"newProcess"},{"t":"tick","dt":n},
  {"t":"stub","dir":"pkg","direct":["pkg/spk/__init__.pyi"],"useListing":true,
   "pkgStub":"pkg/spk/__init__.pyi","modStub":"pkg/spk.pyi","pyAbsent":false}]}`
(`stub` = one `_try_to_load_stub` of a sub-module: answers which stub file is served, from which layer,
and which version).
Bytes are numbers (equal number ⇔ equal content), `parse = id`: the value a load returns names the
version of the file the served tree was parsed from; `layer` says which branch served it. -/

abbrev St := State Nat Nat
def P : Nat → Nat := id
def cfg := JediModel.Gen.C09.cfg

def layerOf (st : St) (p : Path) : String :=
  match st.fs p with
  | none => "nofile"
  | some f =>
    match cachedLoad cfg st p (reported cfg f.mtime) with
    | some _ => if (st.mem p).isSome then "memory" else "pickle"
    | none =>
      match (if cfg.diff then st.mem p else none) with
      | some it => if it.lines = f.bytes then "same-lines" else "diff-parse"
      | none => "parse"

def stepJson (st : St) (j : Json) : St × Json :=
  match str j "t" with
  | "write" => (step cfg P (fun _ _ => none) st (.write (str j "p") (nat j "b") (nat j "m")), jobj [])
  | "delete" => (step cfg P (fun _ _ => none) st (.delete (str j "p")), jobj [])
  | "rename" => (step cfg P (fun _ _ => none) st (.rename (str j "s") (str j "d")), jobj [])
  | "newProcess" => (step cfg P (fun _ _ => none) st .newProcess, jobj [])
  | "tick" => (step cfg P (fun _ _ => none) st (.tick (nat j "dt")), jobj [])
  | "load" =>
    let p := str j "p"
    let layer := layerOf st p
    let (v, st') := load cfg P st p
    (st', jobj [("val", jopt jnat v), ("layer", jstr layer),
                ("pickle", jbool (st'.pickles p).isSome),
                ("ctime", jopt jnat ((st'.mem p).map (·.changeTime)))])
  | "stub" =>
    let q : StubQuery := { dir := str j "dir", direct := strs j "direct", useListing := bool j "useListing",
                           pkgStub := str j "pkgStub", modStub := str j "modStub", pyAbsent := bool j "pyAbsent" }
    let (r, st') := tryLoadStub cfg P st q
    (st', jobj [("path", jopt jstr (r.map (·.1))), ("val", jopt jnat (r.map (·.2))),
                ("layer", jopt jstr (r.map fun x => layerOf st x.1)),
                ("memo", jbool (st.listings q.dir).isSome),
                ("fresh", jopt jstr ((stubNow P st.fs q).map (·.1)))])
  | t => (st, jobj [("error", jstr ("unknown step " ++ t))])

/-! `{"op":"nshistory","filter":true|false (absent: as read from the source),"steps":[{"t":"mkdir","d":..},
{"t":"rmdir","d":..},{"t":"addMod","d":..,"m":..},{"t":"delMod","d":..,"m":..},{"t":"newProcess"},
{"t":"query","entries":[[s, s/name],..],"m":..}]}`: Model/NsPath; a query answers the candidate directories
(`py__path__`), where the long-lived process finds the module, where a fresh process does, and the negative
entries of the finder cache afterwards. -/
def nsStep (c : JediModel.NsPath.Cfg) (st : JediModel.NsPath.State) (j : Json) : JediModel.NsPath.State × Json :=
  open JediModel.NsPath in
  match str j "t" with
  | "mkdir" => (step c st (.mkdir (str j "d")), jobj [])
  | "rmdir" => (step c st (.rmdir (str j "d")), jobj [])
  | "addMod" => (step c st (.addMod (str j "d") (str j "m")), jobj [])
  | "delMod" => (step c st (.delMod (str j "d") (str j "m")), jobj [])
  | "newProcess" => (step c st .newProcess, jobj [])
  | "query" =>
    let es : List (String × String) := (arr j "entries").map fun e =>
      match asArr e with
      | [a, b] => (asStr a, asStr b)
      | _ => ("", "")
    let q : Query := { entries := es, m := str j "m" }
    let r := resolve c st.fs st.fd q
    ({ st with fd := r.2 },
     jobj [("cands", jarr (r.1.1.map jstr)), ("found", jopt jstr r.1.2),
           ("fresh", jopt jstr (fresh c st q)), ("neg", jarr (r.2.neg.map jstr))])
  | t => (st, jobj [("error", jstr ("unknown step " ++ t))])

def handle (j : Json) : Json :=
  match str j "op" with
  | "nshistory" =>
    let c : JediModel.NsPath.Cfg :=
      match j.getObjVal? "filter" with
      | .ok (Json.bool b) => { filterIsdir := b }
      | _ => JediModel.Gen.C09.nsCfg
    let (_, out) := (arr j "steps").foldl (fun (acc : JediModel.NsPath.State × List Json) s =>
      let (st', r) := nsStep c acc.1 s
      (st', r :: acc.2)) (({} : JediModel.NsPath.State), [])
    jarr out.reverse
  | "history" =>
    let (_, out) := (arr j "steps").foldl (fun (acc : St × List Json) s =>
      let (st', r) := stepJson acc.1 s
      (st', r :: acc.2)) ((init : St), [])
    jarr out.reverse
  | op => jobj [("error", jstr ("unknown op " ++ op))]

def main : IO Unit := Proto.run handle

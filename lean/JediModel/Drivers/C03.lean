import JediModel.Proto
import JediModel.Model.Scopes
import JediModel.Model.CompCtx
import JediModel.Props.C03
open Lean Proto JediModel.Scopes

def parseKind : Nat → Kind
  | 0 => .module | 1 => .function | 2 => .klass | 3 => .lambda | _ => .comp

def parseRole : Nat → Role
  | 0 => .bind | 1 => .use | 2 => .globalDecl | 3 => .nonlocalDecl | 4 => .param | 6 => .dfltUse | _ => .defName

def parseProg (j : Json) : Prog :=
  { scopes := (arr j "scopes").map fun s =>
      match asArr s with
      | k :: par :: _ => { kind := parseKind (asNat k), parent := asNat par }
      | _ => { kind := .module, parent := 0 },
    occs := (arr j "occs").map fun o =>
      match asArr o with
      | [n, r, s, st] => { name := asNat n, role := parseRole (asNat r), scope := asNat s, stmt := asNat st }
      | _ => { name := 0, role := .use, scope := 0, stmt := 0 } }

def handle (j : Json) : Json :=
  match str j "op" with
  | "analyse" =>
    let p := parseProg j
    let n := p.occs.length
    jobj [
      ("wf", jbool (WF p)),
      ("goto", jarr ((List.range n).map fun i => jarr ((goto p i).map jnat))),
      ("var", jarr ((List.range n).map fun i => jnat (varOf p i))),
      ("covered", jarr ((List.range n).map fun i => jbool (JediModel.Props.C03.CoveredUse p i)))]
  | "compctx" =>
    let pos := fun (k : String) => match arr j k with
      | [l, c] => (asNat l, asNat c)
      | _ => (0, 0)
    let c : JediModel.CompCtx.CompFor :=
      { iterStart := pos "iterStart", iterEnd := pos "iterEnd", lastStart := pos "lastStart" }
    jobj [("ctx", jarr ((arr j "nodes").map fun n =>
      match asArr n with
      | [l, cc] =>
        match JediModel.Props.C03.srcNodeContext c (asNat l, asNat cc) with
        | some .parent => jstr "parent"
        | some .comp => jstr "comp"
        | none => jstr "unknown"
      | _ => jstr "bad-node"))]
  | op => jobj [("error", jstr ("unknown op " ++ op))]

def main : IO Unit := Proto.run handle

import JediModel.Proto
import JediModel.Model.Caches
import JediModel.Gen.C08
open Lean Proto JediModel.Caches

/-! Driver for C08.  One request = one whole process history:
`{"op":"history","cfg":{…overrides…},"steps":[{"t":"script","key":null|"p","text":n,"ptime":null|n},
  (answer of a script step: the item under the key, whether it was replaced, whether parso was asked
  (`remembered = none`), the Script's node identity, the current text)
  {"t":"lookup","k":"d:name"}, {"t":"sig","pos":n,"matched":b,"k":".."}, {"t":"tick","dt":n}, {"t":"gc"}]}`
Texts are numbers (equal number ⇔ equal text); `parse = id`; a lookup returns the number of the
text it was computed on, so the answer names the version of the buffer it belongs to. -/

abbrev St := State Nat Nat String Nat
def P : Nat → Nat := id
def C : Nat → String → Nat := fun t _ => t

def optStr (j : Json) (k : String) : Option String :=
  match j.getObjVal? k with
  | .ok (.str s) => some s
  | _ => none

def optNat (j : Json) (k : String) : Option Nat := (optInt j k).map Int.toNat

def cfgOf (j : Json) : Cfg :=
  let base := JediModel.Gen.C08.cfg
  let b (k : String) (d : Bool) : Bool :=
    match j.getObjVal? k with
    | .ok (.bool x) => x
    | _ => d
  { keyOnTree := b "keyOnTree" base.keyOnTree, sigKeyFresh := b "sigKeyFresh" base.sigKeyFresh,
    sigCachesUnmatched := b "sigCachesUnmatched" base.sigCachesUnmatched,
    memoPerScript := b "memoPerScript" base.memoPerScript, scriptCache := b "scriptCache" base.scriptCache,
    diffCache := b "diffCache" base.diffCache,
    validity := (optNat j "validity").getD base.validity,
    treeMemo := (optNat j "treeMemo").getD base.treeMemo }

def itemJson (st : St) (key : Option String) : Json :=
  match st.parser.get? key with
  | none => .null
  | some it => jobj [("gen", jnat it.gen), ("obj", jnat it.obj), ("text", jnat it.lines),
                     ("ctime", jnat it.changeTime)]

def derivedJson (st : St) : Json :=
  jarr ((st.derived.keys).map fun gk => jarr [jnat gk.1, jstr gk.2])

def stepJson (cfg : Cfg) (st : St) (j : Json) : St × Json :=
  match str j "t" with
  | "script" =>
    let key := optStr j "key"
    let old := st.parser.get? key
    -- is parso asked at all by this construction (`false`: a remembered node object is used)
    let asked := (remembered cfg st key (nat j "text")).isNone
    let st' := script cfg P st key (nat j "text") (optNat j "ptime")
    let new := st'.parser.get? key
    let replaced := match old, new with
      | some a, some b => a.gen != b.gen
      | none, some _ => true
      | _, _ => false
    (st', jobj [("item", itemJson st' key), ("new_item", jbool replaced), ("asked", jbool asked),
                ("obj", jopt jnat (st'.cur.map (·.obj))), ("cur", jopt jnat (curLines st'))])
  | "lookup" =>
    -- observed below the per-Script memo: replay with an empty memo
    let st0 := { st with memo := [] }
    let node : Json := match st0.cur with
      | none => .null
      | some sc => match cacheNode cfg st0 sc with
        | none => jstr "direct"
        | some none => jstr "KeyError"
        | some (some g) => jnat g
    let hit : Bool := match st0.cur with
      | none => false
      | some sc => match cacheNode cfg st0 sc with
        | some (some g) => (st0.derived.get? (g, str j "k")).isSome
        | _ => false
    let (v, st') := lookup cfg C st0 (str j "k")
    (st', jobj [("node", node), ("hit", jbool hit), ("val", jopt jnat v)])
  | "sig" =>
    let (v, st') := sigq cfg C st (nat j "pos") (bool j "matched") (str j "k")
    let hit : Bool := match st.cur with
      | some sc =>
        let m : Option Nat := if bool j "matched" then some (if cfg.sigKeyFresh then st.nextMatch else 0) else none
        sc.key.isSome && (bool j "matched" || cfg.sigCachesUnmatched) &&
          (match st.sig.get? (sc.key, m, nat j "pos") with
           | some (e, _) => decide (e > st.clock)
           | none => false)
      | none => false
    (st', jobj [("val", jopt jnat v), ("entries", jnat st'.sig.length), ("hit", jbool hit)])
  | "tick" => ({ st with clock := st.clock + nat j "dt" }, jobj [])
  | "gc" =>
    let st' := gc cfg st
    (st', jobj [("derived", derivedJson st')])
  | t => (st, jobj [("error", jstr ("unknown step " ++ t))])

def handle (j : Json) : Json :=
  match str j "op" with
  | "history" =>
    let cfg := cfgOf (obj j "cfg")
    let (_, out) := (arr j "steps").foldl (fun (acc : St × List Json) s =>
      let (st', r) := stepJson cfg acc.1 s
      (st', r :: acc.2)) ((init : St), [])
    jarr out.reverse
  | "cfg" =>
    let c := JediModel.Gen.C08.cfg
    jobj [("keyOnTree", jbool c.keyOnTree), ("sigKeyFresh", jbool c.sigKeyFresh),
          ("sigCachesUnmatched", jbool c.sigCachesUnmatched), ("memoPerScript", jbool c.memoPerScript), ("scriptCache", jbool c.scriptCache),
          ("diffCache", jbool c.diffCache), ("validity", jnat c.validity), ("treeMemo", jnat c.treeMemo)]
  | op => jobj [("error", jstr ("unknown op " ++ op))]

def main : IO Unit := Proto.run handle

import JediModel.Proto
import JediModel.Model.Refs
import JediModel.Model.RefsGlobal
import JediModel.Lemmas.RefsSound
import JediModel.Model.KwBind
import JediModel.Gen.C05
open Lean Proto JediModel.Scopes JediModel.Refs

def parseKind : Nat → Kind
  | 0 => .module | 1 => .function | 2 => .klass | 3 => .lambda | _ => .comp

def parseRole : Nat → Role
  | 0 => .bind | 1 => .use | 2 => .globalDecl | 3 => .nonlocalDecl | 4 => .param | 6 => .dfltUse | _ => .defName

def parseProg (j : Json) : Prog :=
  { scopes := (arr j "scopes").map fun s =>
      match asArr s with
      | k :: par :: _ => { kind := parseKind (asNat k), parent := asNat par }
      | _ => { kind := .module, parent := 0 },
    occs := (arr j "occs").map fun o =>
      match asArr o with
      | [n, r, s, st] => { name := asNat n, role := parseRole (asNat r), scope := asNat s, stmt := asNat st }
      | _ => { name := 0, role := .use, scope := 0, stmt := 0 } }

def handle (j : Json) : Json :=
  match str j "op" with
  | "refs" =>
    let p := parseProg j
    let n := p.occs.length
    jobj [
      -- find_references with the global step as the translator read it from the source
      -- (Props.C05.refsG_is_refs: for the unchanged source this is `refs`)
      ("refs", jarr ((List.range n).map fun i =>
        jarr ((refsG JediModel.Gen.C05.globalStepSameScopeOnly p i).map jnat))),
      -- _find_global_variables(_find_names(start), x) alone
      ("globalvars", jarr ((List.range n).map fun i =>
        match p.occs[i]? with
        | some o => jarr ((globalVariablesOf JediModel.Gen.C05.globalStepSameScopeOnly p (foundCtxs p i) o.name).map jnat)
        | none => jarr [])),
      ("var", jarr ((List.range n).map fun i => jnat (varOf p i))),
      ("nameok", jarr ((List.range n).map fun i =>
        match p.occs[i]? with
        | some o => jbool (nameOkB p o.name)
        | none => jbool false))]
  | "kwgoto" =>
    -- which parameters (by index) the keyword `k` of a call is tied to, with the kind filter read
    -- from names.py, and which one Python binds
    let sig : List JediModel.KwBind.Param := (arr j "sig").map fun p =>
      match asArr p with
      | [n, k] => { name := asNat n, kind := asNat k }
      | _ => { name := 0, kind := 0 }
    let k := nat j "k"
    let idx (f : List JediModel.KwBind.Param → List JediModel.KwBind.Param) : List Nat :=
      (List.range sig.length).filter fun i =>
        match sig[i]? with
        | some p => !(f [p]).isEmpty
        | none => false
    jobj [
      ("goto", jarr ((idx fun l => JediModel.KwBind.gotoKeyword JediModel.Gen.C05.keywordGotoKinds l k).map jnat)),
      ("binds", jarr ((idx fun l => JediModel.KwBind.pyBinds l k).map jnat))]
  | op => jobj [("error", jstr ("unknown op " ++ op))]

def main : IO Unit := Proto.run handle

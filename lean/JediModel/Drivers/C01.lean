import JediModel.Proto
import JediModel.Lemmas.ValidateSpec
import JediModel.Model.ApiHelpers
import JediModel.Lemmas.IterArgsSpec
import JediModel.Lemmas.ErrStart
open Lean Proto JediModel.Text JediModel.Validate JediModel.ApiHelpers

/-- a parso node as dumped by `harness/props/c01.py:dump_node` -/
partial def parseNode (j : Json) : JediModel.IterArgs.Node :=
  let value : Option (List Char) := match j.getObjVal? "v" with
    | .ok (.str s) => some s.toList
    | _ => none
  let s := (arr j "s").map asNat
  .mk (chars j "t") value (bool j "k") (bool j "l") (s.getD 0 0, s.getD 1 0) ((arr j "c").map parseNode)

def tripleJson (t : JediModel.IterArgs.Triple) : Json :=
  jarr [jnat t.star, jopt jchars t.key, jbool t.eq]

def outJson : Outcome → Json
  | .ok l c => jobj [("out", jstr "ok"), ("line", jint l), ("col", jint c)]
  | .raised cls => jobj [("out", jstr "raised"), ("cls", jstr cls)]
  | .internal w => jobj [("out", jstr "internal"), ("cls", jstr w)]

def handle (j : Json) : Json :=
  match str j "op" with
  | "validate" =>
    outJson (validate JediModel.Validate.sourceSpec (splitLines (chars j "text")) (optInt j "line") (optInt j "col"))
  | "oncompletion" =>
    let word := (strs j "word").map String.toList |>.flatten
    let digit := (strs j "digit").map String.toList |>.flatten
    match onCompletionName (fun c => word.contains c) (fun c => digit.contains c) [chars j "line"] 1 (int j "col") with
    | .ok s => jchars s
    | .error e => jobj [("exc", jstr e)]
  | "getcode" =>
    match getCode (splitLines (chars j "text")) (int j "sl") (int j "sc") (int j "el") (int j "ec") with
    | .ok s => jchars s
    | .error e => jobj [("exc", jstr e)]
  | "cut" => jchars (cutValue (chars j "value") (int j "line") (int j "column") (int j "pl") (int j "pc"))
  | "iterargs" =>
    let nodes := (arr j "children").map parseNode
    match JediModel.IterArgs.iterArguments JediModel.IterArgs.sourceGuards (nat j "line", nat j "col")
        (JediModel.IterArgs.depthList nodes + 1) nodes with
    | .ok ts => jarr (ts.map tripleJson)
    | .error .attributeError => jobj [("exc", jstr "AttributeError")]
    | .error .indexError => jobj [("exc", jstr "IndexError")]
    | .error .fuel => jobj [("exc", jstr "fuel")]
  | "errstart" =>
    -- children: [[line, column, is `;`], ...]; ns / ne: start / end position of the name
    let children : List JediModel.ErrStart.Child := (arr j "children").map fun c =>
      match c with
      | .arr a => ⟨(asNat (a.getD 0 .null), asNat (a.getD 1 .null)), (a.getD 2 .null) == Json.bool true⟩
      | _ => ⟨(0, 0), false⟩
    let pos (k : String) : Nat × Nat := let p := (arr j k).map asNat; (p.getD 0 0, p.getD 1 0)
    match JediModel.ErrStart.firstNode JediModel.ErrStart.sourceSpec children (pos "ns") (pos "ne") with
    | .ok s => jobj [("first", jnat s)]
    | .error .indexError => jobj [("exc", jstr "IndexError")]
  | "lines" => jarr ((splitLines (chars j "text")).map jchars)
  | op => jobj [("error", jstr ("unknown op " ++ op))]

def main : IO Unit := Proto.run handle

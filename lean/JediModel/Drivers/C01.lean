import JediModel.Proto
import JediModel.Lemmas.ValidateSpec
import JediModel.Model.ApiHelpers
open Lean Proto JediModel.Text JediModel.Validate JediModel.ApiHelpers

def outJson : Outcome → Json
  | .ok l c => jobj [("out", jstr "ok"), ("line", jint l), ("col", jint c)]
  | .raised cls => jobj [("out", jstr "raised"), ("cls", jstr cls)]
  | .internal w => jobj [("out", jstr "internal"), ("cls", jstr w)]

def handle (j : Json) : Json :=
  match str j "op" with
  | "validate" =>
    outJson (validate JediModel.Validate.sourceSpec (splitLines (chars j "text")) (optInt j "line") (optInt j "col"))
  | "oncompletion" =>
    let word := (strs j "word").map String.toList |>.flatten
    let digit := (strs j "digit").map String.toList |>.flatten
    match onCompletionName (fun c => word.contains c) (fun c => digit.contains c) [chars j "line"] 1 (int j "col") with
    | .ok s => jchars s
    | .error e => jobj [("exc", jstr e)]
  | "getcode" =>
    match getCode (splitLines (chars j "text")) (int j "sl") (int j "sc") (int j "el") (int j "ec") with
    | .ok s => jchars s
    | .error e => jobj [("exc", jstr e)]
  | "cut" => jchars (cutValue (chars j "value") (int j "line") (int j "column") (int j "pl") (int j "pc"))
  | "lines" => jarr ((splitLines (chars j "text")).map jchars)
  | op => jobj [("error", jstr ("unknown op " ++ op))]

def main : IO Unit := Proto.run handle

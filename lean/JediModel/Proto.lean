import Lean.Data.Json
/-! JSON line protocol shared by all drivers (`lake env lean --run Drivers/Cxx.lean`).
One JSON object per input line, one JSON value per output line. -/
open Lean

namespace Proto

def str (j : Json) (k : String) : String :=
  match j.getObjVal? k with
  | .ok (.str s) => s
  | _ => ""

def chars (j : Json) (k : String) : List Char := (str j k).toList

def int (j : Json) (k : String) : Int :=
  match j.getObjVal? k with
  | .ok v => (v.getInt?.toOption).getD 0
  | _ => 0

def nat (j : Json) (k : String) : Nat := (int j k).toNat

def bool (j : Json) (k : String) : Bool :=
  match j.getObjVal? k with
  | .ok (.bool b) => b
  | _ => false

def optInt (j : Json) (k : String) : Option Int :=
  match j.getObjVal? k with
  | .ok .null => none
  | .ok v => v.getInt?.toOption
  | _ => none

def arr (j : Json) (k : String) : List Json :=
  match j.getObjVal? k with
  | .ok (.arr a) => a.toList
  | _ => []

def obj (j : Json) (k : String) : Json := j.getObjValD k

def asStr : Json → String
  | .str s => s
  | _ => ""

def asNat (j : Json) : Nat := ((j.getInt?.toOption).getD 0).toNat
def asInt (j : Json) : Int := (j.getInt?.toOption).getD 0
def asArr : Json → List Json
  | .arr a => a.toList
  | _ => []
def asBool : Json → Bool
  | .bool b => b
  | _ => false

def strs (j : Json) (k : String) : List String := (arr j k).map asStr
def nats (j : Json) (k : String) : List Nat := (arr j k).map asNat

def jstr (s : String) : Json := .str s
def jchars (s : List Char) : Json := .str (String.ofList s)
def jnat (n : Nat) : Json := .num (JsonNumber.fromNat n)
def jint (n : Int) : Json := .num (JsonNumber.fromInt n)
def jbool (b : Bool) : Json := .bool b
def jarr (l : List Json) : Json := .arr l.toArray
def jobj (l : List (String × Json)) : Json := Json.mkObj l
def jopt {α} (f : α → Json) : Option α → Json
  | none => .null
  | some a => f a

partial def loop (h : IO.FS.Stream) (out : IO.FS.Stream) (f : Json → Json) : IO Unit := do
  let line ← h.getLine
  if line.isEmpty then return ()
  if line.trimAscii.isEmpty then loop h out f else
  match Json.parse line with
  | .ok j => out.putStrLn (f j).compress
  | .error e => out.putStrLn (Json.mkObj [("protocol_error", .str e)]).compress
  loop h out f

def run (f : Json → Json) : IO Unit := do
  let i ← IO.getStdin
  let o ← IO.getStdout
  loop i o f
  o.flush

end Proto

import JediModel.Model.RefactorFS
/-! Lemmas about the write phase of `Refactoring.apply`. -/
namespace JediModel.RefactorFS
open JediModel.Text JediModel.Tree

theorem applyWrites_untouched (nl : Option String) (ls : Str) (q : Path) :
    ∀ (cs : List FileChange) (fs : FS), (∀ c ∈ cs, c.path ≠ some q) →
      (applyWrites nl ls cs fs).fs q = fs q
  | [], fs, _ => rfl
  | c :: cs, fs, h => by
    unfold applyWrites
    cases hp : c.path with
    | none => rfl
    | some p =>
      simp only
      rw [applyWrites_untouched nl ls q cs _ (fun d hd => h d (by simp [hd]))]
      have : q ≠ p := fun e => h c (by simp) (by rw [hp, e])
      simp [write, this]

theorem applyWrites_err_none (nl : Option String) (ls : Str) :
    ∀ (cs : List FileChange) (fs : FS), (∀ c ∈ cs, c.path ≠ none) →
      (applyWrites nl ls cs fs).err = none
  | [], _, _ => rfl
  | c :: cs, fs, h => by
    unfold applyWrites
    cases hp : c.path with
    | none => exact absurd hp (h c (by simp))
    | some p => exact applyWrites_err_none nl ls cs _ (fun d hd => h d (by simp [hd]))

theorem applyWrites_written (nl : Option String) (ls : Str) :
    ∀ (cs : List FileChange) (fs : FS) (c : FileChange) (p : Path),
      cs.Pairwise (fun c d => c.path ≠ d.path) → (∀ d ∈ cs, d.path ≠ none) →
      c ∈ cs → c.path = some p →
      (applyWrites nl ls cs fs).fs p = some (xlate nl ls (newCode c))
  | [], _, _, _, _, _, hc, _ => by simp at hc
  | d :: cs, fs, c, p, hpw, hall, hc, hp => by
    rw [List.pairwise_cons] at hpw
    unfold applyWrites
    cases hd : d.path with
    | none => exact absurd hd (hall d (by simp))
    | some pd =>
      simp only
      rcases List.mem_cons.mp hc with rfl | hin
      · have e : pd = p := by rw [hd] at hp; exact Option.some.inj hp
        subst e
        rw [applyWrites_untouched nl ls pd cs _ (fun x hx => by
          have := hpw.1 x hx; rw [hd] at this; exact fun e => this e.symm)]
        simp [write]
      · exact applyWrites_written nl ls cs _ c p hpw.2 (fun x hx => hall x (by simp [hx])) hin hp

/-- a change without path stops the write phase with `RefactoringError` -/
theorem applyWrites_pathless (nl : Option String) (ls : Str) :
    ∀ (cs : List FileChange) (fs : FS), (∃ c ∈ cs, c.path = none) →
      (applyWrites nl ls cs fs).err = some .refactoringError
  | [], _, h => by simp at h
  | c :: cs, fs, h => by
    unfold applyWrites
    cases hp : c.path with
    | none => rfl
    | some p =>
      obtain ⟨d, hd, hn⟩ := h
      rcases List.mem_cons.mp hd with rfl | hin
      · rw [hp] at hn; cases hn
      · exact applyWrites_pathless nl ls cs _ ⟨d, hin, hn⟩

theorem xlate_id (ls s : Str) : xlate (some "") ls s = s := by simp [xlate]

end JediModel.RefactorFS

import JediModel.Model.Determinism
import JediModel.Lemmas.Recursion
/-! Helper lemmas for `Model/Determinism` (C16). Core Lean only. -/
namespace JediModel.Determinism
open JediModel.Recursion

abbrev Key := List (List Nat)

theorem keyLE_trans (comps : List String) (a b c : Name)
    (h1 : keyLE comps a b = true) (h2 : keyLE comps b c = true) : keyLE comps a c = true := by
  simp only [keyLE, decide_eq_true_eq] at *
  exact List.le_trans h1 h2

theorem keyLE_total (comps : List String) (a b : Name) :
    (keyLE comps a b || keyLE comps b a) = true := by
  simp only [keyLE, Bool.or_eq_true, decide_eq_true_eq]
  exact List.le_total _ _

/-- two sorted duplicate-free lists with the same elements are the same list -/
theorem sorted_unique : ∀ (k₁ k₂ : List Key), k₁.Pairwise (· ≤ ·) → k₂.Pairwise (· ≤ ·) →
    k₁.Nodup → k₂.Nodup → (∀ x, x ∈ k₁ ↔ x ∈ k₂) → k₁ = k₂
  | [], [], _, _, _, _, _ => rfl
  | [], b :: t₂, _, _, _, _, h => by have := (h b).mpr (by simp); simp at this
  | a :: t₁, [], _, _, _, _, h => by have := (h a).mp (by simp); simp at this
  | a :: t₁, b :: t₂, p₁, p₂, n₁, n₂, h => by
    have p₁' := List.pairwise_cons.mp p₁
    have p₂' := List.pairwise_cons.mp p₂
    have n₁' := List.nodup_cons.mp n₁
    have n₂' := List.nodup_cons.mp n₂
    have hab : a = b := by
      have ha : a ∈ b :: t₂ := (h a).mp (by simp)
      have hb : b ∈ a :: t₁ := (h b).mpr (by simp)
      rcases List.mem_cons.mp ha with e | ha'
      · exact e
      · rcases List.mem_cons.mp hb with e | hb'
        · exact e.symm
        · exact List.le_antisymm (p₁'.1 b hb') (p₂'.1 a ha')
    subst hab
    have ht : ∀ x, x ∈ t₁ ↔ x ∈ t₂ := by
      intro x
      constructor
      · intro hx
        have := (h x).mp (List.mem_cons_of_mem _ hx)
        rcases List.mem_cons.mp this with e | h'
        · subst e; exact absurd hx n₁'.1
        · exact h'
      · intro hx
        have := (h x).mpr (List.mem_cons_of_mem _ hx)
        rcases List.mem_cons.mp this with e | h'
        · subst e; exact absurd hx n₂'.1
        · exact h'
    rw [sorted_unique t₁ t₂ p₁'.2 p₂'.2 n₁'.2 n₂'.2 ht]

theorem map_eq_of_inj {α β : Type} (f : α → β) : ∀ (l₁ l₂ : List α), l₁.map f = l₂.map f →
    (∀ a ∈ l₁, ∀ b ∈ l₂, f a = f b → a = b) → l₁ = l₂
  | [], [], _, _ => rfl
  | [], _ :: _, h, _ => by simp at h
  | _ :: _, [], h, _ => by simp at h
  | a :: t₁, b :: t₂, h, inj => by
    simp only [List.map_cons, List.cons.injEq] at h
    have := inj a (by simp) b (by simp) h.1
    subst this
    rw [map_eq_of_inj f t₁ t₂ h.2 (fun x hx y hy => inj x (List.mem_cons_of_mem _ hx) y (List.mem_cons_of_mem _ hy))]

/-- Python's (stable) `sorted` on two elements -/
theorem mergeSort_pair {α : Type} (le : α → α → Bool) (a b : α) :
    [a, b].mergeSort le = if le a b then [a, b] else [b, a] := by
  rw [List.mergeSort]
  simp [List.MergeSort.Internal.splitInTwo, List.merge]

/-- two lists that agree under `f` position by position agree under every `g` that `f` determines -/
theorem map_eq_of_determines {α β γ : Type} (f : α → β) (g : α → γ) : ∀ (l₁ l₂ : List α),
    l₁.map f = l₂.map f → (∀ a ∈ l₁, ∀ b ∈ l₂, f a = f b → g a = g b) → l₁.map g = l₂.map g
  | [], [], _, _ => rfl
  | [], _ :: _, h, _ => by simp at h
  | _ :: _, [], h, _ => by simp at h
  | a :: t₁, b :: t₂, h, det => by
    simp only [List.map_cons, List.cons.injEq] at h
    simp only [List.map_cons]
    rw [det a (by simp) b (by simp) h.1,
      map_eq_of_determines f g t₁ t₂ h.2
        (fun x hx y hy => det x (List.mem_cons_of_mem _ hx) y (List.mem_cons_of_mem _ hy))]

/-- the sorted key list of any iteration order of `set(l)` -/
theorem sorted_keys_sorted (comps : List String) (s : List Name) :
    ((sortedDefinitions comps s).map (sortKey comps)).Pairwise (· ≤ ·) := by
  have h := List.pairwise_mergeSort (le := keyLE comps)
    (fun a b c => keyLE_trans comps a b c) (fun a b => keyLE_total comps a b) s
  rw [List.pairwise_map]
  exact h.imp (fun hab => by simpa [keyLE] using hab)

theorem sorted_keys_nodup (comps fields : List String) (P : Name → Prop)
    (hinj : ∀ a b, P a → P b → sortKey comps a = sortKey comps b → nameEq fields a b = true)
    (s : List Name) (hP : ∀ a ∈ s, P a)
    (hd : s.Pairwise (fun a b => nameEq fields a b = false)) :
    ((sortedDefinitions comps s).map (sortKey comps)).Nodup := by
  have hperm : ((sortedDefinitions comps s).map (sortKey comps)).Perm (s.map (sortKey comps)) :=
    (List.mergeSort_perm s (keyLE comps)).map _
  apply (hperm.nodup_iff).mpr
  rw [List.Nodup, List.pairwise_map]
  clear hperm
  induction s with
  | nil => exact List.Pairwise.nil
  | cons a t ih =>
    have hd' := List.pairwise_cons.mp hd
    refine List.pairwise_cons.mpr ⟨?_, ih (fun x hx => hP x (List.mem_cons_of_mem _ hx)) hd'.2⟩
    intro b hb heq
    have := hinj a b (hP a (by simp)) (hP b (List.mem_cons_of_mem _ hb)) heq
    rw [hd'.1 b hb] at this
    exact Bool.false_ne_true this

theorem sorted_keys_mem (comps fields : List String)
    (hcongr : ∀ a b, nameEq fields a b = true → sortKey comps a = sortKey comps b)
    (l s : List Name) (hs : IsSetOf fields l s) (x : Key) :
    x ∈ (sortedDefinitions comps s).map (sortKey comps) ↔ ∃ a ∈ l, sortKey comps a = x := by
  have hperm := List.mergeSort_perm s (keyLE comps)
  simp only [List.mem_map, sortedDefinitions]
  constructor
  · rintro ⟨a, ha, rfl⟩
    exact ⟨a, hs.sub a (hperm.mem_iff.mp ha), rfl⟩
  · rintro ⟨a, ha, rfl⟩
    obtain ⟨y, hy, he⟩ := hs.cover a ha
    exact ⟨y, hperm.mem_iff.mpr hy, (hcongr a y he).symm⟩

/-- the heart of C16's sort theorem, for any key/equality pair that fit together -/
theorem sorted_keys_invariant (comps fields : List String) (P : Name → Prop)
    (hinj : ∀ a b, P a → P b → sortKey comps a = sortKey comps b → nameEq fields a b = true)
    (hcongr : ∀ a b, nameEq fields a b = true → sortKey comps a = sortKey comps b)
    (l₁ l₂ s₁ s₂ : List Name) (hP : ∀ a ∈ l₁, P a) (hperm : l₁.Perm l₂)
    (h₁ : IsSetOf fields l₁ s₁) (h₂ : IsSetOf fields l₂ s₂) :
    (sortedDefinitions comps s₁).map (sortKey comps) = (sortedDefinitions comps s₂).map (sortKey comps) := by
  apply sorted_unique
  · exact sorted_keys_sorted comps s₁
  · exact sorted_keys_sorted comps s₂
  · exact sorted_keys_nodup comps fields P hinj s₁ (fun a ha => hP a (h₁.sub a ha)) h₁.distinct
  · exact sorted_keys_nodup comps fields P hinj s₂
      (fun a ha => hP a (hperm.mem_iff.mpr (h₂.sub a ha))) h₂.distinct
  · intro x
    rw [sorted_keys_mem comps fields hcongr l₁ s₁ h₁, sorted_keys_mem comps fields hcongr l₂ s₂ h₂]
    constructor
    · rintro ⟨a, ha, rfl⟩; exact ⟨a, hperm.mem_iff.mp ha, rfl⟩
    · rintro ⟨a, ha, rfl⟩; exact ⟨a, hperm.mem_iff.mpr ha, rfl⟩

/-! ## `set(l)` as computed by insertion -/

theorem dedupFirst_spec (fields : List String)
    (hrefl : ∀ a, nameEq fields a a = true)
    (hsymm : ∀ a b, nameEq fields a b = nameEq fields b a) :
    ∀ (l seen : List Name),
      (∀ x ∈ dedupFirst fields seen l, x ∈ l) ∧
      (∀ x ∈ l, (∃ y ∈ dedupFirst fields seen l, nameEq fields x y = true) ∨
                (∃ y ∈ seen, nameEq fields x y = true)) ∧
      (dedupFirst fields seen l).Pairwise (fun a b => nameEq fields a b = false) ∧
      (∀ x ∈ dedupFirst fields seen l, ∀ y ∈ seen, nameEq fields x y = false)
  | [], seen => by simp [dedupFirst]
  | a :: rest, seen => by
    unfold dedupFirst
    by_cases hs : seen.any (nameEq fields a) = true
    · simp only [hs, if_true]
      obtain ⟨h1, h2, h3, h4⟩ := dedupFirst_spec fields hrefl hsymm rest seen
      refine ⟨fun x hx => List.mem_cons_of_mem _ (h1 x hx), ?_, h3, h4⟩
      intro x hx
      rcases List.mem_cons.mp hx with e | hx'
      · subst e
        obtain ⟨y, hy, hey⟩ := List.any_eq_true.mp hs
        exact Or.inr ⟨y, hy, hey⟩
      · exact h2 x hx'
    · simp only [hs]
      simp only [Bool.false_eq_true, if_false]
      obtain ⟨h1, h2, h3, h4⟩ := dedupFirst_spec fields hrefl hsymm rest (a :: seen)
      have hsn : ∀ y ∈ seen, nameEq fields a y = false := by
        intro y hy
        cases hv : nameEq fields a y with
        | false => rfl
        | true => exact absurd (List.any_eq_true.mpr ⟨y, hy, hv⟩) hs
      refine ⟨?_, ?_, ?_, ?_⟩
      · intro x hx
        rcases List.mem_cons.mp hx with e | hx'
        · exact e ▸ List.mem_cons_self
        · exact List.mem_cons_of_mem _ (h1 x hx')
      · intro x hx
        rcases List.mem_cons.mp hx with e | hx'
        · subst e; exact Or.inl ⟨x, List.mem_cons_self, hrefl x⟩
        · rcases h2 x hx' with ⟨y, hy, he⟩ | ⟨y, hy, he⟩
          · exact Or.inl ⟨y, List.mem_cons_of_mem _ hy, he⟩
          · rcases List.mem_cons.mp hy with e | hy'
            · subst e; exact Or.inl ⟨y, List.mem_cons_self, he⟩
            · exact Or.inr ⟨y, hy', he⟩
      · refine List.pairwise_cons.mpr ⟨?_, h3⟩
        intro b hb
        rw [hsymm]
        exact h4 b hb a List.mem_cons_self
      · intro x hx y hy
        rcases List.mem_cons.mp hx with e | hx'
        · subst e; exact hsn y hy
        · exact h4 x hx' y (List.mem_cons_of_mem _ hy)

theorem isSetOf_dedupFirst (fields : List String)
    (hrefl : ∀ a, nameEq fields a a = true)
    (hsymm : ∀ a b, nameEq fields a b = nameEq fields b a) (l : List Name) :
    IsSetOf fields l (dedupFirst fields [] l) := by
  obtain ⟨h1, h2, h3, _⟩ := dedupFirst_spec fields hrefl hsymm l []
  refine ⟨h1, ?_, h3⟩
  intro x hx
  rcases h2 x hx with h | ⟨y, hy, _⟩
  · exact h
  · simp at hy

/-! ## the switches -/

/-- every block leaves the switches, the depth counter and the statement stack as it found them,
whatever its body does and however it ends - PROVIDED the `+= 1` / `-= 1` of `_avoid_recursions`
are balanced (`Balanced`: same branch) -/
theorem run_switches (c : Cfg) (hb : Balanced c.bracket) (a : Act) :
    ∀ s, ((run c s a).st.flowAnalysisEnabled = s.flowAnalysisEnabled ∨
          (run c s a).st.flowAnalysisEnabled = true) ∧
      ((run c s a).st.isAnalysis = s.isAnalysis ∨ (run c s a).st.isAnalysis = false) ∧
      (run c s a).st.predefined = s.predefined ∧
      (run c s a).st.dynamicParamsDepth = s.dynamicParamsDepth ∧
      (run c s a).st.pushed = s.pushed := by
  obtain ⟨hpre, hblocked, hpair⟩ := hb
  induction a with
  | skip => intro s; simp [run]
  | raise => intro s; simp [run]
  | seq a b iha ihb =>
    intro s
    simp only [run]
    split
    · exact iha s
    · have h1 := iha s
      have h2 := ihb (run c s a).st
      simp only
      refine ⟨?_, ?_, h2.2.2.1.trans h1.2.2.1, h2.2.2.2.1.trans h1.2.2.2.1, h2.2.2.2.2.trans h1.2.2.2.2⟩
      · rcases h2.1 with h | h
        · rcases h1.1 with h' | h'
          · exact Or.inl (h.trans h')
          · exact Or.inr (h.trans h')
        · exact Or.inr h
      · rcases h2.2.1 with h | h
        · rcases h1.2.1 with h' | h'
          · exact Or.inl (h.trans h')
          · exact Or.inr (h.trans h')
        · exact Or.inr h
  | execute => intro s; simp [run]
  | capped n => intro s; simp [run]
  | memoise => intro s; simp [run]
  | flowOff b ih =>
    intro s
    have h := ih { s with flowAnalysisEnabled := false }
    simp only [run]
    exact ⟨Or.inr trivial, h.2.1, h.2.2.1, h.2.2.2⟩
  | analysis b ih =>
    intro s
    have h := ih { s with isAnalysis := true }
    simp only [run]
    exact ⟨h.1, Or.inr trivial, h.2.2.1, h.2.2.2⟩
  | predefine b ih =>
    intro s
    have h := ih { s with predefined := s.predefined + 1 }
    simp only [run]
    refine ⟨h.1, h.2.1, ?_, h.2.2.2⟩
    have := h.2.2.1
    simp only at this
    omega
  | dynParam n b ih =>
    intro s
    simp only [run]
    split
    · refine ⟨Or.inl rfl, Or.inl rfl, rfl, ?_, rfl⟩
      simp only
      omega
    · have h := ih { s with pushed := s.pushed ++ [n],
                            dynamicParamsDepth := s.dynamicParamsDepth + delta c.bracket "pre"
                              + delta c.bracket "allowed" }
      refine ⟨h.1, h.2.1, h.2.2.1, ?_, ?_⟩
      · have := h.2.2.2.1
        simp only at this ⊢
        omega
      · have := h.2.2.2.2
        simp only at this ⊢
        rw [this]
        simp
  | searchArgs n => intro s; simp [run]

theorem run_default (c : Cfg) (hb : Balanced c.bracket) (a : Act) (s : QState) (h : s.switchesDefault) :
    (run c s a).st.switchesDefault := by
  obtain ⟨h1, h2, h3, h4, h5⟩ := run_switches c hb a s
  obtain ⟨d1, d2, d3, d4, d5⟩ := h
  refine ⟨?_, ?_, h3.trans d3, h4.trans d4, h5.trans d5⟩
  · rcases h1 with h | h
    · exact h.trans d1
    · exact h
  · rcases h2 with h | h
    · exact h.trans d2
    · exact h

/-- `reset_recursion_limitations` touches no switch -/
theorem reset_default (resets : List String) (s : QState) (h : s.switchesDefault) :
    (reset resets s).switchesDefault := by
  obtain ⟨d1, d2, d3, d4, d5⟩ := h
  refine ⟨d1, d2, d3, d4, ?_⟩
  simp only [reset]
  split
  · rfl
  · exact d5

/-- a search that runs while the counter is at most 1 looks at every call site up to
`MAX_PARAM_SEARCHES` -/
theorem searchLoop_depth_one (maxS : Nat) : ∀ r i, i + r ≤ maxS →
    searchLoop maxS 1 r i = List.replicate r true := by
  intro r
  induction r with
  | zero => intro i _; simp [searchLoop]
  | succ r ih =>
    intro i h
    simp only [searchLoop, List.replicate_succ]
    rw [if_neg (by omega), ih (i + 1) (by omega)]

/-! ## reading memo entries -/

theorem reads_materialised {α : Type} (xs : List α) : ∀ ks : List Nat,
    (Stored.materialised xs).reads ks = ks.map (xs.take ·) := by
  intro ks
  induction ks with
  | nil => rfl
  | cons k ks ih => simp [Stored.reads, Stored.read, ih]

theorem reads_replaying {α : Type} : ∀ (ks : List Nat) (cached rest : List α),
    (Stored.replaying cached rest).reads ks = ks.map ((cached ++ rest).take ·) := by
  intro ks
  induction ks with
  | nil => intro _ _; rfl
  | cons k ks ih =>
    intro cached rest
    simp only [Stored.reads, Stored.read, List.map_cons]
    rw [ih]
    simp [List.append_assoc, List.take_append_drop]

theorem reads_oneShot_pair {α : Type} (xs : List α) (j k : Nat) :
    (Stored.oneShot xs).reads [j, k] = [xs.take j, (xs.drop j).take k] := by
  simp [Stored.reads, Stored.read]

/-! ## memoised evaluation on acyclic graphs does not depend on what was asked before -/

/-- `rank` witnesses acyclicity: every dependency has a strictly smaller rank -/
def Acyclic {Val : Type} (G : Graph Val) (rank : Nat → Nat) : Prop :=
  ∀ v c, c ∈ G.deps v → rank c < rank v

/-- the meaning of a node -/
def D {Val : Type} (G : Graph Val) (rank : Nat → Nat) (v : Nat) : Val := den G (rank v + 1) v

theorem den_stable {Val : Type} (G : Graph Val) (rank : Nat → Nat) (hac : Acyclic G rank) :
    ∀ f v, rank v + 1 ≤ f → den G f v = D G rank v := by
  intro f
  induction f using Nat.strongRecOn with
  | ind f ih =>
    intro v hv
    cases f with
    | zero => omega
    | succ f =>
      unfold D
      simp only [den]
      congr 1
      apply List.map_congr_left
      intro c hc
      have hr := hac v c hc
      rw [ih f (by omega) c (by omega)]
      by_cases h : rank v = f + 1
      · omega
      · by_cases h0 : rank v = f
        · rw [h0]; exact (ih f (by omega) c (by omega)).symm
        · exact (ih (rank v) (by omega) c (by omega)).symm

/-- entries of keys with rank below `B` hold the meaning of their key -/
def ConsistentBelow {Val : Type} (G : Graph Val) (rank : Nat → Nat) (B : Nat) (m : Memo Val) : Prop :=
  ∀ k r, m k = some r → rank k < B → r = D G rank k

/-- only keys of rank ≤ rank v (and among those of equal rank only `v`) are written -/
def Frame {Val : Type} (rank : Nat → Nat) (v : Nat) (m m' : Memo Val) : Prop :=
  ∀ k, k ≠ v → rank v ≤ rank k → m' k = m k

theorem evalArgs_acyclic {Val : Type} (G : Graph Val) (rank : Nat → Nat) (B : Nat)
    (ev : Memo Val → Nat → Except Err (Memo Val × Val × Work))
    (hev : ∀ m c, rank c < B → ConsistentBelow G rank B m → ∀ m' r w, ev m c = .ok (m', r, w) →
      r = D G rank c ∧ ConsistentBelow G rank B m' ∧ Frame rank c m m') :
    ∀ (cs : List Nat), (∀ c ∈ cs, rank c < B) → ∀ m, ConsistentBelow G rank B m →
      ∀ m' rs w, evalArgs ev m cs = .ok (m', rs, w) →
        rs = cs.map (D G rank) ∧ ConsistentBelow G rank B m' ∧ (∀ k, B ≤ rank k → m' k = m k) := by
  intro cs
  induction cs with
  | nil =>
    intro _ m hm m' rs w h
    simp only [evalArgs, Except.ok.injEq, Prod.mk.injEq] at h
    obtain ⟨h1, h2, _⟩ := h
    subst h1; subst h2
    exact ⟨rfl, hm, fun _ _ => rfl⟩
  | cons c cs ih =>
    intro hcs m hm m' rs w h
    simp only [evalArgs] at h
    split at h
    · simp at h
    · rename_i m1 r w1 h1
      split at h
      · simp at h
      · rename_i m2 rs2 w2 h2
        simp only [Except.ok.injEq, Prod.mk.injEq] at h
        obtain ⟨e1, e2, _⟩ := h
        subst e1; subst e2
        have hc := hcs c (by simp)
        obtain ⟨hr, hm1, hf1⟩ := hev m c hc hm m1 r w1 h1
        obtain ⟨hrs, hm2, hf2⟩ := ih (fun c hc => hcs c (by simp [hc])) m1 hm1 m2 rs2 w2 h2
        refine ⟨by simp [hr, hrs], hm2, ?_⟩
        intro k hk
        rw [hf2 k hk]
        exact hf1 k (by intro e; subst e; omega) (by omega)

theorem eval_acyclic {Val : Type} (G : Graph Val) (rank : Nat → Nat) (hac : Acyclic G rank) :
    ∀ (fuel : Nat) (m : Memo Val) (v B : Nat), rank v < B → ConsistentBelow G rank B m →
      ∀ m' r w, eval G fuel m v = .ok (m', r, w) →
        r = D G rank v ∧ ConsistentBelow G rank B m' ∧ Frame rank v m m' := by
  intro fuel
  induction fuel with
  | zero =>
    intro m v B hB hm m' r w h
    unfold eval at h
    cases hmv : m v with
    | none => simp [hmv] at h
    | some r0 =>
      simp only [hmv, Except.ok.injEq, Prod.mk.injEq] at h
      obtain ⟨e1, e2, _⟩ := h
      subst e1; subst e2
      exact ⟨hm v _ hmv hB, hm, fun _ _ _ => rfl⟩
  | succ fuel ih =>
    intro m v B hB hm m' r w h
    unfold eval at h
    cases hmv : m v with
    | some r0 =>
      simp only [hmv, Except.ok.injEq, Prod.mk.injEq] at h
      obtain ⟨e1, e2, _⟩ := h
      subst e1; subst e2
      exact ⟨hm v _ hmv hB, hm, fun _ _ _ => rfl⟩
    | none =>
      simp only [hmv] at h
      -- the memo the children see: `m` with possibly the default stored at `v`
      have hm1_other : ∀ k, k ≠ v → storeDefault G m v k = m k := by
        intro k hk
        unfold storeDefault
        cases G.default with
        | none => rfl
        | some d => simp [Memo.set, hk]
      have hcb1 : ConsistentBelow G rank (rank v) (storeDefault G m v) := by
        intro k r hk hrk
        have : k ≠ v := by intro e; subst e; omega
        rw [hm1_other k this] at hk
        exact hm k r hk (by omega)
      cases h2 : evalArgs (eval G fuel) (storeDefault G m v) (G.deps v) with
      | error e => simp [h2, finishEval] at h
      | ok res =>
        obtain ⟨m2, vals, w2⟩ := res
        simp only [h2, finishEval, Except.ok.injEq, Prod.mk.injEq] at h
        obtain ⟨e1, e2, _⟩ := h
        subst e1; subst e2
        obtain ⟨hvals, hcb2, hfr2⟩ := evalArgs_acyclic G rank (rank v) (eval G fuel)
          (fun m c hc hcb m' r w h => ih m c (rank v) hc hcb m' r w h)
          (G.deps v) (fun c hc => hac v c hc) _ hcb1 m2 vals w2 h2
        have hval : G.combine v vals = D G rank v := by
          rw [hvals]
          unfold D
          simp only [den]
          congr 1
          apply List.map_congr_left
          intro c hc
          have := hac v c hc
          exact (den_stable G rank hac (rank v) c (by omega)).symm
        refine ⟨hval, ?_, ?_⟩
        · intro k r hk hrk
          by_cases hkv : k = v
          · subst hkv
            simp [Memo.set] at hk
            rw [← hk]; exact hval
          · simp [Memo.set, hkv] at hk
            by_cases hlt : rank k < rank v
            · exact hcb2 k r hk hlt
            · rw [hfr2 k (by omega), hm1_other k hkv] at hk
              exact hm k r hk hrk
        · intro k hkv hrk
          simp [Memo.set, hkv]
          rw [hfr2 k hrk, hm1_other k hkv]

/-! ### dict key completions -/

theorem reprLE_trans (a b c : Str) (h1 : reprLE a b = true) (h2 : reprLE b c = true) : reprLE a c = true := by
  simp only [reprLE, decide_eq_true_eq] at *
  exact List.le_trans h1 h2

theorem reprLE_total (a b : Str) : (reprLE a b || reprLE b a) = true := by
  simp only [reprLE, Bool.or_eq_true, decide_eq_true_eq]
  exact List.le_total _ _

theorem reprLE_antisymm (a b : Str) (h1 : reprLE a b = true) (h2 : reprLE b a = true) : a = b := by
  simp only [reprLE, decide_eq_true_eq] at *
  exact List.le_antisymm h1 h2

theorem insertRepr_perm (a : Str) : ∀ l : List Str, (insertRepr a l).Perm (a :: l)
  | [] => .refl _
  | b :: l => by
    unfold insertRepr
    split
    · exact .refl _
    · exact ((insertRepr_perm a l).cons b).trans (List.Perm.swap a b l)

theorem insertRepr_sorted (a : Str) : ∀ l : List Str, l.Pairwise (fun x y => reprLE x y = true) →
    (insertRepr a l).Pairwise (fun x y => reprLE x y = true)
  | [], _ => by simp [insertRepr]
  | b :: l, h => by
    have hc := List.pairwise_cons.mp h
    unfold insertRepr
    split
    · rename_i hab
      refine List.pairwise_cons.mpr ⟨?_, h⟩
      intro x hx
      rcases List.mem_cons.mp hx with e | hx'
      · subst e; exact hab
      · exact reprLE_trans a b x hab (hc.1 x hx')
    · rename_i hab
      have hba : reprLE b a = true := by
        have := reprLE_total a b
        simp only [Bool.or_eq_true] at this
        rcases this with h1 | h1
        · exact absurd h1 hab
        · exact h1
      refine List.pairwise_cons.mpr ⟨?_, insertRepr_sorted a l hc.2⟩
      intro x hx
      rcases List.mem_cons.mp ((insertRepr_perm a l).subset hx) with e | hx'
      · subst e; exact hba
      · exact hc.1 x hx'

theorem sortByRepr_perm : ∀ l : List Str, (sortByRepr l).Perm l
  | [] => .refl _
  | a :: l => by
    show (insertRepr a (sortByRepr l)).Perm (a :: l)
    exact (insertRepr_perm a _).trans ((sortByRepr_perm l).cons a)

theorem sortByRepr_sorted : ∀ l : List Str, (sortByRepr l).Pairwise (fun x y => reprLE x y = true)
  | [] => List.Pairwise.nil
  | a :: l => by
    show (insertRepr a (sortByRepr l)).Pairwise _
    exact insertRepr_sorted a _ (sortByRepr_sorted l)

/-- `sorted(., key=repr)` of two lists with the same elements is the same list: the sort key is the
element itself and its order is total and antisymmetric -/
theorem sortByRepr_perm_eq (l₁ l₂ : List Str) (h : l₁.Perm l₂) : sortByRepr l₁ = sortByRepr l₂ := by
  apply List.Perm.eq_of_pairwise (le := fun a b => reprLE a b = true)
  · intro a b _ _ hab hba
    exact reprLE_antisymm a b hab hba
  · exact sortByRepr_sorted l₁
  · exact sortByRepr_sorted l₂
  · exact (sortByRepr_perm l₁).trans (h.trans (sortByRepr_perm l₂).symm)

/-- iterating the set of dicts in another order yields the same keys, in another order -/
theorem getPythonKeys_perm (cfg : DictCfg) (d₁ d₂ : List DictVal) (h : d₁.Perm d₂) :
    (getPythonKeys cfg d₁).Perm (getPythonKeys cfg d₂) := by
  unfold getPythonKeys
  exact h.flatMap_right _

end JediModel.Determinism

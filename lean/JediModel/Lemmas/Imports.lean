import JediModel.Model.Imports
/-! Lemmas about the import walk. -/
namespace JediModel.Imports
open JediModel.SysPath

theorem walkFrom_single (fs : FS) (sp : List Parts) (pref : List String) (f : Found) (rest : List String) :
    walkFrom (pyFind fs) (fun _ => none) sp pref [some f] rest = (pyImportFrom fs f rest).toList := by
  induction rest generalizing pref f with
  | nil => simp [walkFrom, pyImportFrom]
  | cons n rest ih =>
    unfold walkFrom pyImportFrom
    simp only [List.flatMap_cons, List.flatMap_nil, List.append_nil, importModule]
    cases hp : f.searchLocations with
    | none =>
      have : f.pyPath = none := by cases f <;> simp_all [Found.pyPath, Found.searchLocations]
      simp [this]
    | some locs =>
      have : f.pyPath = some locs := by cases f <;> simp_all [Found.pyPath, Found.searchLocations]
      simp only [this]
      cases hf : pyFind fs n locs with
      | none => simp
      | some g => simp [ih]

end JediModel.Imports

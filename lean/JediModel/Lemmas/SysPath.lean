import JediModel.Model.SysPath
/-! Lemmas about `removeDups`, `parentsOf`, `traverseParts`, `compose`. -/
namespace JediModel.SysPath

/-! ## first-occurrence de-duplication -/

/-- specification: keep the first occurrence of every entry -/
def dedup : List String → List String
  | [] => []
  | x :: xs => x :: (dedup xs).filter (· ≠ x)

theorem removeDupsLoop_eq (used l : List String) :
    removeDupsLoop used l = (dedup l).filter (· ∉ used) := by
  induction l generalizing used with
  | nil => simp [removeDupsLoop, dedup]
  | cons x xs ih =>
    unfold removeDupsLoop
    by_cases hx : x ∈ used
    · simp only [hx, if_true, dedup]
      rw [ih, List.filter_cons]
      simp only [hx, not_true_eq_false, decide_false, Bool.false_eq_true, if_false,
        List.filter_filter]
      apply List.filter_congr
      intro y _
      by_cases hy : y ∈ used
      · simp [hy]
      · have : y ≠ x := fun h => hy (h ▸ hx)
        simp [hy, this]
    · simp only [hx, if_false, dedup]
      rw [ih, List.filter_cons]
      simp only [hx, not_false_eq_true, decide_true, if_true, List.filter_filter]
      congr 1
      apply List.filter_congr
      intro y _
      simp only [List.mem_cons, not_or]
      by_cases hy : y = x <;> by_cases hu : y ∈ used <;> simp [hy, hu]

theorem removeDups_eq_dedup (l : List String) : removeDups l = dedup l := by
  simp [removeDups, removeDupsLoop_eq]

theorem mem_dedup {l : List String} {a : String} : a ∈ dedup l ↔ a ∈ l := by
  induction l with
  | nil => simp [dedup]
  | cons x xs ih =>
    simp only [dedup, List.mem_cons, List.mem_filter, ih]
    by_cases h : a = x <;> simp [h]

theorem dedup_nodup (l : List String) : (dedup l).Nodup := by
  induction l with
  | nil => simp [dedup]
  | cons x xs ih =>
    simp only [dedup, List.nodup_cons]
    refine ⟨by simp, ?_⟩
    exact ih.sublist List.filter_sublist

theorem dedup_sublist (l : List String) : (dedup l).Sublist l := by
  induction l with
  | nil => simp [dedup]
  | cons x xs ih =>
    simp only [dedup]
    exact List.Sublist.cons_cons x (List.filter_sublist.trans ih)

theorem dedup_append (a b : List String) :
    dedup (a ++ b) = dedup a ++ (dedup b).filter (· ∉ a) := by
  induction a with
  | nil => simp [dedup]; symm; rw [List.filter_eq_self]; simp
  | cons x xs ih =>
    simp only [List.cons_append, dedup, ih, List.filter_append, List.filter_filter]
    congr 2
    apply List.filter_congr
    intro y _
    simp only [List.mem_cons, not_or]
    by_cases hy : y = x <;> by_cases hu : y ∈ xs <;> simp [hy, hu]

theorem dedup_append3 (a b c : List String) :
    dedup (a ++ b ++ c) =
      dedup a ++ (dedup b).filter (· ∉ a) ++ (dedup c).filter (fun p => p ∉ a ∧ p ∉ b) := by
  rw [dedup_append, dedup_append]
  congr 1
  apply List.filter_congr
  intro y _
  simp only [List.mem_append, not_or]

theorem dedup_of_nodup {l : List String} (h : l.Nodup) : dedup l = l := by
  induction l with
  | nil => rfl
  | cons x xs ih =>
    rw [List.nodup_cons] at h
    simp only [dedup, ih h.2]
    congr 1
    rw [List.filter_eq_self]
    intro a ha
    have : a ≠ x := fun e => h.1 (e ▸ ha)
    simp [this]

/-! ## `parents` -/

theorem mem_parentsOf {p q : Parts} :
    q ∈ parentsOf p ↔
      ∃ k, (if isAbs p then 1 else 0) ≤ k ∧ k < p.length ∧ q = p.take k := by
  unfold parentsOf
  simp only [List.mem_map, List.mem_reverse, List.mem_range'_1]
  constructor
  · rintro ⟨k, ⟨h1, h2⟩, rfl⟩
    exact ⟨k, h1, by omega, rfl⟩
  · rintro ⟨k, h1, h2, rfl⟩
    exact ⟨k, ⟨h1, by omega⟩, rfl⟩

/-- a parent is a strictly shorter prefix -/
theorem parentsOf_prefix {p q : Parts} (h : q ∈ parentsOf p) : q <+: p ∧ q.length < p.length := by
  obtain ⟨k, _, h2, rfl⟩ := mem_parentsOf.mp h
  exact ⟨List.take_prefix k p, by simp; omega⟩

/-- for a non-empty (or relative) candidate: being a parent is being a strictly shorter prefix -/
theorem mem_parentsOf_iff_prefix {p q : Parts} (hq : (if isAbs p then 1 else 0) ≤ q.length) :
    q ∈ parentsOf p ↔ q <+: p ∧ q.length < p.length := by
  constructor
  · exact parentsOf_prefix
  · rintro ⟨hp, hl⟩
    refine mem_parentsOf.mpr ⟨q.length, hq, hl, ?_⟩
    exact List.prefix_iff_eq_take.mp hp

theorem isAbs_of_prefix {p q : Parts} (hp : q <+: p) (hq : isAbs q = true) : isAbs p = true := by
  obtain ⟨t, rfl⟩ := hp
  match q, hq with
  | x :: xs, hq => simpa [isAbs] using hq

theorem isAbs_prefix_of_ne_nil {p q : Parts} (hp : q <+: p) (hq : q ≠ []) (h : isAbs p = true) :
    isAbs q = true := by
  obtain ⟨t, rfl⟩ := hp
  match q, hq with
  | x :: xs, _ => simpa [isAbs] using h

/-- transitivity: `a ∈ b.parents`, `b` a prefix of `c` ⇒ `a ∈ c.parents` -/
theorem mem_parentsOf_of_prefix {a b c : Parts} (h : a ∈ parentsOf b) (hbc : b <+: c) :
    a ∈ parentsOf c := by
  obtain ⟨k, h1, h2, rfl⟩ := mem_parentsOf.mp h
  obtain ⟨t, rfl⟩ := hbc
  refine mem_parentsOf.mpr ⟨k, ?_, by simp; omega, ?_⟩
  · by_cases hb : isAbs b = true
    · have : isAbs (b ++ t) = true := isAbs_of_prefix (List.prefix_append b t) hb
      simp only [this, if_true]; simpa [hb] using h1
    · by_cases hc : isAbs (b ++ t) = true
      · simp only [hc, if_true]
        -- b is not absolute but b ++ t is: b must be empty, impossible since k < |b|
        match b, hb, h2 with
        | x :: xs, hb, _ =>
          exfalso
          apply hb
          exact isAbs_prefix_of_ne_nil (List.prefix_append _ t) (by simp) hc
      · simp [hc]
  · rw [List.take_append_of_le_length (by omega)]

/-- the parents of `p` form a chain: each later one is a parent of each earlier one -/
theorem parentsOf_pairwise (p : Parts) :
    (parentsOf p).Pairwise (fun a b => b <+: a ∧ b.length < a.length) := by
  unfold parentsOf
  rw [List.pairwise_map, List.pairwise_reverse]
  have : (List.range' (if isAbs p then 1 else 0) (p.length - if isAbs p then 1 else 0)).Pairwise
      (fun a b => a < b) := List.pairwise_lt_range'
  refine (List.Pairwise.and_mem.mp this).imp ?_
  intro a b ⟨ha, hb, hab⟩
  simp only [List.mem_range'_1] at ha hb
  refine ⟨?_, by simp; omega⟩
  rw [List.prefix_iff_eq_take]
  simp [List.take_take]; omega

/-! ## the upward traversal is a filter -/

/-- the condition under which the loop keeps a parent directory -/
def keeps (proj : Parts) (hasInit : Parts → Bool) (addInit : Bool) (par : Parts) : Bool :=
  decide (proj ∈ parentsOf par) && (addInit || !hasInit par)

theorem ne_of_mem_parentsOf {p q : Parts} (h : q ∈ parentsOf p) : p ≠ q := by
  intro e
  have := (parentsOf_prefix h).2
  rw [e] at this
  omega

theorem traverseParts_eq_filter (proj : Parts) (hasInit : Parts → Bool) (addInit : Bool)
    (l : List Parts) (hl : l.Pairwise (fun a b => b <+: a ∧ b.length < a.length)) :
    traverseParts proj hasInit addInit l = l.filter (keeps proj hasInit addInit) := by
  induction l with
  | nil => rfl
  | cons par rest ih =>
    rw [List.pairwise_cons] at hl
    unfold traverseParts
    by_cases hin : proj ∈ parentsOf par
    · have hne : par ≠ proj := ne_of_mem_parentsOf hin
      simp only [hne, decide_false, hin, decide_true, Bool.not_true, Bool.or_self,
        Bool.false_eq_true, if_false]
      rw [List.filter_cons, ih hl.2]
      by_cases hk : (!addInit && hasInit par) = true
      · have : keeps proj hasInit addInit par = false := by
          simp only [Bool.and_eq_true, Bool.not_eq_true'] at hk
          simp [keeps, hin, hk.1, hk.2]
        simp [hk, this]
      · have : keeps proj hasInit addInit par = true := by
          simp only [Bool.and_eq_true, Bool.not_eq_true', not_and, Bool.not_eq_true] at hk
          simp only [keeps, hin, decide_true, Bool.true_and, Bool.or_eq_true, Bool.not_eq_true']
          cases haI : addInit
          · right; exact hk haI
          · left; rfl
        simp [hk, this]
    · simp only [hin, decide_false, Bool.not_false, Bool.or_true, if_true]
      symm
      rw [List.filter_eq_nil_iff]
      intro q hq
      rcases List.mem_cons.mp hq with rfl | hq
      · simp [keeps, hin]
      · have hqp := hl.1 q hq
        have : proj ∉ parentsOf q := fun h => hin (mem_parentsOf_of_prefix h hqp.1)
        simp [keeps, this]

theorem traversed_eq_filter (proj : Parts) (hasInit : Parts → Bool) (addInit : Bool) (script : Parts) :
    traversed proj hasInit addInit script = (parentsOf script).filter (keeps proj hasInit addInit) :=
  traverseParts_eq_filter _ _ _ _ (parentsOf_pairwise script)

/-! ## composition -/

theorem compose_std (pre base suf : List String) :
    compose ["prefixed", "sys_path", "suffixed"] pre base suf = pre ++ base ++ suf := by
  simp [compose, List.flatMap]

/-! ## constructor -/

theorem init_envPath {params : List String} {envStr absAlways : Bool} {cwd : Parts}
    {kw : List (String × PyVal)} {p : Project} (h : init params envStr absAlways cwd kw = .ok p) :
    p.envPath = initEnv envStr (dictGet kw "environment_path") := by
  unfold init at h
  simp only [bind, Except.bind, pure, Except.pure] at h
  split at h
  · cases h
  repeat' split at h
  all_goals cases h
  all_goals rfl

theorem init_path {params : List String} {envStr absAlways : Bool} {cwd : Parts}
    {kw : List (String × PyVal)} {p : Project} (h : init params envStr absAlways cwd kw = .ok p) :
    initPath absAlways cwd (dictGet kw "path") = .ok p.path := by
  unfold init at h
  simp only [bind, Except.bind, pure, Except.pure] at h
  split at h
  · cases h
  split at h
  · cases h
  next q hq =>
    rw [hq]
    repeat' split at h
    all_goals cases h
    all_goals rfl

end JediModel.SysPath

import JediModel.Model.RefsMulti
import JediModel.Lemmas.Refs
/-! Lemmas about the multi-module scan: monotonicity of the found set, the "remembered" invariant
(every scanned token is either completely found or still filed under every one of its keys), the
late merge, and flattening of the module structure when the map is created once. -/
namespace JediModel.RefsMulti
open JediModel.Refs JediModel.Scopes

/-- the single-module model's step is `stepA` on the token's `_find_names` answer -/
theorem scanStep_eq_stepA (p : Prog) (st : ScanState) (o : Nat) :
    scanStep p st o = stepA st (findNames lastOf p o) := rfl

theorem stepA_found_mono (st : ScanState) (new : List Nat) (a : Nat) (h : a ∈ st.found) :
    a ∈ (stepA st new).found := by
  unfold stepA
  split
  · simp only
    rw [mem_foldl_insertAll (fun kg : Nat × List Nat => kg.2)]
    exact Or.inl (mem_insertAll.mpr (Or.inl h))
  · exact h

theorem scanTokens_found_mono (toks : List (List Nat)) (st : ScanState) (a : Nat) (h : a ∈ st.found) :
    a ∈ (scanTokens toks st).found := by
  unfold scanTokens
  induction toks generalizing st with
  | nil => exact h
  | cons t ts ih => exact ih _ (stepA_found_mono st t a h)

/-- a scanned token `n` is not lost: all of it is found, or it is still filed under each of its keys -/
def Remembered (st : ScanState) (n : List Nat) : Prop :=
  (∀ a ∈ n, a ∈ st.found) ∨ (∀ k ∈ n, (k, n) ∈ st.nonMatching)

theorem stepA_remembered_self (st : ScanState) (new : List Nat) : Remembered (stepA st new) new := by
  unfold stepA
  split
  · left
    intro a ha
    simp only
    rw [mem_foldl_insertAll (fun kg : Nat × List Nat => kg.2)]
    exact Or.inl (mem_insertAll.mpr (Or.inr ha))
  · right
    intro k hk
    simp only [List.mem_append, List.mem_map]
    exact Or.inr ⟨k, hk, rfl⟩

theorem stepA_remembered (st : ScanState) (new n : List Nat) (h : Remembered st n) :
    Remembered (stepA st new) n := by
  rcases h with h | h
  · exact Or.inl fun a ha => stepA_found_mono st new a (h a ha)
  · unfold stepA
    split
    · simp only
      by_cases hk : ∃ k ∈ n, new.contains k = true
      · obtain ⟨k, hkn, hknew⟩ := hk
        left
        intro a ha
        rw [mem_foldl_insertAll (fun kg : Nat × List Nat => kg.2)]
        refine Or.inr ⟨(k, n), ?_, ha⟩
        exact List.mem_filter.mpr ⟨h k hkn, hknew⟩
      · right
        intro k hkn
        refine List.mem_filter.mpr ⟨h k hkn, ?_⟩
        have : ¬ new.contains k = true := fun hc => hk ⟨k, hkn, hc⟩
        simpa using this
    · right
      intro k hkn
      simp only [List.mem_append]
      exact Or.inl (h k hkn)

theorem scanTokens_remembered (toks : List (List Nat)) (st : ScanState) (n : List Nat)
    (h : Remembered st n) : Remembered (scanTokens toks st) n := by
  unfold scanTokens
  induction toks generalizing st with
  | nil => exact h
  | cons t ts ih => exact ih _ (stepA_remembered st t n h)

/-- the merge step: a remembered token that shares a key with a matching token becomes found -/
theorem stepA_late_merge (st : ScanState) (new n : List Nat) (h : Remembered st n)
    (hx : ∃ x ∈ new, x ∈ st.found) (hk : ∃ k ∈ n, k ∈ new) :
    ∀ a ∈ n, a ∈ (stepA st new).found := by
  rcases h with h | h
  · exact fun a ha => stepA_found_mono st new a (h a ha)
  · obtain ⟨x, hxn, hxf⟩ := hx
    obtain ⟨k, hkn, hknew⟩ := hk
    have hany : new.any (st.found.contains ·) = true := by
      rw [List.any_eq_true]
      exact ⟨x, hxn, by simpa using hxf⟩
    intro a ha
    unfold stepA
    rw [if_pos hany]
    simp only
    rw [mem_foldl_insertAll (fun kg : Nat × List Nat => kg.2)]
    refine Or.inr ⟨(k, n), ?_, ha⟩
    exact List.mem_filter.mpr ⟨h k hkn, by simpa using hknew⟩

theorem scanTokens_append (a b : List (List Nat)) (st : ScanState) :
    scanTokens (a ++ b) st = scanTokens b (scanTokens a st) := by
  unfold scanTokens
  exact List.foldl_append

/-- **late merge** over one token list: a token `n` scanned before a token `n'` that contains one of
the names found at the start and shares a name with `n` ends up completely found, wherever the two
tokens stand -/
theorem late_merge_tokens (st : ScanState) (pre mid post : List (List Nat)) (n n' : List Nat)
    (hx : ∃ x ∈ n', x ∈ st.found) (hk : ∃ k ∈ n, k ∈ n') :
    ∀ a ∈ n, a ∈ (scanTokens (pre ++ n :: (mid ++ n' :: post)) st).found := by
  intro a ha
  have e : pre ++ n :: (mid ++ n' :: post) = pre ++ ([n] ++ (mid ++ ([n'] ++ post))) := by simp
  rw [e, scanTokens_append, scanTokens_append, scanTokens_append, scanTokens_append]
  apply scanTokens_found_mono
  -- state before n'
  have hrem : Remembered (scanTokens mid (scanTokens [n] (scanTokens pre st))) n :=
    scanTokens_remembered mid _ n (by
      show Remembered (stepA (scanTokens pre st) n) n
      exact stepA_remembered_self _ n)
  obtain ⟨x, hxn, hxf⟩ := hx
  have hxf' : x ∈ (scanTokens mid (scanTokens [n] (scanTokens pre st))).found :=
    scanTokens_found_mono mid _ x (scanTokens_found_mono [n] _ x (scanTokens_found_mono pre st x hxf))
  show a ∈ (stepA _ n').found
  exact stepA_late_merge _ n' n hrem ⟨x, hxn, hxf'⟩ hk a ha

/-- when the map of non-matching references is created once, module boundaries are invisible -/
theorem scanModules_false_flat (mods : List (List (List Nat))) (st : ScanState) :
    scanModules false mods st = scanTokens mods.flatten st := by
  unfold scanModules
  induction mods generalizing st with
  | nil => rfl
  | cons m ms ih =>
    simp only [List.foldl_cons, List.flatten_cons, scanTokens_append]
    exact ih _

end JediModel.RefsMulti

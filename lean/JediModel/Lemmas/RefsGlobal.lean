import JediModel.Model.RefsGlobal
import JediModel.Lemmas.Refs
namespace JediModel.Refs
open JediModel.Scopes

theorem globalVariablesOf_false (p : Prog) (ctxs : List Nat) (x : Nat) :
    globalVariablesOf false p ctxs x = globalVariables p x := by
  unfold globalVariablesOf globalVariables
  simp only [globalLinked, Bool.not_false, Bool.true_or, if_true]
  rfl

theorem definingNamesG_false (p : Prog) (u : Nat) : definingNamesG false p u = definingNames p u := by
  unfold definingNamesG definingNames
  cases p.occs[u]? with
  | none => rfl
  | some o => simp only [globalVariablesOf_false]; rfl

theorem refsG_false (p : Prog) (u : Nat) : refsG false p u = refs p u := by
  unfold refsG refs
  cases p.occs[u]? with
  | none => rfl
  | some o => simp only [definingNamesG_false]

/-- the fold of the global step: what a linked statement contributes stays -/
theorem globalFold_mono (b : Bool) (p : Prog) (ctxs : List Nat) (x : Nat) (gs : List Nat) (acc : List Nat)
    (a : Nat) (h : a ∈ acc) :
    a ∈ gs.foldl (fun acc g =>
      match p.occs[g]? with
      | some o =>
        if globalLinked b ctxs o.scope then insertAll (addNew acc g) (allDefsIn p o.scope x)
        else acc
      | none => acc) acc := by
  induction gs generalizing acc with
  | nil => exact h
  | cons g gs ih =>
    simp only [List.foldl_cons]
    apply ih
    split
    · split
      · exact mem_insertAll.mpr (Or.inl (mem_addNew.mpr (Or.inl h)))
      · exact h
    · exact h

theorem globalFold_linked (b : Bool) (p : Prog) (ctxs : List Nat) (x : Nat) (gs : List Nat) (acc : List Nat)
    (g : Nat) (og : Occ) (hg : g ∈ gs) (hog : p.occs[g]? = some og)
    (hl : globalLinked b ctxs og.scope = true) (a : Nat) (ha : a = g ∨ a ∈ allDefsIn p og.scope x) :
    a ∈ gs.foldl (fun acc g =>
      match p.occs[g]? with
      | some o =>
        if globalLinked b ctxs o.scope then insertAll (addNew acc g) (allDefsIn p o.scope x)
        else acc
      | none => acc) acc := by
  induction gs generalizing acc with
  | nil => cases hg
  | cons g' gs ih =>
    simp only [List.foldl_cons]
    rcases List.mem_cons.mp hg with rfl | hg'
    · apply globalFold_mono
      rw [hog]
      simp only [hl, if_true]
      rcases ha with rfl | ha
      · exact mem_insertAll.mpr (Or.inl (mem_addNew.mpr (Or.inr rfl)))
      · exact mem_insertAll.mpr (Or.inr ha)
    · exact ih _ hg'

/-- a linked `global x` statement and every definition of `x` in its scope are in the result -/
theorem mem_globalVariablesOf (b : Bool) (p : Prog) (ctxs : List Nat) (x g : Nat) (og : Occ)
    (hg : g ∈ globalDecls p x) (hog : p.occs[g]? = some og)
    (hl : globalLinked b ctxs og.scope = true) (a : Nat) (ha : a = g ∨ a ∈ allDefsIn p og.scope x) :
    a ∈ globalVariablesOf b p ctxs x := by
  unfold globalVariablesOf
  exact globalFold_linked b p ctxs x _ [] g og hg hog hl a ha

theorem globalVariablesOf_sub_definingNamesG (b : Bool) (p : Prog) (u : Nat) (o : Occ)
    (ho : p.occs[u]? = some o) (a : Nat) (ha : a ∈ globalVariablesOf b p (foundCtxs p u) o.name) :
    a ∈ definingNamesG b p u := by
  unfold definingNamesG
  rw [ho]
  simp only
  rw [mem_foldl_insertAll]
  exact Or.inl (mem_insertAll.mpr (Or.inr ha))

theorem definingNamesG_sub_refsG (b : Bool) (p : Prog) (u : Nat) (o : Occ)
    (ho : p.occs[u]? = some o) (a : Nat) (ha : a ∈ definingNamesG b p u) : a ∈ refsG b p u := by
  unfold refsG
  rw [ho]
  exact scan_found_mono p _ _ a ha

end JediModel.Refs

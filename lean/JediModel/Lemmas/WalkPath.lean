import JediModel.Lemmas.Walk
/-! Path-string lemmas for `Model/Walk`: `rstrip('/')`, `os.path.join`, and the separator-aware
test `covers` of `expand_relative_ignore_paths`. -/
namespace JediModel.Walk

theorem lstripSlash_spec (t : Str) :
    ∃ k, t = List.replicate k '/' ++ lstripSlash t ∧ (lstripSlash t).head? ≠ some '/' := by
  induction t with
  | nil => exact ⟨0, rfl, by simp [lstripSlash]⟩
  | cons c cs ih =>
    simp only [lstripSlash]
    split
    · rename_i hc
      obtain ⟨k, h1, h2⟩ := ih
      refine ⟨k + 1, ?_, h2⟩
      rw [List.replicate_succ, List.cons_append, ← h1, hc]
    · rename_i hc
      exact ⟨0, rfl, by simpa using hc⟩

theorem rstripSlash_spec (s : Str) :
    ∃ k, s = rstripSlash s ++ List.replicate k '/' ∧ (rstripSlash s).getLast? ≠ some '/' := by
  obtain ⟨k, h1, h2⟩ := lstripSlash_spec s.reverse
  refine ⟨k, ?_, ?_⟩
  · have := congrArg List.reverse h1
    simpa [rstripSlash] using this
  · simpa [rstripSlash, List.getLast?_reverse] using h2

/-- `os.path.join(D, n)` for a relative `n` starts with `D` -/
theorem prefix_osJoin (D n : Str) (hn : n.head? ≠ some '/') : D <+: osJoin D n := by
  unfold osJoin
  simp only [hn, if_false]
  split
  · exact List.prefix_append _ _
  · exact List.prefix_append _ _

/-- `os.path.join(D, n)` for a non-empty `D` and a relative `n` starts with `D.rstrip('/') + '/'` -/
theorem rstrip_sep_prefix_osJoin (D n : Str) (hD : D ≠ []) (hn : n.head? ≠ some '/') :
    (rstripSlash D ++ ['/']) <+: osJoin D n := by
  obtain ⟨k, h1, h2⟩ := rstripSlash_spec D
  unfold osJoin
  simp only [hn, if_false]
  cases k with
  | zero =>
    simp only [List.replicate_zero, List.append_nil] at h1
    have hl : ¬ (D = [] ∨ D.getLast? = some '/') := by
      rintro (h | h)
      · exact hD h
      · rw [h1] at h; exact h2 h
    simp only [hl, if_false]
    rw [← h1]
    exact ⟨n, by simp⟩
  | succ k =>
    have hl : D.getLast? = some '/' := by
      rw [h1, List.replicate_succ']; simp
    simp only [hl, or_true, if_true]
    refine ⟨List.replicate k '/' ++ n, ?_⟩
    conv => rhs; rw [h1, List.replicate_succ]
    simp

/-- the entries of a `.gitignore` in `g` that apply in `D` also apply in every sub-directory of `D` -/
theorem covers_osJoin (g D n : Str) (hD : D ≠ []) (hn : n.head? ≠ some '/') (h : covers g D = true) :
    covers g (osJoin D n) = true := by
  simp only [covers, Bool.or_eq_true, decide_eq_true_eq, List.isPrefixOf_iff_prefix] at h ⊢
  right
  rcases h with h | h
  · subst h; exact rstrip_sep_prefix_osJoin D n hD hn
  · exact List.IsPrefix.trans h (prefix_osJoin D n hn)

theorem covers_self (g : Str) : covers g g = true := by simp [covers]

theorem osJoin_ne_nil (D n : Str) (hn : n ≠ []) : osJoin D n ≠ [] := by
  unfold osJoin
  split
  · exact hn
  · split
    · simp [hn]
    · simp

/-- along a chain of sub-directories of `D` the entries of a `.gitignore` that apply in `D` keep
applying: in every directory on the chain and in the directory at its end -/
theorem Chain.covers {g D : Str} {post : List Anc} (hc : Chain D post) (hD : D ≠ [])
    (hn : ∀ y ∈ post, y.name ≠ [] ∧ y.name.head? ≠ some '/') (h : covers g D = true) :
    (∀ y ∈ post, Walk.covers g y.parent = true) ∧
    Walk.covers g (post.foldl (fun p y => osJoin p y.name) D) = true := by
  induction post generalizing D with
  | nil => exact ⟨fun y hy => (by cases hy), h⟩
  | cons x rest ih =>
    obtain ⟨h1, h2⟩ := hc
    have hx := hn x List.mem_cons_self
    obtain ⟨i1, i2⟩ := ih h2 (osJoin_ne_nil D x.name hx.1)
      (fun y hy => hn y (List.mem_cons_of_mem _ hy)) (covers_osJoin g D x.name hD hx.2 h)
    refine ⟨fun y hy => ?_, by simpa [List.foldl] using i2⟩
    rcases List.mem_cons.mp hy with hy | hy
    · subst hy; rw [h1]; exact h
    · exact i1 y hy

/-- the relative entries `gitignored_paths` returns carry the folder of the `.gitignore` -/
theorem gitignoredPaths_rel_fst (cfg : Cfg) (folder content : Str) :
    ∀ e ∈ (gitignoredPaths cfg folder content).2, e.1 = folder := by
  intro e he
  simp only [gitignoredPaths, List.mem_filterMap] at he
  obtain ⟨x, ⟨l, _, hl⟩, hx⟩ := he
  unfold gitignoreLine at hl
  split at hl
  · cases hl
  · simp only at hl
    split at hl
    · cases hl; simp at hx
    · cases hl
      simp only [Option.some.injEq] at hx
      subst hx; rfl

/-! ## from `Good` to the individual tests -/

theorem keepDir_exc {cfg : Cfg} (hc : "not_in_except_paths" ∈ cfg.conjuncts) {P n : Str} {S : St}
    (h : keepDir cfg P S n = true) : osJoin P n ∉ S.exc := by
  simp only [keepDir, List.all_eq_true] at h
  simpa [conjunct] using h _ hc

theorem keepDir_rel {cfg : Cfg} (hc : "not_in_relative_expanded" ∈ cfg.conjuncts) {P n : Str} {S : St}
    (h : keepDir cfg P S n = true) : osJoin P n ∉ expandRel P S.rel := by
  simp only [keepDir, List.all_eq_true] at h
  simpa [conjunct] using h _ hc

theorem fileOk_exc {cfg : Cfg} (hc : "not_in_except_paths" ∈ cfg.fileConjuncts) {P n : Str} {S : St}
    (h : fileOk cfg P S n = true) : osJoin P n ∉ S.exc := by
  simp only [fileOk, List.all_eq_true] at h
  simpa [conjunct] using h _ hc

theorem fileOk_rel {cfg : Cfg} (hc : "not_in_relative_expanded" ∈ cfg.fileConjuncts) {P n : Str} {S : St}
    (h : fileOk cfg P S n = true) : osJoin P n ∉ expandRel P S.rel := by
  simp only [fileOk, List.all_eq_true] at h
  simpa [conjunct] using h _ hc

/-- a relative entry `(g, n)` of the state that applies in `P` excludes the entry named `n` of `P` -/
theorem not_named_of_not_expanded {P m : Str} {rel : List (Str × Str)} {e : Str × Str}
    (h : osJoin P m ∉ expandRel P rel) (he : e ∈ rel) (hc : covers e.1 P = true) : m ≠ e.2 := by
  intro heq
  apply h
  rw [mem_expandRel]
  exact ⟨e, he, hc, by rw [heq]⟩

/-- every event of the walk satisfies the local specification, starting from the state
"initial `except_paths` plus the root's `.gitignore` files" -/
theorem walkRoot_good (cfg : Cfg) (root : Str) (st : St) (files : List FileEnt) (children : Forest) :
    ∀ ev ∈ (walkRoot cfg root st files children).1,
      Good cfg (readGitignores cfg root st files) root ev.anc ev := by
  intro ev h
  simp only [walkRoot, List.mem_append] at h
  rcases h with (h | h) | h
  · obtain ⟨f, hf, hpy, hok, rfl⟩ := (mem_fileEvents _ _ _ _ _ _).mp h
    exact Good.nil_iff.mpr ⟨rfl, hok, rfl⟩
  · obtain ⟨n, cf, hkn, rfl⟩ := mem_folderEvents _ _ _ _ _ _ h
    exact Good.cons_iff.mpr ⟨rfl, hkn, .inl ⟨rfl, rfl, rfl, rfl⟩⟩
  · obtain ⟨new, hnew, hg⟩ := walkForest_good cfg _ root [] _ _ children (St.le_refl _) (St.le_refl _) ev h
    simp only [List.nil_append] at hnew
    rw [hnew]; exact hg

/-- the `.gitignore` files of a directory `x` on the way to an event are part of the state `S`
every test below `x` (directories `post`, and the file itself) was made with -/
theorem Good.honours {cfg : Cfg} {inh : St} {P : Str} {pre : List Anc} {x : Anc} {post : List Anc} {ev : Ev}
    (hg : Good cfg inh P (pre ++ x :: post) ev) :
    ∃ S, inh.le S ∧
      (∀ content, (⟨cfg.gitignoreName, content⟩ : FileEnt) ∈ x.files →
        (gitignoredPaths cfg (osJoin x.parent x.name) content).1 ⊆ S.exc ∧
        (gitignoredPaths cfg (osJoin x.parent x.name) content).2 ⊆ S.rel) ∧
      Chain (osJoin x.parent x.name) post ∧
      (∀ y ∈ post, keepDir cfg y.parent S y.name = true) ∧
      (ev.isFile = true →
        fileOk cfg (post.foldl (fun p y => osJoin p y.name) (osJoin x.parent x.name)) S ev.name = true ∧
        ev.path = osJoin (post.foldl (fun p y => osJoin p y.name) (osJoin x.parent x.name)) ev.name) := by
  obtain ⟨S0, _, hle, h3⟩ := hg.split
  refine ⟨readGitignores cfg (osJoin x.parent x.name) S0 x.files,
    St.le_trans hle (readGitignores_mono _ _ _ _), fun content hc => gitignore_read cfg _ S0 x.files content hc, ?_⟩
  rcases h3 with ⟨hp, hf⟩ | h3
  · subst hp
    exact ⟨trivial, fun y hy => (by cases hy), fun hc => (by rw [hf] at hc; cases hc)⟩
  · exact h3.all

end JediModel.Walk

import JediModel.Model.DocLit
/-! Helper lemmas for the docstring-literal decision (Props/C11.lean). -/
namespace JediModel.DocLit

theorem legalPrefixes_eq : legalPrefixes =
    [[], ['r'], ['R'], ['u'], ['U'], ['b'], ['B'],
     ['b','r'], ['B','r'], ['b','R'], ['B','R'], ['r','b'], ['R','b'], ['r','B'], ['R','B'],
     ['f'], ['F'], ['f','r'], ['F','r'], ['f','R'], ['F','R'], ['r','f'], ['R','f'], ['r','F'], ['R','F']] := by
  decide

/-- the guard of `safe_literal_eval` on a well-formed token sees the prefix only: whatever the
body is (also empty, also starting with `f`, `b`, `r`), the answer is "the prefix has an f" -/
theorem skipsEval_token (p q body : Str) (hp : p ∈ legalPrefixes) (hq : q ∈ quotes) :
    skipsEval 2 'f' [['f', 'r'], ['r', 'f']] (token p q body) = some (pyIsFString p) := by
  rw [legalPrefixes_eq] at hp
  simp only [quotes, List.mem_cons, List.not_mem_nil, or_false] at hp hq
  rcases hq with rfl | rfl | rfl | rfl <;>
  rcases hp with rfl | rfl | rfl | rfl | rfl | rfl | rfl | rfl | rfl | rfl | rfl | rfl | rfl | rfl | rfl | rfl | rfl | rfl | rfl | rfl | rfl | rfl | rfl | rfl | rfl <;>
  first
    | decide
    | (cases body <;> simp [token, skipsEval, lower, pyIsFString])

end JediModel.DocLit

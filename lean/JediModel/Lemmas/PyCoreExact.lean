import JediModel.Lemmas.PyCore
/-! Exactness: without conditionals jedi's inference yields exactly the erased run-time value. -/
namespace JediModel.PyCore

mutual
  def Expr.ternFree : Expr → Bool
    | .int | .str | .name _ => true
    | .tuple es => ternFreeList es
    | .index e _ => e.ternFree
    | .call f args => f.ternFree && ternFreeList args
    | .attr e _ => e.ternFree
    | .tern _ _ _ => false
  def ternFreeList : List Expr → Bool
    | [] => true
    | e :: es => e.ternFree && ternFreeList es
end

def Stmt.ternFree : Stmt → Bool
  | .assign _ e => e.ternFree
  | .unpack _ e => e.ternFree
  | .defn _ _ ret => ret.ternFree
  | .klass _ _ attrs => attrs.all fun ae => ae.2.ternFree
  | .probe e => e.ternFree

def Prog.ternFree (p : Prog) : Bool := p.all Stmt.ternFree

mutual
  /-- the shape of a value: payload-free, every tuple position a singleton -/
  def erase : Val → Shape
    | .int => .int
    | .str => .str
    | .func i => .func i
    | .cls i => .cls i
    | .inst i => .inst i
    | .tuple vs => .tuple (eraseList vs)
  def eraseList : List Val → List (List Shape)
    | [] => []
    | v :: vs => [erase v] :: eraseList vs
end

def eraseCtx : CtxC → CtxA
  | .module i => .module i
  | .func id vs => .func id (eraseList vs)

theorem eraseList_getElem {vs : List Val} {k : Nat} {v : Val} (h : vs[k]? = some v) :
    (eraseList vs)[k]? = some [erase v] := by
  induction vs generalizing k with
  | nil => simp at h
  | cons a as ih =>
    cases k with
    | zero =>
      simp only [List.getElem?_cons_zero, Option.some.injEq] at h
      subst h
      simp [eraseList]
    | succ k =>
      simp only [List.getElem?_cons_succ] at h
      simp only [eraseList, List.getElem?_cons_succ]
      exact ih h

theorem stmt_ternFree {p : Prog} (hp : p.ternFree = true) {j : Nat} {s : Stmt}
    (h : p[j]? = some s) : s.ternFree = true := by
  unfold Prog.ternFree at hp
  rw [List.all_eq_true] at hp
  exact hp s (List.mem_of_getElem? h)

theorem lastAttr_ternFree {attrs : List (Nat × Expr)} (h : attrs.all (fun ae => ae.2.ternFree) = true)
    {a : Nat} {e : Expr} (hl : lastAttr attrs a = some e) : e.ternFree = true := by
  unfold lastAttr at hl
  simp only [Option.map_eq_some_iff] at hl
  obtain ⟨ae, hae, rfl⟩ := hl
  have hmem := List.mem_of_getLast? hae
  have hmem' := (List.mem_filter.mp hmem).1
  rw [List.all_eq_true] at h
  exact h ae hmem'

theorem mapOpt_exact {f : Expr → Option Val} {g : Expr → List Shape} (es : List Expr)
    (htf : ternFreeList es = true)
    (h : ∀ e v, e.ternFree = true → f e = some v → g e = [erase v]) {vs : List Val}
    (hm : mapOpt f es = some vs) : es.map g = eraseList vs := by
  induction es generalizing vs with
  | nil =>
    simp only [mapOpt, Option.some.injEq] at hm
    subst hm
    rfl
  | cons e es ih =>
    simp only [ternFreeList, Bool.and_eq_true] at htf
    unfold mapOpt at hm
    cases hfe : f e with
    | none => simp [hfe] at hm
    | some b =>
      cases hrest : mapOpt f es with
      | none => simp [hfe, hrest] at hm
      | some bs =>
        simp only [hfe, hrest, Option.some.injEq] at hm
        subst hm
        simp only [List.map_cons, eraseList]
        rw [h e b htf.1 hfe, ih htf.2 hrest]

structure Exact (p : Prog) (fuel : Nat) : Prop where
  eval : ∀ cc e v, e.ternFree = true → evalC p fuel cc e = some v →
    mayE p fuel (eraseCtx cc) e = [erase v]
  name : ∀ x lim v, nameC p fuel x lim = some v → nameA p fuel x lim = [erase v]
  attr : ∀ id a v, attrC p fuel id a = some v → attrA p fuel id a = [erase v]

theorem exact_eval_succ (p : Prog) (hp : p.ternFree = true) (n : Nat) (ih : Exact p n) :
    ∀ cc e v, e.ternFree = true → evalC p (n + 1) cc e = some v →
      mayE p (n + 1) (eraseCtx cc) e = [erase v] := by
  intro cc e v htf h
  cases e with
  | int =>
    simp only [evalC, Option.some.injEq] at h
    subst h
    simp [mayE, erase]
  | str =>
    simp only [evalC, Option.some.injEq] at h
    subst h
    simp [mayE, erase]
  | name x =>
    cases cc with
    | module pos =>
      simp only [evalC] at h
      simp only [mayE, eraseCtx]
      exact ih.name x pos v h
    | func id args =>
      simp only [evalC] at h
      simp only [mayE, eraseCtx]
      cases hpj : p[id]? with
      | none => simp [hpj] at h
      | some st =>
        cases st with
        | defn f params ret =>
          simp only [hpj] at h ⊢
          cases hi : indexOf params x with
          | some i =>
            simp only [hi] at h ⊢
            simp [eraseList_getElem h]
          | none =>
            simp only [hi] at h ⊢
            exact ih.name x p.length v h
        | assign _ _ => simp [hpj] at h
        | unpack _ _ => simp [hpj] at h
        | klass _ _ _ => simp [hpj] at h
        | probe _ => simp [hpj] at h
  | tuple es =>
    simp only [Expr.ternFree] at htf
    simp only [evalC, Option.map_eq_some_iff] at h
    obtain ⟨vs, hvs, rfl⟩ := h
    simp only [mayE, erase]
    rw [mapOpt_exact es htf (fun e v he hv => ih.eval cc e v he hv) hvs]
  | index e k =>
    simp only [Expr.ternFree] at htf
    simp only [evalC] at h
    cases he : evalC p n cc e with
    | none => simp [he] at h
    | some w =>
      cases w with
      | tuple vs =>
        simp only [he] at h
        have hm := ih.eval cc e _ htf he
        simp only [mayE, hm, erase, List.flatMap_cons, List.flatMap_nil, List.append_nil]
        simp [eraseList_getElem h]
      | int => simp [he] at h
      | str => simp [he] at h
      | func _ => simp [he] at h
      | cls _ => simp [he] at h
      | inst _ => simp [he] at h
  | call f args =>
    simp only [Expr.ternFree, Bool.and_eq_true] at htf
    simp only [evalC] at h
    cases hf : evalC p n cc f with
    | none => simp [hf] at h
    | some fv =>
      cases hm : mapOpt (evalC p n cc) args with
      | none =>
        simp only [hf, hm] at h
        cases fv <;> simp at h
      | some vs =>
        have hargs : args.map (mayE p n (eraseCtx cc)) = eraseList vs :=
          mapOpt_exact args htf.2 (fun e v he hv => ih.eval cc e v he hv) hm
        have hmf := ih.eval cc f _ htf.1 hf
        simp only [mayE, hmf, hargs]
        cases fv with
        | func id =>
          simp only [hf, hm] at h
          simp only [erase, List.flatMap_cons, List.flatMap_nil, List.append_nil]
          cases hpj : p[id]? with
          | none => simp [hpj] at h
          | some st =>
            cases st with
            | defn g params ret =>
              simp only [hpj] at h ⊢
              split at h
              · have hret : ret.ternFree = true := by
                  have := stmt_ternFree hp hpj
                  simpa [Stmt.ternFree] using this
                exact ih.eval (.func id vs) ret v hret h
              · cases h
            | assign _ _ => simp [hpj] at h
            | unpack _ _ => simp [hpj] at h
            | klass _ _ _ => simp [hpj] at h
            | probe _ => simp [hpj] at h
        | cls id =>
          simp only [hf, hm] at h
          split at h
          · simp only [Option.some.injEq] at h
            subst h
            simp [erase]
          · cases h
        | int => simp [hf, hm] at h
        | str => simp [hf, hm] at h
        | tuple _ => simp [hf, hm] at h
        | inst _ => simp [hf, hm] at h
  | attr e a =>
    simp only [Expr.ternFree] at htf
    simp only [evalC] at h
    cases he : evalC p n cc e with
    | none => simp [he] at h
    | some w =>
      have hm := ih.eval cc e _ htf he
      simp only [mayE, hm]
      cases w with
      | inst id =>
        simp only [he] at h
        simp only [erase, List.flatMap_cons, List.flatMap_nil, List.append_nil]
        exact ih.attr id a v h
      | cls id =>
        simp only [he] at h
        simp only [erase, List.flatMap_cons, List.flatMap_nil, List.append_nil]
        exact ih.attr id a v h
      | int => simp [he] at h
      | str => simp [he] at h
      | tuple _ => simp [he] at h
      | func _ => simp [he] at h
  | tern c a b => simp [Expr.ternFree] at htf

theorem exact_name_succ (p : Prog) (hp : p.ternFree = true) (n : Nat) (ih : Exact p n) :
    ∀ x lim v, nameC p (n + 1) x lim = some v → nameA p (n + 1) x lim = [erase v] := by
  intro x lim v h
  simp only [nameC] at h
  simp only [nameA]
  cases hb : lastBinder p x lim with
  | none => simp [hb] at h
  | some j =>
    simp only [hb] at h ⊢
    cases hpj : p[j]? with
    | none => simp [hpj] at h
    | some st =>
      have hst := stmt_ternFree hp hpj
      cases st with
      | assign y e =>
        simp only [hpj] at h ⊢
        exact ih.eval (.module j) e v (by simpa [Stmt.ternFree] using hst) h
      | unpack xs e =>
        simp only [hpj] at h ⊢
        cases he : evalC p n (.module j) e with
        | none => simp [he] at h
        | some w =>
          cases hi : indexOf xs x with
          | none =>
            simp only [he, hi] at h
            cases w <;> simp at h
          | some i =>
            cases w with
            | tuple vs =>
              simp only [he, hi] at h
              split at h
              · have hm := ih.eval (.module j) e _ (by simpa [Stmt.ternFree] using hst) he
                simp only [eraseCtx] at hm
                simp only [hm, erase, List.flatMap_cons, List.flatMap_nil, List.append_nil]
                simp [eraseList_getElem h]
              · cases h
            | int => simp [he, hi] at h
            | str => simp [he, hi] at h
            | func _ => simp [he, hi] at h
            | cls _ => simp [he, hi] at h
            | inst _ => simp [he, hi] at h
      | defn f params ret =>
        simp only [hpj, Option.some.injEq] at h ⊢
        subst h
        rfl
      | klass c base attrs =>
        simp only [hpj, Option.some.injEq] at h ⊢
        subst h
        rfl
      | probe e => simp [hpj] at h

theorem exact_attr_succ (p : Prog) (hp : p.ternFree = true) (n : Nat) (ih : Exact p n) :
    ∀ id a v, attrC p (n + 1) id a = some v → attrA p (n + 1) id a = [erase v] := by
  intro id a v h
  simp only [attrC] at h
  simp only [attrA]
  cases hpj : p[id]? with
  | none => simp [hpj] at h
  | some st =>
    have hst := stmt_ternFree hp hpj
    cases st with
    | klass c base attrs =>
      simp only [hpj] at h ⊢
      cases hl : lastAttr attrs a with
      | some e =>
        simp only [hl] at h ⊢
        have he : e.ternFree = true := lastAttr_ternFree (by simpa [Stmt.ternFree] using hst) hl
        exact ih.eval (.module id) e v he h
      | none =>
        simp only [hl] at h ⊢
        cases base with
        | none => simp at h
        | some b =>
          simp only at h ⊢
          cases hn : nameC p n b id with
          | none => simp [hn] at h
          | some w =>
            cases w with
            | cls bid =>
              simp only [hn] at h
              have hm := ih.name b id _ hn
              simp only [hm, erase, List.flatMap_cons, List.flatMap_nil, List.append_nil]
              exact ih.attr bid a v h
            | int => simp [hn] at h
            | str => simp [hn] at h
            | tuple _ => simp [hn] at h
            | func _ => simp [hn] at h
            | inst _ => simp [hn] at h
    | assign _ _ => simp [hpj] at h
    | unpack _ _ => simp [hpj] at h
    | defn _ _ _ => simp [hpj] at h
    | probe _ => simp [hpj] at h

theorem exact (p : Prog) (hp : p.ternFree = true) : ∀ fuel, Exact p fuel := by
  intro fuel
  induction fuel with
  | zero =>
    exact ⟨by intro cc e v _ h; simp [evalC] at h,
           by intro x lim v h; simp [nameC] at h,
           by intro id a v h; simp [attrC] at h⟩
  | succ n ih =>
    exact ⟨exact_eval_succ p hp n ih, exact_name_succ p hp n ih, exact_attr_succ p hp n ih⟩

end JediModel.PyCore

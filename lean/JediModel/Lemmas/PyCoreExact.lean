import JediModel.Lemmas.PyCore
/-! Exactness: without conditionals jedi's inference yields exactly the erased run-time value. -/
namespace JediModel.PyCore

mutual
  def Expr.ternFree : Expr → Bool
    | .int | .str | .name _ | .self => true
    | .tuple es => ternFreeList es
    | .index e _ => e.ternFree
    | .call f args => f.ternFree && ternFreeList args
    | .attr e _ => e.ternFree
    | .tern _ _ _ => false
  def ternFreeList : List Expr → Bool
    | [] => true
    | e :: es => e.ternFree && ternFreeList es
end

def Stmt.ternFree : Stmt → Bool
  | .assign _ e => e.ternFree
  | .unpack _ e => e.ternFree
  | .defn _ _ ret => ret.ternFree
  | .klass _ _ attrs init methods =>
    (attrs.all fun ae => ae.2.ternFree) &&
    (match init with
     | some i => i.assigns.all fun ae => ae.2.ternFree
     | none => true) &&
    (methods.all fun m => m.ret.ternFree)
  | .probe e => e.ternFree

def Prog.ternFree (p : Prog) : Bool := p.all Stmt.ternFree

mutual
  /-- the shape of a value: payload-free, every tuple position a singleton -/
  def erase : Val → Shape
    | .int => .int
    | .str => .str
    | .func i => .func i
    | .cls i => .cls i
    | .inst i vs => .inst i (eraseList vs)
    | .bound r c m => .bound (erase r) c m
    | .tuple vs => .tuple (eraseList vs)
  def eraseList : List Val → List (List Shape)
    | [] => []
    | v :: vs => [erase v] :: eraseList vs
end

def eraseCtx : CtxC → CtxA
  | .module i => .module i
  | .func id vs => .func id (eraseList vs)
  | .meth c m sv vs => .meth c m (erase sv) (eraseList vs)

/-- every attribute is assigned at most once in every `__init__` (jedi reports the union of all
assignments to `self.a`, Python keeps the last) -/
def SingleAssignInit (p : Prog) : Bool :=
  p.all fun s =>
    match s with
    | .klass _ _ _ (some i) _ => i.assigns.all fun ae => (allAttr i.assigns ae.1).length ≤ 1
    | _ => true

theorem eraseList_getElem {vs : List Val} {k : Nat} {v : Val} (h : vs[k]? = some v) :
    (eraseList vs)[k]? = some [erase v] := by
  induction vs generalizing k with
  | nil => simp at h
  | cons a as ih =>
    cases k with
    | zero =>
      simp only [List.getElem?_cons_zero, Option.some.injEq] at h
      subst h
      simp [eraseList]
    | succ k =>
      simp only [List.getElem?_cons_succ] at h
      simp only [eraseList, List.getElem?_cons_succ]
      exact ih h

theorem stmt_ternFree {p : Prog} (hp : p.ternFree = true) {j : Nat} {s : Stmt}
    (h : p[j]? = some s) : s.ternFree = true := by
  unfold Prog.ternFree at hp
  rw [List.all_eq_true] at hp
  exact hp s (List.mem_of_getElem? h)

theorem lastAttr_ternFree {attrs : List (Nat × Expr)} (h : attrs.all (fun ae => ae.2.ternFree) = true)
    {a : Nat} {e : Expr} (hl : lastAttr attrs a = some e) : e.ternFree = true := by
  unfold lastAttr at hl
  simp only [Option.map_eq_some_iff] at hl
  obtain ⟨ae, hae, rfl⟩ := hl
  have hmem := List.mem_of_getLast? hae
  have hmem' := (List.mem_filter.mp hmem).1
  rw [List.all_eq_true] at h
  exact h ae hmem'

theorem mapOpt_exact {f : Expr → Option Val} {g : Expr → List Shape} (es : List Expr)
    (htf : ternFreeList es = true)
    (h : ∀ e v, e.ternFree = true → f e = some v → g e = [erase v]) {vs : List Val}
    (hm : mapOpt f es = some vs) : es.map g = eraseList vs := by
  induction es generalizing vs with
  | nil =>
    simp only [mapOpt, Option.some.injEq] at hm
    subst hm
    rfl
  | cons e es ih =>
    simp only [ternFreeList, Bool.and_eq_true] at htf
    unfold mapOpt at hm
    cases hfe : f e with
    | none => simp [hfe] at hm
    | some b =>
      cases hrest : mapOpt f es with
      | none => simp [hfe, hrest] at hm
      | some bs =>
        simp only [hfe, hrest, Option.some.injEq] at hm
        subst hm
        simp only [List.map_cons, eraseList]
        rw [h e b htf.1 hfe, ih htf.2 hrest]

theorem methods_ternFree {ms : List Method} (h : ms.all (fun m => m.ret.ternFree) = true)
    {a : Nat} {md : Method} (hf : findMethod ms a = some md) : md.ret.ternFree = true := by
  unfold findMethod at hf
  have hmem := (List.mem_filter.mp (List.mem_of_getLast? hf)).1
  rw [List.all_eq_true] at h
  exact h md hmem

structure Exact (p : Prog) (fuel : Nat) : Prop where
  eval : ∀ cc e v, e.ternFree = true → evalC p fuel cc e = some v →
    mayE p fuel (eraseCtx cc) e = [erase v]
  name : ∀ x lim v, nameC p fuel x lim = some v → nameA p fuel x lim = [erase v]
  attr : ∀ rc id a v, attrC p fuel rc id a = some v →
    attrA p fuel (rc.map erase) id a = [erase v]
  selfFound : ∀ id sv vs a v, selfAttrC p fuel id sv vs a = .found v →
    selfAttrA p fuel id (erase sv) (eraseList vs) a = some [erase v]
  selfMissing : ∀ id sv vs a, selfAttrC p fuel id sv vs a = .missing →
    selfAttrA p fuel id (erase sv) (eraseList vs) a = none

theorem exact_eval_succ (p : Prog) (hp : p.ternFree = true) (n : Nat) (ih : Exact p n) :
    ∀ cc e v, e.ternFree = true → evalC p (n + 1) cc e = some v →
      mayE p (n + 1) (eraseCtx cc) e = [erase v] := by
  intro cc e v htf h
  cases e with
  | int =>
    simp only [evalC, Option.some.injEq] at h
    subst h
    simp [mayE, erase]
  | str =>
    simp only [evalC, Option.some.injEq] at h
    subst h
    simp [mayE, erase]
  | name x =>
    cases cc with
    | module pos =>
      simp only [evalC] at h
      simp only [mayE, eraseCtx]
      exact ih.name x pos v h
    | func id args =>
      simp only [evalC] at h
      simp only [mayE, eraseCtx]
      cases hpj : p[id]? with
      | none => simp [hpj] at h
      | some st =>
        cases st with
        | defn f params ret =>
          simp only [hpj] at h ⊢
          cases hi : indexOf params x with
          | some i =>
            simp only [hi] at h ⊢
            simp [eraseList_getElem h]
          | none =>
            simp only [hi] at h ⊢
            exact ih.name x p.length v h
        | assign _ _ => simp [hpj] at h
        | unpack _ _ => simp [hpj] at h
        | klass _ _ _ _ _ => simp [hpj] at h
        | probe _ => simp [hpj] at h
    | meth cid m sv args =>
      simp only [evalC] at h
      simp only [mayE, eraseCtx]
      cases hmp : methodParams p cid m with
      | none => simp [hmp] at h
      | some params =>
        simp only [hmp] at h ⊢
        cases hi : indexOf params x with
        | some i =>
          simp only [hi] at h ⊢
          simp [eraseList_getElem h]
        | none =>
          simp only [hi] at h ⊢
          exact ih.name x p.length v h
  | self =>
    cases cc with
    | module _ => simp [evalC] at h
    | func _ _ => simp [evalC] at h
    | meth cid m sv args =>
      simp only [evalC, Option.some.injEq] at h
      subst h
      simp [mayE, eraseCtx]
  | tuple es =>
    simp only [Expr.ternFree] at htf
    simp only [evalC, Option.map_eq_some_iff] at h
    obtain ⟨vs, hvs, rfl⟩ := h
    simp only [mayE, erase]
    rw [mapOpt_exact es htf (fun e v he hv => ih.eval cc e v he hv) hvs]
  | index e k =>
    simp only [Expr.ternFree] at htf
    simp only [evalC] at h
    cases he : evalC p n cc e with
    | none => simp [he] at h
    | some w =>
      cases w with
      | tuple vs =>
        simp only [he] at h
        have hm := ih.eval cc e _ htf he
        simp only [mayE, hm, erase, List.flatMap_cons, List.flatMap_nil, List.append_nil]
        simp [eraseList_getElem h]
      | int => simp [he] at h
      | str => simp [he] at h
      | func _ => simp [he] at h
      | cls _ => simp [he] at h
      | inst _ _ => simp [he] at h
      | bound _ _ _ => simp [he] at h
  | call f args =>
    simp only [Expr.ternFree, Bool.and_eq_true] at htf
    simp only [evalC] at h
    cases hf : evalC p n cc f with
    | none => simp [hf] at h
    | some fv =>
      cases hm : mapOpt (evalC p n cc) args with
      | none =>
        simp only [hf, hm] at h
        cases fv <;> simp at h
      | some vs =>
        have hargs : args.map (mayE p n (eraseCtx cc)) = eraseList vs :=
          mapOpt_exact args htf.2 (fun e v he hv => ih.eval cc e v he hv) hm
        have hmf := ih.eval cc f _ htf.1 hf
        simp only [mayE, hmf, hargs]
        cases fv with
        | func id =>
          simp only [hf, hm] at h
          simp only [erase, List.flatMap_cons, List.flatMap_nil, List.append_nil]
          cases hpj : p[id]? with
          | none => simp [hpj] at h
          | some st =>
            cases st with
            | defn g params ret =>
              simp only [hpj] at h ⊢
              split at h
              · have hret : ret.ternFree = true := by
                  have := stmt_ternFree hp hpj
                  simpa [Stmt.ternFree] using this
                exact ih.eval (.func id vs) ret v hret h
              · cases h
            | assign _ _ => simp [hpj] at h
            | unpack _ _ => simp [hpj] at h
            | klass _ _ _ _ _ => simp [hpj] at h
            | probe _ => simp [hpj] at h
        | cls id =>
          simp only [hf, hm] at h
          cases hia : initArityC p n id with
          | none => simp [hia] at h
          | some k =>
            simp only [hia] at h
            split at h
            · simp only [Option.some.injEq] at h
              subst h
              simp [erase]
            · cases h
        | bound recv cid m =>
          simp only [hf, hm] at h
          simp only [erase, List.flatMap_cons, List.flatMap_nil, List.append_nil]
          cases hpj : p[cid]? with
          | none => simp [hpj] at h
          | some st =>
            cases st with
            | klass c base attrs init methods =>
              simp only [hpj] at h ⊢
              cases hfm : findMethod methods m with
              | none => simp [hfm] at h
              | some md =>
                simp only [hfm] at h ⊢
                split at h
                · have hret : md.ret.ternFree = true := by
                    have := stmt_ternFree hp hpj
                    simp only [Stmt.ternFree, Bool.and_eq_true] at this
                    exact methods_ternFree this.2 hfm
                  exact ih.eval (.meth cid (some m) recv vs) md.ret v hret h
                · cases h
            | assign _ _ => simp [hpj] at h
            | unpack _ _ => simp [hpj] at h
            | defn _ _ _ => simp [hpj] at h
            | probe _ => simp [hpj] at h
        | int => simp [hf, hm] at h
        | str => simp [hf, hm] at h
        | tuple _ => simp [hf, hm] at h
        | inst _ _ => simp [hf, hm] at h
  | attr e a =>
    simp only [Expr.ternFree] at htf
    simp only [evalC] at h
    cases he : evalC p n cc e with
    | none => simp [he] at h
    | some w =>
      have hm := ih.eval cc e _ htf he
      simp only [mayE, hm]
      cases w with
      | inst id args =>
        simp only [he] at h
        simp only [erase, List.flatMap_cons, List.flatMap_nil, List.append_nil]
        cases hsa : selfAttrC p n id (.inst id args) args a with
        | found v' =>
          simp only [hsa, Option.some.injEq] at h
          subst h
          have := ih.selfFound id (.inst id args) args a v' hsa
          simp only [erase] at this
          simp [this]
        | missing =>
          simp only [hsa] at h
          have hnone := ih.selfMissing id (.inst id args) args a hsa
          simp only [erase] at hnone
          simp only [hnone]
          have := ih.attr (some (.inst id args)) id a v h
          simpa [erase] using this
        | error => simp [hsa] at h
      | cls id =>
        simp only [he] at h
        simp only [erase, List.flatMap_cons, List.flatMap_nil, List.append_nil]
        have := ih.attr none id a v h
        simpa using this
      | int => simp [he] at h
      | str => simp [he] at h
      | tuple _ => simp [he] at h
      | func _ => simp [he] at h
      | bound _ _ _ => simp [he] at h
  | tern c a b => simp [Expr.ternFree] at htf

theorem exact_name_succ (p : Prog) (hp : p.ternFree = true) (n : Nat) (ih : Exact p n) :
    ∀ x lim v, nameC p (n + 1) x lim = some v → nameA p (n + 1) x lim = [erase v] := by
  intro x lim v h
  simp only [nameC] at h
  simp only [nameA]
  cases hb : lastBinder p x lim with
  | none => simp [hb] at h
  | some j =>
    simp only [hb] at h ⊢
    cases hpj : p[j]? with
    | none => simp [hpj] at h
    | some st =>
      have hst := stmt_ternFree hp hpj
      cases st with
      | assign y e =>
        simp only [hpj] at h ⊢
        exact ih.eval (.module j) e v (by simpa [Stmt.ternFree] using hst) h
      | unpack xs e =>
        simp only [hpj] at h ⊢
        cases he : evalC p n (.module j) e with
        | none => simp [he] at h
        | some w =>
          cases hi : indexOf xs x with
          | none =>
            simp only [he, hi] at h
            cases w <;> simp at h
          | some i =>
            cases w with
            | tuple vs =>
              simp only [he, hi] at h
              split at h
              · have hm := ih.eval (.module j) e _ (by simpa [Stmt.ternFree] using hst) he
                simp only [eraseCtx] at hm
                simp only [hm, erase, List.flatMap_cons, List.flatMap_nil, List.append_nil]
                simp [eraseList_getElem h]
              · cases h
            | int => simp [he, hi] at h
            | str => simp [he, hi] at h
            | func _ => simp [he, hi] at h
            | cls _ => simp [he, hi] at h
            | inst _ _ => simp [he, hi] at h
            | bound _ _ _ => simp [he, hi] at h
      | defn f params ret =>
        simp only [hpj, Option.some.injEq] at h ⊢
        subst h
        rfl
      | klass c base attrs init methods =>
        simp only [hpj, Option.some.injEq] at h ⊢
        subst h
        rfl
      | probe e => simp [hpj] at h

theorem exact_attr_base_step (p : Prog) (n : Nat) (ih : Exact p n) (rc : Option Val)
    (b id a : Nat) (v : Val)
    (h : (match nameC p n b id with
          | some (.cls bid) => attrC p n rc bid a
          | _ => none) = some v) :
    ((nameA p n b id).flatMap fun s =>
      match s with
      | .cls bid => attrA p n (rc.map erase) bid a
      | _ => []) = [erase v] := by
  cases hn : nameC p n b id with
  | none => simp [hn] at h
  | some w =>
    cases w with
    | cls bid =>
      simp only [hn] at h
      have hm := ih.name b id _ hn
      simp only [hm, erase, List.flatMap_cons, List.flatMap_nil, List.append_nil]
      exact ih.attr rc bid a v h
    | int => simp [hn] at h
    | str => simp [hn] at h
    | tuple _ => simp [hn] at h
    | func _ => simp [hn] at h
    | inst _ _ => simp [hn] at h
    | bound _ _ _ => simp [hn] at h

theorem exact_attr_succ (p : Prog) (hp : p.ternFree = true) (n : Nat) (ih : Exact p n) :
    ∀ rc id a v, attrC p (n + 1) rc id a = some v →
      attrA p (n + 1) (rc.map erase) id a = [erase v] := by
  intro rc id a v h
  simp only [attrC] at h
  simp only [attrA]
  cases hpj : p[id]? with
  | none => simp [hpj] at h
  | some st =>
    have hst := stmt_ternFree hp hpj
    cases st with
    | klass c base attrs init methods =>
      simp only [hpj] at h ⊢
      simp only [Stmt.ternFree, Bool.and_eq_true] at hst
      cases hl : lastAttr attrs a with
      | some e =>
        simp only [hl] at h ⊢
        exact ih.eval (.module id) e v (lastAttr_ternFree hst.1.1 hl) h
      | none =>
        simp only [hl] at h ⊢
        cases hfm : findMethod methods a with
        | some md =>
          cases rc with
          | none => simp [hfm] at h
          | some r =>
            simp only [hfm, Option.some.injEq, Option.map_some] at h ⊢
            subst h
            rfl
        | none =>
          cases base with
          | none => cases rc <;> simp [hfm] at h
          | some b =>
            cases rc with
            | none =>
              simp only [hfm, Option.map_none] at h ⊢
              exact exact_attr_base_step p n ih none b id a v h
            | some r =>
              simp only [hfm, Option.map_some] at h ⊢
              exact exact_attr_base_step p n ih (some r) b id a v h
    | assign _ _ => simp [hpj] at h
    | unpack _ _ => simp [hpj] at h
    | defn _ _ _ => simp [hpj] at h
    | probe _ => simp [hpj] at h

theorem allAttr_single {l : List (Nat × Expr)} {a : Nat} {e : Expr}
    (hla : lastAttr l a = some e) (hlen : (allAttr l a).length ≤ 1) : allAttr l a = [e] := by
  have hmem := lastAttr_mem_allAttr hla
  cases hall : allAttr l a with
  | nil => rw [hall] at hmem; simp at hmem
  | cons x xs =>
    rw [hall] at hlen hmem
    cases xs with
    | nil =>
      simp only [List.mem_singleton] at hmem
      rw [hmem]
    | cons y ys => simp at hlen

theorem single_assign {p : Prog} (hs : SingleAssignInit p = true) {id c : Nat} {base attrs i methods}
    (hp : p[id]? = some (.klass c base attrs (some i) methods)) {a : Nat} {e : Expr}
    (hla : lastAttr i.assigns a = some e) : (allAttr i.assigns a).length ≤ 1 := by
  unfold SingleAssignInit at hs
  rw [List.all_eq_true] at hs
  have := hs _ (List.mem_of_getElem? hp)
  simp only at this
  rw [List.all_eq_true] at this
  unfold lastAttr at hla
  simp only [Option.map_eq_some_iff] at hla
  obtain ⟨ae, hae, rfl⟩ := hla
  have hmem := List.mem_filter.mp (List.mem_of_getLast? hae)
  have h1 := this ae hmem.1
  have ha : ae.1 = a := by simpa using hmem.2
  rw [ha] at h1
  simpa using h1

theorem exact_selfFound_succ (p : Prog) (hp : p.ternFree = true) (hwf : WFClasses p = true)
    (hs : SingleAssignInit p = true) (n : Nat) (ih : Exact p n) :
    ∀ id sv vs a v, selfAttrC p (n + 1) id sv vs a = .found v →
      selfAttrA p (n + 1) id (erase sv) (eraseList vs) a = some [erase v] := by
  intro id sv vs a v h
  simp only [selfAttrC] at h
  simp only [selfAttrA]
  cases hpj : p[id]? with
  | none => simp [hpj] at h
  | some st =>
    have hst := stmt_ternFree hp hpj
    cases st with
    | klass c base attrs init methods =>
      simp only [hpj] at h ⊢
      cases init with
      | some i =>
        simp only at h ⊢
        cases hla : lastAttr i.assigns a with
        | none => simp [hla] at h
        | some e =>
          simp only [hla] at h
          cases hev : evalC p n (.meth id none sv vs) e with
          | none => simp [hev] at h
          | some v' =>
            simp only [hev, Found.found.injEq] at h
            subst h
            have hsingle := allAttr_single hla (single_assign hs hpj hla)
            rw [hsingle]
            simp only [List.flatMap_cons, List.flatMap_nil, List.append_nil]
            have he : e.ternFree = true := by
              simp only [Stmt.ternFree, Bool.and_eq_true] at hst
              exact lastAttr_ternFree hst.1.2 hla
            have := ih.eval (.meth id none sv vs) e v' he hev
            simp only [eraseCtx] at this
            rw [this]
      | none =>
        simp only at h ⊢
        cases base with
        | none => simp at h
        | some b =>
          simp only at h ⊢
          obtain ⟨-, j, c', b', a', i', m', hb, hj⟩ := wf_base hwf hpj
          cases n with
          | zero => simp [nameC] at h
          | succ m =>
            obtain ⟨hnc, hna⟩ := name_of_klass hb hj m
            rw [hnc] at h
            rw [hna]
            simp only [firstSome] at h ⊢
            rw [ih.selfFound j sv vs a v h]
    | assign _ _ => simp [hpj] at h
    | unpack _ _ => simp [hpj] at h
    | defn _ _ _ => simp [hpj] at h
    | probe _ => simp [hpj] at h

theorem exact (p : Prog) (hp : p.ternFree = true) (hwf : WFClasses p = true)
    (hs : SingleAssignInit p = true) : ∀ fuel, Exact p fuel := by
  intro fuel
  induction fuel with
  | zero =>
    exact ⟨by intro cc e v _ h; simp [evalC] at h,
           by intro x lim v h; simp [nameC] at h,
           by intro rc id a v h; simp [attrC] at h,
           by intro id sv vs a v h; simp [selfAttrC] at h,
           by intro id sv vs a h; simp [selfAttrC] at h⟩
  | succ n ih =>
    exact ⟨exact_eval_succ p hp n ih, exact_name_succ p hp n ih, exact_attr_succ p hp n ih,
      exact_selfFound_succ p hp hwf hs n ih,
      fun id sv vs a h =>
        sound_selfMissing_succ p hwf n (sound p hwf n) id sv (erase sv) vs (eraseList vs) a h⟩

end JediModel.PyCore

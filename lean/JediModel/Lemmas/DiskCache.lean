import JediModel.Model.DiskCache
/-! Invariant of the disk-cache layers and what `load` returns under it. -/
set_option linter.unusedSectionVars false
set_option linter.unusedSimpArgs false
namespace JediModel.DiskCache

@[simp] theorem upd_same {α : Type} (f : Path → α) (k : Path) (v : α) : upd f k v k = v := by
  simp [upd]

theorem upd_other {α : Type} (f : Path → α) (k k' : Path) (v : α) (h : k' ≠ k) : upd f k v k' = f k' := by
  simp [upd, h]

section
variable {B T : Type} [DecidableEq B]
variable (cfg : Cfg) (parse : B → T)

/-- every cached item is the parse of its own lines, and whenever a revalidation predicate of a
layer would accept the file that is on disk now, the item's lines are that file's bytes -/
structure Inv (st : State B T) : Prop where
  memOk : ∀ p it, st.mem p = some it → it.tree = parse it.lines ∧
    ∀ f, st.fs p = some f → f.mtime ≤ it.changeTime → it.lines = f.bytes
  pickleOk : ∀ p pk, st.pickles p = some pk → pk.item.tree = parse pk.item.lines ∧
    ∀ f, st.fs p = some f → (f.mtime ≤ pk.pmtime ∨ f.mtime ≤ pk.item.changeTime) →
      pk.item.lines = f.bytes

theorem inv_init : Inv parse (init : State B T) := by
  constructor <;> simp [init]

/-- `try_to_save_module` of the bytes that are on disk -/
theorem save_inv (st : State B T) (p : Path) (f : File B) (hf : st.fs p = some f)
    (hi : Inv parse st) : Inv parse (save cfg parse st p f.mtime f.bytes).2 := by
  constructor
  · intro q it h
    simp only [save] at h
    by_cases hq : q = p
    · subst hq
      simp only [upd_same, Option.some.injEq] at h
      subst h
      refine ⟨rfl, ?_⟩
      intro f' hf' _
      simp only [save] at hf'
      rw [hf] at hf'; cases hf'; rfl
    · rw [upd_other _ _ _ _ hq] at h
      exact hi.memOk q it h
  · intro q pk h
    simp only [save] at h
    by_cases hc : cfg.cache = true
    · simp only [hc, if_true] at h
      by_cases hq : q = p
      · subst hq
        simp only [upd_same, Option.some.injEq] at h
        subst h
        refine ⟨rfl, ?_⟩
        intro f' hf' _
        simp only [save] at hf'
        rw [hf] at hf'; cases hf'; rfl
      · rw [upd_other _ _ _ _ hq] at h
        exact hi.pickleOk q pk h
    · simp only [hc] at h
      exact hi.pickleOk q pk h

theorem fallLoad_spec (st : State B T) (p : Path) (f : File B) (hf : st.fs p = some f)
    (hi : Inv parse st) :
    (fallLoad cfg parse st p f.mtime f).1 = some (parse f.bytes) ∧
    Inv parse (fallLoad cfg parse st p f.mtime f).2 ∧
    (fallLoad cfg parse st p f.mtime f).2.fs = st.fs ∧
    (fallLoad cfg parse st p f.mtime f).2.modcache = st.modcache := by
  unfold fallLoad
  split
  · rename_i it hit
    have hmem : st.mem p = some it := by
      by_cases hd : cfg.diff = true
      · simpa [hd] using hit
      · simp [hd] at hit
    split
    · rename_i hl
      exact ⟨by rw [(hi.memOk p it hmem).1, hl], hi, rfl, rfl⟩
    · exact ⟨rfl, save_inv cfg parse st p f hf hi, rfl, rfl⟩
  · split
    · exact ⟨rfl, save_inv cfg parse st p f hf hi, rfl, rfl⟩
    · exact ⟨rfl, hi, rfl, rfl⟩

theorem cachedLoad_spec (st : State B T) (p : Path) (f : File B) (hf : st.fs p = some f)
    (hi : Inv parse st) (t : T) (st' : State B T) (h : cachedLoad cfg st p f.mtime = some (t, st')) :
    t = parse f.bytes ∧ Inv parse st' ∧ st'.fs = st.fs ∧ st'.modcache = st.modcache := by
  unfold cachedLoad at h
  split at h
  · split at h
    · rename_i it hm
      split at h
      · rename_i hle
        cases h
        have := hi.memOk p it hm
        exact ⟨by rw [this.1, this.2 f hf hle], hi, rfl, rfl⟩
      · cases h
    · rename_i hm
      split at h
      · rename_i pk hp
        split at h
        · cases h
        · rename_i hgt
          cases h
          have hpk := hi.pickleOk p pk hp
          refine ⟨by rw [hpk.1, hpk.2 f hf (Or.inl (Nat.le_of_not_gt hgt))], ?_, rfl, rfl⟩
          constructor
          · intro q it h
            by_cases hq : q = p
            · subst hq
              simp only [upd_same, Option.some.injEq] at h
              subst h
              exact ⟨hpk.1, fun f' hf' hle => hpk.2 f' hf' (Or.inr hle)⟩
            · simp only [upd_other _ _ _ _ hq] at h
              exact hi.memOk q it h
          · exact hi.pickleOk
      · cases h
  · cases h

/-- a FileIO that reports the file system's mtime -/
theorem reported_eq (hs : cfg.stampIsFsMtime = true) (m : Nat) : reported cfg m = m := by
  simp [reported, hs]

/-- `load` serves the parse of the bytes that are on disk now, or nothing when the file is gone;
the invariant is kept; the file system is not touched.  Needs the stamp the layers compare to be the
file's own mtime (`hs`): with a coarser one see `Props.C09.stale_if_stamp_truncated`. -/
theorem load_spec (hs : cfg.stampIsFsMtime = true) (st : State B T) (p : Path) (hi : Inv parse st) :
    (load cfg parse st p).1 = (st.fs p).map (fun f => parse f.bytes) ∧
    Inv parse (load cfg parse st p).2 ∧ (load cfg parse st p).2.fs = st.fs ∧
    (load cfg parse st p).2.modcache = st.modcache := by
  unfold load
  cases hf : st.fs p with
  | none => exact ⟨rfl, hi, rfl, rfl⟩
  | some f =>
    simp only [Option.map_some, reported_eq cfg hs]
    cases hc : cachedLoad cfg st p f.mtime with
    | none => exact fallLoad_spec cfg parse st p f hf hi
    | some r =>
      obtain ⟨t, st'⟩ := r
      obtain ⟨h1, h2, h3, h4⟩ := cachedLoad_spec cfg parse st p f hf hi t st' hc
      exact ⟨by rw [h1], h2, h3, h4⟩

/-! ### the stub lookup (`typeshed._try_to_load_stub` for a sub-module) -/

/-- candidates are tried in order; under the invariant the first one that exists is served from its
present bytes, whatever the cache layers hold -/
theorem loadFirst_spec (hs : cfg.stampIsFsMtime = true) (l : List Path) (st : State B T) (hi : Inv parse st) :
    (loadFirst cfg parse st l).1 = firstServed parse st.fs l ∧
    Inv parse (loadFirst cfg parse st l).2 ∧ (loadFirst cfg parse st l).2.fs = st.fs := by
  induction l generalizing st with
  | nil => exact ⟨rfl, hi, rfl⟩
  | cons p r ih =>
    obtain ⟨h1, h2, h3, _⟩ := load_spec cfg parse hs st p hi
    unfold loadFirst firstServed
    rcases hl : load cfg parse st p with ⟨_ | t, st'⟩
    · rw [hl] at h1 h2 h3
      simp only at h1 h2 h3 ⊢
      cases hf : st.fs p with
      | some f => rw [hf] at h1; cases h1
      | none =>
        simp only
        obtain ⟨a, b, c⟩ := ih st' h2
        exact ⟨by rw [a, h3], b, by rw [c, h3]⟩
    · rw [hl] at h1 h2 h3
      simp only at h1 h2 h3 ⊢
      cases hf : st.fs p with
      | none => rw [hf] at h1; cases h1
      | some f =>
        rw [hf] at h1
        simp only [Option.map_some, Option.some.injEq] at h1
        exact ⟨by rw [h1], h2, h3⟩

theorem firstServed_exists (fs : Path → Option (File B)) (l : List Path) (p : Path) (t : T)
    (h : firstServed parse fs l = some (p, t)) : ∃ f, fs p = some f ∧ t = parse f.bytes := by
  induction l with
  | nil => cases h
  | cons a r ih =>
    unfold firstServed at h
    cases hf : fs a with
    | none => rw [hf] at h; exact ih h
    | some f =>
      rw [hf] at h
      simp only [Option.some.injEq, Prod.mk.injEq] at h
      exact ⟨f, by rw [← h.1, hf], h.2.symm⟩

theorem stubNow_exists (fs : Path → Option (File B)) (q : StubQuery) (p : Path) (t : T)
    (h : stubNow parse fs q = some (p, t)) : ∃ f, fs p = some f ∧ t = parse f.bytes := by
  unfold stubNow at h
  split at h
  · rename_i r hr
    cases h
    exact firstServed_exists parse fs _ p t hr
  · split at h
    · rename_i r hr
      cases h
      split at hr
      · exact firstServed_exists parse fs _ p t hr
      · cases hr
    · split at h
      · exact firstServed_exists parse fs _ p t h
      · cases h

theorem listing_inv (st : State B T) (d : Path) (hi : Inv parse st) :
    Inv parse (listing cfg st d).2 ∧ (listing cfg st d).2.fs = st.fs := by
  unfold listing
  split
  · split
    · exact ⟨hi, rfl⟩
    · exact ⟨⟨hi.memOk, hi.pickleOk⟩, rfl⟩
  · exact ⟨hi, rfl⟩

/-- without a memo the listing is the present file system -/
theorem listing_now (st : State B T) (d : Path) (hc : cfg.stubListingCached = false) :
    listing cfg st d = (fun p => (st.fs p).isSome, st) := by
  unfold listing
  simp [hc]

/-- the stub lookup keeps the invariant and does not touch the file system (any configuration) -/
theorem tryLoadStub_inv (hs : cfg.stampIsFsMtime = true) (st : State B T) (q : StubQuery) (hi : Inv parse st) :
    Inv parse (tryLoadStub cfg parse st q).2 ∧ (tryLoadStub cfg parse st q).2.fs = st.fs := by
  unfold tryLoadStub
  obtain ⟨_, b1, c1⟩ := loadFirst_spec cfg parse hs q.direct st hi
  rcases h1 : loadFirst cfg parse st q.direct with ⟨_ | r, st1⟩
  · rw [h1] at b1 c1
    simp only at b1 c1 ⊢
    have hvia : Inv parse (if q.useListing = true then
          loadFirst cfg parse (listing cfg st1 q.dir).2 (stubMapOf (listing cfg st1 q.dir).1 q).toList
          else (none, st1)).2 ∧
        (if q.useListing = true then
          loadFirst cfg parse (listing cfg st1 q.dir).2 (stubMapOf (listing cfg st1 q.dir).1 q).toList
          else (none, st1)).2.fs = st.fs := by
      split
      · obtain ⟨li, lf⟩ := listing_inv cfg parse st1 q.dir b1
        obtain ⟨_, b2, c2⟩ := loadFirst_spec cfg parse hs
          (stubMapOf (listing cfg st1 q.dir).1 q).toList (listing cfg st1 q.dir).2 li
        exact ⟨b2, by rw [c2, lf, c1]⟩
      · exact ⟨b1, c1⟩
    rcases h2 : (if q.useListing = true then
          loadFirst cfg parse (listing cfg st1 q.dir).2 (stubMapOf (listing cfg st1 q.dir).1 q).toList
          else (none, st1)) with ⟨_ | r, st3⟩
    · rw [h2] at hvia
      simp only at hvia ⊢
      split
      · obtain ⟨_, b3, c3⟩ := loadFirst_spec cfg parse hs [q.modStub] st3 hvia.1
        exact ⟨b3, by rw [c3, hvia.2]⟩
      · exact hvia
    · rw [h2] at hvia
      exact hvia
  · rw [h1] at b1 c1
    exact ⟨b1, c1⟩

/-- **the stub served.**  When `_create_stub_map` is not memoised, the stub lookup answers from
the files as they are now: the same candidate, parsed from its present bytes, as `stubNow` -/
theorem tryLoadStub_spec (hs : cfg.stampIsFsMtime = true) (st : State B T) (q : StubQuery) (hi : Inv parse st)
    (hc : cfg.stubListingCached = false) :
    (tryLoadStub cfg parse st q).1 = stubNow parse st.fs q := by
  unfold tryLoadStub stubNow
  obtain ⟨a1, b1, c1⟩ := loadFirst_spec cfg parse hs q.direct st hi
  rcases h1 : loadFirst cfg parse st q.direct with ⟨_ | r, st1⟩
  · rw [h1] at a1 b1 c1
    simp only at a1 b1 c1 ⊢
    rw [← a1]
    simp only [listing_now cfg st1 q.dir hc]
    rw [← c1]
    by_cases hu : q.useListing = true
    · simp only [hu, if_true]
      obtain ⟨a2, b2, c2⟩ := loadFirst_spec cfg parse hs
        (stubMapOf (fun p => (st1.fs p).isSome) q).toList st1 b1
      rcases h2 : loadFirst cfg parse st1 (stubMapOf (fun p => (st1.fs p).isSome) q).toList with ⟨_ | r, st3⟩
      · rw [h2] at a2 b2 c2
        simp only at a2 b2 c2 ⊢
        rw [← a2]
        simp only
        split
        · obtain ⟨a3, _, _⟩ := loadFirst_spec cfg parse hs [q.modStub] st3 b2
          rw [a3, c2]
        · rfl
      · rw [h2] at a2
        simp only at a2 ⊢
        rw [← a2]
    · simp only [hu]
      simp only [Bool.false_eq_true, if_false]
      split
      · obtain ⟨a3, _, _⟩ := loadFirst_spec cfg parse hs [q.modStub] st1 b1
        rw [a3]
      · rfl
  · rw [h1] at a1
    simp only at a1 ⊢
    rw [← a1]

variable (find : (Path → Option (File B)) → String → Option Path)

theorem importName_inv (hs : cfg.stampIsFsMtime = true) (st : State B T) (n : String) (hi : Inv parse st) :
    Inv parse (importName cfg parse find st n).2 ∧ (importName cfg parse find st n).2.fs = st.fs := by
  unfold importName
  cases st.modcache n with
  | some r => exact ⟨hi, rfl⟩
  | none =>
    simp only
    cases find st.fs n with
    | none => exact ⟨⟨hi.memOk, hi.pickleOk⟩, rfl⟩
    | some p =>
      simp only
      obtain ⟨_, h2, h3, _⟩ := load_spec cfg parse hs st p hi
      exact ⟨⟨h2.memOk, h2.pickleOk⟩, h3⟩

/-- every operation whose stamp hypothesis holds keeps the invariant -/
theorem step_inv (hs : cfg.stampIsFsMtime = true) (st : State B T) (o : Op B) (hi : Inv parse st) (ho : OpOk st o) :
    Inv parse (step cfg parse find st o) := by
  cases o with
  | write p b m =>
    simp only [step]
    rcases ho with ho | ⟨f0, hf0, hb, hm⟩
    · constructor
      · intro q it h
        refine ⟨(hi.memOk q it h).1, ?_⟩
        intro f hf hle
        by_cases hq : q = p
        · subst hq
          simp only [upd_same, Option.some.injEq] at hf
          subst hf
          have := ho.1 it h
          simp only at hle
          omega
        · simp only [upd_other _ _ _ _ hq] at hf
          exact (hi.memOk q it h).2 f hf hle
      · intro q pk h
        refine ⟨(hi.pickleOk q pk h).1, ?_⟩
        intro f hf hle
        by_cases hq : q = p
        · subst hq
          simp only [upd_same, Option.some.injEq] at hf
          subst hf
          have := ho.2 pk h
          simp only at hle
          omega
        · simp only [upd_other _ _ _ _ hq] at hf
          exact (hi.pickleOk q pk h).2 f hf hle
    · -- the file is rewritten exactly as it is
      have hsame : ∀ q f, upd st.fs p (some { mtime := m, bytes := b }) q = some f →
          ∃ f', st.fs q = some f' ∧ f'.bytes = f.bytes ∧ f'.mtime = f.mtime := by
        intro q f hf
        by_cases hq : q = p
        · subst hq
          simp only [upd_same, Option.some.injEq] at hf
          subst hf
          exact ⟨f0, hf0, hb, hm⟩
        · simp only [upd_other _ _ _ _ hq] at hf
          exact ⟨f, hf, rfl, rfl⟩
      constructor
      · intro q it h
        refine ⟨(hi.memOk q it h).1, ?_⟩
        intro f hf hle
        obtain ⟨f', h1, h2, h3⟩ := hsame q f hf
        rw [← h2]
        exact (hi.memOk q it h).2 f' h1 (by omega)
      · intro q pk h
        refine ⟨(hi.pickleOk q pk h).1, ?_⟩
        intro f hf hle
        obtain ⟨f', h1, h2, h3⟩ := hsame q f hf
        rw [← h2]
        exact (hi.pickleOk q pk h).2 f' h1 (by omega)
  | delete p =>
    simp only [step]
    constructor
    · intro q it h
      refine ⟨(hi.memOk q it h).1, ?_⟩
      intro f hf hle
      by_cases hq : q = p
      · subst hq; simp at hf
      · simp only [upd_other _ _ _ _ hq] at hf
        exact (hi.memOk q it h).2 f hf hle
    · intro q pk h
      refine ⟨(hi.pickleOk q pk h).1, ?_⟩
      intro f hf hle
      by_cases hq : q = p
      · subst hq; simp at hf
      · simp only [upd_other _ _ _ _ hq] at hf
        exact (hi.pickleOk q pk h).2 f hf hle
  | rename s d =>
    simp only [step]
    cases hs : st.fs s with
    | none => exact hi
    | some f0 =>
      simp only
      have ho := ho f0 hs
      have hcase : ∀ q f, upd (upd st.fs s none) d (some f0) q = some f →
          (q = d ∧ f = f0) ∨ (q ≠ d ∧ st.fs q = some f) := by
        intro q f hf
        by_cases hq : q = d
        · subst hq
          simp only [upd_same, Option.some.injEq] at hf
          exact Or.inl ⟨rfl, hf.symm⟩
        · simp only [upd_other _ _ _ _ hq] at hf
          by_cases hq2 : q = s
          · subst hq2; simp at hf
          · simp only [upd_other _ _ _ _ hq2] at hf
            exact Or.inr ⟨hq, hf⟩
      constructor
      · intro q it h
        refine ⟨(hi.memOk q it h).1, ?_⟩
        intro f hf hle
        rcases hcase q f hf with ⟨h1, h2⟩ | ⟨_, h2⟩
        · subst h1; subst h2
          have := ho.1 it h
          omega
        · exact (hi.memOk q it h).2 f h2 hle
      · intro q pk h
        refine ⟨(hi.pickleOk q pk h).1, ?_⟩
        intro f hf hle
        rcases hcase q f hf with ⟨h1, h2⟩ | ⟨_, h2⟩
        · subst h1; subst h2
          have := ho.2 pk h
          omega
        · exact (hi.pickleOk q pk h).2 f h2 hle
  | load p => exact (load_spec cfg parse hs st p hi).2.1
  | importName n => exact (importName_inv cfg parse find hs st n hi).1
  | stubImport q => exact (tryLoadStub_inv cfg parse hs st q hi).1
  | newScript =>
    simp only [step]
    split
    · exact ⟨hi.memOk, hi.pickleOk⟩
    · exact hi
  | newProcess =>
    simp only [step]
    exact ⟨by intro q it h; simp at h, hi.pickleOk⟩
  | tick dt => exact ⟨hi.memOk, hi.pickleOk⟩

theorem inv_freshProcess (st : State B T) : Inv parse (freshProcess st) := by
  constructor <;> simp [freshProcess]

theorem run_inv (hs : cfg.stampIsFsMtime = true) (h : List (Op B)) (st : State B T) (hi : Inv parse st)
    (hok : AllOk cfg parse find st h) : Inv parse (run cfg parse find st h) := by
  induction h generalizing st with
  | nil => exact hi
  | cons o r ih =>
    exact ih _ (step_inv cfg parse find hs st o hi hok.1) hok.2

end
end JediModel.DiskCache

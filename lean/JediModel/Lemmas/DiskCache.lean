import JediModel.Model.DiskCache
/-! Invariant of the disk-cache layers and what `load` returns under it. -/
set_option linter.unusedSectionVars false
set_option linter.unusedSimpArgs false
namespace JediModel.DiskCache

@[simp] theorem upd_same {α : Type} (f : Path → α) (k : Path) (v : α) : upd f k v k = v := by
  simp [upd]

theorem upd_other {α : Type} (f : Path → α) (k k' : Path) (v : α) (h : k' ≠ k) : upd f k v k' = f k' := by
  simp [upd, h]

section
variable {B T : Type} [DecidableEq B]
variable (cfg : Cfg) (parse : B → T)

/-- every cached item is the parse of its own lines, and whenever a revalidation predicate of a
layer would accept the file that is on disk now, the item's lines are that file's bytes -/
structure Inv (st : State B T) : Prop where
  memOk : ∀ p it, st.mem p = some it → it.tree = parse it.lines ∧
    ∀ f, st.fs p = some f → f.mtime ≤ it.changeTime → it.lines = f.bytes
  pickleOk : ∀ p pk, st.pickles p = some pk → pk.item.tree = parse pk.item.lines ∧
    ∀ f, st.fs p = some f → (f.mtime ≤ pk.pmtime ∨ f.mtime ≤ pk.item.changeTime) →
      pk.item.lines = f.bytes

theorem inv_init : Inv parse (init : State B T) := by
  constructor <;> simp [init]

/-- `try_to_save_module` of the bytes that are on disk -/
theorem save_inv (st : State B T) (p : Path) (f : File B) (hf : st.fs p = some f)
    (hi : Inv parse st) : Inv parse (save cfg parse st p f.mtime f.bytes).2 := by
  constructor
  · intro q it h
    simp only [save] at h
    by_cases hq : q = p
    · subst hq
      simp only [upd_same, Option.some.injEq] at h
      subst h
      refine ⟨rfl, ?_⟩
      intro f' hf' _
      simp only [save] at hf'
      rw [hf] at hf'; cases hf'; rfl
    · rw [upd_other _ _ _ _ hq] at h
      exact hi.memOk q it h
  · intro q pk h
    simp only [save] at h
    by_cases hc : cfg.cache = true
    · simp only [hc, if_true] at h
      by_cases hq : q = p
      · subst hq
        simp only [upd_same, Option.some.injEq] at h
        subst h
        refine ⟨rfl, ?_⟩
        intro f' hf' _
        simp only [save] at hf'
        rw [hf] at hf'; cases hf'; rfl
      · rw [upd_other _ _ _ _ hq] at h
        exact hi.pickleOk q pk h
    · simp only [hc] at h
      exact hi.pickleOk q pk h

theorem fallLoad_spec (st : State B T) (p : Path) (f : File B) (hf : st.fs p = some f)
    (hi : Inv parse st) :
    (fallLoad cfg parse st p f).1 = some (parse f.bytes) ∧ Inv parse (fallLoad cfg parse st p f).2 ∧
    (fallLoad cfg parse st p f).2.fs = st.fs ∧ (fallLoad cfg parse st p f).2.modcache = st.modcache := by
  unfold fallLoad
  split
  · rename_i it hit
    have hmem : st.mem p = some it := by
      by_cases hd : cfg.diff = true
      · simpa [hd] using hit
      · simp [hd] at hit
    split
    · rename_i hl
      exact ⟨by rw [(hi.memOk p it hmem).1, hl], hi, rfl, rfl⟩
    · exact ⟨rfl, save_inv cfg parse st p f hf hi, rfl, rfl⟩
  · split
    · exact ⟨rfl, save_inv cfg parse st p f hf hi, rfl, rfl⟩
    · exact ⟨rfl, hi, rfl, rfl⟩

theorem cachedLoad_spec (st : State B T) (p : Path) (f : File B) (hf : st.fs p = some f)
    (hi : Inv parse st) (t : T) (st' : State B T) (h : cachedLoad cfg st p f.mtime = some (t, st')) :
    t = parse f.bytes ∧ Inv parse st' ∧ st'.fs = st.fs ∧ st'.modcache = st.modcache := by
  unfold cachedLoad at h
  split at h
  · split at h
    · rename_i it hm
      split at h
      · rename_i hle
        cases h
        have := hi.memOk p it hm
        exact ⟨by rw [this.1, this.2 f hf hle], hi, rfl, rfl⟩
      · cases h
    · rename_i hm
      split at h
      · rename_i pk hp
        split at h
        · cases h
        · rename_i hgt
          cases h
          have hpk := hi.pickleOk p pk hp
          refine ⟨by rw [hpk.1, hpk.2 f hf (Or.inl (Nat.le_of_not_gt hgt))], ?_, rfl, rfl⟩
          constructor
          · intro q it h
            by_cases hq : q = p
            · subst hq
              simp only [upd_same, Option.some.injEq] at h
              subst h
              exact ⟨hpk.1, fun f' hf' hle => hpk.2 f' hf' (Or.inr hle)⟩
            · simp only [upd_other _ _ _ _ hq] at h
              exact hi.memOk q it h
          · exact hi.pickleOk
      · cases h
  · cases h

/-- `load` serves the parse of the bytes that are on disk now, or nothing when the file is gone;
the invariant is kept; the file system is not touched -/
theorem load_spec (st : State B T) (p : Path) (hi : Inv parse st) :
    (load cfg parse st p).1 = (st.fs p).map (fun f => parse f.bytes) ∧
    Inv parse (load cfg parse st p).2 ∧ (load cfg parse st p).2.fs = st.fs ∧
    (load cfg parse st p).2.modcache = st.modcache := by
  unfold load
  cases hf : st.fs p with
  | none => exact ⟨rfl, hi, rfl, rfl⟩
  | some f =>
    simp only [Option.map_some]
    cases hc : cachedLoad cfg st p f.mtime with
    | none => exact fallLoad_spec cfg parse st p f hf hi
    | some r =>
      obtain ⟨t, st'⟩ := r
      obtain ⟨h1, h2, h3, h4⟩ := cachedLoad_spec cfg parse st p f hf hi t st' hc
      exact ⟨by rw [h1], h2, h3, h4⟩

variable (find : (Path → Option (File B)) → String → Option Path)

theorem importName_inv (st : State B T) (n : String) (hi : Inv parse st) :
    Inv parse (importName cfg parse find st n).2 ∧ (importName cfg parse find st n).2.fs = st.fs := by
  unfold importName
  cases st.modcache n with
  | some r => exact ⟨hi, rfl⟩
  | none =>
    simp only
    cases find st.fs n with
    | none => exact ⟨⟨hi.memOk, hi.pickleOk⟩, rfl⟩
    | some p =>
      simp only
      obtain ⟨_, h2, h3, _⟩ := load_spec cfg parse st p hi
      exact ⟨⟨h2.memOk, h2.pickleOk⟩, h3⟩

/-- every operation whose stamp hypothesis holds keeps the invariant -/
theorem step_inv (st : State B T) (o : Op B) (hi : Inv parse st) (ho : OpOk st o) :
    Inv parse (step cfg parse find st o) := by
  cases o with
  | write p b m =>
    simp only [step]
    rcases ho with ho | ⟨f0, hf0, hb, hm⟩
    · constructor
      · intro q it h
        refine ⟨(hi.memOk q it h).1, ?_⟩
        intro f hf hle
        by_cases hq : q = p
        · subst hq
          simp only [upd_same, Option.some.injEq] at hf
          subst hf
          have := ho.1 it h
          simp only at hle
          omega
        · simp only [upd_other _ _ _ _ hq] at hf
          exact (hi.memOk q it h).2 f hf hle
      · intro q pk h
        refine ⟨(hi.pickleOk q pk h).1, ?_⟩
        intro f hf hle
        by_cases hq : q = p
        · subst hq
          simp only [upd_same, Option.some.injEq] at hf
          subst hf
          have := ho.2 pk h
          simp only at hle
          omega
        · simp only [upd_other _ _ _ _ hq] at hf
          exact (hi.pickleOk q pk h).2 f hf hle
    · -- the file is rewritten exactly as it is
      have hsame : ∀ q f, upd st.fs p (some { mtime := m, bytes := b }) q = some f →
          ∃ f', st.fs q = some f' ∧ f'.bytes = f.bytes ∧ f'.mtime = f.mtime := by
        intro q f hf
        by_cases hq : q = p
        · subst hq
          simp only [upd_same, Option.some.injEq] at hf
          subst hf
          exact ⟨f0, hf0, hb, hm⟩
        · simp only [upd_other _ _ _ _ hq] at hf
          exact ⟨f, hf, rfl, rfl⟩
      constructor
      · intro q it h
        refine ⟨(hi.memOk q it h).1, ?_⟩
        intro f hf hle
        obtain ⟨f', h1, h2, h3⟩ := hsame q f hf
        rw [← h2]
        exact (hi.memOk q it h).2 f' h1 (by omega)
      · intro q pk h
        refine ⟨(hi.pickleOk q pk h).1, ?_⟩
        intro f hf hle
        obtain ⟨f', h1, h2, h3⟩ := hsame q f hf
        rw [← h2]
        exact (hi.pickleOk q pk h).2 f' h1 (by omega)
  | delete p =>
    simp only [step]
    constructor
    · intro q it h
      refine ⟨(hi.memOk q it h).1, ?_⟩
      intro f hf hle
      by_cases hq : q = p
      · subst hq; simp at hf
      · simp only [upd_other _ _ _ _ hq] at hf
        exact (hi.memOk q it h).2 f hf hle
    · intro q pk h
      refine ⟨(hi.pickleOk q pk h).1, ?_⟩
      intro f hf hle
      by_cases hq : q = p
      · subst hq; simp at hf
      · simp only [upd_other _ _ _ _ hq] at hf
        exact (hi.pickleOk q pk h).2 f hf hle
  | rename s d =>
    simp only [step]
    cases hs : st.fs s with
    | none => exact hi
    | some f0 =>
      simp only
      have ho := ho f0 hs
      have hcase : ∀ q f, upd (upd st.fs s none) d (some f0) q = some f →
          (q = d ∧ f = f0) ∨ (q ≠ d ∧ st.fs q = some f) := by
        intro q f hf
        by_cases hq : q = d
        · subst hq
          simp only [upd_same, Option.some.injEq] at hf
          exact Or.inl ⟨rfl, hf.symm⟩
        · simp only [upd_other _ _ _ _ hq] at hf
          by_cases hq2 : q = s
          · subst hq2; simp at hf
          · simp only [upd_other _ _ _ _ hq2] at hf
            exact Or.inr ⟨hq, hf⟩
      constructor
      · intro q it h
        refine ⟨(hi.memOk q it h).1, ?_⟩
        intro f hf hle
        rcases hcase q f hf with ⟨h1, h2⟩ | ⟨_, h2⟩
        · subst h1; subst h2
          have := ho.1 it h
          omega
        · exact (hi.memOk q it h).2 f h2 hle
      · intro q pk h
        refine ⟨(hi.pickleOk q pk h).1, ?_⟩
        intro f hf hle
        rcases hcase q f hf with ⟨h1, h2⟩ | ⟨_, h2⟩
        · subst h1; subst h2
          have := ho.2 pk h
          omega
        · exact (hi.pickleOk q pk h).2 f h2 hle
  | load p => exact (load_spec cfg parse st p hi).2.1
  | importName n => exact (importName_inv cfg parse find st n hi).1
  | newScript =>
    simp only [step]
    split
    · exact ⟨hi.memOk, hi.pickleOk⟩
    · exact hi
  | newProcess =>
    simp only [step]
    exact ⟨by intro q it h; simp at h, hi.pickleOk⟩
  | tick dt => exact ⟨hi.memOk, hi.pickleOk⟩

theorem run_inv (h : List (Op B)) (st : State B T) (hi : Inv parse st)
    (hok : AllOk cfg parse find st h) : Inv parse (run cfg parse find st h) := by
  induction h generalizing st with
  | nil => exact hi
  | cons o r ih =>
    exact ih _ (step_inv cfg parse find st o hi hok.1) hok.2

end
end JediModel.DiskCache

import JediModel.Model.YieldOrder
/-! helper lemmas for `Model/YieldOrder` -/
namespace JediModel.YieldOrder

/-- the yields of one for statement, followed by groups that do not start with that statement,
form one group -/
theorem groupAdj_loop (f : Nat) (tail : List (Nat × Par)) (gs : List Group)
    (ht : groupAdj tail = some gs) (hne : ∀ ys gs', gs ≠ (some f, ys) :: gs') (y : Nat) (ys : List Nat) :
    groupAdj ((y :: ys).map (fun z => (z, Par.simpleFor f)) ++ tail) = some ((some f, y :: ys) :: gs) := by
  induction ys generalizing y with
  | nil =>
    simp only [List.map_cons, List.map_nil, List.cons_append, List.nil_append, groupAdj, ht]
    match gs, hne with
    | [], _ => rfl
    | (none, _) :: _, _ => rfl
    | (some f', zs) :: gs', hne =>
      have : f' ≠ f := fun h => hne zs gs' (by rw [h])
      simp [this]
  | cons y' ys ih =>
    have := ih y'
    simp only [List.map_cons, List.cons_append] at this ⊢
    rw [groupAdj, this]
    simp

theorem emitGroup_group (len : Nat → Nat) (s : Seg) : emitGroup len s.group = s.run len := by
  cases s <;> rfl

theorem emit_groups (len : Nat → Nat) (segs : List Seg) : emit len (segs.map Seg.group) = run len segs := by
  unfold emit run
  rw [List.flatMap_map]
  congr 1
  funext s
  exact emitGroup_group len s

theorem groupAdj_parents (segs : List Seg) (h : distinctFors segs = true) :
    groupAdj (parents segs) = some (segs.map Seg.group) := by
  induction segs with
  | nil => rfl
  | cons s rest ih =>
    cases s with
    | top y =>
      have ih := ih (by simpa [distinctFors] using h)
      simp only [parents, List.flatMap_cons, Seg.parents, List.cons_append, List.nil_append, groupAdj] at ih ⊢
      simp only [ih, List.map_cons, Seg.group]
    | loop f y ys =>
      simp only [distinctFors, Bool.and_eq_true, bne_iff_ne, ne_eq] at h
      have ih := ih h.2
      simp only [parents, List.flatMap_cons, Seg.parents] at ih ⊢
      rw [groupAdj_loop f _ _ ih]
      · rfl
      · intro zs gs' heq
        cases rest with
        | nil => simp at heq
        | cons s' rest' =>
          cases s' with
          | top _ => simp [Seg.group] at heq
          | loop f' _ _ =>
            simp only [List.map_cons, Seg.group, List.cons.injEq, Prod.mk.injEq, Option.some.injEq] at heq
            exact h.1 (by simp [headFor, heq.1.1])

end JediModel.YieldOrder

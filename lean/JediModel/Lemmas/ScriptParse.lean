import JediModel.Model.ScriptParse
/-! Lemmas about `Model/ScriptParse`: the caches always hold trees of their own lines, and a parse
that does not ask `load_module` returns the tree of the code it was given. -/
namespace JediModel.ScriptParse

theorem Caches.wf_empty : Caches.WF {} := by
  constructor <;> intro _ h <;> cases h

theorem save_wf (cache : Bool) (c : Caches) (pt : Option Nat) (now : Nat) (code : Text) (h : c.WF) :
    (save cache c pt now code).WF := by
  obtain ⟨_, h2⟩ := h
  constructor
  · intro it hit
    simp only [save, Option.some.injEq] at hit
    subst hit; rfl
  · intro pk hpk
    cases cache
    · simp only [save, Bool.false_eq_true, if_false] at hpk
      exact h2 pk hpk
    · simp only [save, if_true, Option.some.injEq] at hpk
      subst hpk; rfl

theorem loadModule_wf (c : Caches) (pt : Option Nat) (h : c.WF) (t : Text) (c' : Caches)
    (hl : loadModule c pt = some (t, c')) : c'.WF := by
  obtain ⟨h1, h2⟩ := h
  unfold loadModule at hl
  split at hl
  · cases hl
  · split at hl
    · split at hl
      · cases hl; exact ⟨h1, h2⟩
      · cases hl
    · split at hl
      · rename_i pk hpk
        split at hl
        · cases hl
        · cases hl
          refine ⟨?_, h2⟩
          intro it hit
          simp only [Option.some.injEq] at hit
          subst hit
          exact h2 pk hpk
      · cases hl

theorem grammarParse_wf (cache diff : Bool) (code : Text) (pt : Option Nat) (now : Nat) (c : Caches)
    (h : c.WF) : (grammarParse cache diff code pt now c).2.WF := by
  unfold grammarParse
  split
  · rename_i r hr
    cases cache
    · simp at hr
    · simp only [if_true] at hr
      obtain ⟨t, c'⟩ := r
      exact loadModule_wf c pt h t c' hr
  · split
    · split
      · exact h
      · exact save_wf _ _ _ _ _ h
    · split
      · exact save_wf _ _ _ _ _ h
      · exact h

/-- without `load_module` the returned tree is the tree of the code that was handed in: the diff
cache is compared with the lines themselves -/
theorem grammarParse_uncached (diff : Bool) (code : Text) (pt : Option Nat) (now : Nat) (c : Caches)
    (h : c.WF) : (grammarParse false diff code pt now c).1 = code := by
  unfold grammarParse
  simp only [Bool.false_eq_true, if_false]
  split
  · rename_i it hit
    split
    · rename_i heq
      cases diff
      · simp at hit
      · simp only [if_true] at hit
        rw [h.1 it hit, heq]
    · rfl
  · rfl

theorem step_wf (cfg : Cfg) (w : World) (op : Op) (h : w.caches.WF) : (step cfg w op).2.caches.WF := by
  cases op with
  | write t m => exact h
  | remove => exact h
  | restart =>
    refine ⟨?_, h.2⟩
    intro it hit
    simp [step] at hit
  | script code now =>
    simp only [step, scriptInit]
    cases code with
    | none =>
      cases hf : w.file with
      | none => simpa using h
      | some f => simpa using grammarParse_wf _ _ _ _ _ _ h
    | some t => simpa using grammarParse_wf _ _ _ _ _ _ h
  | parse cache diff code now =>
    simp only [step]
    cases code with
    | none =>
      cases hf : w.file with
      | none => simpa using h
      | some f => simpa using grammarParse_wf _ _ _ _ _ _ h
    | some t => simpa using grammarParse_wf _ _ _ _ _ _ h

theorem scriptInit_never (cfg : Cfg) (hp : cfg.policy = .never) (code : Option Text) (file : Option File)
    (now : Nat) (c : Caches) (h : c.WF) (s : Script) (hs : (scriptInit cfg code file now c).1 = some s) :
    s.tree = s.code := by
  have hf : ∀ b, cfg.cacheFlag b = false := by intro b; simp [Cfg.cacheFlag, hp]
  unfold scriptInit at hs
  split at hs
  · cases hs
  · simp only [Option.some.injEq] at hs
    subst hs
    simp only [hf]
    exact grammarParse_uncached _ _ _ _ _ h
  · simp only [Option.some.injEq] at hs
    subst hs
    simp only [hf]
    exact grammarParse_uncached _ _ _ _ _ h

/-- what a Script's `_code` is: the buffer it was given, or the content of the file at that moment -/
theorem scriptInit_code (cfg : Cfg) (code : Option Text) (file : Option File) (now : Nat) (c : Caches)
    (s : Script) (hs : (scriptInit cfg code file now c).1 = some s) :
    (∀ t, code = some t → s.code = t) ∧ (code = none → ∃ f, file = some f ∧ s.code = f.content) := by
  unfold scriptInit at hs
  split at hs
  · cases hs
  · simp only [Option.some.injEq] at hs
    subst hs
    exact ⟨fun t ht => (by cases ht), fun _ => ⟨_, rfl, rfl⟩⟩
  · simp only [Option.some.injEq] at hs
    subst hs
    exact ⟨fun t ht => (by cases ht; rfl), fun hn => (by cases hn)⟩

theorem run_getElem? (cfg : Cfg) (ops : List Op) : ∀ (w : World) (i : Nat),
    (run cfg w ops)[i]? = (ops[i]?).map fun op => (step cfg (worldAfter cfg w (ops.take i)) op).1 := by
  induction ops with
  | nil => intro w i; simp [run]
  | cons op ops ih =>
    intro w i
    cases i with
    | zero => simp [run, worldAfter]
    | succ i => simp [run, worldAfter, ih]

theorem worldAfter_wf (cfg : Cfg) (ops : List Op) : ∀ (w : World), w.caches.WF → (worldAfter cfg w ops).caches.WF := by
  induction ops with
  | nil => intro w h; exact h
  | cons op ops ih => intro w h; exact ih _ (step_wf cfg w op h)

theorem run_script_faithful (cfg : Cfg) (hp : cfg.policy = .never) (ops : List Op) :
    ∀ (w : World), w.caches.WF → ∀ (i : Nat) (code : Option Text) (now : Nat),
      ops[i]? = some (.script code now) → ∀ s, (run cfg w ops)[i]? = some (some s) → s.tree = s.code := by
  induction ops with
  | nil => intro w _ i code now h; simp at h
  | cons op ops ih =>
    intro w hw i code now hop s hs
    cases i with
    | zero =>
      simp only [List.getElem?_cons_zero, Option.some.injEq] at hop
      subst hop
      simp only [run, List.getElem?_cons_zero, Option.some.injEq, step] at hs
      exact scriptInit_never cfg hp code w.file now w.caches hw s hs
    | succ i =>
      simp only [List.getElem?_cons_succ] at hop
      simp only [run, List.getElem?_cons_succ] at hs
      exact ih _ (step_wf cfg w op hw) i code now hop s hs

end JediModel.ScriptParse

import JediModel.Model.ObjModel
/-! Helper lemmas about `Model/ObjModel`. -/
namespace JediModel.ObjModel

theorem findIn_mem {d : List Entry} {a : String} {e : Entry} (h : findIn d a = some e) :
    e ∈ d ∧ e.name = a := by
  unfold findIn at h
  refine ⟨List.mem_of_find?_eq_some h, ?_⟩
  have := List.find?_some h
  simpa using this

theorem mroLookup_mem {mro : List (List Entry)} {a : String} {e : Entry}
    (h : mroLookup mro a = some e) : (∃ d ∈ mro, e ∈ d) ∧ e.name = a := by
  unfold mroLookup at h
  obtain ⟨d, hd, hf⟩ := List.exists_of_findSome?_eq_some h
  have := findIn_mem hf
  exact ⟨⟨d, hd, this.1⟩, this.2⟩

/-- a user `__get__` implies the type defines `__get__` -/
theorem Tag.hasGet_of_userGet {t : Tag} (h : t.userGet = true) : t.hasGet = true := by
  cases t <;> simp_all [Tag.userGet, Tag.hasGet]

theorem Tag.userGet_of_userGetNoInstance {t : Tag} (h : t.userGetNoInstance = true) :
    t.userGet = true := by
  cases t <;> simp_all [Tag.userGet, Tag.userGetNoInstance]

/-- a value with a user `__get__` has a user-defined type, or is a `property` -/
theorem typeIn_of_userGet {allowed : List String} {t : Tag} (h : t.userGet = true)
    (hp : allowed.contains "property" = false) : typeIn allowed t = false := by
  cases t <;> simp_all [Tag.userGet, typeIn, Tag.typeName]

end JediModel.ObjModel

import JediModel.Model.ObjModel
/-! Helper lemmas about `Model/ObjModel`. -/
namespace JediModel.ObjModel

theorem findIn_mem {d : List Entry} {a : String} {e : Entry} (h : findIn d a = some e) :
    e ∈ d ∧ e.name = a := by
  unfold findIn at h
  refine ⟨List.mem_of_find?_eq_some h, ?_⟩
  have := List.find?_some h
  simpa using this

theorem mroLookup_mem {mro : List (List Entry)} {a : String} {e : Entry}
    (h : mroLookup mro a = some e) : (∃ d ∈ mro, e ∈ d) ∧ e.name = a := by
  unfold mroLookup at h
  obtain ⟨d, hd, hf⟩ := List.exists_of_findSome?_eq_some h
  have := findIn_mem hf
  exact ⟨⟨d, hd, this.1⟩, this.2⟩

/-- a user `__get__` implies the type defines `__get__` -/
theorem Tag.hasGet_of_userGet {t : Tag} (h : t.userGet = true) : t.hasGet = true := by
  cases t <;> simp_all [Tag.userGet, Tag.hasGet]

theorem Tag.userGet_of_userGetNoInstance {t : Tag} (h : t.userGetNoInstance = true) :
    t.userGet = true := by
  cases t <;> simp_all [Tag.userGet, Tag.userGetNoInstance]

/-- a value with a user `__get__` has a user-defined type, or is a `property` -/
theorem typeIn_of_userGet {allowed : List String} {t : Tag} (h : t.userGet = true)
    (hp : allowed.contains "property" = false) : typeIn allowed t = false := by
  cases t <;> simp_all [Tag.userGet, typeIn, Tag.typeName]

theorem Slot.builtin_bne_absent (t : String) : (Slot.builtin t != Slot.absent) = true := by simp
theorem Slot.user_bne_absent : (Slot.user != Slot.absent) = true := by decide
theorem Slot.noneVal_bne_absent : (Slot.noneVal != Slot.absent) = true := by decide
theorem Slot.other_bne_absent : (Slot.other != Slot.absent) = true := by decide

theorem ClassSlots.get?_mem {d : ClassSlots} {n : String} {s : Slot} (h : d.get? n = some s) :
    ∃ e ∈ d, e.2 = s := by
  unfold ClassSlots.get? at h
  split at h
  · rename_i e he
    exact ⟨e, List.mem_of_find?_eq_some he, by simpa using h⟩
  · simp at h

/-- what the static lookup finds is a stored entry -/
theorem lookupSpecial_ne_absent {mro : List ClassSlots} {n : String} {s : Slot}
    (hwf : mroStoresEntries mro = true) (h : lookupSpecial mro n = some s) : s ≠ .absent := by
  unfold lookupSpecial at h
  obtain ⟨d, hd, hf⟩ := List.exists_of_findSome?_eq_some h
  obtain ⟨e, he, hes⟩ := ClassSlots.get?_mem hf
  unfold mroStoresEntries at hwf
  have h1 := (List.all_eq_true.mp hwf) d hd
  have h2 := (List.all_eq_true.mp h1) e he
  subst hes
  simpa using h2

end JediModel.ObjModel

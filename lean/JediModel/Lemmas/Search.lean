import JediModel.Model.Search
/-! Lemmas about `Model/Search` and the limit loop of `Model/Walk`. -/
namespace JediModel.Search
open JediModel.Walk

theorem rpartSpace_some {s b a : Str} (h : rpartSpace s = some (b, a)) : s = b ++ ' ' :: a ∧ ' ' ∉ a := by
  induction s generalizing b a with
  | nil => simp [rpartSpace] at h
  | cons c cs ih =>
    simp only [rpartSpace] at h
    split at h
    · rename_i b' a' heq
      cases h
      obtain ⟨h1, h2⟩ := ih heq
      exact ⟨by rw [h1]; rfl, h2⟩
    · rename_i heq
      split at h
      · rename_i hc
        cases h
        subst hc
        refine ⟨rfl, ?_⟩
        clear ih
        induction cs with
        | nil => simp
        | cons d ds ihd =>
          simp only [rpartSpace] at heq
          split at heq
          · cases heq
          · split at heq
            · cases heq
            · rename_i hne hd
              simp only [List.mem_cons, not_or]
              exact ⟨fun h => hd h.symm, ihd hne⟩
      · cases h

theorem rpartSpace_none {s : Str} (h : rpartSpace s = none) : ' ' ∉ s := by
  induction s with
  | nil => simp
  | cons d ds ihd =>
    simp only [rpartSpace] at h
    split at h
    · cases h
    · split at h
      · cases h
      · rename_i hne hd
        simp only [List.mem_cons, not_or]
        exact ⟨fun h => hd h.symm, ihd hne⟩

theorem splitDot_ne_nil (s : Str) : splitDot s ≠ [] := by
  cases s with
  | nil => simp [splitDot]
  | cons c cs =>
    simp only [splitDot]
    split
    · simp
    · split <;> simp

theorem splitDot_no_dot (s : Str) : ∀ w ∈ splitDot s, '.' ∉ w := by
  induction s with
  | nil => simp [splitDot]
  | cons c cs ih =>
    simp only [splitDot]
    split
    · intro w hw
      rcases List.mem_cons.mp hw with h | h
      · subst h; simp
      · exact ih w h
    · rename_i hc
      split
      · intro w hw
        simp only [List.mem_singleton] at hw
        subst hw
        simp only [List.mem_singleton]
        exact fun h => hc h.symm
      · rename_i w0 ws heq
        intro w hw
        rw [heq] at ih
        rcases List.mem_cons.mp hw with h | h
        · subst h
          simp only [List.mem_cons, not_or]
          exact ⟨fun h => hc h.symm, ih w0 (List.mem_cons_self)⟩
        · exact ih w (List.mem_cons_of_mem _ h)

/-- `'.'.join(s.split('.')) == s` -/
theorem splitDot_join (s : Str) : List.intercalate ['.'] (splitDot s) = s := by
  induction s with
  | nil => simp [splitDot, List.intercalate]
  | cons c cs ih =>
    simp only [splitDot]
    split
    · rename_i hc
      subst hc
      have hne := splitDot_ne_nil cs
      cases hsp : splitDot cs with
      | nil => exact absurd hsp hne
      | cons w ws =>
        rw [hsp] at ih
        rw [← ih]
        simp [List.intercalate, List.intersperse]
    · split
      · rename_i heq
        exact absurd heq (splitDot_ne_nil cs)
      · rename_i w ws heq
        rw [heq] at ih
        rw [← ih]
        cases ws <;> simp [List.intercalate, List.intersperse]

/-! ## limits -/

theorem searchLoop_eq {α} (mentions : α → Bool) (P O : Nat) (fs : List α) (opened parsed : Nat)
    (ho : opened < O) (hp : parsed < P) :
    searchLoop mentions P O opened parsed fs =
      ((fs.take (O - opened)).filter mentions).take (P - parsed) := by
  induction fs generalizing opened parsed with
  | nil => simp [searchLoop]
  | cons f fs ih =>
    obtain ⟨k, hk⟩ : ∃ k, O - opened = k + 1 := ⟨O - opened - 1, by omega⟩
    obtain ⟨j, hj⟩ : ∃ j, P - parsed = j + 1 := ⟨P - parsed - 1, by omega⟩
    simp only [searchLoop, hk, hj, List.take_succ_cons]
    by_cases hm : mentions f = true
    · simp only [hm, if_true, List.filter_cons_of_pos, List.take_succ_cons]
      by_cases h1 : parsed + 1 ≥ P
      · have : j = 0 := by omega
        simp [h1, this]
      · by_cases h2 : opened + 1 ≥ O
        · have : k = 0 := by omega
          simp [h1, h2, this]
        · simp only [h1, h2, if_false]
          rw [ih (opened + 1) (parsed + 1) (by omega) (by omega)]
          have e1 : O - (opened + 1) = k := by omega
          have e2 : P - (parsed + 1) = j := by omega
          rw [e1, e2]
    · simp only [hm, List.filter_cons_of_neg, Bool.false_eq_true, if_false, not_false_eq_true]
      by_cases h2 : opened + 1 ≥ O
      · have : k = 0 := by omega
        simp [h2, this]
      · simp only [h2, if_false]
        rw [ih (opened + 1) parsed (by omega) hp]
        have e1 : O - (opened + 1) = k := by omega
        rw [e1, hj]

/-! ## duplicates -/

theorem skipLoop_sublist (seenT : List (Option Nat)) (seenM : List Str) (l : List Nm) :
    (skipLoop seenT seenM l).Sublist l := by
  induction l generalizing seenT seenM with
  | nil => simp [skipLoop]
  | cons d ds ih =>
    simp only [skipLoop]
    split
    · exact (ih _ _).cons _
    · split
      · split
        · exact (ih _ _).cons _
        · exact (ih _ _).cons_cons _
      · exact (ih _ _).cons_cons _

/-- the key `_try_to_skip_duplicates` compares modules by -/
def modKey (d : Nm) : Option Str := if d.type = "module".toList then d.modPath else none

theorem skipLoop_treeIds_nodup (seenT : List (Option Nat)) (seenM : List Str) (l : List Nm) :
    ((skipLoop seenT seenM l).filterMap (·.treeId)).Nodup ∧
    ∀ t ∈ (skipLoop seenT seenM l).filterMap (·.treeId), some t ∉ seenT := by
  induction l generalizing seenT seenM with
  | nil => simp [skipLoop]
  | cons d ds ih =>
    have key : ∀ seenM', ¬ (d.treeId.isSome ∧ d.treeId ∈ seenT) →
        ((d :: skipLoop (d.treeId :: seenT) seenM' ds).filterMap (·.treeId)).Nodup ∧
        ∀ t ∈ (d :: skipLoop (d.treeId :: seenT) seenM' ds).filterMap (·.treeId), some t ∉ seenT := by
      intro seenM' hcond
      obtain ⟨i1, i2⟩ := ih (d.treeId :: seenT) seenM'
      cases hd : d.treeId with
      | none =>
        rw [hd] at i1 i2
        simp only [List.filterMap_cons, hd]
        exact ⟨i1, fun t ht hm => i2 t ht (List.mem_cons_of_mem _ hm)⟩
      | some t0 =>
        rw [hd] at i1 i2
        simp only [List.filterMap_cons, hd]
        refine ⟨List.nodup_cons.mpr ⟨fun hm => i2 t0 hm List.mem_cons_self, i1⟩, fun t ht hm => ?_⟩
        rcases List.mem_cons.mp ht with h | h
        · subst h; exact hcond ⟨by simp [hd], by rw [hd]; exact hm⟩
        · exact i2 t h (List.mem_cons_of_mem _ hm)
    simp only [skipLoop]
    split
    · exact ih _ _
    · rename_i hcond
      split
      · split
        · exact ih _ _
        · exact key _ hcond
      · exact key _ hcond

theorem skipLoop_modKeys_nodup (seenT : List (Option Nat)) (seenM : List Str) (l : List Nm) :
    ((skipLoop seenT seenM l).filterMap modKey).Nodup ∧
    ∀ p ∈ (skipLoop seenT seenM l).filterMap modKey, p ∉ seenM := by
  induction l generalizing seenT seenM with
  | nil => simp [skipLoop]
  | cons d ds ih =>
    simp only [skipLoop]
    split
    · exact ih _ _
    · split
      · rename_i p hp
        have hk : modKey d = some p := hp
        split
        · exact ih _ _
        · rename_i hnot
          obtain ⟨i1, i2⟩ := ih (d.treeId :: seenT) (p :: seenM)
          simp only [List.filterMap_cons, hk]
          refine ⟨List.nodup_cons.mpr ⟨fun hm => i2 p hm List.mem_cons_self, i1⟩, fun q hq hm => ?_⟩
          rcases List.mem_cons.mp hq with h | h
          · subst h; exact hnot hm
          · exact i2 q h (List.mem_cons_of_mem _ hm)
      · rename_i hp
        have hk : modKey d = none := hp
        obtain ⟨i1, i2⟩ := ih (d.treeId :: seenT) seenM
        simp only [List.filterMap_cons, hk]
        exact ⟨i1, i2⟩

/-- a definition (not of type `module`) whose tree name was not seen before has a representative
with the same tree name among the results `_try_to_skip_duplicates` lets through -/
theorem skipLoop_keeps (t : Nat) (seenT : List (Option Nat)) (seenM : List Str) (l : List Nm) (d : Nm)
    (hd : d ∈ l) (hty : d.type ≠ "module".toList) (ht : d.treeId = some t) (hs : some t ∉ seenT) :
    ∃ d' ∈ skipLoop seenT seenM l, d'.treeId = some t := by
  induction l generalizing seenT seenM with
  | nil => cases hd
  | cons x xs ih =>
    have tail_of : d ≠ x → d ∈ xs := fun hne => by
      rcases List.mem_cons.mp hd with h | h
      · exact absurd h hne
      · exact h
    simp only [skipLoop]
    split
    · rename_i hc
      have hne : d ≠ x := by
        intro h
        subst h
        rw [ht] at hc
        exact hs hc.2
      exact ih _ _ (tail_of hne) hs
    · by_cases hx : x.treeId = some t
      · split
        · rename_i p hp
          split
          · have hne : d ≠ x := by
              intro h
              subst h
              simp at hp
              exact hty (hp.1.trans (by decide))
            exact ih _ _ (tail_of hne) hs
          · exact ⟨x, List.mem_cons_self, hx⟩
        · exact ⟨x, List.mem_cons_self, hx⟩
      · have hne : d ≠ x := fun h => hx (h ▸ ht)
        have hs' : some t ∉ x.treeId :: seenT := by
          simp only [List.mem_cons, not_or]
          exact ⟨fun h => hx h.symm, hs⟩
        split
        · split
          · exact ih _ _ (tail_of hne) hs
          · obtain ⟨d', h1, h2⟩ := ih _ _ (tail_of hne) hs'
            exact ⟨d', List.mem_cons_of_mem _ h1, h2⟩
        · obtain ⟨d', h1, h2⟩ := ih _ _ (tail_of hne) hs'
          exact ⟨d', List.mem_cons_of_mem _ h1, h2⟩

/-- a module hit whose `module_path` was not seen before has a representative with the same
`module_path` among the results (module names carry no tree name) -/
theorem skipLoop_keeps_module (p : Str) (seenT : List (Option Nat)) (seenM : List Str) (l : List Nm) (d : Nm)
    (hd : d ∈ l) (hk : modKey d = some p) (hid : d.treeId = none) (hs : p ∉ seenM) :
    ∃ d' ∈ skipLoop seenT seenM l, modKey d' = some p := by
  induction l generalizing seenT seenM with
  | nil => cases hd
  | cons x xs ih =>
    have tail_of : d ≠ x → d ∈ xs := fun hne => by
      rcases List.mem_cons.mp hd with h | h
      · exact absurd h hne
      · exact h
    simp only [skipLoop]
    split
    · rename_i hc
      have hne : d ≠ x := by
        intro h
        subst h
        rw [hid] at hc
        simp at hc
      exact ih _ _ (tail_of hne) hs
    · by_cases hx : modKey x = some p
      · have hx' : (if x.type = "module".toList then x.modPath else none) = some p := hx
        split
        · rename_i q hq
          have : q = p := by
            rw [hx'] at hq
            exact (Option.some.inj hq).symm
          subst this
          split
          · rename_i hin
            exact absurd hin hs
          · exact ⟨x, List.mem_cons_self, hx⟩
        · rename_i hq
          rw [hx'] at hq
          cases hq
      · have hne : d ≠ x := fun h => hx (h ▸ hk)
        split
        · rename_i q hq
          split
          · exact ih _ _ (tail_of hne) hs
          · have hs' : p ∉ q :: seenM := by
              simp only [List.mem_cons, not_or]
              refine ⟨fun h => hx ?_, hs⟩
              subst h
              exact hq
            obtain ⟨d', h1, h2⟩ := ih _ _ (tail_of hne) hs'
            exact ⟨d', List.mem_cons_of_mem _ h1, h2⟩
        · obtain ⟨d', h1, h2⟩ := ih _ _ (tail_of hne) hs
          exact ⟨d', List.mem_cons_of_mem _ h1, h2⟩

/-! ## step 1 of `_search_func` and the files handed to step 2 -/

/-- if the file branch appends every file (named like the word or not) and reaches the module hit
exactly for the files named like the word, the step-1 loop yields the module hits of the
specification and hands **every file the walk yields** to step 2, in walk order -/
theorem step1_eq (fs : Bool → Option (Bool × Bool)) (sfx : List Str) (stubSfx : Str) (lower : Str → Str)
    (tbl : List PathInfo) (wantedType name : Str) (complete : Bool)
    (h : ∀ named, fs named = some (true, named)) (evs : List Ev) :
    step1 fs sfx stubSfx lower tbl wantedType name complete evs =
      some (moduleHits sfx stubSfx lower tbl wantedType name complete evs,
            (evs.filter (·.isFile)).map (·.path)) := by
  induction evs with
  | nil => simp [step1, moduleHits]
  | cons ev evs ih =>
    simp only [step1, ih, moduleHits]
    cases hf : ev.isFile
    · simp [hf]
    · simp [hf, h]

theorem moduleHit_mem_moduleHits (sfx : List Str) (stubSfx : Str) (lower : Str → Str)
    (tbl : List PathInfo) (wantedType name : Str) (complete : Bool) (evs : List Ev) (ev : Ev) (hev : ev ∈ evs)
    (hn : (if ev.isFile then fileNamed sfx name ev else folderNamed stubSfx name ev) = true) :
    ∀ m ∈ moduleHit lower tbl wantedType name complete ev,
      m ∈ moduleHits sfx stubSfx lower tbl wantedType name complete evs := by
  intro m hm
  induction evs with
  | nil => cases hev
  | cons e es ih =>
    simp only [moduleHits, List.mem_append]
    rcases List.mem_cons.mp hev with h | h
    · subst h
      left
      rw [hn]
      simpa using hm
    · exact .inr (ih h)

end JediModel.Search

import JediModel.Model.Match
namespace JediModel.Match

theorem dropAfterFirst_none_iff (c : Char) (s : List Char) :
    dropAfterFirst c s = none ↔ c ∉ s := by
  induction s with
  | nil => simp [dropAfterFirst]
  | cons x xs ih =>
    unfold dropAfterFirst
    by_cases h : x = c
    · simp [h]
    · have h2 : ¬ c = x := fun h' => h h'.symm
      simp [h, h2, ih]

theorem cons_sublist_iff_drop (c : Char) (cs s : List Char) :
    (c :: cs).Sublist s ↔ ∃ r, dropAfterFirst c s = some r ∧ cs.Sublist r := by
  induction s with
  | nil => simp [dropAfterFirst]
  | cons x xs ih =>
    unfold dropAfterFirst
    by_cases h : x = c
    · subst h
      simp [List.cons_sublist_cons]
    · simp only [h, if_false]
      rw [← ih]
      constructor
      · intro hs
        cases hs with
        | cons _ h' => exact h'
        | cons_cons _ h' => exact absurd rfl h
      · intro hs
        exact List.Sublist.cons _ hs

theorem singleton_sublist_iff (c : Char) (s : List Char) : [c].Sublist s ↔ c ∈ s := by
  simp

theorem fuzzyMatch_iff_sublist (s like : List Char) :
    fuzzyMatch s like = true ↔ like.Sublist s := by
  induction like generalizing s with
  | nil => simp [fuzzyMatch]
  | cons c cs ih =>
    cases cs with
    | nil => simp [fuzzyMatch]
    | cons c' cs' =>
      rw [cons_sublist_iff_drop]
      unfold fuzzyMatch
      cases hd : dropAfterFirst c s with
      | none => simp
      | some r => simp [ih r]

theorem startMatch_iff_prefix (s like : List Char) :
    startMatch s like = true ↔ like <+: s := by
  simp [startMatch]

end JediModel.Match

import JediModel.Model.Names
/-! Lemmas about the memo of one Script (`Model/Names`): histories of name enumerations. -/
namespace JediModel.Names

theorem Memo.get_set_same (f : Flags) (v : List Occ) (m : Memo) : (m.set f v).get f = some v := by
  induction m with
  | nil => simp [Memo.set, Memo.get]
  | cons a m ih =>
    obtain ⟨g, w⟩ := a
    by_cases h : g = f
    · simp [Memo.set, Memo.get, h]
    · simp [Memo.set, Memo.get, h, ih]

theorem Memo.get_set_other (f g : Flags) (v : List Occ) (m : Memo) (h : g ≠ f) :
    (m.set f v).get g = m.get g := by
  induction m with
  | nil => simp [Memo.set, Memo.get, Ne.symm h]
  | cons a m ih =>
    obtain ⟨k, w⟩ := a
    by_cases hk : k = f
    · subst hk
      simp [Memo.set, Memo.get, Ne.symm h]
    · by_cases hg : k = g
      · subst hg
        simp [Memo.set, Memo.get, hk]
      · simp [Memo.set, Memo.get, hk, hg, ih]

/-- every remembered entry is the full container of its key -/
def Memo.Good (occs : List Occ) (m : Memo) : Prop :=
  ∀ f v, m.get f = some v → v = getModuleNames occs f.1 f.2.1 f.2.2

theorem Memo.good_nil (occs : List Occ) : Memo.Good occs [] := by
  intro f v h
  simp [Memo.get] at h

/-- unless a one-shot iterator is remembered, every enumeration of every history answers like the
first one of a fresh Script -/
theorem namesHistory_eq_map (src : NameSource) (h : (src.memoised && src.oneShot) = false)
    (occs : List Occ) (fs : List Flags) (m : Memo) (hm : Memo.Good occs m) :
    namesHistory src occs m fs = fs.map (namesOf occs) := by
  induction fs generalizing m with
  | nil => rfl
  | cons f fs ih =>
    simp only [namesHistory, List.map_cons]
    cases hmem : src.memoised with
    | false =>
      have : namesStep src occs m f = (namesOf occs f, m) := by simp [namesStep, hmem]
      rw [this]; simp [ih m hm]
    | true =>
      have hone : src.oneShot = false := by simpa [hmem] using h
      cases hget : m.get f with
      | some left =>
        have hl := hm f left hget
        have : namesStep src occs m f = (namesOf occs f, m) := by
          simp [namesStep, hmem, hget, hone, hl, namesOf, scriptNames]
        rw [this]; simp [ih m hm]
      | none =>
        have : namesStep src occs m f
            = (namesOf occs f, m.set f (getModuleNames occs f.1 f.2.1 f.2.2)) := by
          simp [namesStep, hmem, hget, hone, namesOf, scriptNames]
        rw [this]
        have hg : Memo.Good occs (m.set f (getModuleNames occs f.1 f.2.1 f.2.2)) := by
          intro g v hv
          by_cases hgf : g = f
          · subst hgf
            rw [Memo.get_set_same] at hv
            exact (Option.some.inj hv).symm
          · rw [Memo.get_set_other _ _ _ _ hgf] at hv
            exact hm g v hv
        simp [ih _ hg]

end JediModel.Names

import JediModel.Model.Tree
import JediModel.Lemmas.Text
/-! Lemmas about `Model/Tree`: `code` is the concatenation of the leaves' `prefix ++ value`,
and the positions `layout` assigns are faithful to `splitLines (code t)`. -/
namespace JediModel.Tree
open JediModel.Text

/-- text of a leaf sequence -/
def codeOf : List LeafInfo → Str
  | [] => []
  | l :: ls => l.pfx ++ l.value ++ codeOf ls

theorem codeOf_append (xs ys : List LeafInfo) : codeOf (xs ++ ys) = codeOf xs ++ codeOf ys := by
  induction xs with
  | nil => simp [codeOf]
  | cons x xs ih => simp [codeOf, ih]

mutual
  theorem code_eq_codeOf : ∀ t : T, code t = codeOf (leaves t)
    | .leaf _ _ p v => by simp [code, leaves, codeOf]
    | .node _ _ cs => by simp [code, leaves, codeList_eq_codeOf cs]
  theorem codeList_eq_codeOf : ∀ cs : List T, codeList cs = codeOf (leavesList cs)
    | [] => by simp [codeList, leavesList, codeOf]
    | c :: cs => by
      simp [codeList, leavesList, codeOf_append, code_eq_codeOf c, codeList_eq_codeOf cs]
end

/-- Well-formedness of a leaf sequence laid out after the text `a`: no boundary between two
pieces (prefix | value | next prefix …) falls inside a `\r\n`.  parso's tokenizer guarantees
this (its newline token is `\r\n?|\n`); the harness re-checks it on every dumped tree. -/
def SafeFrom (a : Str) : List LeafInfo → Prop
  | [] => True
  | l :: ls =>
    Safe a (l.pfx ++ (l.value ++ codeOf ls)) ∧ Safe (a ++ l.pfx) (l.value ++ codeOf ls)
      ∧ SafeFrom (a ++ l.pfx ++ l.value) ls

instance decSafeFrom : (a : Str) → (ls : List LeafInfo) → Decidable (SafeFrom a ls)
  | _, [] => isTrue trivial
  | a, l :: ls =>
    have := decSafeFrom (a ++ l.pfx ++ l.value) ls
    by unfold SafeFrom; exact inferInstance

/-- a tree is CRLF-safe when its leaf sequence is, from the start of the file -/
def CRLFSafe (t : T) : Prop := SafeFrom [] (leaves t)

instance (t : T) : Decidable (CRLFSafe t) := by unfold CRLFSafe; exact inferInstance

/-- The layout law, general form: laid out after the already consumed text `a`, every leaf's
position indexes `splitLines (a ++ code)` at exactly that leaf: the text from there on is the
leaf's value followed by the code of the leaves after it. -/
theorem layout_faithful (a : Str) (ls : List LeafInfo) (h : SafeFrom a ls) :
    ∀ pre l post, ls = pre ++ l :: post →
      ∃ pos, (l, pos) ∈ layout (advance ⟨1, 0⟩ a) ls ∧
        pos = advance ⟨1, 0⟩ (a ++ codeOf pre ++ l.pfx) ∧
        textFrom (splitLines (a ++ codeOf ls)) pos = some (l.value ++ codeOf post) := by
  induction ls generalizing a with
  | nil => intro pre l post hh; simp at hh
  | cons x xs ih =>
    intro pre l post hh
    obtain ⟨h1, h2, h3⟩ := h
    have e1 : advance (advance ⟨1, 0⟩ a) x.pfx = advance ⟨1, 0⟩ (a ++ x.pfx) :=
      advance_append _ _ _ (Safe.of_append_right h1)
    have e2 : advance (advance ⟨1, 0⟩ (a ++ x.pfx)) x.value = advance ⟨1, 0⟩ (a ++ x.pfx ++ x.value) :=
      advance_append _ _ _ (Safe.of_append_right h2)
    cases pre with
    | nil =>
      simp only [List.nil_append, List.cons.injEq] at hh
      obtain ⟨rfl, rfl⟩ := hh
      refine ⟨advance ⟨1, 0⟩ (a ++ x.pfx), ?_, by simp [codeOf], ?_⟩
      · simp [layout, e1]
      · have := textFrom_advance (a ++ x.pfx) (x.value ++ codeOf xs) h2
        simpa [codeOf, List.append_assoc] using this
    | cons y pre =>
      simp only [List.cons_append, List.cons.injEq] at hh
      obtain ⟨rfl, rfl⟩ := hh
      obtain ⟨pos, hm, hp, ht⟩ := ih (a ++ x.pfx ++ x.value) h3 pre l post rfl
      refine ⟨pos, ?_, ?_, ?_⟩
      · simp only [layout, e1, e2]
        exact List.mem_cons_of_mem _ hm
      · simpa [codeOf, List.append_assoc] using hp
      · simpa [codeOf, List.append_assoc] using ht

/-- every entry of a layout is a leaf of the sequence at its place -/
theorem layout_map_fst (p : Pos) (ls : List LeafInfo) : (layout p ls).map (·.1) = ls := by
  induction ls generalizing p with
  | nil => simp [layout]
  | cons x xs ih => simp [layout, ih]

theorem layout_length (p : Pos) (ls : List LeafInfo) : (layout p ls).length = ls.length := by
  have := congrArg List.length (layout_map_fst p ls)
  simpa using this

/-- positional version: the `i`-th entry of the layout -/
theorem layout_getElem (a : Str) (ls : List LeafInfo) (h : SafeFrom a ls) (i : Nat) (hi : i < ls.length) :
    ∃ pos, (layout (advance ⟨1, 0⟩ a) ls)[i]? = some (ls[i], pos) ∧
      pos = advance ⟨1, 0⟩ (a ++ codeOf (ls.take i) ++ ls[i].pfx) ∧
      textFrom (splitLines (a ++ codeOf ls)) pos = some (ls[i].value ++ codeOf (ls.drop (i + 1))) := by
  induction ls generalizing a i with
  | nil => simp at hi
  | cons x xs ih =>
    obtain ⟨h1, h2, h3⟩ := h
    have e1 : advance (advance ⟨1, 0⟩ a) x.pfx = advance ⟨1, 0⟩ (a ++ x.pfx) :=
      advance_append _ _ _ (Safe.of_append_right h1)
    have e2 : advance (advance ⟨1, 0⟩ (a ++ x.pfx)) x.value = advance ⟨1, 0⟩ (a ++ x.pfx ++ x.value) :=
      advance_append _ _ _ (Safe.of_append_right h2)
    cases i with
    | zero =>
      refine ⟨advance ⟨1, 0⟩ (a ++ x.pfx), by simp [layout, e1], by simp [codeOf], ?_⟩
      have := textFrom_advance (a ++ x.pfx) (x.value ++ codeOf xs) h2
      simpa [codeOf, List.append_assoc] using this
    | succ i =>
      have hi' : i < xs.length := by simpa using hi
      obtain ⟨pos, hm, hp, ht⟩ := ih (a ++ x.pfx ++ x.value) h3 i hi'
      refine ⟨pos, ?_, ?_, ?_⟩
      · simp only [layout, e1, e2, List.getElem?_cons_succ, List.getElem_cons_succ]
        exact hm
      · simpa [codeOf, List.append_assoc] using hp
      · simpa [codeOf, List.append_assoc] using ht

end JediModel.Tree

import JediModel.Model.Mro
/-! # Lemmas about the `py__mro__` listing (C15) -/
namespace JediModel.Mro
open JediModel.Recursion (Err)

/-- pigeonhole: a duplicate-free list of numbers below `n` has at most `n` elements -/
theorem nodup_bounded_length (n : Nat) : ∀ (l : List Nat), l.Nodup → (∀ x ∈ l, x < n) → l.length ≤ n := by
  induction n with
  | zero =>
    intro l _ h
    cases l with
    | nil => simp
    | cons a t => exact absurd (h a (by simp)) (by omega)
  | succ n ih =>
    intro l hn hb
    have h1 : (l.erase n).Nodup := hn.sublist List.erase_sublist
    have h2 : ∀ x ∈ l.erase n, x < n := by
      intro x hx
      have hx' := (List.Nodup.mem_erase_iff hn).1 hx
      have := hb x hx'.2
      have := hx'.1
      omega
    have h3 := ih (l.erase n) h1 h2
    have h4 : (l.erase n).length ≥ l.length - 1 := by
      rw [List.length_erase]; split <;> omega
    omega

/-- the loop invariant that holds when the appended element is the yielded one -/
structure Inv (n : Nat) (s : St) : Prop where
  same : s.seen = s.out
  nodup : s.out.Nodup
  below : ∀ x ∈ s.out, x < n

theorem Inv.length_le {n : Nat} {s : St} (h : Inv n s) : s.out.length ≤ n :=
  nodup_bounded_length n s.out h.nodup h.below

theorem inv_init (n c : Nat) (hc : c < n) : Inv n (St.init c) := by
  refine ⟨rfl, ?_, ?_⟩
  · simp [St.init]
  · intro x hx; simp [St.init] at hx; omega

/-- the inner loop performs one iteration per element of the base's listing, whatever is recorded -/
theorem inner_steps (record : Nat → Nat → Nat) (cls : Nat) (l : List Nat) :
    ∀ s : St, (inner record cls s l).steps = s.steps + l.length := by
  induction l with
  | nil => intro s; simp [inner]
  | cons x xs ih =>
    intro s
    unfold inner
    split
    · rw [ih]; simp; omega
    · rw [ih]; simp; omega

/-- with `recordYielded` the invariant is kept, and every membership test scans at most `n` cells -/
theorem inner_inv (n cls : Nat) (l : List Nat) (hl : ∀ x ∈ l, x < n) :
    ∀ s : St, Inv n s → Inv n (inner recordYielded cls s l) ∧
      (inner recordYielded cls s l).scan ≤ s.scan + l.length * n := by
  induction l with
  | nil => intro s hs; simp [inner, hs]
  | cons x xs ih =>
    intro s hs
    have hxs : ∀ y ∈ xs, y < n := fun y hy => hl y (by simp [hy])
    have hlen : s.seen.length ≤ n := by rw [hs.same]; exact hs.length_le
    unfold inner
    split
    · rename_i hmem
      have hs1 : Inv n { s with steps := s.steps + 1, scan := s.scan + s.seen.length } :=
        ⟨hs.same, hs.nodup, hs.below⟩
      obtain ⟨h1, h2⟩ := ih hxs _ hs1
      refine ⟨h1, ?_⟩
      simp only [List.length_cons] at h2 ⊢
      rw [Nat.add_mul]
      omega
    · rename_i hmem
      have hx : x < n := hl x (by simp)
      have hs1 : Inv n { s with steps := s.steps + 1, scan := s.scan + s.seen.length,
                                seen := s.seen ++ [recordYielded cls x], out := s.out ++ [x] } := by
        refine ⟨?_, ?_, ?_⟩
        · simp [recordYielded, hs.same]
        · rw [hs.same] at hmem
          simp only
          rw [List.nodup_append]
          refine ⟨hs.nodup, by simp, ?_⟩
          intro a ha b hb
          simp at hb
          subst hb
          intro hab
          subst hab
          exact hmem ha
        · intro y hy
          simp at hy
          rcases hy with hy | hy
          · exact hs.below y hy
          · omega
      obtain ⟨h1, h2⟩ := ih hxs _ hs1
      refine ⟨h1, ?_⟩
      simp only [List.length_cons] at h2 ⊢
      rw [Nat.add_mul]
      omega

/-- what one body may assume about the (cached) listings of its bases -/
def SubOk (n : Nat) (sub : Nat → Except Err (List Nat)) (bs : List Nat) : Prop :=
  ∀ b ∈ bs, ∀ l, sub b = .ok l → (∀ x ∈ l, x < n) ∧ l.length ≤ n

theorem outer_inv (n : Nat) (sub : Nat → Except Err (List Nat)) (bs : List Nat) :
    SubOk n sub bs → ∀ s s' : St, Inv n s → outer recordYielded sub s bs = .ok s' →
      Inv n s' ∧ s'.steps ≤ s.steps + bs.length * n ∧ s'.scan ≤ s.scan + bs.length * (n * n) := by
  induction bs with
  | nil =>
    intro _ s s' hs h
    simp [outer] at h
    subst h
    simp [hs]
  | cons b bs ih =>
    intro hsub s s' hs h
    unfold outer at h
    split at h
    · simp at h
    · rename_i l hl
      obtain ⟨hbelow, hlen⟩ := hsub b (by simp) l hl
      obtain ⟨hi, hscan⟩ := inner_inv n b l hbelow s hs
      have hsteps := inner_steps recordYielded b l s
      have hsub' : SubOk n sub bs := fun b' hb' => hsub b' (by simp [hb'])
      obtain ⟨h1, h2, h3⟩ := ih hsub' _ s' hi h
      refine ⟨h1, ?_, ?_⟩
      · simp only [List.length_cons]
        rw [Nat.add_mul]
        omega
      · simp only [List.length_cons]
        rw [Nat.add_mul]
        have : l.length * n ≤ n * n := Nat.mul_le_mul_right n hlen
        omega

/-- the classes below `n` only inherit from classes below `n` -/
def Closed (bases : Nat → List Nat) (n : Nat) : Prop := ∀ c, c < n → ∀ b ∈ bases c, b < n

/-- the full specification of one body of the source's `py__mro__` -/
theorem mroWith_spec (bases : Nat → List Nat) (n : Nat) (hc : Closed bases n) :
    ∀ fuel c s, c < n → mroWith recordYielded bases fuel c = .ok s →
      Inv n s ∧ s.steps ≤ (bases c).length * n ∧ s.scan ≤ (bases c).length * (n * n) := by
  intro fuel
  induction fuel with
  | zero => intro c s _ h; simp [mroWith] at h
  | succ fuel ih =>
    intro c s hcn h
    unfold mroWith at h
    have hsub : SubOk n (fun b => outOf (mroWith recordYielded bases fuel b)) (bases c) := by
      intro b hb l hl
      have hbn := hc c hcn b hb
      simp only [outOf] at hl
      split at hl
      · simp at hl
      · rename_i sb hsb
        simp at hl
        subst hl
        have := (ih b sb hbn hsb).1
        exact ⟨this.below, this.length_le⟩
    have := outer_inv n _ (bases c) hsub (St.init c) s (inv_init n c hcn) h
    simpa [St.init] using this

/-- `outer` succeeds when every base's listing is available -/
theorem outer_ok (record : Nat → Nat → Nat) (sub : Nat → Except Err (List Nat)) (bs : List Nat) :
    (∀ b ∈ bs, ∃ l, sub b = .ok l) → ∀ s, ∃ s', outer record sub s bs = .ok s' := by
  induction bs with
  | nil => intro _ s; exact ⟨s, rfl⟩
  | cons b bs ih =>
    intro h s
    obtain ⟨l, hl⟩ := h b (by simp)
    unfold outer
    rw [hl]
    exact ih (fun b' hb' => h b' (by simp [hb'])) _

/-- acyclic hierarchies (every base is defined before the class: a smaller number) never run out of
Python stack: nesting depth `c + 1` is enough for class `c`, for ANY recording function -/
theorem mroWith_ok (record : Nat → Nat → Nat) (bases : Nat → List Nat)
    (hdag : ∀ c, ∀ b ∈ bases c, b < c) :
    ∀ fuel c, c < fuel → ∃ s, mroWith record bases fuel c = .ok s := by
  intro fuel
  induction fuel with
  | zero => intro c h; omega
  | succ fuel ih =>
    intro c hcf
    unfold mroWith
    apply outer_ok
    intro b hb
    have := hdag c b hb
    obtain ⟨s, hs⟩ := ih b (by omega)
    exact ⟨s.out, by simp [outOf, hs]⟩

/-- the sum of the bodies' work is bounded edge by edge -/
theorem totalSteps_le (bases : Nat → List Nat) (n : Nat) (hc : Closed bases n) (fuel : Nat) :
    ∀ k, k ≤ n → totalSteps recordYielded bases fuel k ≤ inheritEdges bases k * n := by
  intro k
  induction k with
  | zero => intro _; simp [totalSteps, inheritEdges]
  | succ k ih =>
    intro hk
    have h1 := ih (by omega)
    simp only [totalSteps, inheritEdges]
    rw [Nat.add_mul]
    split
    · rename_i s hs
      have := (mroWith_spec bases n hc fuel k s (by omega) hs).2.1
      omega
    · omega

end JediModel.Mro

import JediModel.Model.Recursion
/-! Helper lemmas for `Model/Recursion` (C15, C16). Core Lean only. -/
namespace JediModel.Recursion

/-! ## detector: one push -/

theorem push_level (L : Limits) (d : Det) (e : Exec) : (push L d e).1.level = d.level + 1 := by
  unfold push; simp only; split <;> (try split) <;> (try split) <;> (try split) <;> (try split) <;> rfl

theorem push_parents (L : Limits) (d : Det) (e : Exec) :
    (push L d e).1.parents = e.fn :: d.parents := by
  unfold push; simp only; split <;> (try split) <;> (try split) <;> (try split) <;> (try split) <;> rfl

theorem push_execCount (L : Limits) (d : Det) (e : Exec) :
    d.execCount ≤ (push L d e).1.execCount ∧ (push L d e).1.execCount ≤ d.execCount + 1 ∧
    (d.execCount ≤ L.totalLimit → (push L d e).1.execCount ≤ L.totalLimit) := by
  unfold push; simp only
  split
  · simp
  · split
    · simp
    · split
      · simp
      · rename_i h
        split <;> (try split) <;> simp <;> omega

theorem push_counts (L : Limits) (d : Det) (e : Exec) (f : Nat) :
    d.counts f ≤ (push L d e).1.counts f ∧
    (d.counts f ≤ L.perFnLimit → (push L d e).1.counts f ≤ L.perFnLimit) := by
  unfold push; simp only
  split
  · simp
  · split
    · simp
    · split
      · simp
      · split
        · simp
        · rename_i h
          split <;> (simp only; split <;> (try subst_vars) <;> omega)

/-- everything that is known when a non-builtin execution is let through -/
theorem push_admitted (L : Limits) (d : Det) (e : Exec) (hb : e.builtin = false)
    (ha : (push L d e).2 = false) :
    d.level + 1 ≤ L.recursionLimit ∧ d.execCount < L.totalLimit ∧
    (push L d e).1.execCount = d.execCount + 1 ∧
    (e.typing = false →
      d.counts e.fn < L.perFnLimit ∧ (push L d e).1.counts e.fn = d.counts e.fn + 1 ∧
      (e.fn :: d.parents).count e.fn ≤ L.perFnRecLimit) := by
  unfold push at ha ⊢
  simp only [hb] at ha ⊢
  simp only [Bool.false_eq_true, if_false] at ha ⊢
  split at ha
  · simp at ha
  · split at ha
    · simp at ha
    · rename_i h1 h2
      rw [if_neg h1, if_neg h2]
      split at ha
      · rename_i h3
        rw [if_pos h3]
        refine ⟨by omega, by omega, rfl, ?_⟩
        intro ht; simp [ht] at ha
      · rename_i h3
        rw [if_neg h3]
        split at ha
        · simp at ha
        · rename_i h4
          rw [if_neg h4]
          refine ⟨by omega, by omega, rfl, ?_⟩
          intro _
          simp only at h3 h4 ⊢
          refine ⟨by omega, by simp, by omega⟩

theorem pop_push (L : Limits) (d : Det) (e : Exec) :
    ∃ d', pop (push L d e).1 = some d' ∧ d'.level = d.level ∧ d'.parents = d.parents ∧
      d'.execCount = (push L d e).1.execCount ∧ d'.counts = (push L d e).1.counts := by
  have hp := push_parents L d e
  have hl := push_level L d e
  unfold pop
  rw [hp]
  exact ⟨_, rfl, by simp [hl], rfl, rfl, rfl⟩

/-! ## detector: traces -/

theorem step_execCount (L : Limits) (d : Det) (op : Op) :
    ((step L d op).2.admittedNonBuiltin = true → d.execCount + 1 ≤ (step L d op).1.execCount) ∧
    d.execCount ≤ (step L d op).1.execCount ∧
    (d.execCount ≤ L.totalLimit → (step L d op).1.execCount ≤ L.totalLimit) := by
  cases op with
  | push e =>
    have h := push_execCount L d e
    refine ⟨?_, h.1, h.2.2⟩
    intro hadm
    simp [step, Ev.admittedNonBuiltin] at hadm
    have := (push_admitted L d e hadm.2 hadm.1).2.2.1
    simp only [step]
    omega
  | pop =>
    cases hp : d.parents <;> simp [step, pop, hp, Ev.admittedNonBuiltin]

theorem step_counts (L : Limits) (d : Det) (op : Op) (f : Nat) :
    ((step L d op).2.admittedOf f = true → d.counts f + 1 ≤ (step L d op).1.counts f) ∧
    d.counts f ≤ (step L d op).1.counts f ∧
    (d.counts f ≤ L.perFnLimit → (step L d op).1.counts f ≤ L.perFnLimit) := by
  cases op with
  | push e =>
    have h := push_counts L d e f
    refine ⟨?_, h.1, h.2⟩
    intro hadm
    simp [step, Ev.admittedOf] at hadm
    obtain ⟨⟨⟨ha, hb⟩, ht⟩, hf⟩ := hadm
    subst hf
    have := ((push_admitted L d e hb ha).2.2.2 ht).2.1
    simp only [step]
    omega
  | pop =>
    cases hp : d.parents <;> simp [step, pop, hp, Ev.admittedOf]

theorem step_level (L : Limits) (d : Det) (op : Op) (h : d.level = d.parents.length) :
    (step L d op).1.level = (step L d op).1.parents.length := by
  cases op with
  | push e => simp [step, push_level, push_parents, h]
  | pop =>
    cases hp : d.parents <;> simp [step, pop, hp, h]

theorem runTrace_execCount (L : Limits) (ops : List Op) (d : Det) :
    (runTrace L d ops).2.countP Ev.admittedNonBuiltin + d.execCount ≤ (runTrace L d ops).1.execCount ∧
    (d.execCount ≤ L.totalLimit → (runTrace L d ops).1.execCount ≤ L.totalLimit) := by
  induction ops generalizing d with
  | nil => simp [runTrace]
  | cons op ops ih =>
    simp only [runTrace, List.countP_cons]
    have h1 := step_execCount L d op
    have h2 := ih (step L d op).1
    constructor
    · by_cases hp : (step L d op).2.admittedNonBuiltin = true
      · have := h1.1 hp; have := h2.1; simp only [hp, if_true]; omega
      · have := h1.2.1; have := h2.1; simp only [hp]; simp only [Bool.false_eq_true, if_false]; omega
    · intro h; exact h2.2 (h1.2.2 h)

theorem runTrace_counts (L : Limits) (f : Nat) (ops : List Op) (d : Det) :
    (runTrace L d ops).2.countP (Ev.admittedOf f) + d.counts f ≤ (runTrace L d ops).1.counts f ∧
    (d.counts f ≤ L.perFnLimit → (runTrace L d ops).1.counts f ≤ L.perFnLimit) := by
  induction ops generalizing d with
  | nil => simp [runTrace]
  | cons op ops ih =>
    simp only [runTrace, List.countP_cons]
    have h1 := step_counts L d op f
    have h2 := ih (step L d op).1
    constructor
    · by_cases hp : (step L d op).2.admittedOf f = true
      · have := h1.1 hp; have := h2.1; simp only [hp, if_true]; omega
      · have := h1.2.1; have := h2.1; simp only [hp]; simp only [Bool.false_eq_true, if_false]; omega
    · intro h; exact h2.2 (h1.2.2 h)

theorem runTrace_level (L : Limits) (ops : List Op) (d : Det) (h : d.level = d.parents.length) :
    (runTrace L d ops).1.level = (runTrace L d ops).1.parents.length := by
  induction ops generalizing d with
  | nil => simpa [runTrace]
  | cons op ops ih => simp only [runTrace]; exact ih _ (step_level L d op h)

/-- every admitted non-builtin push in the log respects the depth and nesting limits -/
theorem runTrace_admitted (L : Limits) (ops : List Op) (d : Det) (e : Exec) (lvl nested : Nat)
    (hmem : Ev.pushed e false lvl nested ∈ (runTrace L d ops).2) (hb : e.builtin = false) :
    lvl ≤ L.recursionLimit ∧ (e.typing = false → nested ≤ L.perFnRecLimit) := by
  induction ops generalizing d with
  | nil => simp [runTrace] at hmem
  | cons op ops ih =>
    simp only [runTrace, List.mem_cons] at hmem
    rcases hmem with h | h
    · cases op with
      | push e' =>
        simp only [step, Ev.pushed.injEq] at h
        obtain ⟨he, ha, hl, hn⟩ := h
        subst he
        have adm := push_admitted L d e hb ha.symm
        rw [push_level] at hl
        rw [push_parents] at hn
        refine ⟨by omega, fun ht => ?_⟩
        have := (adm.2.2.2 ht).2.2
        omega
      | pop =>
        simp only [step] at h
        split at h <;> simp at h
    · exact ih _ h

/-! ## generic: `seqList` -/

theorem seqList_ok {σ : Type} (ex : σ → Nat → Except Err (σ × Nat)) (Inv : σ → Prop)
    (meas : σ → Nat)
    (hex : ∀ d c, Inv d → ∃ d' w, ex d c = .ok (d', w) ∧ Inv d' ∧ meas d + w ≤ meas d')
    (cs : List Nat) (d : σ) (hd : Inv d) :
    ∃ d' w, seqList ex d cs = .ok (d', w) ∧ Inv d' ∧ meas d + w ≤ meas d' := by
  induction cs generalizing d with
  | nil => exact ⟨d, 0, rfl, hd, Nat.le_refl _⟩
  | cons c cs ih =>
    obtain ⟨d1, w1, h1, i1, m1⟩ := hex d c hd
    obtain ⟨d2, w2, h2, i2, m2⟩ := ih d1 i1
    refine ⟨d2, w1 + w2, ?_, i2, by omega⟩
    simp [seqList, h1, h2]

/-! ## the decorator never runs out of Python stack -/

/-- the state invariant threaded through `exec`: same level, same parents -/
def SameFrame (d0 d : Det) : Prop := d.level = d0.level ∧ d.parents = d0.parents

theorem exec_ok (L : Limits) (P : Prog) (hnb : ∀ f, P.builtin f = false) :
    ∀ (fuel : Nat) (d : Det) (f : Nat), L.recursionLimit ≤ d.level + fuel →
      ∃ d' w, exec L P fuel d f = .ok (d', w) ∧ SameFrame d d' ∧ d.execCount + w ≤ d'.execCount := by
  intro fuel
  induction fuel with
  | zero =>
    intro d f hl
    unfold exec
    obtain ⟨d2, hd2, l2, p2, e2, _⟩ := pop_push L d (P.mk' f)
    cases hlim : (push L d (P.mk' f)).2
    · have := (push_admitted L d (P.mk' f) (hnb f) hlim).1
      omega
    · have : push L d (P.mk' f) = ((push L d (P.mk' f)).1, true) := by rw [← hlim]
      rw [this]; simp only [hd2]
      refine ⟨d2, 0, rfl, ⟨l2, p2⟩, ?_⟩
      have := (push_execCount L d (P.mk' f)).1
      omega
  | succ fuel ih =>
    intro d f hl
    unfold exec
    obtain ⟨d2, hd2, l2, p2, e2, _⟩ := pop_push L d (P.mk' f)
    cases hlim : (push L d (P.mk' f)).2
    · have heq : push L d (P.mk' f) = ((push L d (P.mk' f)).1, false) := by rw [← hlim]
      have adm := push_admitted L d (P.mk' f) (hnb f) hlim
      rw [heq]; simp only
      -- the children run one level deeper with one unit of fuel less
      have hlist := seqList_ok (exec L P fuel) (SameFrame (push L d (P.mk' f)).1) Det.execCount
        (by
          intro d1 c hd1
          obtain ⟨d', w, h, sf, hw⟩ := ih d1 c (by rw [hd1.1, push_level]; omega)
          exact ⟨d', w, h, ⟨by rw [sf.1, hd1.1], by rw [sf.2, hd1.2]⟩, hw⟩)
        (P.body f) (push L d (P.mk' f)).1 ⟨rfl, rfl⟩
      obtain ⟨d3, w, h3, sf3, hw3⟩ := hlist
      rw [h3]; simp only
      have hp3 : d3.parents = (P.mk' f).fn :: d.parents := by rw [sf3.2, push_parents]
      have hl3 : d3.level = d.level + 1 := by rw [sf3.1, push_level]
      unfold pop
      rw [hp3]; simp only
      refine ⟨_, w + 1, rfl, ⟨by simp [hl3], rfl⟩, ?_⟩
      simp only
      have := adm.2.2.1
      omega
    · have : push L d (P.mk' f) = ((push L d (P.mk' f)).1, true) := by rw [← hlim]
      rw [this]; simp only [hd2]
      refine ⟨d2, 0, rfl, ⟨l2, p2⟩, ?_⟩
      have := (push_execCount L d (P.mk' f)).1
      omega

theorem exec_total (L : Limits) (P : Prog) :
    ∀ (fuel : Nat) (d d' : Det) (f w : Nat), exec L P fuel d f = .ok (d', w) →
      d.execCount ≤ L.totalLimit → d'.execCount ≤ L.totalLimit := by
  intro fuel
  induction fuel with
  | zero =>
    intro d d' f w h hle
    unfold exec at h
    obtain ⟨d2, hd2, _, _, e2, _⟩ := pop_push L d (P.mk' f)
    cases hlim : (push L d (P.mk' f)).2
    · have heq : push L d (P.mk' f) = ((push L d (P.mk' f)).1, false) := by rw [← hlim]
      rw [heq] at h; simp at h
    · have heq : push L d (P.mk' f) = ((push L d (P.mk' f)).1, true) := by rw [← hlim]
      rw [heq] at h; simp only [hd2] at h
      injection h with h; injection h with h1 h2
      subst h1
      rw [e2]; exact (push_execCount L d (P.mk' f)).2.2 hle
  | succ fuel ih =>
    intro d d' f w h hle
    unfold exec at h
    obtain ⟨d2, hd2, _, _, e2, _⟩ := pop_push L d (P.mk' f)
    have hpush := (push_execCount L d (P.mk' f)).2.2 hle
    cases hlim : (push L d (P.mk' f)).2
    · have heq : push L d (P.mk' f) = ((push L d (P.mk' f)).1, false) := by rw [← hlim]
      rw [heq] at h; simp only at h
      -- generic list lemma
      have hl : ∀ (cs : List Nat) (d1 d3 : Det) (w3 : Nat),
          seqList (exec L P fuel) d1 cs = .ok (d3, w3) → d1.execCount ≤ L.totalLimit →
          d3.execCount ≤ L.totalLimit := by
        intro cs
        induction cs with
        | nil => intro d1 d3 w3 h; simp [seqList] at h; rw [← h.1]; exact id
        | cons c cs ihc =>
          intro d1 d3 w3 h hd1
          simp only [seqList] at h
          split at h
          · simp at h
          · rename_i dd ww hx
            split at h
            · simp at h
            · rename_i d4 w4 hy
              injection h with h; injection h with h1 h2
              subst h1
              exact ihc _ _ _ hy (ih _ _ _ _ hx hd1)
      split at h
      · simp at h
      · rename_i d3 w3 hs
        have h3 := hl _ _ _ _ hs hpush
        cases hp : d3.parents with
        | nil => simp [pop, hp] at h
        | cons p ps =>
          simp only [pop, hp] at h
          injection h with h; injection h with h1 h2
          subst h1
          exact h3
    · have heq : push L d (P.mk' f) = ((push L d (P.mk' f)).1, true) := by rw [← hlim]
      rw [heq] at h; simp only [hd2] at h
      injection h with h; injection h with h1 h2
      subst h1
      rw [e2]; exact hpush

end JediModel.Recursion

import JediModel.Model.Recursion
/-! Helper lemmas for `Model/Recursion` (C15, C16). Core Lean only. -/
namespace JediModel.Recursion

/-! ## detector: one push -/

theorem push_level (L : Limits) (d : Det) (e : Exec) : (push L d e).1.level = d.level + 1 := by
  unfold push; simp only; split <;> (try split) <;> (try split) <;> (try split) <;> (try split) <;> rfl

theorem push_parents (L : Limits) (d : Det) (e : Exec) :
    (push L d e).1.parents = e.fn :: d.parents := by
  unfold push; simp only; split <;> (try split) <;> (try split) <;> (try split) <;> (try split) <;> rfl

theorem push_execCount (L : Limits) (d : Det) (e : Exec) :
    d.execCount ≤ (push L d e).1.execCount ∧ (push L d e).1.execCount ≤ d.execCount + 1 ∧
    (d.execCount ≤ L.totalLimit → (push L d e).1.execCount ≤ L.totalLimit) := by
  unfold push; simp only
  split
  · simp
  · split
    · simp
    · split
      · simp
      · rename_i h
        split <;> (try split) <;> simp <;> omega

theorem push_counts (L : Limits) (d : Det) (e : Exec) (f : Nat) :
    d.counts f ≤ (push L d e).1.counts f ∧
    (d.counts f ≤ L.perFnLimit → (push L d e).1.counts f ≤ L.perFnLimit) := by
  unfold push; simp only
  split
  · simp
  · split
    · simp
    · split
      · simp
      · split
        · simp
        · rename_i h
          split <;> (simp only; split <;> (try subst_vars) <;> omega)

/-- everything that is known when a non-builtin execution is let through -/
theorem push_admitted (L : Limits) (d : Det) (e : Exec) (hb : e.builtin = false)
    (ha : (push L d e).2 = false) :
    d.level + 1 ≤ L.recursionLimit ∧ d.execCount < L.totalLimit ∧
    (push L d e).1.execCount = d.execCount + 1 ∧
    (e.typing = false →
      d.counts e.fn < L.perFnLimit ∧ (push L d e).1.counts e.fn = d.counts e.fn + 1 ∧
      (e.fn :: d.parents).count e.fn ≤ L.perFnRecLimit) := by
  unfold push at ha ⊢
  simp only [hb] at ha ⊢
  simp only [Bool.false_eq_true, if_false] at ha ⊢
  split at ha
  · simp at ha
  · split at ha
    · simp at ha
    · rename_i h1 h2
      rw [if_neg h1, if_neg h2]
      split at ha
      · rename_i h3
        rw [if_pos h3]
        refine ⟨by omega, by omega, rfl, ?_⟩
        intro ht; simp [ht] at ha
      · rename_i h3
        rw [if_neg h3]
        split at ha
        · simp at ha
        · rename_i h4
          rw [if_neg h4]
          refine ⟨by omega, by omega, rfl, ?_⟩
          intro _
          simp only at h3 h4 ⊢
          refine ⟨by omega, by simp, by omega⟩

theorem pop_push (L : Limits) (d : Det) (e : Exec) :
    ∃ d', pop (push L d e).1 = some d' ∧ d'.level = d.level ∧ d'.parents = d.parents ∧
      d'.execCount = (push L d e).1.execCount ∧ d'.counts = (push L d e).1.counts := by
  have hp := push_parents L d e
  have hl := push_level L d e
  unfold pop
  rw [hp]
  exact ⟨_, rfl, by simp [hl], rfl, rfl, rfl⟩

/-! ## detector: traces -/

theorem step_execCount (L : Limits) (d : Det) (op : Op) :
    ((step L d op).2.admittedNonBuiltin = true → d.execCount + 1 ≤ (step L d op).1.execCount) ∧
    d.execCount ≤ (step L d op).1.execCount ∧
    (d.execCount ≤ L.totalLimit → (step L d op).1.execCount ≤ L.totalLimit) := by
  cases op with
  | push e =>
    have h := push_execCount L d e
    refine ⟨?_, h.1, h.2.2⟩
    intro hadm
    simp [step, Ev.admittedNonBuiltin] at hadm
    have := (push_admitted L d e hadm.2 hadm.1).2.2.1
    simp only [step]
    omega
  | pop =>
    cases hp : d.parents <;> simp [step, pop, hp, Ev.admittedNonBuiltin]

theorem step_counts (L : Limits) (d : Det) (op : Op) (f : Nat) :
    ((step L d op).2.admittedOf f = true → d.counts f + 1 ≤ (step L d op).1.counts f) ∧
    d.counts f ≤ (step L d op).1.counts f ∧
    (d.counts f ≤ L.perFnLimit → (step L d op).1.counts f ≤ L.perFnLimit) := by
  cases op with
  | push e =>
    have h := push_counts L d e f
    refine ⟨?_, h.1, h.2⟩
    intro hadm
    simp [step, Ev.admittedOf] at hadm
    obtain ⟨⟨⟨ha, hb⟩, ht⟩, hf⟩ := hadm
    subst hf
    have := ((push_admitted L d e hb ha).2.2.2 ht).2.1
    simp only [step]
    omega
  | pop =>
    cases hp : d.parents <;> simp [step, pop, hp, Ev.admittedOf]

theorem step_level (L : Limits) (d : Det) (op : Op) (h : d.level = d.parents.length) :
    (step L d op).1.level = (step L d op).1.parents.length := by
  cases op with
  | push e => simp [step, push_level, push_parents, h]
  | pop =>
    cases hp : d.parents <;> simp [step, pop, hp, h]

theorem runTrace_execCount (L : Limits) (ops : List Op) (d : Det) :
    (runTrace L d ops).2.countP Ev.admittedNonBuiltin + d.execCount ≤ (runTrace L d ops).1.execCount ∧
    (d.execCount ≤ L.totalLimit → (runTrace L d ops).1.execCount ≤ L.totalLimit) := by
  induction ops generalizing d with
  | nil => simp [runTrace]
  | cons op ops ih =>
    simp only [runTrace, List.countP_cons]
    have h1 := step_execCount L d op
    have h2 := ih (step L d op).1
    constructor
    · by_cases hp : (step L d op).2.admittedNonBuiltin = true
      · have := h1.1 hp; have := h2.1; simp only [hp, if_true]; omega
      · have := h1.2.1; have := h2.1; simp only [hp]; simp only [Bool.false_eq_true, if_false]; omega
    · intro h; exact h2.2 (h1.2.2 h)

theorem runTrace_counts (L : Limits) (f : Nat) (ops : List Op) (d : Det) :
    (runTrace L d ops).2.countP (Ev.admittedOf f) + d.counts f ≤ (runTrace L d ops).1.counts f ∧
    (d.counts f ≤ L.perFnLimit → (runTrace L d ops).1.counts f ≤ L.perFnLimit) := by
  induction ops generalizing d with
  | nil => simp [runTrace]
  | cons op ops ih =>
    simp only [runTrace, List.countP_cons]
    have h1 := step_counts L d op f
    have h2 := ih (step L d op).1
    constructor
    · by_cases hp : (step L d op).2.admittedOf f = true
      · have := h1.1 hp; have := h2.1; simp only [hp, if_true]; omega
      · have := h1.2.1; have := h2.1; simp only [hp]; simp only [Bool.false_eq_true, if_false]; omega
    · intro h; exact h2.2 (h1.2.2 h)

theorem runTrace_level (L : Limits) (ops : List Op) (d : Det) (h : d.level = d.parents.length) :
    (runTrace L d ops).1.level = (runTrace L d ops).1.parents.length := by
  induction ops generalizing d with
  | nil => simpa [runTrace]
  | cons op ops ih => simp only [runTrace]; exact ih _ (step_level L d op h)

/-- every admitted non-builtin push in the log respects the depth and nesting limits -/
theorem runTrace_admitted (L : Limits) (ops : List Op) (d : Det) (e : Exec) (lvl nested : Nat)
    (hmem : Ev.pushed e false lvl nested ∈ (runTrace L d ops).2) (hb : e.builtin = false) :
    lvl ≤ L.recursionLimit ∧ (e.typing = false → nested ≤ L.perFnRecLimit) := by
  induction ops generalizing d with
  | nil => simp [runTrace] at hmem
  | cons op ops ih =>
    simp only [runTrace, List.mem_cons] at hmem
    rcases hmem with h | h
    · cases op with
      | push e' =>
        simp only [step, Ev.pushed.injEq] at h
        obtain ⟨he, ha, hl, hn⟩ := h
        subst he
        have adm := push_admitted L d e hb ha.symm
        rw [push_level] at hl
        rw [push_parents] at hn
        refine ⟨by omega, fun ht => ?_⟩
        have := (adm.2.2.2 ht).2.2
        omega
      | pop =>
        simp only [step] at h
        split at h <;> simp at h
    · exact ih _ h

/-! ## generic: `seqList` -/

theorem seqList_ok {σ : Type} (ex : σ → Nat → Except Err (σ × Nat)) (Q : Nat → Prop) (Inv : σ → Prop)
    (meas : σ → Nat)
    (hex : ∀ d c, Q c → Inv d → ∃ d' w, ex d c = .ok (d', w) ∧ Inv d' ∧ meas d + w ≤ meas d')
    (cs : List Nat) (hcs : ∀ c ∈ cs, Q c) (d : σ) (hd : Inv d) :
    ∃ d' w, seqList ex d cs = .ok (d', w) ∧ Inv d' ∧ meas d + w ≤ meas d' := by
  induction cs generalizing d with
  | nil => exact ⟨d, 0, rfl, hd, Nat.le_refl _⟩
  | cons c cs ih =>
    obtain ⟨d1, w1, h1, i1, m1⟩ := hex d c (hcs c (by simp)) hd
    obtain ⟨d2, w2, h2, i2, m2⟩ := ih (fun c hc => hcs c (by simp [hc])) d1 i1
    refine ⟨d2, w1 + w2, ?_, i2, by omega⟩
    simp [seqList, h1, h2]

theorem seqList_ok' {σ : Type} (ex : σ → Nat → Except Err (σ × Nat)) (Q : Nat → Prop) (Inv : σ → Prop)
    (hex : ∀ d c, Q c → Inv d → ∃ d' w, ex d c = .ok (d', w) ∧ Inv d')
    (cs : List Nat) (hcs : ∀ c ∈ cs, Q c) (d : σ) (hd : Inv d) :
    ∃ d' w, seqList ex d cs = .ok (d', w) ∧ Inv d' := by
  induction cs generalizing d with
  | nil => exact ⟨d, 0, rfl, hd⟩
  | cons c cs ih =>
    obtain ⟨d1, w1, h1, i1⟩ := hex d c (hcs c (by simp)) hd
    obtain ⟨d2, w2, h2, i2⟩ := ih (fun c hc => hcs c (by simp [hc])) d1 i1
    refine ⟨d2, w1 + w2, ?_, i2⟩
    simp [seqList, h1, h2]

/-! ## the decorator never runs out of Python stack -/

/-- the state invariant threaded through `exec`: same level, same parents -/
def SameFrame (d0 d : Det) : Prop := d.level = d0.level ∧ d.parents = d0.parents

theorem exec_ok (L : Limits) (P : Prog) (hnb : ∀ f, P.builtin f = false) :
    ∀ (fuel : Nat) (d : Det) (f : Nat), L.recursionLimit ≤ d.level + fuel →
      ∃ d' w, exec L P fuel d f = .ok (d', w) ∧ SameFrame d d' ∧ d.execCount + w ≤ d'.execCount := by
  intro fuel
  induction fuel with
  | zero =>
    intro d f hl
    unfold exec
    obtain ⟨d2, hd2, l2, p2, e2, _⟩ := pop_push L d (P.mk' f)
    cases hlim : (push L d (P.mk' f)).2
    · have := (push_admitted L d (P.mk' f) (hnb f) hlim).1
      omega
    · have : push L d (P.mk' f) = ((push L d (P.mk' f)).1, true) := by rw [← hlim]
      rw [this]; simp only [hd2]
      refine ⟨d2, 0, rfl, ⟨l2, p2⟩, ?_⟩
      have := (push_execCount L d (P.mk' f)).1
      omega
  | succ fuel ih =>
    intro d f hl
    unfold exec
    obtain ⟨d2, hd2, l2, p2, e2, _⟩ := pop_push L d (P.mk' f)
    cases hlim : (push L d (P.mk' f)).2
    · have heq : push L d (P.mk' f) = ((push L d (P.mk' f)).1, false) := by rw [← hlim]
      have adm := push_admitted L d (P.mk' f) (hnb f) hlim
      rw [heq]; simp only
      -- the children run one level deeper with one unit of fuel less
      have hlist := seqList_ok (exec L P fuel) (fun _ => True) (SameFrame (push L d (P.mk' f)).1)
        Det.execCount
        (by
          intro d1 c _ hd1
          obtain ⟨d', w, h, sf, hw⟩ := ih d1 c (by rw [hd1.1, push_level]; omega)
          exact ⟨d', w, h, ⟨by rw [sf.1, hd1.1], by rw [sf.2, hd1.2]⟩, hw⟩)
        (P.body f) (fun _ _ => trivial) (push L d (P.mk' f)).1 ⟨rfl, rfl⟩
      obtain ⟨d3, w, h3, sf3, hw3⟩ := hlist
      rw [h3]; simp only
      have hp3 : d3.parents = (P.mk' f).fn :: d.parents := by rw [sf3.2, push_parents]
      have hl3 : d3.level = d.level + 1 := by rw [sf3.1, push_level]
      unfold pop
      rw [hp3]; simp only
      refine ⟨_, w + 1, rfl, ⟨by simp [hl3], rfl⟩, ?_⟩
      simp only
      have := adm.2.2.1
      omega
    · have : push L d (P.mk' f) = ((push L d (P.mk' f)).1, true) := by rw [← hlim]
      rw [this]; simp only [hd2]
      refine ⟨d2, 0, rfl, ⟨l2, p2⟩, ?_⟩
      have := (push_execCount L d (P.mk' f)).1
      omega

theorem exec_total (L : Limits) (P : Prog) :
    ∀ (fuel : Nat) (d d' : Det) (f w : Nat), exec L P fuel d f = .ok (d', w) →
      d.execCount ≤ L.totalLimit → d'.execCount ≤ L.totalLimit := by
  intro fuel
  induction fuel with
  | zero =>
    intro d d' f w h hle
    unfold exec at h
    obtain ⟨d2, hd2, _, _, e2, _⟩ := pop_push L d (P.mk' f)
    cases hlim : (push L d (P.mk' f)).2
    · have heq : push L d (P.mk' f) = ((push L d (P.mk' f)).1, false) := by rw [← hlim]
      rw [heq] at h; simp at h
    · have heq : push L d (P.mk' f) = ((push L d (P.mk' f)).1, true) := by rw [← hlim]
      rw [heq] at h; simp only [hd2] at h
      injection h with h; injection h with h1 h2
      subst h1
      rw [e2]; exact (push_execCount L d (P.mk' f)).2.2 hle
  | succ fuel ih =>
    intro d d' f w h hle
    unfold exec at h
    obtain ⟨d2, hd2, _, _, e2, _⟩ := pop_push L d (P.mk' f)
    have hpush := (push_execCount L d (P.mk' f)).2.2 hle
    cases hlim : (push L d (P.mk' f)).2
    · have heq : push L d (P.mk' f) = ((push L d (P.mk' f)).1, false) := by rw [← hlim]
      rw [heq] at h; simp only at h
      -- generic list lemma
      have hl : ∀ (cs : List Nat) (d1 d3 : Det) (w3 : Nat),
          seqList (exec L P fuel) d1 cs = .ok (d3, w3) → d1.execCount ≤ L.totalLimit →
          d3.execCount ≤ L.totalLimit := by
        intro cs
        induction cs with
        | nil => intro d1 d3 w3 h; simp [seqList] at h; rw [← h.1]; exact id
        | cons c cs ihc =>
          intro d1 d3 w3 h hd1
          simp only [seqList] at h
          split at h
          · simp at h
          · rename_i dd ww hx
            split at h
            · simp at h
            · rename_i d4 w4 hy
              injection h with h; injection h with h1 h2
              subst h1
              exact ihc _ _ _ hy (ih _ _ _ _ hx hd1)
      split at h
      · simp at h
      · rename_i d3 w3 hs
        have h3 := hl _ _ _ _ hs hpush
        cases hp : d3.parents with
        | nil => simp [pop, hp] at h
        | cons p ps =>
          simp only [pop, hp] at h
          injection h with h; injection h with h1 h2
          subst h1
          exact h3
    · have heq : push L d (P.mk' f) = ((push L d (P.mk' f)).1, true) := by rw [← hlim]
      rw [heq] at h; simp only [hd2] at h
      injection h with h; injection h with h1 h2
      subst h1
      rw [e2]; exact hpush

/-! ## memoised evaluation: potential functions -/

/-- weighted number of keys below `n` that have no memo entry yet -/
def pot {Val : Type} (wt : Nat → Nat) (m : Memo Val) : Nat → Nat
  | 0 => 0
  | n + 1 => pot wt m n + (if (m n).isNone then wt n else 0)

def Grows {Val : Type} (m m' : Memo Val) : Prop := ∀ k, (m k).isSome → (m' k).isSome

theorem Grows.refl {Val : Type} (m : Memo Val) : Grows m m := fun _ h => h
theorem Grows.trans {Val : Type} {a b c : Memo Val} (h1 : Grows a b) (h2 : Grows b c) : Grows a c :=
  fun k h => h2 k (h1 k h)

theorem grows_set {Val : Type} (m : Memo Val) (v : Nat) (x : Val) : Grows m (m.set v x) := by
  intro k h
  unfold Memo.set
  split <;> simp_all

theorem pot_mono {Val : Type} (wt : Nat → Nat) (m m' : Memo Val) (h : Grows m m') (n : Nat) :
    pot wt m' n ≤ pot wt m n := by
  induction n with
  | zero => simp [pot]
  | succ n ih =>
    simp only [pot]
    have := h n
    cases h1 : m n <;> cases h2 : m' n <;> simp_all <;> omega

theorem pot_set_none {Val : Type} (wt : Nat → Nat) (m : Memo Val) (v : Nat) (x : Val) (n : Nat)
    (hv : v < n) (hm : m v = none) : pot wt (m.set v x) n + wt v = pot wt m n := by
  induction n with
  | zero => omega
  | succ n ih =>
    simp only [pot]
    by_cases hvn : v = n
    · subst hvn
      have hle : pot wt (m.set v x) v = pot wt m v := by
        clear ih hv
        have : ∀ k, k ≤ v → pot wt (m.set v x) k = pot wt m k := by
          intro k
          induction k with
          | zero => intro _; rfl
          | succ k ihk =>
            intro hk
            simp only [pot]
            rw [ihk (by omega)]
            have : (m.set v x) k = m k := by unfold Memo.set; rw [if_neg (by omega)]
            rw [this]
        exact this v (Nat.le_refl _)
      rw [hle]
      simp [Memo.set, hm]
    · have h1 := ih (by omega)
      have : (m.set v x) n = m n := by unfold Memo.set; rw [if_neg (fun h => hvn h.symm)]
      rw [this]; omega

/-- the specification of one memoised call, relative to a universe of `n` keys -/
structure EvalSpec {Val : Type} (n : Nat) (E : Nat → Nat) (m : Memo Val) (c : Nat)
    (m' : Memo Val) (w : Work) : Prop where
  grows : Grows m m'
  filled : (m' c).isSome
  bodies : w.bodies + pot (fun _ => 1) m' n ≤ pot (fun _ => 1) m n
  calls : w.calls + pot E m' n ≤ 1 + pot E m n

theorem evalArgs_ok {Val : Type} (n : Nat) (E : Nat → Nat) (bound : Nat)
    (ev : Memo Val → Nat → Except Err (Memo Val × Val × Work))
    (hev : ∀ m c, c < n → pot (fun _ => 1) m n ≤ bound →
      ∃ m' r w, ev m c = .ok (m', r, w) ∧ EvalSpec n E m c m' w)
    (cs : List Nat) (hcs : ∀ c ∈ cs, c < n) (m : Memo Val) (hm : pot (fun _ => 1) m n ≤ bound) :
    ∃ m' rs w, evalArgs ev m cs = .ok (m', rs, w) ∧ Grows m m' ∧
      w.bodies + pot (fun _ => 1) m' n ≤ pot (fun _ => 1) m n ∧
      w.calls + pot E m' n ≤ cs.length + pot E m n := by
  induction cs generalizing m with
  | nil => exact ⟨m, [], ⟨0, 0⟩, rfl, Grows.refl m, by simp, by simp⟩
  | cons c cs ih =>
    obtain ⟨m1, r, w1, h1, s1⟩ := hev m c (hcs c (by simp)) hm
    have hb1 : pot (fun _ => 1) m1 n ≤ bound := by have := s1.bodies; omega
    obtain ⟨m2, rs, w2, h2, g2, b2, c2⟩ := ih (fun c hc => hcs c (by simp [hc])) m1 hb1
    refine ⟨m2, r :: rs, ⟨w1.bodies + w2.bodies, w1.calls + w2.calls⟩, ?_, s1.grows.trans g2, ?_, ?_⟩
    · simp [evalArgs, h1, h2]
    · have := s1.bodies; simp only; omega
    · have := s1.calls; simp only [List.length_cons]; omega

/-- a graph on the keys `0..n-1` -/
def Closed {Val : Type} (G : Graph Val) (n : Nat) : Prop := ∀ v, v < n → ∀ c ∈ G.deps v, c < n

theorem eval_ok {Val : Type} (G : Graph Val) (n : Nat) (dflt : Val) (hd : G.default = some dflt)
    (hc : Closed G n) :
    ∀ (fuel : Nat) (m : Memo Val) (v : Nat), v < n → pot (fun _ => 1) m n ≤ fuel →
      ∃ m' r w, eval G fuel m v = .ok (m', r, w) ∧
        EvalSpec n (fun k => (G.deps k).length) m v m' w := by
  intro fuel
  induction fuel with
  | zero =>
    intro m v hv hp
    unfold eval
    cases hm : m v with
    | some r =>
      exact ⟨m, r, ⟨0, 1⟩, rfl, ⟨Grows.refl m, by simp [hm], by simp, by simp⟩⟩
    | none =>
      have := pot_set_none (fun _ => 1) m v dflt n hv hm
      omega
  | succ fuel ih =>
    intro m v hv hp
    unfold eval
    cases hm : m v with
    | some r =>
      exact ⟨m, r, ⟨0, 1⟩, rfl, ⟨Grows.refl m, by simp [hm], by simp, by simp⟩⟩
    | none =>
      simp only [storeDefault, hd]
      have h1 := pot_set_none (fun _ => 1) m v dflt n hv hm
      have hE := pot_set_none (fun k => (G.deps k).length) m v dflt n hv hm
      obtain ⟨m2, vals, w, h2, g2, b2, c2⟩ :=
        evalArgs_ok n (fun k => (G.deps k).length) fuel (eval G fuel)
          (fun m c hc' hb => ih m c hc' hb) (G.deps v) (hc v hv) (m.set v dflt) (by omega)
      rw [h2]
      simp only [finishEval]
      refine ⟨_, _, _, rfl, ?_, ?_, ?_, ?_⟩
      · exact ((grows_set m v dflt).trans g2).trans (grows_set m2 v _)
      · simp [Memo.set]
      · have := pot_mono (fun _ => 1) m2 (m2.set v (G.combine v vals)) (grows_set _ _ _) n
        simp only; omega
      · have := pot_mono (fun k => (G.deps k).length) m2 (m2.set v (G.combine v vals))
          (grows_set _ _ _) n
        simp only; omega

theorem pot_le (wt : Nat → Nat) {Val : Type} (m : Memo Val) (n : Nat) :
    pot wt m n ≤ pot wt (Memo.empty : Memo Val) n := by
  apply pot_mono
  intro k h
  simp [Memo.empty] at h

theorem pot_one_empty {Val : Type} (n : Nat) : pot (fun _ => 1) (Memo.empty : Memo Val) n = n := by
  induction n with
  | zero => rfl
  | succ n ih => simp [pot, ih, Memo.empty]

/-- number of edges leaving the keys `0..n-1` -/
def edges (deps : Nat → List Nat) : Nat → Nat
  | 0 => 0
  | n + 1 => edges deps n + (deps n).length

theorem pot_edges_empty {Val : Type} (deps : Nat → List Nat) (n : Nat) :
    pot (fun k => (deps k).length) (Memo.empty : Memo Val) n = edges deps n := by
  induction n with
  | zero => rfl
  | succ n ih => simp [pot, edges, ih, Memo.empty]

/-! ## the on-stack guard alone: depth is bounded by the number of nodes -/

/-- the stack seen as a memo: keys on the stack are "filled" -/
def stackMemo (stack : List Nat) : Memo Unit := fun k => if k ∈ stack then some () else none

/-- number of nodes below `n` that are not on the stack -/
def free (n : Nat) (stack : List Nat) : Nat := pot (fun _ => 1) (stackMemo stack) n

theorem free_cons (n v : Nat) (stack : List Nat) (hv : v < n) (hs : v ∉ stack) :
    free n (v :: stack) + 1 = free n stack := by
  have h := pot_set_none (fun _ => 1) (stackMemo stack) v () n hv (by simp [stackMemo, hs])
  have : (stackMemo stack).set v () = stackMemo (v :: stack) := by
    funext k
    simp only [Memo.set, stackMemo, List.mem_cons]
    by_cases h1 : k = v <;> by_cases h2 : k ∈ stack <;> simp [h1, h2]
  rw [this] at h
  exact h

theorem free_nil (n : Nat) : free n [] = n := by
  have : stackMemo [] = (Memo.empty : Memo Unit) := by funext k; simp [stackMemo, Memo.empty]
  unfold free; rw [this]; exact pot_one_empty n

theorem evalGuard_ok (deps : Nat → List Nat) (n : Nat) (hc : ∀ v, v < n → ∀ c ∈ deps v, c < n) :
    ∀ (fuel : Nat) (stack : List Nat) (v : Nat), v < n → free n stack ≤ fuel →
      ∃ w, evalGuard deps fuel stack v = .ok (stack, w) := by
  intro fuel
  induction fuel with
  | zero =>
    intro stack v hv hf
    unfold evalGuard
    by_cases hs : v ∈ stack
    · exact ⟨0, by simp [hs]⟩
    · have := free_cons n v stack hv hs; omega
  | succ fuel ih =>
    intro stack v hv hf
    unfold evalGuard
    by_cases hs : v ∈ stack
    · exact ⟨0, by simp [hs]⟩
    · simp only [hs, if_false]
      have hfc := free_cons n v stack hv hs
      have hl := seqList_ok' (σ := List Nat)
        (fun st c => guardChild st (evalGuard deps fuel (v :: stack) c))
        (fun c => c < n) (fun _ => True)
        (by
          intro st c hcn _
          obtain ⟨w, hw⟩ := ih (v :: stack) c hcn (by omega)
          exact ⟨st, w, by simp [hw, guardChild], trivial⟩)
        (deps v) (hc v hv) stack trivial
      obtain ⟨d', w, h, _⟩ := hl
      rw [h]
      exact ⟨w + 1, rfl⟩

/-! ## `_limit_value_infers` -/

def cnt (c : Counts) (n : Nat) : Nat := (c n).getD 0

/-- the cap that applies to one call -/
def maxOf (cap factor : Nat) (generous : Bool) : Nat := if generous then cap * factor else cap

theorem limitStep_fst (cap factor : Nat) (c : Counts) (k : Nat) (g : Bool) :
    (limitStep cap factor c k g).1 = fun x => if x = k then some (cnt c k + 1) else c x := by
  unfold limitStep cnt
  cases hck : c k with
  | none => simp
  | some j =>
    simp only
    by_cases h : j + 1 > (if g = true then cap * factor else cap)
    · simp [h]
    · simp [h]

theorem limitStep_snd (cap factor : Nat) (c : Counts) (k : Nat) (g : Bool) :
    (limitStep cap factor c k g).2 = true ↔ (c k = none ∨ cnt c k + 1 ≤ maxOf cap factor g) := by
  unfold limitStep cnt maxOf
  cases hck : c k with
  | none => simp
  | some j =>
    simp only
    by_cases h : j + 1 > (if g = true then cap * factor else cap)
    · simp [h]
    · simp [h]; omega

theorem limitStep_spec (cap factor : Nat) (c : Counts) (k : Nat) (g : Bool) (n M : Nat)
    (hM : 1 ≤ M) (hmax : k = n → maxOf cap factor g ≤ M) :
    (if k = n ∧ (limitStep cap factor c k g).2 = true then 1 else 0) + min (cnt c n) M
      ≤ min (cnt (limitStep cap factor c k g).1 n) M := by
  rw [limitStep_fst]
  have hs := limitStep_snd cap factor c k g
  by_cases hkn : k = n
  · subst hkn
    have hm := hmax rfl
    have hc : cnt (fun x => if x = k then some (cnt c k + 1) else c x) k = cnt c k + 1 := by
      simp [cnt]
    rw [hc]
    split
    · rename_i h
      rcases hs.mp h.2 with h0 | h1
      · have : cnt c k = 0 := by simp [cnt, h0]
        omega
      · omega
    · omega
  · have : ¬ n = k := fun h => hkn h.symm
    have hc : cnt (fun x => if x = k then some (cnt c k + 1) else c x) n = cnt c n := by
      simp [cnt, this]
    rw [hc]
    simp [hkn]

theorem limitRun_cap (cap factor : Nat) (n M : Nat) (hM : 1 ≤ M) (calls : List (Nat × Bool))
    (hmax : ∀ p ∈ calls, p.1 = n → maxOf cap factor p.2 ≤ M) (c : Counts) :
    enteredFor n calls (limitRun cap factor c calls).2 + min (cnt c n) M ≤ M := by
  induction calls generalizing c with
  | nil => simp [enteredFor]; omega
  | cons p rest ih =>
    obtain ⟨k, g⟩ := p
    simp only [limitRun, enteredFor]
    have h1 := limitStep_spec cap factor c k g n M hM (hmax (k, g) (by simp))
    have h2 := ih (fun p hp => hmax p (by simp [hp])) (limitStep cap factor c k g).1
    omega

end JediModel.Recursion

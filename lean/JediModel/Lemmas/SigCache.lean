import JediModel.Model.SigCache
/-! helper lemmas for the signature time cache (Props/C11) -/
namespace JediModel.SigCache

theorem lookup_none_of_forall {V} (k : Key) (d : List (Key × Nat × V))
    (h : ∀ e ∈ d, e.1 ≠ k) : lookup k d = none := by
  induction d with
  | nil => rfl
  | cons e rest ih =>
    obtain ⟨k', x⟩ := e
    have h1 : k' ≠ k := h (k', x) (by simp)
    simp only [lookup, h1, if_false]
    exact ih (fun e he => h e (by simp [he]))

/-- every stored key holds a match object allocated earlier -/
def Inv {V} (st : State V) : Prop := ∀ e ∈ st.dct, ∃ i, e.1.mid = .obj i ∧ i < st.nextObj

theorem inv_init {V} : Inv ({} : State V) := by
  intro e he; simp at he

theorem keyOf_obj {V} (cfg : Cfg) (h : cfg.textKey = false) (n : Nat) (rq : Req V) (w : List Char) (k : Key)
    (hk : keyOf cfg n rq w = some k) : k.mid = .obj n := by
  unfold keyOf at hk
  split at hk
  · simp [h] at hk; rw [← hk]
  · simp at hk

/-- with match objects in the key no lookup ever hits -/
theorem call_fresh {V} (cfg : Cfg) (h : cfg.textKey = false) (st : State V) (hi : Inv st) (rq : Req V) :
    (call cfg st rq).1 = demanded rq ∧ Inv (call cfg st rq).2 := by
  unfold call demanded
  cases hw : whole rq with
  | none => simp [hi]
  | some w =>
    simp only [Option.map]
    cases hk : keyOf cfg st.nextObj rq w with
    | none =>
      refine ⟨rfl, ?_⟩
      intro e he
      obtain ⟨i, h1, h2⟩ := hi e he
      exact ⟨i, h1, Nat.lt_succ_of_lt h2⟩
    | some k =>
      have hm := keyOf_obj cfg h _ rq w k hk
      have hl : lookup k st.dct = none := by
        apply lookup_none_of_forall
        intro e he heq
        obtain ⟨i, h1, h2⟩ := hi e he
        rw [heq, hm] at h1
        injection h1 with h1
        omega
      simp only [hl]
      refine ⟨by first | trivial | rfl, ?_⟩
      intro e he
      simp only [store, List.mem_cons, List.mem_filter] at he
      rcases he with he | ⟨he, _⟩
      · exact ⟨st.nextObj, by rw [he]; exact hm, Nat.lt_succ_self _⟩
      · obtain ⟨i, h1, h2⟩ := hi e he
        exact ⟨i, h1, Nat.lt_succ_of_lt h2⟩

theorem inv_newScript {V} (st : State V) (hi : Inv st) (t : Nat) : Inv (newScript st t) := by
  intro e he
  simp only [newScript, List.mem_filter] at he
  exact hi e he.1

theorem request_fresh {V} (cfg : Cfg) (h : cfg.textKey = false) (st : State V) (hi : Inv st) (rq : Req V) :
    (request cfg st rq).1 = demanded rq ∧ Inv (request cfg st rq).2 :=
  call_fresh cfg h _ (inv_newScript st hi _) rq

theorem run_fresh {V} (cfg : Cfg) (h : cfg.textKey = false) (reqs : List (Req V)) :
    ∀ (st : State V), Inv st → run cfg st reqs = reqs.map demanded := by
  induction reqs with
  | nil => intro st _; rfl
  | cons rq rest ih =>
    intro st hi
    have := request_fresh cfg h st hi rq
    simp only [run, List.map_cons, this.1, ih _ this.2]

end JediModel.SigCache

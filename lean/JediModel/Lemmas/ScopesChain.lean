import JediModel.Lemmas.Scopes
/-! The chain walk of jedi's name lookup versus Python's `resolveFree`.

`Covered` is the explicit, decidable hypothesis under which the walk is proved to land only on
bindings of the variable Python reads.  It fails exactly on the shapes for which
`Props/C03.lean` has kernel-checked counter-witnesses. -/
namespace JediModel.Scopes

theorem wf_kind0 {p : Prog} (h : WF p = true) : p.kind 0 = .module := by
  unfold WF at h
  unfold Prog.kind
  cases hsc : p.scopes with
  | nil => simp [hsc] at h
  | cons s0 rest =>
    simp only [hsc, Bool.and_eq_true, beq_iff_eq] at h
    simp [h.1.1]

theorem wf_parent_lt {p : Prog} (h : WF p = true) (s : Nat) (hk : p.kind s ≠ .module) :
    p.parent s < s := by
  have h0 := wf_kind0 h
  unfold WF at h
  simp only [Bool.and_eq_true] at h
  have hall := h.1.2
  unfold Prog.kind at hk h0
  unfold Prog.parent
  cases hs : p.scopes[s]? with
  | none => simp [hs] at hk
  | some sc =>
    simp only [hs] at hk ⊢
    rw [List.all_eq_true] at hall
    have hm : (sc, s) ∈ p.scopes.zipIdx := List.mem_zipIdx_iff_getElem?.mpr hs
    have := hall (sc, s) hm
    simp only [Bool.or_eq_true, beq_iff_eq, Bool.and_eq_true, decide_eq_true_eq] at this
    rcases this with h1 | ⟨hlt, -⟩
    · subst h1
      rw [hs] at h0
      exact absurd h0 hk
    · exact hlt

theorem kind_ne_module_lt {p : Prog} (s : Nat) (hk : p.kind s ≠ .module) : s < p.scopes.length := by
  unfold Prog.kind at hk
  cases hs : p.scopes[s]? with
  | none => simp [hs] at hk
  | some sc =>
    have := List.getElem?_eq_some_iff.mp hs
    exact this.1

/-- fuel does not matter once it exceeds the scope index -/
theorem rf_fuel {p : Prog} (h : WF p = true) (x : Nat) :
    ∀ f1 f2 s, s < f1 → s < f2 → resolveFree p x f1 s = resolveFree p x f2 s := by
  intro f1
  induction f1 with
  | zero => intro f2 s h1; omega
  | succ n ih =>
    intro f2 s h1 h2
    cases f2 with
    | zero => omega
    | succ m =>
      unfold resolveFree
      cases hk : p.kind s with
      | module => rfl
      | klass =>
        have := wf_parent_lt h s (by rw [hk]; decide)
        simp only
        exact ih m _ (by omega) (by omega)
      | function =>
        have := wf_parent_lt h s (by rw [hk]; decide)
        simp only
        rw [ih m _ (by omega) (by omega)]
      | lambda =>
        have := wf_parent_lt h s (by rw [hk]; decide)
        simp only
        rw [ih m _ (by omega) (by omega)]
      | comp =>
        have := wf_parent_lt h s (by rw [hk]; decide)
        simp only
        rw [ih m _ (by omega) (by omega)]

theorem skipClasses_le {p : Prog} (h : WF p = true) : ∀ f s, skipClasses p f s ≤ s := by
  intro f
  induction f with
  | zero => intro s; simp [skipClasses]
  | succ n ih =>
    intro s
    unfold skipClasses
    split
    · rename_i hk
      have := wf_parent_lt h s (by rw [hk]; decide)
      have := ih (p.parent s)
      omega
    · exact Nat.le_refl _

/-- `resolveFree` looks through class scopes exactly like `skipClasses` -/
theorem rf_skip {p : Prog} (h : WF p = true) (x : Nat) :
    ∀ f s F, s < f → s < F → resolveFree p x F s = resolveFree p x F (skipClasses p f s) := by
  intro f
  induction f with
  | zero => intro s F h1; omega
  | succ n ih =>
    intro s F h1 h2
    unfold skipClasses
    split
    · rename_i hk
      have hlt := wf_parent_lt h s (by rw [hk]; decide)
      rw [← ih (p.parent s) F (by omega) (by omega)]
      cases F with
      | zero => omega
      | succ m =>
        conv => lhs; unfold resolveFree
        simp only [hk]
        exact rf_fuel h x _ _ _ (by omega) (by omega)
    · rfl

/-- The hypothesis of the chain theorem, computed along the walk jedi performs.
`g` = "Python expects the module variable" (a `global` declaration was passed, or the walk
started from a class body that assigns the name later).  It is `false` when
* a class body on the way out binds the name visibly (jedi consults it, Python does not), or
* a function on the way binds the name but not visibly from here (read before assignment —
  the use is not executed), or
* Python expects the module variable but an enclosing function binds the name without
  declaring it `global`. -/
def Covered (p : Prog) (x : Nat) : Nat → Nat → Option Nat → Bool → Bool
  | 0, _, _, _ => true
  | fuel + 1, ctx, lim, g =>
    match p.kind ctx with
    | .module => true
    | .function | .lambda =>
      if (defsIn p ctx x lim).isEmpty then
        if !g && !declaredGlobal p ctx x && !declaredNonlocal p ctx x && bindsIn p ctx x then false
        else Covered p x fuel (skipClasses p p.scopes.length (p.parent ctx)) none
          (g || declaredGlobal p ctx x)
      else !g || declaredGlobal p ctx x
    | .klass => (defsIn p ctx x lim).isEmpty && Covered p x fuel (p.parent ctx) lim g
    | .comp =>
      if (defsIn p ctx x none).isEmpty then
        if !g && !declaredGlobal p ctx x && !declaredNonlocal p ctx x && bindsIn p ctx x then false
        else Covered p x fuel (p.parent ctx) lim (g || declaredGlobal p ctx x)
      else !g || declaredGlobal p ctx x

theorem lastOf_isEmpty {l : List Nat} : lastOf l = [] ↔ l.isEmpty = true := by
  constructor
  · intro h; simp [lastOf_eq_nil h]
  · intro h
    have : l = [] := by simpa using h
    subst this
    rfl

/-- variable of a hit in a function-like scope versus what Python expects there -/
theorem hit_var {p : Prog} (hwf : WF p = true) (x fuel ctx : Nat) (lim : Option Nat) (g : Bool)
    (hk : p.kind ctx ≠ .module) (hkc : p.kind ctx ≠ .klass) (hlt : ctx < fuel + 1)
    (hg : (!g || declaredGlobal p ctx x) = true) (d : Nat) (hd : d ∈ defsIn p ctx x lim) :
    varOf p d = if g then 0 else resolveFree p x (fuel + 1) ctx := by
  obtain ⟨od, hod, hn, hs, hdef, -⟩ := (mem_defsIn p ctx x lim d).mp hd
  have hb := bindsIn_of_mem_defsIn hd
  have hpl := wf_parent_lt hwf ctx hk
  have hcl := kind_ne_module_lt ctx hk
  rw [varOf_of_def hod hdef, hn, hs]
  unfold ownerOfBinding
  simp only [hk, if_false]
  cases hgb : g with
  | true =>
    subst hgb
    simp only [Bool.not_true, Bool.false_or] at hg
    simp [hg]
  | false =>
    simp only [Bool.false_eq_true, if_false]
    conv => rhs; unfold resolveFree
    cases hkk : p.kind ctx with
    | module => exact absurd hkk hk
    | klass => exact absurd hkk hkc
    | function | lambda | comp =>
      simp only
      by_cases h1 : declaredGlobal p ctx x = true
      · simp [h1]
      · simp only [h1, Bool.false_eq_true, if_false]
        by_cases h2 : declaredNonlocal p ctx x = true
        · simp only [h2, if_true]
          exact rf_fuel hwf x _ _ _ (by omega) (by omega)
        · simp [h2, hb]

/-- **soundness of the walk**: under `Covered`, every landing denotes the expected variable -/
theorem gotoFromSel_sound {sel : List Nat → List Nat} (hsel : IsSel sel)
    {p : Prog} (hwf : WF p = true) (x : Nat) :
    ∀ fuel ctx lim g, ctx < fuel → Covered p x fuel ctx lim g = true →
      ∀ d ∈ gotoFromSel sel p x fuel ctx lim,
        varOf p d = if g then 0 else resolveFree p x fuel ctx := by
  intro fuel
  induction fuel with
  | zero => intro ctx lim g h; omega
  | succ n ih =>
    intro ctx lim g hlt hcov d hd
    have hk0 := wf_kind0 hwf
    have selEmpty : ∀ {l : List Nat}, l.isEmpty = true → sel l = [] := by
      intro l hl
      have : l = [] := by simpa using hl
      subst this
      cases hs : sel [] with
      | nil => rfl
      | cons a t => have := hsel.sub (l := []) (d := a) (by rw [hs]; exact List.mem_cons_self); simp at this
    have selNe : ∀ {l : List Nat}, ¬ l.isEmpty = true → sel l ≠ [] := by
      intro l hl h
      apply hl
      simp [hsel.nil h]
    unfold gotoFromSel at hd
    unfold Covered at hcov
    cases hk : p.kind ctx with
    | module =>
      simp only [hk] at hd
      have hv : varOf p d = 0 := by
        rcases List.mem_append.mp hd with h | h
        · obtain ⟨od, hod, hn, hsc, hdef, -⟩ := (mem_defsIn p 0 x lim d).mp (hsel.sub h)
          rw [varOf_of_def hod hdef, hsc]
          simp [ownerOfBinding, hk0]
        · obtain ⟨od, hod, hn, hrole⟩ := (mem_globalDecls p x d).mp h
          unfold varOf
          rw [hod]
          simp [hrole]
      rw [hv]
      cases g <;> simp [resolveFree, hk]
    | klass =>
      simp only [hk, Bool.and_eq_true] at hd hcov
      have hpl := wf_parent_lt hwf ctx (by rw [hk]; decide)
      have hempty := selEmpty hcov.1
      rw [hempty] at hd
      simp only at hd
      have := ih (p.parent ctx) lim g (by omega) hcov.2 d hd
      rw [this]
      cases g with
      | true => rfl
      | false =>
        simp only [Bool.false_eq_true, if_false]
        conv => rhs; unfold resolveFree
        simp only [hk]
    | function =>
      simp only [hk] at hd hcov
      have hkm : p.kind ctx ≠ .module := by rw [hk]; decide
      have hkc : p.kind ctx ≠ .klass := by rw [hk]; decide
      have hpl := wf_parent_lt hwf ctx hkm
      by_cases he : (defsIn p ctx x lim).isEmpty = true
      · simp only [he, if_true] at hcov
        rw [selEmpty he] at hd
        simp only at hd
        split at hcov
        · cases hcov
        · rename_i hex
          have hsk := skipClasses_le hwf p.scopes.length (p.parent ctx)
          have := ih _ none (g || declaredGlobal p ctx x) (by omega) hcov d hd
          rw [this]
          cases hg : g with
          | true => simp
          | false =>
            simp only [Bool.false_or, Bool.false_eq_true, if_false]
            conv => rhs; unfold resolveFree
            simp only [hk]
            by_cases h1 : declaredGlobal p ctx x = true
            · simp [h1]
            · simp only [h1, Bool.false_eq_true, if_false]
              have hcl := kind_ne_module_lt ctx hkm
              have hrs : resolveFree p x n (skipClasses p p.scopes.length (p.parent ctx)) =
                  resolveFree p x n (p.parent ctx) :=
                (rf_skip hwf x p.scopes.length (p.parent ctx) n (by omega) (by omega)).symm
              rw [hrs]
              by_cases h2 : declaredNonlocal p ctx x = true
              · simp [h2]
              · have h3 : bindsIn p ctx x = false := by
                  rw [hg] at hex
                  simp only [Bool.not_false, Bool.true_and, Bool.and_eq_true, Bool.not_eq_true',
                    not_and, Bool.not_eq_true] at hex
                  have h1' : declaredGlobal p ctx x = false := by simpa using h1
                  have h2' : declaredNonlocal p ctx x = false := by simpa using h2
                  exact hex ⟨h1', h2'⟩
                simp [h2, h3]
      · simp only [he, Bool.false_eq_true, if_false] at hcov
        have hne : sel (defsIn p ctx x lim) ≠ [] := selNe he
        split at hd
        · contradiction
        · exact hit_var hwf x n ctx lim g hkm hkc hlt hcov d (hsel.sub hd)
    | lambda =>
      simp only [hk] at hd hcov
      have hkm : p.kind ctx ≠ .module := by rw [hk]; decide
      have hkc : p.kind ctx ≠ .klass := by rw [hk]; decide
      have hpl := wf_parent_lt hwf ctx hkm
      by_cases he : (defsIn p ctx x lim).isEmpty = true
      · simp only [he, if_true] at hcov
        rw [selEmpty he] at hd
        simp only at hd
        split at hcov
        · cases hcov
        · rename_i hex
          have hsk := skipClasses_le hwf p.scopes.length (p.parent ctx)
          have := ih _ none (g || declaredGlobal p ctx x) (by omega) hcov d hd
          rw [this]
          cases hg : g with
          | true => simp
          | false =>
            simp only [Bool.false_or, Bool.false_eq_true, if_false]
            conv => rhs; unfold resolveFree
            simp only [hk]
            by_cases h1 : declaredGlobal p ctx x = true
            · simp [h1]
            · simp only [h1, Bool.false_eq_true, if_false]
              have hcl := kind_ne_module_lt ctx hkm
              have hrs : resolveFree p x n (skipClasses p p.scopes.length (p.parent ctx)) =
                  resolveFree p x n (p.parent ctx) :=
                (rf_skip hwf x p.scopes.length (p.parent ctx) n (by omega) (by omega)).symm
              rw [hrs]
              by_cases h2 : declaredNonlocal p ctx x = true
              · simp [h2]
              · have h3 : bindsIn p ctx x = false := by
                  rw [hg] at hex
                  simp only [Bool.not_false, Bool.true_and, Bool.and_eq_true, Bool.not_eq_true',
                    not_and, Bool.not_eq_true] at hex
                  have h1' : declaredGlobal p ctx x = false := by simpa using h1
                  have h2' : declaredNonlocal p ctx x = false := by simpa using h2
                  exact hex ⟨h1', h2'⟩
                simp [h2, h3]
      · simp only [he, Bool.false_eq_true, if_false] at hcov
        have hne : sel (defsIn p ctx x lim) ≠ [] := selNe he
        split at hd
        · contradiction
        · exact hit_var hwf x n ctx lim g hkm hkc hlt hcov d (hsel.sub hd)
    | comp =>
      simp only [hk] at hd hcov
      have hkm : p.kind ctx ≠ .module := by rw [hk]; decide
      have hkc : p.kind ctx ≠ .klass := by rw [hk]; decide
      have hpl := wf_parent_lt hwf ctx hkm
      by_cases he : (defsIn p ctx x none).isEmpty = true
      · simp only [he, if_true] at hcov
        rw [selEmpty he] at hd
        simp only at hd
        split at hcov
        · cases hcov
        · rename_i hex
          have := ih _ lim (g || declaredGlobal p ctx x) (by omega) hcov d hd
          rw [this]
          cases hg : g with
          | true => simp
          | false =>
            simp only [Bool.false_or, Bool.false_eq_true, if_false]
            conv => rhs; unfold resolveFree
            simp only [hk]
            by_cases h1 : declaredGlobal p ctx x = true
            · simp [h1]
            · simp only [h1, Bool.false_eq_true, if_false]
              by_cases h2 : declaredNonlocal p ctx x = true
              · simp [h2]
              · have h3 : bindsIn p ctx x = false := by
                  rw [hg] at hex
                  simp only [Bool.not_false, Bool.true_and, Bool.and_eq_true, Bool.not_eq_true',
                    not_and, Bool.not_eq_true] at hex
                  have h1' : declaredGlobal p ctx x = false := by simpa using h1
                  have h2' : declaredNonlocal p ctx x = false := by simpa using h2
                  exact hex ⟨h1', h2'⟩
                simp [h2, h3]
      · simp only [he, Bool.false_eq_true, if_false] at hcov
        have hne : sel (defsIn p ctx x none) ≠ [] := selNe he
        split at hd
        · contradiction
        · exact hit_var hwf x n ctx none g hkm hkc hlt hcov d (hsel.sub hd)

end JediModel.Scopes

namespace JediModel.Scopes
theorem gotoFrom_sound {p : Prog} (hwf : WF p = true) (x : Nat) :
    ∀ fuel ctx lim g, ctx < fuel → Covered p x fuel ctx lim g = true →
      ∀ d ∈ gotoFrom p x fuel ctx lim,
        varOf p d = if g then 0 else resolveFree p x fuel ctx :=
  gotoFromSel_sound isSel_lastOf hwf x
end JediModel.Scopes

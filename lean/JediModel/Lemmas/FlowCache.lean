import JediModel.Model.FlowCache
/-! helper lemmas for the loop-unrolling cache model (C02) -/
namespace JediModel.FlowCache

/-- the policy the unchanged source implements -/
def policyRef : Policy := ⟨true, .always⟩

theorem ancestorBypass_always (forId : FlowId) (d : List Name) (names : List Name) :
    ∀ flows : List FlowId, forId ∈ flows →
      ancestorBypass .always [(forId, d)] names flows = true := by
  intro flows
  induction flows with
  | nil => intro h; cases h
  | cons f rest ih =>
    intro h
    unfold ancestorBypass
    by_cases hf : f = forId
    · subst hf; simp [List.lookup]
    · have : forId ∈ rest := by
        cases h with
        | head => exact absurd rfl hf
        | tail _ h' => exact h'
      have hne : (f == forId) = false := by simpa using hf
      simp [List.lookup, hne, ih this]

/-- under the reference policy no right-hand side inside the unrolled for touches the cache -/
theorem usesCache_ref (forId : FlowId) (d : List Name) (s : Stmt) (h : forId ∈ s.flows) :
    usesCache policyRef [(forId, d)] s = false := by
  unfold usesCache
  split
  · simp [policyRef]
  · simp [policyRef, ancestorBypass_always forId d s.names s.flows h]

theorem inferLocal_ref (forId : FlowId) (d : List Name) (body : List Stmt) (v : Val)
    (hall : ∀ s ∈ body, forId ∈ s.flows) :
    ∀ (fuel i : Nat) (c : Cache),
      inferLocal policyRef [(forId, d)] body v fuel i c = (execLocal body v fuel i, c) := by
  intro fuel
  induction fuel with
  | zero => intro i c; simp [inferLocal, execLocal]
  | succ fuel ih =>
    intro i c
    unfold inferLocal execLocal
    cases hb : body[i]? with
    | none => simp
    | some s =>
      have hs : s ∈ body := List.mem_of_getElem? hb
      simp only [usesCache_ref forId d s (hall s hs)]
      cases s.src with
      | loopVar => simp
      | const k => simp
      | loc j =>
        by_cases hj : j < i
        · simp [hj, ih]
        · simp [hj]

theorem unrolled_ref (forId : FlowId) (ln : Name) (body : List Stmt) (y : Nat)
    (hall : ∀ s ∈ body, forId ∈ s.flows) :
    ∀ (vs : List Val) (c : Cache),
      unrolled policyRef forId ln body y vs c = executed body y vs := by
  intro vs
  induction vs with
  | nil => intro c; simp [unrolled, executed]
  | cons v vs ih =>
    intro c
    unfold unrolled executed
    simp only [inferLocal_ref forId [ln] body v hall, List.map_cons]
    rw [ih]
    rfl

end JediModel.FlowCache

import JediModel.Model.Text
/-! Lemmas about `Model/Text`: `splitLines` is a partition of the text into lines
(`join`, non-empty, shape of every line), `advance` is a character-by-character state
machine, and positions reached by `advance` index `splitLines` faithfully. -/
namespace JediModel.Text

/-- an ordinary character: not one of the two characters that break a line -/
def Ordinary (c : Char) : Prop := c ≠ '\n' ∧ c ≠ '\r'

instance (c : Char) : Decidable (Ordinary c) := by unfold Ordinary; exact inferInstance

/-! ### splitLines: unfolding equations -/

@[simp] theorem splitLines_nil : splitLines [] = [[]] := by rw [splitLines.eq_def]

theorem splitLines_lf (rest : Str) : splitLines ('\n' :: rest) = ['\n'] :: splitLines rest := by
  rw [splitLines.eq_def]; simp

theorem splitLines_cr_end : splitLines ['\r'] = [['\r'], []] := by
  rw [splitLines.eq_def]; simp

theorem splitLines_crlf (rest : Str) :
    splitLines ('\r' :: '\n' :: rest) = ['\r', '\n'] :: splitLines rest := by
  rw [splitLines.eq_def]; simp

theorem splitLines_cr (d : Char) (rest : Str) (h : d ≠ '\n') :
    splitLines ('\r' :: d :: rest) = ['\r'] :: splitLines (d :: rest) := by
  rw [splitLines.eq_def]; simp [h]

theorem splitLines_ord (c : Char) (rest : Str) (h : Ordinary c) :
    splitLines (c :: rest) = consHead c (splitLines rest) := by
  rw [splitLines.eq_def]; simp [h.1, h.2]

/-! ### non-empty, join -/

theorem consHead_ne_nil (c : Char) (ls : List Str) : consHead c ls ≠ [] := by
  cases ls <;> simp [consHead]

theorem splitLines_ne_nil (s : Str) : splitLines s ≠ [] := by
  fun_cases splitLines s <;> simp_all [consHead_ne_nil]

theorem splitLines_length_pos (s : Str) : 0 < (splitLines s).length :=
  List.length_pos_iff.mpr (splitLines_ne_nil s)

theorem flatten_consHead (c : Char) (ls : List Str) :
    (consHead c ls).flatten = c :: ls.flatten := by
  cases ls <;> simp [consHead]

/-- `''.join(split_lines(s, keepends=True)) == s` -/
theorem join_splitLines (s : Str) : (splitLines s).flatten = s := by
  fun_induction splitLines s <;> simp_all [flatten_consHead]

/-! ### gluing: `splitLines (a ++ b)` from `splitLines a` and `splitLines b` -/

/-- the boundary between `a` and `b` does not fall inside a `\r\n` -/
def Safe (a b : Str) : Prop := ¬ (a.getLast? = some '\r' ∧ b.head? = some '\n')

instance (a b : Str) : Decidable (Safe a b) := by unfold Safe; exact inferInstance

/-- last line of `xs` continues with the first line of `ys` -/
def glue : List Str → List Str → List Str
  | [], ys => ys
  | [l], [] => [l]
  | [l], y :: ys => (l ++ y) :: ys
  | l :: l' :: ls, ys => l :: glue (l' :: ls) ys

theorem glue_cons_of_ne_nil (l : Str) (xs ys : List Str) (h : xs ≠ []) :
    glue (l :: xs) ys = l :: glue xs ys := by
  cases xs with
  | nil => exact absurd rfl h
  | cons x xs => simp [glue]

theorem glue_consHead (c : Char) (xs ys : List Str) (hx : xs ≠ []) (hy : ys ≠ []) :
    glue (consHead c xs) ys = consHead c (glue xs ys) := by
  cases xs with
  | nil => exact absurd rfl hx
  | cons l xs =>
    cases xs with
    | nil =>
      cases ys with
      | nil => exact absurd rfl hy
      | cons y ys => simp [consHead, glue]
    | cons l' ls => simp [consHead, glue]

theorem glue_nil_line (ys : List Str) (hy : ys ≠ []) : glue [[]] ys = ys := by
  cases ys with
  | nil => exact absurd rfl hy
  | cons y ys => simp [glue]

theorem Safe.nil_left (b : Str) : Safe [] b := by simp [Safe]
theorem Safe.nil_right (a : Str) : Safe a [] := by simp [Safe]

theorem Safe.tail {c : Char} {a b : Str} (h : Safe (c :: a) b) : Safe a b := by
  cases a with
  | nil => exact Safe.nil_left b
  | cons d a => simpa [Safe, List.getLast?_cons_cons] using h

theorem Safe.cons {c : Char} {a b : Str} (h : Safe a b) (ha : a ≠ []) : Safe (c :: a) b := by
  cases a with
  | nil => exact absurd rfl ha
  | cons d a => simpa [Safe, List.getLast?_cons_cons] using h

/-- `Safe a (b ++ c)` only looks at the first character after the boundary -/
theorem Safe.of_append_right {a b c : Str} (h : Safe a (b ++ c)) : Safe a b := by
  cases b with
  | nil => exact Safe.nil_right a
  | cons d b => simpa [Safe] using h

theorem Safe.append_right {a b : Str} (c : Str) (h : Safe a b) (hb : b ≠ []) : Safe a (b ++ c) := by
  cases b with
  | nil => exact absurd rfl hb
  | cons d b => simpa [Safe] using h

theorem splitLines_append (a b : Str) (h : Safe a b) :
    splitLines (a ++ b) = glue (splitLines a) (splitLines b) := by
  fun_induction splitLines a with
  | case1 => simp [glue_nil_line _ (splitLines_ne_nil b)]
  | case2 rest ih =>
    simp only [List.cons_append, splitLines_lf]
    rw [glue_cons_of_ne_nil _ _ _ (splitLines_ne_nil rest), ih h.tail]
  | case3 _ _ =>
    -- a = ['\r'] : b must not start with '\n'
    cases b with
    | nil => simp [splitLines_cr_end, glue]
    | cons d b =>
      have hd : d ≠ '\n' := by
        intro hd; subst hd; exact h (by simp)
      simp only [List.cons_append, List.nil_append]
      rw [splitLines_cr d b hd]
      cases hb : splitLines (d :: b) with
      | nil => exact absurd hb (splitLines_ne_nil _)
      | cons y ys => simp [glue]
  | case4 rest' _ ih =>
    simp only [List.cons_append, splitLines_crlf]
    rw [glue_cons_of_ne_nil _ _ _ (splitLines_ne_nil rest'), ih h.tail.tail]
  | case5 d rest' hd _ ih =>
    simp only [List.cons_append]
    rw [splitLines_cr d (rest' ++ b) hd, glue_cons_of_ne_nil _ _ _ (splitLines_ne_nil _)]
    have := ih h.tail
    simpa using this
  | case6 c rest h1 h2 ih =>
    simp only [List.cons_append]
    rw [splitLines_ord c (rest ++ b) ⟨h1, h2⟩, ih h.tail,
      glue_consHead c _ _ (splitLines_ne_nil rest) (splitLines_ne_nil b)]

/-! ### shape of glue -/

/-- last line / first line, totalised (both lists are never empty where these are used) -/
def lastL (xs : List Str) : Str := xs.getLast?.getD []
def headL (xs : List Str) : Str := xs.head?.getD []

@[simp] theorem lastL_singleton (l : Str) : lastL [l] = l := by simp [lastL]
@[simp] theorem lastL_cons_cons (l l' : Str) (ls : List Str) :
    lastL (l :: l' :: ls) = lastL (l' :: ls) := by simp [lastL, List.getLast?_cons_cons]
@[simp] theorem headL_cons (l : Str) (ls : List Str) : headL (l :: ls) = l := by simp [headL]

theorem glue_length (xs ys : List Str) (hx : xs ≠ []) (hy : ys ≠ []) :
    (glue xs ys).length + 1 = xs.length + ys.length := by
  fun_induction glue xs ys with
  | case1 => exact absurd rfl hx
  | case2 => exact absurd rfl hy
  | case3 => simp; omega
  | case4 l l' ls ys ih => have := ih (by simp) hy; simp at this ⊢; omega

/-- the line of `glue xs ys` numbered `xs.length` is the last line of `xs` followed by the
first line of `ys`, and what follows it is the rest of `ys` -/
theorem glue_at (xs ys : List Str) (hx : xs ≠ []) (hy : ys ≠ []) :
    (glue xs ys)[xs.length - 1]? = some (lastL xs ++ headL ys)
    ∧ (glue xs ys).drop xs.length = ys.tail := by
  fun_induction glue xs ys with
  | case1 => exact absurd rfl hx
  | case2 => exact absurd rfl hy
  | case3 l y ys => simp
  | case4 l l' ls ys ih =>
    have := ih (by simp) hy
    simp only [List.length_cons] at this ⊢
    constructor
    · have h1 : ls.length + 1 + 1 - 1 = (ls.length + 1 - 1) + 1 := by omega
      rw [h1, List.getElem?_cons_succ, this.1]
      simp
    · simpa using this.2

theorem glue_lastL (xs ys : List Str) (hx : xs ≠ []) (hy : ys ≠ []) :
    lastL (glue xs ys) = if ys.length = 1 then lastL xs ++ headL ys else lastL ys := by
  fun_induction glue xs ys with
  | case1 => exact absurd rfl hx
  | case2 => exact absurd rfl hy
  | case3 l y ys =>
    cases ys with
    | nil => simp
    | cons y' ys => simp
  | case4 l l' ls ys ih =>
    have := ih (by simp) hy
    have hne : glue (l' :: ls) ys ≠ [] := by
      intro h0
      have := glue_length (l' :: ls) ys (by simp) hy
      simp [h0] at this
      have : 0 < ys.length := List.length_pos_iff.mpr hy
      omega
    match hg : glue (l' :: ls) ys, hne with
    | g :: gs, _ =>
      rw [hg] at this
      simp [this]

/-! ### advance -/

/-- closed form of `advance` -/
theorem advance_eq (p : Pos) (s : Str) :
    advance p s =
      if (splitLines s).length = 1 then
        { line := p.line, col := p.col + (lastL (splitLines s)).length }
      else
        { line := p.line + ((splitLines s).length - 1),
          col := (lastL (splitLines s)).length } := by
  unfold advance
  have hne := splitLines_ne_nil s
  match hs : splitLines s, hne with
  | [l], _ => simp
  | l :: l' :: ls, _ => simp [lastL]

/-- from the origin: line = number of lines so far, column = length of the current line -/
theorem advance_origin (s : Str) :
    advance ⟨1, 0⟩ s =
      { line := (splitLines s).length, col := (lastL (splitLines s)).length } := by
  rw [advance_eq]
  have := splitLines_length_pos s
  split
  · next h => simp [h]
  · next h => simp; omega

@[simp] theorem advance_nil (p : Pos) : advance p [] = p := by
  simp [advance]

theorem advance_append (p : Pos) (a b : Str) (h : Safe a b) :
    advance (advance p a) b = advance p (a ++ b) := by
  have ha := splitLines_ne_nil a
  have hb := splitLines_ne_nil b
  have hla := splitLines_length_pos a
  have hlb := splitLines_length_pos b
  have hlen := glue_length _ _ ha hb
  have hlast := glue_lastL _ _ ha hb
  rw [advance_eq p (a ++ b), advance_eq (advance p a) b, advance_eq p a]
  rw [splitLines_append a b h, hlast]
  have hhead : (splitLines b).length = 1 → lastL (splitLines b) = headL (splitLines b) := by
    intro h2
    match hb' : splitLines b, hb with
    | [y], _ => simp
    | y :: y' :: ys, _ => simp [hb'] at h2
  by_cases h1 : (splitLines a).length = 1 <;> by_cases h2 : (splitLines b).length = 1
  · have : (glue (splitLines a) (splitLines b)).length = 1 := by omega
    simp [h1, h2, this, hhead h2, Nat.add_assoc]
  · have : (glue (splitLines a) (splitLines b)).length ≠ 1 := by omega
    simp [h1, h2, this]
    omega
  · have : (glue (splitLines a) (splitLines b)).length ≠ 1 := by omega
    simp [h1, h2, this, hhead h2]
    omega
  · have : (glue (splitLines a) (splitLines b)).length ≠ 1 := by omega
    simp [h1, h2, this]
    omega

/-! ### one-character steps: which characters start a new line -/

theorem advance_ordinary (p : Pos) (c : Char) (h : Ordinary c) :
    advance p [c] = { line := p.line, col := p.col + 1 } := by
  simp [advance, splitLines_ord c [] h, consHead]

theorem advance_lf (p : Pos) : advance p ['\n'] = { line := p.line + 1, col := 0 } := by
  simp [advance, splitLines_lf]

theorem advance_cr (p : Pos) : advance p ['\r'] = { line := p.line + 1, col := 0 } := by
  simp [advance, splitLines_cr_end]

theorem advance_crlf (p : Pos) : advance p ['\r', '\n'] = { line := p.line + 1, col := 0 } := by
  simp [advance, splitLines_crlf]

/-- columns count code points: every string without `\n`/`\r` moves the column by its length -/
theorem advance_ordinary_str (p : Pos) (s : Str) (h : ∀ c ∈ s, Ordinary c) :
    advance p s = { line := p.line, col := p.col + s.length } := by
  induction s generalizing p with
  | nil => simp
  | cons c s ih =>
    have hc : Ordinary c := h c (by simp)
    have hsafe : Safe [c] s := by
      simp only [Safe, List.getLast?_singleton]
      intro hh
      exact hc.2 (by simpa using hh.1)
    have := advance_append p [c] s hsafe
    simp only [List.singleton_append] at this
    rw [← this, advance_ordinary p c hc, ih _ (fun d hd => h d (by simp [hd]))]
    simp; omega

/-! ### positions index the text -/

theorem headL_append_tail_flatten (ys : List Str) (hy : ys ≠ []) :
    headL ys ++ ys.tail.flatten = ys.flatten := by
  cases ys with
  | nil => exact absurd rfl hy
  | cons y ys => simp

/-- The text found at the position reached after reading `a` is what follows `a`. -/
theorem textFrom_advance (a b : Str) (h : Safe a b) :
    textFrom (splitLines (a ++ b)) (advance ⟨1, 0⟩ a) = some b := by
  have ha := splitLines_ne_nil a
  have hb := splitLines_ne_nil b
  have hat := glue_at _ _ ha hb
  rw [advance_origin, splitLines_append a b h]
  unfold textFrom lineAt
  have hpos := splitLines_length_pos a
  simp only [show (splitLines a).length ≠ 0 by omega, if_false, hat.1, hat.2]
  simp only [List.length_append, Nat.le_add_right, if_true, List.drop_left]
  rw [headL_append_tail_flatten _ hb, join_splitLines]

/-- the line on which the position reached after `a` lies: the current (last) line of `a`
continued by the first line of `b`.  Used for `get_line_code`. -/
theorem lineAt_advance (a b : Str) (h : Safe a b) :
    lineAt (splitLines (a ++ b)) (advance ⟨1, 0⟩ a).line =
      some (lastL (splitLines a) ++ headL (splitLines b)) := by
  have ha := splitLines_ne_nil a
  have hb := splitLines_ne_nil b
  have hat := glue_at _ _ ha hb
  rw [advance_origin, splitLines_append a b h]
  unfold lineAt
  have hpos := splitLines_length_pos a
  simp only [show (splitLines a).length ≠ 0 by omega, if_false, hat.1]

/-! ### shape of the lines -/

/-- a line that is not the last one ends with a terminator; the last one has none -/
def Terminated (l : Str) : Prop :=
  ∃ body, (∀ c ∈ body, Ordinary c) ∧ (l = body ++ ['\n'] ∨ l = body ++ ['\r', '\n'] ∨ l = body ++ ['\r'])

def Unterminated (l : Str) : Prop := ∀ c ∈ l, Ordinary c

/-- every line but the last is `body ++ terminator` with no other break inside;
the last line contains no break -/
def LinesShape : List Str → Prop
  | [] => False
  | [l] => Unterminated l
  | l :: ls => Terminated l ∧ LinesShape ls

theorem linesShape_consHead (c : Char) (hc : Ordinary c) (ls : List Str) (h : LinesShape ls) :
    LinesShape (consHead c ls) := by
  match ls, h with
  | [l], h =>
    simp only [consHead, LinesShape, Unterminated] at *
    intro d hd
    rcases List.mem_cons.mp hd with rfl | hd
    · exact hc
    · exact h d hd
  | l :: l' :: ls, h =>
    simp only [consHead, LinesShape] at *
    refine ⟨?_, h.2⟩
    obtain ⟨body, hb, hl⟩ := h.1
    refine ⟨c :: body, ?_, ?_⟩
    · intro d hd
      rcases List.mem_cons.mp hd with rfl | hd
      · exact hc
      · exact hb d hd
    · rcases hl with rfl | rfl | rfl <;> simp

theorem linesShape_cons (l : Str) (ls : List Str) (hl : Terminated l) (h : LinesShape ls) :
    LinesShape (l :: ls) := by
  match ls, h with
  | [x], h => exact ⟨hl, h⟩
  | x :: y :: zs, h => exact ⟨hl, h⟩

theorem splitLines_shape (s : Str) : LinesShape (splitLines s) := by
  fun_induction splitLines s with
  | case1 => simp [LinesShape, Unterminated]
  | case2 rest ih => exact linesShape_cons _ _ ⟨[], by simp, Or.inl rfl⟩ ih
  | case3 _ _ =>
    exact linesShape_cons _ _ ⟨[], by simp, Or.inr (Or.inr rfl)⟩ (by simp [LinesShape, Unterminated])
  | case4 rest' _ ih => exact linesShape_cons _ _ ⟨[], by simp, Or.inr (Or.inl rfl)⟩ ih
  | case5 d rest' hd _ ih => exact linesShape_cons _ _ ⟨[], by simp, Or.inr (Or.inr rfl)⟩ ih
  | case6 c rest h1 h2 ih => exact linesShape_consHead c ⟨h1, h2⟩ _ ih

end JediModel.Text

import JediModel.Model.NsPath
/-! Lemmas for `Model/NsPath`: with the `os.path.isdir` filter no look of the long-lived process creates a
negative finder-cache entry, and a look answers as a fresh process. -/
namespace JediModel.NsPath

theorem visit_exists (fs : Fs) (fd : Finder) (d : Path) (hn : fd.neg = []) (hd : fs.isdir d = true) :
    (visit fs fd d).1 = true ∧ (visit fs fd d).2.neg = [] := by
  unfold visit
  simp only [hn, List.contains_nil, Bool.false_eq_true, if_false, hd, if_true]
  split <;> simp [hn]

theorem walk_exists (fs : Fs) (has : Path → Bool) (l : List Path) :
    ∀ (fd : Finder), fd.neg = [] → (∀ d ∈ l, fs.isdir d = true) →
      (walk fs has fd l).1 = l.find? has ∧ (walk fs has fd l).2.neg = [] := by
  induction l with
  | nil => intro fd hn _; simp [walk, hn]
  | cons d r ih =>
    intro fd hn hall
    have hv := visit_exists fs fd d hn (hall d (by simp))
    unfold walk
    simp only [hv.1, Bool.true_and]
    cases hh : has d with
    | true => simp [hv.2, List.find?, hh]
    | false =>
      simp only [Bool.false_eq_true, if_false]
      have := ih _ hv.2 (fun x hx => hall x (by simp [hx]))
      simpa [List.find?, hh] using this

theorem candidates_exist (real : Cfg) (hf : real.filterIsdir = true) (fs : Fs)
    (entries : List (Path × Path)) (own : Path)
    (hown : fs.isdir own = true) : ∀ d ∈ nsPaths real fs entries own, fs.isdir d = true := by
  intro d hd
  unfold nsPaths at hd
  simp only [hf, if_true] at hd
  split at hd
  · simp at hd; rw [hd]; exact hown
  · exact (List.mem_filter.mp hd).2

/-- the predicate of the top-level walk: the sys.path entry has a directory `<s>/<name>` -/
def hasPkg (fs : Fs) (entries : List (Path × Path)) (s : Path) : Bool :=
  match portionOf entries s with
  | some d => fs.isdir d
  | none => false

theorem resolve_eq (cfg : Cfg) (fs : Fs) (fd : Finder) (q : Query) :
    resolve cfg fs fd q =
      (let top := walk fs (hasPkg fs q.entries) fd (q.entries.map (·.1))
       match top.1.bind (portionOf q.entries) with
       | none => (([], none), top.2)
       | some own =>
         let cands := nsPaths cfg fs q.entries own
         let r := walk fs (fun d => fs.hasMod d q.m) top.2 cands
         ((cands, r.1), r.2)) := rfl

/-- one look of a process whose finder cache has no negative entry, at a moment when all sys.path
entries exist: the answer is the fresh-process answer and still no negative entry -/
theorem resolve_as_fresh (real : Cfg) (hf : real.filterIsdir = true) (fs : Fs) (fd : Finder) (q : Query)
    (hn : fd.neg = []) (he : EntriesExist fs q) :
    (resolve real fs fd q).1 = (resolve real fs {} q).1 ∧ (resolve real fs fd q).2.neg = [] := by
  have hall : ∀ s ∈ q.entries.map (·.1), fs.isdir s = true := by
    intro s hs
    obtain ⟨e, he1, he2⟩ := List.mem_map.mp hs
    rw [← he2]; exact he e he1
  have t1 := walk_exists fs (hasPkg fs q.entries) (q.entries.map (·.1)) fd hn hall
  have t2 := walk_exists fs (hasPkg fs q.entries) (q.entries.map (·.1)) {} rfl hall
  rw [resolve_eq, resolve_eq]
  simp only []
  rw [t1.1, t2.1]
  cases hown : ((q.entries.map (·.1)).find? (hasPkg fs q.entries)).bind (portionOf q.entries) with
  | none => exact ⟨rfl, t1.2⟩
  | some own =>
    simp only []
    have hex : fs.isdir own = true := by
      cases hfind : (q.entries.map (·.1)).find? (hasPkg fs q.entries) with
      | none => simp [hfind] at hown
      | some s =>
        have hp := List.find?_some hfind
        simp only [hfind, Option.bind_some] at hown
        simp only [hasPkg, hown] at hp
        exact hp
    have hc := candidates_exist real hf fs q.entries own hex
    have w1 := walk_exists fs (fun d => fs.hasMod d q.m) (nsPaths real fs q.entries own) _ t1.2 hc
    have w2 := walk_exists fs (fun d => fs.hasMod d q.m) (nsPaths real fs q.entries own) _ t2.2 hc
    exact ⟨by rw [w1.1, w2.1], w1.2⟩

theorem run_no_negative_entry (real : Cfg) (hf : real.filterIsdir = true) (h : List Op) :
    ∀ (st : State), st.fd.neg = [] → AllEntriesExist real st h → (run real st h).fd.neg = [] := by
  induction h with
  | nil => intro st hn _; exact hn
  | cons o r ih =>
    intro st hn hok
    have hstep : (step real st o).fd.neg = [] := by
      cases o with
      | query q => exact (resolve_as_fresh real hf st.fs st.fd q hn hok.1).2
      | newProcess => rfl
      | _ => exact hn
    exact ih _ hstep hok.2

end JediModel.NsPath

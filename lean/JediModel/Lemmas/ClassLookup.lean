import JediModel.Model.ClassLookup
namespace JediModel.ClassLookup

theorem find_const (l : List ClsId) (p : ClsId → Bool) (c : ClsId) :
    ((l.map fun cls => (⟨c, cls⟩ : Filter)).find? fun f => p f.node).map (·.classValue)
      = if l.any p then some c else none := by
  induction l with
  | nil => simp
  | cons a t ih =>
    by_cases ha : p a = true
    · simp [List.find?, ha]
    · simp only [Bool.not_eq_true] at ha
      simp only [List.map_cons, List.find?, ha, List.any_cons, Bool.false_or]
      exact ih

/-- with the lookup class in every filter, jedi binds what CPython binds -/
theorem bound_ref (h : Hier) (c : ClsId) (n : Name) :
    jediBoundCls true h c n = pyBoundCls h c n := by
  unfold jediBoundCls pyBoundCls getFilters
  simpa using find_const (mro h c) (fun k => defines h k n) c

end JediModel.ClassLookup

import JediModel.Model.Diff
/-! Lemmas for `patch_roundtrip`: a hunk body built from valid opcodes consumes exactly
the old slice and produces exactly the new slice. -/
namespace JediModel.Diff
open JediModel.Text

theorem slice_self {α} (l : List α) (i : Nat) : slice l i i = [] := by
  simp [slice]

theorem drop_eq_slice_append {α} (l : List α) (i j : Nat) (h : i ≤ j) (hj : j ≤ l.length) :
    l.drop i = slice l i j ++ l.drop j := by
  unfold slice
  have h1 : l.drop i = (l.take j ++ l.drop j).drop i := by rw [List.take_append_drop]
  rw [h1, List.drop_append_of_le_length]
  simp [List.length_take]; omega

theorem slice_append_slice {α} (l : List α) (i j k : Nat) (h1 : i ≤ j) (h2 : j ≤ k)
    (hk : k ≤ l.length) : slice l i k = slice l i j ++ slice l j k := by
  unfold slice
  have e : l.take k = l.take j ++ (l.take k).drop j := by
    have := List.take_append_drop j (l.take k)
    rw [List.take_take, Nat.min_eq_left h2] at this
    exact this.symm
  conv => lhs; rw [e]
  rw [List.drop_append_of_le_length]
  simp [List.length_take]; omega

theorem slice_length {α} (l : List α) (i j : Nat) (hj : j ≤ l.length) :
    (slice l i j).length = j - i := by
  simp [slice, List.length_drop, List.length_take, Nat.min_eq_left hj]

theorem take_drop_eq_slice {α} (l : List α) (i n : Nat) :
    (l.drop i).take n = slice l i (i + n) := by
  simp [slice, List.drop_take]

/-! ### hunk bodies -/

theorem applyLines_space (ls : List Line) (more : List (Char × Line)) (rest : List Line) :
    applyLines (ls.map (' ', ·) ++ more) (ls ++ rest) =
      (applyLines more rest).map fun p => (ls ++ p.1, p.2) := by
  induction ls with
  | nil => simp
  | cons l ls ih =>
    simp only [List.map_cons, List.cons_append, applyLines, if_true]
    rw [ih]
    cases applyLines more rest <;> simp

theorem applyLines_minus (ls : List Line) (more : List (Char × Line)) (rest : List Line) :
    applyLines (ls.map ('-', ·) ++ more) (ls ++ rest) = applyLines more rest := by
  induction ls with
  | nil => simp
  | cons l ls ih =>
    simp only [List.map_cons, List.cons_append, applyLines]
    simp [ih]

theorem applyLines_plus (ls : List Line) (more : List (Char × Line)) (rest : List Line) :
    applyLines (ls.map ('+', ·) ++ more) rest =
      (applyLines more rest).map fun p => (ls ++ p.1, p.2) := by
  induction ls with
  | nil => simp
  | cons l ls ih =>
    simp only [List.map_cons, List.cons_append, applyLines]
    simp [ih]
    cases applyLines more rest <;> simp

/-- one valid opcode: consumes `a[i1:i2]`, produces `b[j1:j2]` -/
theorem applyLines_op (a b : List Line) (o : Op) (h : opOk a b o = true)
    (more : List (Char × Line)) :
    applyLines (opLines a b o ++ more) (a.drop o.i1) =
      (applyLines more (a.drop o.i2)).map fun p => (slice b o.j1 o.j2 ++ p.1, p.2) := by
  unfold opOk at h
  simp only [Bool.and_eq_true, decide_eq_true_eq] at h
  obtain ⟨⟨⟨⟨h1, h2⟩, h3⟩, h4⟩, ht⟩ := h
  have ea := drop_eq_slice_append a o.i1 o.i2 h1 h2
  unfold opLines
  cases htag : o.tag <;> simp only [htag] at ht ⊢
  · -- equal
    simp only [decide_eq_true_eq] at ht
    rw [ea, applyLines_space, ht]
  · -- replace
    rw [ea, List.append_assoc, applyLines_minus, applyLines_plus]
  · -- delete
    simp only [decide_eq_true_eq] at ht
    rw [ea, applyLines_minus, ht, slice_self]
    cases applyLines more (List.drop o.i2 a) <;> simp
  · -- insert
    simp only [decide_eq_true_eq] at ht
    rw [applyLines_plus, ht]

structure ChainFacts (a b : List Line) (i j i' j' : Nat) : Prop where
  ile : i ≤ i'
  jle : j ≤ j'
  ilen : i' ≤ a.length
  jlen : j' ≤ b.length

theorem chain_facts (a b : List Line) : ∀ (os : List Op) (i j i' j' : Nat),
    i ≤ a.length → j ≤ b.length → chain a b i j os = some (i', j') → ChainFacts a b i j i' j'
  | [], i, j, i', j', hi, hj, h => by
    simp [chain] at h; obtain ⟨rfl, rfl⟩ := h
    exact ⟨Nat.le_refl _, Nat.le_refl _, hi, hj⟩
  | o :: os, i, j, i', j', hi, hj, h => by
    simp only [chain] at h
    split at h
    · rename_i hc
      obtain ⟨rfl, rfl, hok⟩ := hc
      have hok' := hok
      unfold opOk at hok'
      simp only [Bool.and_eq_true, decide_eq_true_eq] at hok'
      obtain ⟨⟨⟨⟨h1, h2⟩, h3⟩, h4⟩, _⟩ := hok'
      have r := chain_facts a b os o.i2 o.j2 i' j' h2 h4 h
      exact ⟨Nat.le_trans h1 r.ile, Nat.le_trans h3 r.jle, r.ilen, r.jlen⟩
    · cases h

/-- a whole chain: consumes `a[i:i']`, produces `b[j:j']` -/
theorem applyLines_chain (a b : List Line) : ∀ (os : List Op) (i j i' j' : Nat),
    i ≤ a.length → j ≤ b.length → chain a b i j os = some (i', j') →
    ∀ more, applyLines (os.flatMap (opLines a b) ++ more) (a.drop i) =
      (applyLines more (a.drop i')).map fun p => (slice b j j' ++ p.1, p.2)
  | [], i, j, i', j', _, _, h, more => by
    simp [chain] at h; obtain ⟨rfl, rfl⟩ := h
    simp only [List.flatMap_nil, List.nil_append, slice_self]
    cases applyLines more (List.drop i a) <;> simp
  | o :: os, i, j, i', j', hi, hj, h, more => by
    simp only [chain] at h
    split at h
    · rename_i hc
      obtain ⟨rfl, rfl, hok⟩ := hc
      have hok' := hok
      unfold opOk at hok'
      simp only [Bool.and_eq_true, decide_eq_true_eq] at hok'
      obtain ⟨⟨⟨⟨h1, h2⟩, h3⟩, h4⟩, _⟩ := hok'
      have r := chain_facts a b os o.i2 o.j2 i' j' h2 h4 h
      have ih := applyLines_chain a b os o.i2 o.j2 i' j' h2 h4 h more
      simp only [List.flatMap_cons, List.append_assoc]
      rw [applyLines_op a b o hok, ih]
      rw [slice_append_slice b o.j1 o.j2 j' h3 r.jle r.jlen]
      cases applyLines more (List.drop i' a) <;> simp
    · cases h

/-- `group[-1]` is where the chain ends -/
theorem chain_last (a b : List Line) : ∀ (os : List Op) (o : Op) (i j i' j' : Nat),
    chain a b i j (o :: os) = some (i', j') →
    ∃ l, (o :: os).getLast? = some l ∧ l.i2 = i' ∧ l.j2 = j'
  | [], o, i, j, i', j', h => by
    simp only [chain] at h
    split at h
    · simp at h; exact ⟨o, by simp, h.1, h.2⟩
    · cases h
  | o2 :: os, o, i, j, i', j', h => by
    simp only [chain] at h
    split at h
    · have := chain_last a b os o2 o.i2 o.j2 i' j' (by simpa [chain] using h)
      obtain ⟨l, hl, e1, e2⟩ := this
      exact ⟨l, by simpa [List.getLast?_cons_cons] using hl, e1, e2⟩
    · cases h

theorem start0_fmtRange (start stop : Nat) :
    start0 (fmtRange start stop).1 (fmtRange start stop).2 = start ∧
    (fmtRange start stop).2 = stop - start := by
  unfold fmtRange start0
  split <;> simp_all

theorem normLast_isSome : ∀ ls : List Line, ls ≠ [] → (normLast ls).isSome
  | [], h => absurd rfl h
  | [l], _ => by unfold normLast; split <;> rfl
  | l :: l2 :: ls, _ => by
    have := normLast_isSome (l2 :: ls) (by simp)
    simp only [normLast, Option.isSome_map]
    exact this

theorem consHead_ne_nil (c : Char) (ls : List Str) : consHead c ls ≠ [] := by
  cases ls <;> simp [consHead]

theorem splitLines_ne_nil (s : Str) : splitLines s ≠ [] := by
  cases s with
  | nil => simp [splitLines]
  | cons c rest =>
    unfold splitLines
    split
    · simp
    · split
      · split
        · simp
        · split <;> simp
      · exact consHead_ne_nil _ _

/-- what the normalisation does to the text: nothing, or exactly one `\n` appended -/
theorem normLast_flatten : ∀ (ls out : List Line), normLast ls = some out →
    out.flatten = ls.flatten ∨ out.flatten = ls.flatten ++ ['\n']
  | [], out, h => by simp [normLast] at h
  | [l], out, h => by
    unfold normLast at h
    split at h <;> simp at h <;> subst h <;> simp
  | l :: l2 :: ls, out, h => by
    simp only [normLast, Option.map_eq_some_iff] at h
    obtain ⟨tl, htl, rfl⟩ := h
    have := normLast_flatten (l2 :: ls) tl htl
    cases this with
    | inl e => left; simp [e]
    | inr e => right; simp [e]

/-- every line but the last is untouched; the number of lines does not change -/
theorem normLast_length : ∀ (ls out : List Line), normLast ls = some out → out.length = ls.length
  | [], out, h => by simp [normLast] at h
  | [l], out, h => by
    unfold normLast at h
    split at h <;> simp at h <;> subst h <;> simp
  | l :: l2 :: ls, out, h => by
    simp only [normLast, Option.map_eq_some_iff] at h
    obtain ⟨tl, htl, rfl⟩ := h
    simp [normLast_length (l2 :: ls) tl htl]

theorem flatten_consHead (c : Char) (ls : List Str) : (consHead c ls).flatten = c :: ls.flatten := by
  cases ls <;> simp [consHead]

/-- `''.join(split_lines(s, keepends=True)) == s` -/
theorem splitLines_flatten (s : Str) : (splitLines s).flatten = s := by
  fun_induction splitLines s <;> simp_all [flatten_consHead, splitLines]

theorem dropWhile_append_ne {α} (p : α → Bool) (l : List α) (x : α) (h : p x = false) :
    (l ++ [x]).dropWhile p ≠ [] := by
  induction l with
  | nil => simp [h]
  | cons a l ih =>
    simp only [List.cons_append, List.dropWhile]
    split
    · exact ih
    · simp

theorem rstripSpaces_ne_nil (c : Char) (s : Str) (h : c ≠ ' ') : rstripSpaces (c :: s) ≠ [] := by
  unfold rstripSpaces
  intro e
  have e' := congrArg List.reverse e
  simp only [List.reverse_reverse, List.reverse_cons, List.reverse_nil] at e'
  exact dropWhile_append_ne _ _ c (by simp [h]) e'

end JediModel.Diff

import JediModel.Lemmas.Refs
import JediModel.Props.C03
/-! Soundness of `find_references` on the Scopes model: under explicit hypotheses every reported
reference denotes the variable of the start occurrence. -/
namespace JediModel.Refs
open JediModel.Scopes JediModel.Props.C03

/-- hypothesis on a *use* occurrence: the lookup is covered by the C03 chain theorem, and a use in
a class body that binds the name is preceded by such a binding (otherwise Python's LOAD_NAME reads
the global while jedi's same-context step adds the class attribute) -/
def UseOk (p : Prog) (u : Nat) : Bool :=
  CoveredUse p u &&
  (match p.occs[u]? with
   | some o => !(p.kind o.scope == .klass && bindsIn p o.scope o.name) ||
               boundBefore p o.scope o.name o.stmt
   | none => true)

/-- hypothesis on the identifier `x`: no `global`/`nonlocal` declaration of it anywhere, it is not
the default value of a lambda parameter, and every use of it is `UseOk` -/
def NameOk (p : Prog) (x : Nat) : Prop :=
  ∀ o oo, p.occs[o]? = some oo → oo.name = x →
    oo.role ≠ .globalDecl ∧ oo.role ≠ .nonlocalDecl ∧ oo.role ≠ .dfltUse ∧
      (oo.role = .use → UseOk p o = true)

/-- sel-generic version of `goto_same_var_partial` -/
theorem gotoSel_same_var {sel : List Nat → List Nat} (hsel : IsSel sel) (p : Prog)
    (hwf : WF p = true) (u : Nat) (o : Occ) (ho : p.occs[u]? = some o) (hr : o.role = .use)
    (hc : CoveredUse p u = true) : ∀ d ∈ gotoSel sel p u, varOf p d = varOf p u := by
  intro d hd
  have hgoto : gotoSel sel p u = gotoFromSel sel p o.name (p.scopes.length + 1) o.scope (some o.stmt) := by
    unfold gotoSel; rw [ho]; simp [hr, Role.isDef]
  rw [hgoto] at hd
  unfold CoveredUse at hc
  rw [ho] at hc
  simp only at hc
  have selEmpty : ∀ {l : List Nat}, l.isEmpty = true → sel l = [] := by
    intro l hl
    have : l = [] := by simpa using hl
    subst this
    cases hs : sel [] with
    | nil => rfl
    | cons a t =>
      have := hsel.sub (l := []) (d := a) (by rw [hs]; exact List.mem_cons_self)
      simp at this
  cases hk : p.kind o.scope with
  | module =>
    rw [varOf_of_use ho hr]
    have h0 := wf_kind0 hwf
    have hu : ownerOfUse p o.scope o.name o.stmt = 0 := by simp [ownerOfUse, hk]
    rw [hu]
    unfold gotoFromSel at hd
    simp only [hk] at hd
    rcases List.mem_append.mp hd with h | h
    · obtain ⟨od, hod, hn, hsc, hdef, -⟩ := (mem_defsIn p 0 o.name _ d).mp (hsel.sub h)
      rw [varOf_of_def hod hdef, hsc]
      simp [ownerOfBinding, h0]
    · obtain ⟨od, hod, hn, hrole⟩ := (mem_globalDecls p o.name d).mp h
      unfold varOf
      rw [hod]
      simp [hrole]
  | klass =>
    simp only [hk] at hc
    have hkm : p.kind o.scope ≠ .module := by rw [hk]; decide
    have hpl := wf_parent_lt hwf o.scope hkm
    have hsl : o.scope < p.scopes.length := kind_ne_module_lt o.scope hkm
    by_cases he : (defsIn p o.scope o.name (some o.stmt)).isEmpty = true
    · simp only [he, if_true] at hc
      unfold gotoFromSel at hd
      simp only [hk, selEmpty he] at hd
      have := gotoFromSel_sound hsel hwf o.name p.scopes.length (p.parent o.scope) (some o.stmt) _
        (by omega) hc d hd
      rw [this, varOf_of_use ho hr]
      have hnb : boundBefore p o.scope o.name o.stmt = false := by
        unfold boundBefore
        have : defsIn p o.scope o.name (some o.stmt) = [] := by simpa using he
        simp [this]
      unfold ownerOfUse
      simp only [if_false, hk, if_true, hnb, Bool.false_eq_true]
      by_cases h1 : declaredGlobal p o.scope o.name = true
      · simp [h1]
      · simp only [h1, Bool.false_eq_true, if_false, Bool.false_or]
        by_cases h2 : declaredNonlocal p o.scope o.name = true
        · simp [h2]
        · by_cases h3 : bindsIn p o.scope o.name = true
          · simp [h2, h3]
          · simp [h2, h3]
    · -- own hit: every selected definition is a binding of this scope before the use
      unfold gotoFromSel at hd
      simp only [hk] at hd
      have hne : sel (defsIn p o.scope o.name (some o.stmt)) ≠ [] := by
        intro h
        apply he
        simp [hsel.nil h]
      split at hd
      · contradiction
      · have hmem := hsel.sub hd
        obtain ⟨od, hod, hn, hs, hdef, -⟩ := (mem_defsIn p o.scope o.name (some o.stmt) d).mp hmem
        rw [varOf_of_def hod hdef, varOf_of_use ho hr, hn, hs]
        exact (ownerOfUse_eq_of_local_def hmem).symm
  | function | lambda | comp =>
    simp only [hk] at hc
    have hkm : p.kind o.scope ≠ .module := by rw [hk]; decide
    have hsl : o.scope < p.scopes.length := kind_ne_module_lt o.scope hkm
    have := gotoFromSel_sound hsel hwf o.name (p.scopes.length + 1) o.scope (some o.stmt) false
      (by omega) hc d hd
    rw [this, varOf_of_use ho hr]
    simp only [Bool.false_eq_true, if_false]
    conv => lhs; unfold resolveFree
    unfold ownerOfUse
    simp [hk]

/-- all elements denote one variable -/
def SameVar (p : Prog) (V : Nat) (l : List Nat) : Prop := ∀ a ∈ l, varOf p a = V

theorem sameVar_insertAll {p : Prog} {V : Nat} {l new : List Nat}
    (h1 : SameVar p V l) (h2 : SameVar p V new) : SameVar p V (insertAll l new) := by
  intro a ha
  rcases mem_insertAll.mp ha with h | h
  · exact h1 a h
  · exact h2 a h

/-- `_find_names` of an occurrence of a `NameOk` identifier is a set of occurrences of one variable,
namely the variable of that occurrence -/
theorem findNames_sameVar {sel : List Nat → List Nat} (hsel : IsSel sel) (p : Prog)
    (hwf : WF p = true) (o : Nat) (oo : Occ) (ho : p.occs[o]? = some oo) (hok : NameOk p oo.name) :
    SameVar p (varOf p o) (findNames sel p o) := by
  obtain ⟨hng, hnn, hnd', huse⟩ := hok o oo ho rfl
  unfold findNames
  apply sameVar_insertAll
  · intro a ha
    simp only [List.mem_singleton] at ha
    rw [ha]
  · intro a ha
    by_cases hdef : oo.role.isDef = true
    · unfold gotoSel at ha
      rw [ho] at ha
      simp only [hdef, if_true, List.mem_singleton] at ha
      rw [ha]
    · have hr : oo.role = .use := by
        cases hrole : oo.role <;> simp_all [Role.isDef]
      have hu := huse hr
      unfold UseOk at hu
      simp only [Bool.and_eq_true] at hu
      exact gotoSel_same_var hsel p hwf o oo ho hr hu.1 a ha

/-- all definitions of `x` in one scope write one variable -/
theorem allDefsIn_sameVar (p : Prog) (c x : Nat) : SameVar p (ownerOfBinding p c x) (allDefsIn p c x) := by
  intro a ha
  obtain ⟨oa, hoa, hn, hs, hdef, -⟩ := (mem_defsIn p c x none a).mp ha
  rw [varOf_of_def hoa hdef, hn, hs]

theorem globalDecls_nil_of_nameOk {p : Prog} {x : Nat} (hok : NameOk p x) : globalDecls p x = [] := by
  apply List.eq_nil_iff_forall_not_mem.mpr
  intro g hg
  obtain ⟨og, hog, hn, hr⟩ := (mem_globalDecls p x g).mp hg
  exact (hok g og hog hn).1 hr

theorem definingNames_sameVar (p : Prog) (hwf : WF p = true) (u : Nat) (o : Occ)
    (ho : p.occs[u]? = some o) (hok : NameOk p o.name) :
    SameVar p (varOf p u) (definingNames p u) := by
  have hgd := globalDecls_nil_of_nameOk hok
  have hgv : globalVariables p o.name = [] := by simp [globalVariables, hgd]
  obtain ⟨hng, hnn, hnd', huse⟩ := hok u o ho rfl
  have hfind := findNames_sameVar isSel_id p hwf u o ho hok
  unfold definingNames
  rw [ho]
  simp only [hgv]
  intro a ha
  rw [mem_foldl_insertAll] at ha
  rcases ha with ha | ⟨c, hc, ha⟩
  · rcases mem_insertAll.mp ha with h | h
    · exact hfind a h
    · simp at h
  · -- a definition added by the same-context step for context `c`
    have hown : varOf p a = ownerOfBinding p c o.name := allDefsIn_sameVar p c o.name a ha
    rw [hown]
    simp only [List.filterMap_nil, List.append_nil, List.mem_append] at hc
    rcases hc with hc | hc
    · -- the start's own context
      unfold ctxOfStart at hc
      rw [ho] at hc
      simp only at hc
      by_cases hpar : o.role = .param
      · simp [hpar] at hc
      · simp only [hpar, if_false, List.mem_singleton] at hc
        subst hc
        by_cases hdef : o.role.isDef = true
        · rw [varOf_of_def ho hdef]
        · have hr : o.role = .use := by
            cases hrole : o.role <;> simp_all [Role.isDef]
          rw [varOf_of_use ho hr]
          have hu := huse hr
          unfold UseOk at hu
          rw [ho] at hu
          simp only [Bool.and_eq_true, Bool.or_eq_true, Bool.not_eq_true', Bool.and_eq_false_iff] at hu
          have hb : bindsIn p o.scope o.name = true := bindsIn_of_mem_defsIn ha
          -- no declarations of the name in this scope
          have hdg : declaredGlobal p o.scope o.name = false := by
            unfold declaredGlobal
            rw [List.any_eq_false]
            intro oc hoc
            obtain ⟨i, hi⟩ := List.getElem?_of_mem hoc
            by_cases hn : oc.name = o.name
            · have := (hok i oc hi hn).1
              simp [this]
            · simp [hn]
          have hdn : declaredNonlocal p o.scope o.name = false := by
            unfold declaredNonlocal
            rw [List.any_eq_false]
            intro oc hoc
            obtain ⟨i, hi⟩ := List.getElem?_of_mem hoc
            by_cases hn : oc.name = o.name
            · have := (hok i oc hi hn).2.1
              simp [this]
            · simp [hn]
          unfold ownerOfUse ownerOfBinding
          by_cases hm : p.kind o.scope = .module
          · simp [hm]
          · simp only [hm, if_false, hdg, hdn, Bool.false_eq_true, hb, if_true]
            by_cases hkl : p.kind o.scope = .klass
            · rcases hu.2 with h | h
              · rcases h with h | h
                · simp [hkl] at h
                · rw [hb] at h; cases h
              · simp [hkl, h]
            · simp [hkl]
    · -- the context of a name found by goto (flow analysis off)
      obtain ⟨d, hd, hcd⟩ := List.mem_filterMap.mp hc
      have hvd : varOf p d = varOf p u := by
        have := hfind d (mem_insertAll.mpr (Or.inr hd))
        exact this
      unfold ctxOfFound at hcd
      cases hod : p.occs[d]? with
      | none => simp [hod] at hcd
      | some od =>
        simp only [hod] at hcd
        have hnd : od.name = o.name := by
          obtain ⟨od', hod', hn⟩ := allNamed_gotoSel isSel_id p u o ho d hd
          rw [hod] at hod'
          cases hod'
          exact hn
        cases hrole : od.role with
        | param => simp [hrole] at hcd
        | globalDecl => exact absurd hrole (hok d od hod hnd).1
        | nonlocalDecl => exact absurd hrole (hok d od hod hnd).2.1
        | dfltUse => exact absurd hrole (hok d od hod hnd).2.2.1
        | use =>
          -- goto never lands on a use
          exfalso
          unfold gotoSel at hd
          rw [ho] at hd
          simp only at hd
          split at hd
          · simp only [List.mem_singleton] at hd
            subst hd
            rw [ho] at hod
            cases hod
            simp_all [Role.isDef]
          · obtain ⟨od', hod', -, hkind⟩ := gotoFromSel_landing isSel_id p o.name _ _ _ d hd
            rw [hod] at hod'
            cases hod'
            rcases hkind with h | h <;> simp_all [Role.isDef]
        | bind =>
          simp only [hrole, Option.some.injEq] at hcd
          subst hcd
          rw [← hvd, varOf_of_def hod (by simp [hrole, Role.isDef]), hnd]
        | defName =>
          simp only [hrole, Option.some.injEq] at hcd
          subst hcd
          rw [← hvd, varOf_of_def hod (by simp [hrole, Role.isDef]), hnd]

end JediModel.Refs

namespace JediModel.Refs
open JediModel.Scopes JediModel.Props.C03

/-- invariant of the scan: everything found denotes `V`; every parked group denotes one variable
and contains its key -/
def ScanSound (p : Prog) (V : Nat) (st : ScanState) : Prop :=
  SameVar p V st.found ∧
  ∀ kg ∈ st.nonMatching, kg.1 ∈ kg.2 ∧ ∀ a ∈ kg.2, varOf p a = varOf p kg.1

theorem scanStep_sound (p : Prog) (hwf : WF p = true) (x V : Nat) (hok : NameOk p x)
    (st : ScanState) (o : Nat) (oo : Occ) (ho : p.occs[o]? = some oo) (hx : oo.name = x)
    (h : ScanSound p V st) : ScanSound p V (scanStep p st o) := by
  have hnew : SameVar p (varOf p o) (findNames lastOf p o) :=
    findNames_sameVar isSel_lastOf p hwf o oo ho (hx ▸ hok)
  unfold scanStep
  simp only
  split
  · rename_i hany
    -- some element of `new` is already found, so the variable of `o` is `V`
    have hV : varOf p o = V := by
      rw [List.any_eq_true] at hany
      obtain ⟨e, he, hef⟩ := hany
      have hef' : e ∈ st.found := by simpa using hef
      rw [← hnew e he]
      exact h.1 e hef'
    constructor
    · simp only
      intro a ha
      rw [mem_foldl_insertAll (fun kg : Nat × List Nat => kg.2)] at ha
      rcases ha with ha | ⟨kg, hkg, ha⟩
      · rcases mem_insertAll.mp ha with h' | h'
        · exact h.1 a h'
        · rw [hnew a h', hV]
      · -- a parked group whose key is in `new`
        obtain ⟨hkgm, hkey⟩ := List.mem_filter.mp hkg
        have hk1 : kg.1 ∈ findNames lastOf p o := by simpa using hkey
        obtain ⟨-, hmono⟩ := h.2 kg hkgm
        rw [hmono a ha, hnew kg.1 hk1, hV]
    · intro kg hkg
      exact h.2 kg (List.mem_filter.mp hkg).1
  · constructor
    · exact h.1
    · intro kg hkg
      simp only [List.mem_append, List.mem_map] at hkg
      rcases hkg with h' | ⟨t, ht, rfl⟩
      · exact h.2 kg h'
      · refine ⟨ht, ?_⟩
        intro a ha
        rw [hnew a ha, hnew t ht]

theorem scan_sound (p : Prog) (hwf : WF p = true) (x V : Nat) (hok : NameOk p x) (os : List Nat)
    (st : ScanState) (hos : ∀ o ∈ os, ∃ oo, p.occs[o]? = some oo ∧ oo.name = x)
    (h : ScanSound p V st) : ScanSound p V (os.foldl (scanStep p) st) := by
  induction os generalizing st with
  | nil => exact h
  | cons o os ih =>
    obtain ⟨oo, hoo, hx⟩ := hos o List.mem_cons_self
    exact ih _ (fun o' ho' => hos o' (List.mem_cons_of_mem _ ho'))
      (scanStep_sound p hwf x V hok st o oo hoo hx h)

end JediModel.Refs

namespace JediModel.Refs
open JediModel.Scopes

/-- executable form of `NameOk` (used by the driver to report how many start points the theorem covers) -/
def nameOkB (p : Prog) (x : Nat) : Bool :=
  p.occs.zipIdx.all fun (oo, o) =>
    oo.name != x ||
      (oo.role != .globalDecl && oo.role != .nonlocalDecl && oo.role != .dfltUse &&
        (oo.role != .use || UseOk p o))

theorem nameOk_of_nameOkB {p : Prog} {x : Nat} (h : nameOkB p x = true) : NameOk p x := by
  intro o oo ho hn
  unfold nameOkB at h
  rw [List.all_eq_true] at h
  have := h (oo, o) (List.mem_zipIdx_iff_getElem?.mpr ho)
  simp only [hn, bne_self_eq_false, Bool.false_or, Bool.and_eq_true, bne_iff_ne, ne_eq,
    Bool.or_eq_true] at this
  refine ⟨this.1.1.1, this.1.1.2, this.1.2, ?_⟩
  intro hr
  rcases this.2 with h' | h'
  · exact absurd hr h'
  · exact h'

end JediModel.Refs

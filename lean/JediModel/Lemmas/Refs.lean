import JediModel.Model.Refs
import JediModel.Lemmas.Scopes
namespace JediModel.Refs
open JediModel.Scopes

theorem mem_addNew {l : List Nat} {n a : Nat} : a ∈ addNew l n ↔ a ∈ l ∨ a = n := by
  unfold addNew
  split
  · rename_i h
    constructor
    · exact Or.inl
    · rintro (h' | rfl)
      · exact h'
      · simpa using h
  · simp

theorem mem_insertAll {l new : List Nat} {a : Nat} : a ∈ insertAll l new ↔ a ∈ l ∨ a ∈ new := by
  unfold insertAll
  induction new generalizing l with
  | nil => simp
  | cons n ns ih =>
    simp only [List.foldl_cons, ih, mem_addNew, List.mem_cons]
    constructor
    · rintro ((h | h) | h)
      · exact Or.inl h
      · exact Or.inr (Or.inl h)
      · exact Or.inr (Or.inr h)
    · rintro (h | h | h)
      · exact Or.inl (Or.inl h)
      · exact Or.inl (Or.inr h)
      · exact Or.inr h

theorem self_mem_findNames (sel : List Nat → List Nat) (p : Prog) (u : Nat) :
    u ∈ findNames sel p u := by
  unfold findNames
  exact mem_insertAll.mpr (Or.inl (by simp))

/-- membership in a fold of `insertAll` -/
theorem mem_foldl_insertAll {α : Type} (f : α → List Nat) (cs : List α) (init : List Nat) (a : Nat) :
    a ∈ cs.foldl (fun acc c => insertAll acc (f c)) init ↔ a ∈ init ∨ ∃ c ∈ cs, a ∈ f c := by
  induction cs generalizing init with
  | nil => simp
  | cons c cs ih =>
    simp only [List.foldl_cons, ih, mem_insertAll, List.mem_cons]
    constructor
    · rintro ((h | h) | ⟨c', hc', h⟩)
      · exact Or.inl h
      · exact Or.inr ⟨c, Or.inl rfl, h⟩
      · exact Or.inr ⟨c', Or.inr hc', h⟩
    · rintro (h | ⟨c', (rfl | hc'), h⟩)
      · exact Or.inl (Or.inl h)
      · exact Or.inl (Or.inr h)
      · exact Or.inr ⟨c', hc', h⟩

theorem scanStep_found_mono (p : Prog) (st : ScanState) (o a : Nat) (h : a ∈ st.found) :
    a ∈ (scanStep p st o).found := by
  unfold scanStep
  simp only
  split
  · simp only
    rw [mem_foldl_insertAll (fun kg : Nat × List Nat => kg.2)]
    exact Or.inl (mem_insertAll.mpr (Or.inl h))
  · exact h

theorem scan_found_mono (p : Prog) (os : List Nat) (st : ScanState) (a : Nat) (h : a ∈ st.found) :
    a ∈ (os.foldl (scanStep p) st).found := by
  induction os generalizing st with
  | nil => exact h
  | cons o os ih => exact ih _ (scanStep_found_mono p st o a h)

theorem start_mem_definingNames (p : Prog) (u : Nat) (o : Occ) (ho : p.occs[u]? = some o) :
    u ∈ definingNames p u := by
  unfold definingNames
  rw [ho]
  simp only
  rw [mem_foldl_insertAll]
  exact Or.inl (mem_insertAll.mpr (Or.inl (self_mem_findNames id p u)))

end JediModel.Refs

namespace JediModel.Refs
open JediModel.Scopes

/-- every element is an occurrence spelled `x` -/
def AllNamed (p : Prog) (x : Nat) (l : List Nat) : Prop :=
  ∀ a ∈ l, ∃ oa, p.occs[a]? = some oa ∧ oa.name = x

theorem allNamed_insertAll {p : Prog} {x : Nat} {l new : List Nat}
    (h1 : AllNamed p x l) (h2 : AllNamed p x new) : AllNamed p x (insertAll l new) := by
  intro a ha
  rcases mem_insertAll.mp ha with h | h
  · exact h1 a h
  · exact h2 a h

theorem allNamed_defsIn (p : Prog) (s x : Nat) (lim : Option Nat) : AllNamed p x (defsIn p s x lim) := by
  intro a ha
  obtain ⟨o, ho, hn, -⟩ := (mem_defsIn p s x lim a).mp ha
  exact ⟨o, ho, hn⟩

theorem allNamed_gotoSel {sel : List Nat → List Nat} (hsel : IsSel sel) (p : Prog) (u : Nat) (o : Occ)
    (ho : p.occs[u]? = some o) : AllNamed p o.name (gotoSel sel p u) := by
  intro a ha
  unfold gotoSel at ha
  rw [ho] at ha
  simp only at ha
  split at ha
  · simp only [List.mem_singleton] at ha
    subst ha
    exact ⟨o, ho, rfl⟩
  · obtain ⟨oa, hoa, hn, -⟩ := gotoFromSel_landing hsel p o.name _ _ _ a ha
    exact ⟨oa, hoa, hn⟩

theorem allNamed_findNames {sel : List Nat → List Nat} (hsel : IsSel sel) (p : Prog) (u : Nat) (o : Occ)
    (ho : p.occs[u]? = some o) : AllNamed p o.name (findNames sel p u) := by
  unfold findNames
  apply allNamed_insertAll
  · intro a ha
    simp only [List.mem_singleton] at ha
    subst ha
    exact ⟨o, ho, rfl⟩
  · exact allNamed_gotoSel hsel p u o ho

theorem allNamed_foldl_insertAll {α : Type} {p : Prog} {x : Nat} (f : α → List Nat) (cs : List α)
    (init : List Nat) (h0 : AllNamed p x init) (hf : ∀ c ∈ cs, AllNamed p x (f c)) :
    AllNamed p x (cs.foldl (fun acc c => insertAll acc (f c)) init) := by
  intro a ha
  rcases (mem_foldl_insertAll f cs init a).mp ha with h | ⟨c, hc, h⟩
  · exact h0 a h
  · exact hf c hc a h

theorem allNamed_globalVariables (p : Prog) (x : Nat) : AllNamed p x (globalVariables p x) := by
  unfold globalVariables
  simp only
  have key : ∀ (gs : List Nat) (acc : List Nat), AllNamed p x acc →
      (∀ g ∈ gs, ∃ og, p.occs[g]? = some og ∧ og.name = x) →
      AllNamed p x (gs.foldl (fun acc g =>
        match p.occs[g]? with
        | some o => insertAll (addNew acc g) (allDefsIn p o.scope x)
        | none => acc) acc) := by
    intro gs
    induction gs with
    | nil => intro acc h _; exact h
    | cons g gs ih =>
      intro acc hacc hgs
      simp only [List.foldl_cons]
      apply ih
      · obtain ⟨og, hog, hn⟩ := hgs g List.mem_cons_self
        rw [hog]
        simp only
        apply allNamed_insertAll
        · intro a ha
          rcases mem_addNew.mp ha with h | rfl
          · exact hacc a h
          · exact ⟨og, hog, hn⟩
        · exact allNamed_defsIn p _ x none
      · intro g' hg'
        exact hgs g' (List.mem_cons_of_mem _ hg')
  apply key
  · intro a ha; simp at ha
  · intro g hg
    obtain ⟨og, hog, hn, -⟩ := (mem_globalDecls p x g).mp hg
    exact ⟨og, hog, hn⟩

theorem allNamed_definingNames (p : Prog) (u : Nat) (o : Occ) (ho : p.occs[u]? = some o) :
    AllNamed p o.name (definingNames p u) := by
  unfold definingNames
  rw [ho]
  simp only
  apply allNamed_foldl_insertAll
  · apply allNamed_insertAll
    · exact allNamed_findNames isSel_id p u o ho
    · exact allNamed_globalVariables p o.name
  · intro c _
    exact allNamed_defsIn p c o.name none

/-- invariant of the scan: everything found and every parked group is spelled `x` -/
def ScanNamed (p : Prog) (x : Nat) (st : ScanState) : Prop :=
  AllNamed p x st.found ∧ ∀ kg ∈ st.nonMatching, AllNamed p x kg.2

theorem scanStep_named (p : Prog) (x : Nat) (st : ScanState) (o : Nat) (oo : Occ)
    (ho : p.occs[o]? = some oo) (hx : oo.name = x) (h : ScanNamed p x st) :
    ScanNamed p x (scanStep p st o) := by
  have hnew : AllNamed p x (findNames lastOf p o) := hx ▸ allNamed_findNames isSel_lastOf p o oo ho
  unfold scanStep
  simp only
  split
  · constructor
    · simp only
      apply allNamed_foldl_insertAll (fun kg : Nat × List Nat => kg.2)
      · exact allNamed_insertAll h.1 hnew
      · intro kg hkg
        exact h.2 kg (List.mem_filter.mp hkg).1
    · intro kg hkg
      exact h.2 kg (List.mem_filter.mp hkg).1
  · constructor
    · exact h.1
    · intro kg hkg
      simp only [List.mem_append, List.mem_map] at hkg
      rcases hkg with h' | ⟨t, -, rfl⟩
      · exact h.2 kg h'
      · exact hnew

theorem scan_named (p : Prog) (x : Nat) (os : List Nat) (st : ScanState)
    (hos : ∀ o ∈ os, ∃ oo, p.occs[o]? = some oo ∧ oo.name = x) (h : ScanNamed p x st) :
    ScanNamed p x (os.foldl (scanStep p) st) := by
  induction os generalizing st with
  | nil => exact h
  | cons o os ih =>
    obtain ⟨oo, hoo, hx⟩ := hos o List.mem_cons_self
    exact ih _ (fun o' ho' => hos o' (List.mem_cons_of_mem _ ho')) (scanStep_named p x st o oo hoo hx h)

end JediModel.Refs

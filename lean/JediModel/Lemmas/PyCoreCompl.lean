import JediModel.Lemmas.PyCore
/-! Attribute completeness on PyCore: every attribute the run can read from an instance or a class
is among the names offered after `obj.`. -/
namespace JediModel.PyCore

theorem lastAttr_name_mem {l : List (Nat × Expr)} {a : Nat} {e : Expr} (h : lastAttr l a = some e) :
    a ∈ l.map (·.1) := by
  unfold lastAttr at h
  simp only [Option.map_eq_some_iff] at h
  obtain ⟨ae, hae, -⟩ := h
  have hm := List.mem_filter.mp (List.mem_of_getLast? hae)
  have : ae.1 = a := by simpa using hm.2
  exact List.mem_map.mpr ⟨ae, hm.1, this⟩

theorem findMethod_name_mem {ms : List Method} {a : Nat} {md : Method} (h : findMethod ms a = some md) :
    a ∈ ms.map (·.name) := by
  unfold findMethod at h
  have hm := List.mem_filter.mp (List.mem_of_getLast? h)
  have : md.name = a := by simpa using hm.2
  exact List.mem_map.mpr ⟨md, hm.1, this⟩

structure Compl (p : Prog) (fuel : Nat) : Prop where
  self : ∀ id sv vs a v, selfAttrC p fuel id sv vs a = .found v → a ∈ complNames p fuel true id
  attr : ∀ rc id a v inst, attrC p fuel rc id a = some v → a ∈ complNames p fuel inst id

theorem compl (p : Prog) (hwf : WFClasses p = true) : ∀ fuel, Compl p fuel := by
  intro fuel
  induction fuel with
  | zero =>
    exact ⟨by intro id sv vs a v h; simp [selfAttrC] at h,
           by intro rc id a v inst h; simp [attrC] at h⟩
  | succ n ih =>
    constructor
    · intro id sv vs a v h
      simp only [selfAttrC] at h
      simp only [complNames]
      cases hp : p[id]? with
      | none => simp [hp] at h
      | some st =>
        cases st with
        | klass c base attrs init methods =>
          simp only [hp] at h ⊢
          cases init with
          | some i =>
            simp only at h
            cases hla : lastAttr i.assigns a with
            | none => simp [hla] at h
            | some e =>
              have := lastAttr_name_mem hla
              simp only [if_true, List.mem_append]
              exact Or.inl (Or.inl (Or.inl this))
          | none =>
            simp only at h
            cases base with
            | none => simp at h
            | some b =>
              simp only at h
              obtain ⟨-, j, c', b', a', i', m', hb, hj⟩ := wf_base hwf hp
              cases n with
              | zero => simp [nameC] at h
              | succ m =>
                obtain ⟨hnc, hna⟩ := name_of_klass hb hj m
                rw [hnc] at h
                simp only [hna, List.flatMap_cons, List.flatMap_nil, List.append_nil, List.mem_append]
                exact Or.inr (ih.self j sv vs a v h)
        | assign _ _ => simp [hp] at h
        | unpack _ _ => simp [hp] at h
        | defn _ _ _ => simp [hp] at h
        | probe _ => simp [hp] at h
    · intro rc id a v inst h
      simp only [attrC] at h
      simp only [complNames]
      cases hp : p[id]? with
      | none => simp [hp] at h
      | some st =>
        cases st with
        | klass c base attrs init methods =>
          simp only [hp] at h ⊢
          cases hl : lastAttr attrs a with
          | some e =>
            have := lastAttr_name_mem hl
            simp only [List.mem_append]
            exact Or.inl (Or.inl (Or.inr this))
          | none =>
            simp only [hl] at h
            cases hfm : findMethod methods a with
            | some md =>
              have := findMethod_name_mem hfm
              simp only [List.mem_append]
              exact Or.inl (Or.inr this)
            | none =>
              cases base with
              | none => cases rc <;> simp [hfm] at h
              | some b =>
                obtain ⟨-, j, c', b', a', i', m', hb, hj⟩ := wf_base hwf hp
                cases n with
                | zero => cases rc <;> simp [hfm, nameC] at h
                | succ m =>
                  obtain ⟨hnc, hna⟩ := name_of_klass hb hj m
                  have h' : attrC p (m + 1) rc j a = some v := by
                    cases rc <;> simpa [hfm, hnc] using h
                  simp only [hna, List.flatMap_cons, List.flatMap_nil, List.append_nil, List.mem_append]
                  exact Or.inr (ih.attr rc j a v inst h')
        | assign _ _ => simp [hp] at h
        | unpack _ _ => simp [hp] at h
        | defn _ _ _ => simp [hp] at h
        | probe _ => simp [hp] at h

end JediModel.PyCore

import JediModel.Model.Walk
/-! Lemmas about `Model/Walk`: the sync loop, monotonicity of the walk state, and the
reachability specification the walk is sandwiched between. -/
namespace JediModel.Walk

/-! ## FolderIO.walk sync -/

theorem syncRev_nil_right {α} (orig : List (Nat × α)) : syncRev orig [] = [] := by
  induction orig with
  | nil => rfl
  | cons p os ih => obtain ⟨i, d⟩ := p; simp [syncRev, ih]

theorem syncRev_sublist {α} (orig : List (Nat × α)) (ms : List Nat)
    (hnd : (orig.map Prod.fst).Nodup) (hs : ms.Sublist (orig.map Prod.fst)) :
    syncRev orig ms = (orig.filter (fun p => decide (p.1 ∈ ms))).map Prod.snd := by
  induction orig generalizing ms with
  | nil => simp [syncRev]
  | cons p os ih =>
    obtain ⟨i, d⟩ := p
    simp only [List.map_cons, List.nodup_cons] at hnd
    obtain ⟨hi, hnd'⟩ := hnd
    cases ms with
    | nil => simp [syncRev_nil_right]
    | cons m ms' =>
      simp only [syncRev]
      by_cases hm : m = i
      · subst hm
        simp only [if_true]
        have hs' : ms'.Sublist (os.map Prod.fst) := by
          simpa using hs
        rw [ih ms' hnd' hs']
        simp only [List.filter_cons, List.mem_cons, true_or, decide_true, if_true, List.map_cons]
        congr 1
        congr 1
        apply List.filter_congr
        intro p hp
        have : p.1 ≠ m := by
          intro h
          apply hi
          rw [← h]
          exact List.mem_map_of_mem hp
        simp [this]
      · simp only [hm, if_false]
        have hs' : (m :: ms').Sublist (os.map Prod.fst) := by
          simp only [List.map_cons] at hs
          cases hs with
          | cons _ h => exact h
          | cons_cons _ h => exact absurd rfl hm
        rw [ih (m :: ms') hnd' hs']
        have hni : ¬ (i = m ∨ i ∈ ms') := fun h => hi (hs'.subset (List.mem_cons.mpr h))
        simp [hni]

/-- if the consumer leaves a sub-list of the original folder objects, `dirs` ends up holding
exactly the directories whose object was kept, in the original order -/
theorem sync_sublist {α} (dirs : List α) (m : List Nat) (h : m.Sublist (List.range dirs.length)) :
    sync dirs m =
      ((List.zip (List.range dirs.length) dirs).filter (fun p => decide (p.1 ∈ m))).map Prod.snd := by
  unfold sync
  have hfst : (List.zip (List.range dirs.length) dirs).map Prod.fst = List.range dirs.length := by
    apply List.map_fst_zip
    simp
  rw [syncRev_sublist]
  · simp [List.filter_reverse]
  · rw [List.map_reverse, hfst]
    have := @List.nodup_range dirs.length
    unfold List.Nodup at *
    exact List.pairwise_reverse.mpr (this.imp (fun h => h.symm))
  · rw [List.map_reverse, hfst]
    exact List.reverse_sublist.mpr h

/-! ## the walk state only grows -/

/-- `s ≤ t`: same `Path` exceptions, more (or equal) `str` exceptions and relative entries -/
def St.le (s t : St) : Prop :=
  s.exceptPath = t.exceptPath ∧ s.exceptStr ⊆ t.exceptStr ∧ s.rel ⊆ t.rel

theorem St.le_refl (s : St) : s.le s := ⟨rfl, fun _ h => h, fun _ h => h⟩

theorem St.le_trans {s t u : St} (h1 : s.le t) (h2 : t.le u) : s.le u :=
  ⟨h1.1.trans h2.1, fun _ h => h2.2.1 (h1.2.1 h), fun _ h => h2.2.2 (h1.2.2 h)⟩

theorem processFiles_mono (cfg : Cfg) (root : Str) (anc : List (Str × Str)) (st : St) (fs : List FileEnt) :
    st.le (processFiles cfg root anc st fs).2 := by
  induction fs generalizing st with
  | nil => exact St.le_refl _
  | cons f fs ih =>
    simp only [processFiles]
    refine St.le_trans ?_ (ih _)
    split
    · exact ⟨rfl, List.subset_append_left _ _, List.subset_append_left _ _⟩
    · exact St.le_refl _

theorem walkForest_mono (cfg : Cfg) (root : Str) (anc : List (Str × Str)) (frozen st : St) (F : Forest) :
    st.le (walkForest cfg root anc frozen st F).2 := by
  induction F generalizing root anc frozen st with
  | nil => exact St.le_refl _
  | cons name files ch rest ihc ihr =>
    simp only [walkForest]
    split
    · exact St.le_trans (processFiles_mono _ _ _ _ _) (St.le_trans (ihc _ _ _ _) (ihr _ _ _ _))
    · exact ihr _ _ _ _

theorem mem_expandRel_mono {root : Str} {r1 r2 : List (Str × Str)} (h : r1 ⊆ r2) {x : Str}
    (hx : x ∈ expandRel root r1) : x ∈ expandRel root r2 := by
  simp only [expandRel, List.mem_map, List.mem_filter] at *
  obtain ⟨p, ⟨hp, hpre⟩, rfl⟩ := hx
  exact ⟨p, ⟨h hp, hpre⟩, rfl⟩

/-- a bigger state prunes more: the folder filter is antitone in the state -/
theorem keepDir_antitone (cfg : Cfg) (root name : Str) {s t : St} (h : s.le t)
    (hk : keepDir cfg root t name = true) : keepDir cfg root s name = true := by
  simp only [keepDir, List.all_eq_true] at *
  intro c hc
  have := hk c hc
  unfold conjunct at *
  split
  · simp_all only [if_true]
    simp only [Bool.not_eq_true', decide_eq_false_iff_not] at *
    exact fun hm => this (h.2.1 hm)
  · split
    · simp_all only [if_true, if_false]
      simp only [Bool.not_eq_true', decide_eq_false_iff_not] at *
      exact fun hm => this (mem_expandRel_mono h.2.2 hm)
    · simp_all

/-! ## what one step yields -/

theorem mem_processFiles (cfg : Cfg) (root : Str) (anc : List (Str × Str)) (st : St) (fs : List FileEnt) (ev : Ev) :
    ev ∈ (processFiles cfg root anc st fs).1 ↔
      ∃ f ∈ fs, isPy cfg f.name = true ∧ osJoin root f.name ∉ st.exceptPath ∧
        ev = ⟨true, osJoin root f.name, anc⟩ := by
  induction fs generalizing st with
  | nil => simp [processFiles]
  | cons f fs ih =>
    simp only [processFiles, List.mem_append, List.mem_cons, exists_eq_or_imp]
    rw [ih]
    have hex : (if f.name = cfg.gitignoreName then
        ({ st with exceptStr := st.exceptStr ++ (gitignoredPaths cfg root f.content).1,
                   rel := st.rel ++ (gitignoredPaths cfg root f.content).2 } : St)
        else st).exceptPath = st.exceptPath := by
      split <;> rfl
    simp only [hex]
    constructor
    · rintro (h | h)
      · left
        split at h
        · rename_i hc
          simp only [List.mem_singleton] at h
          exact ⟨hc.1, hc.2, h⟩
        · simp at h
      · right; exact h
    · rintro (⟨h1, h2, h3⟩ | h)
      · left
        rw [if_pos ⟨h1, h2⟩]
        simp [h3]
      · right; exact h

theorem mem_folderEvents (cfg : Cfg) (root : Str) (anc : List (Str × Str)) (st : St) (F : Forest) (ev : Ev)
    (h : ev ∈ folderEvents cfg root anc st F) :
    ∃ name, keepDir cfg root st name = true ∧ ev = ⟨false, osJoin root name, anc ++ [(root, name)]⟩ := by
  induction F with
  | nil => simp [folderEvents] at h
  | cons name files ch rest _ ihr =>
    simp only [folderEvents] at h
    split at h
    · rename_i hk
      rcases List.mem_cons.mp h with h | h
      · exact ⟨name, hk, h⟩
      · exact ihr h
    · exact ihr h

/-! ## reachability: the specification the walk is sandwiched between -/

/-- `Reach kd root anc F p a fs c`: the directory with path `p`, files `fs` and sub-directories `c`
lies in the forest `F` of sub-directories of `root`, and every directory on the way from `root` down
to it (itself included) passes the filter `kd parentPath name`; `a` is `anc` extended by the
`(parentPath, name)` pairs on the way. -/
inductive Reach (kd : Str → Str → Bool) :
    Str → List (Str × Str) → Forest → Str → List (Str × Str) → List FileEnt → Forest → Prop
  | here {root anc name files ch rest} : kd root name = true →
      Reach kd root anc (.cons name files ch rest) (osJoin root name) (anc ++ [(root, name)]) files ch
  | sibling {root anc name files ch rest p a fs c} : Reach kd root anc rest p a fs c →
      Reach kd root anc (.cons name files ch rest) p a fs c
  | down {root anc name files ch rest p a fs c} : kd root name = true →
      Reach kd (osJoin root name) (anc ++ [(root, name)]) ch p a fs c →
      Reach kd root anc (.cons name files ch rest) p a fs c

/-- weaker filter, more reachable -/
theorem Reach.mono {kd kd' : Str → Str → Bool} (hk : ∀ r n, kd r n = true → kd' r n = true)
    {root anc F p a fs c} (h : Reach kd root anc F p a fs c) : Reach kd' root anc F p a fs c := by
  induction h with
  | here hkd => exact .here (hk _ _ hkd)
  | sibling _ ih => exact .sibling ih
  | down hkd _ ih => exact .down (hk _ _ hkd) ih

/-- every directory entered on the way passed the filter -/
theorem Reach.anc_kd {kd : Str → Str → Bool} {root anc F p a fs c} (h : Reach kd root anc F p a fs c) :
    ∀ x ∈ a, x ∈ anc ∨ kd x.1 x.2 = true := by
  induction h with
  | here hkd =>
    intro x hx
    rcases List.mem_append.mp hx with hx | hx
    · exact .inl hx
    · simp only [List.mem_singleton] at hx; subst hx; exact .inr hkd
  | sibling _ ih => exact ih
  | down hkd _ ih =>
    intro x hx
    rcases ih x hx with h | h
    · rcases List.mem_append.mp h with h | h
      · exact .inl h
      · simp only [List.mem_singleton] at h; subst h; exact .inr hkd
    · exact .inr h

theorem reach_of_folderEvents (cfg : Cfg) (root : Str) (anc : List (Str × Str)) (st : St) (F : Forest) (ev : Ev)
    (h : ev ∈ folderEvents cfg root anc st F) :
    ev.isFile = false ∧ ∃ fs c, Reach (fun r n => keepDir cfg r st n) root anc F ev.path ev.anc fs c := by
  induction F with
  | nil => simp [folderEvents] at h
  | cons name files ch rest _ ihr =>
    simp only [folderEvents] at h
    split at h
    · rename_i hk
      rcases List.mem_cons.mp h with h | h
      · subst h
        exact ⟨rfl, files, ch, .here hk⟩
      · obtain ⟨h1, fs, c, h2⟩ := ihr h
        exact ⟨h1, fs, c, .sibling h2⟩
    · obtain ⟨h1, fs, c, h2⟩ := ihr h
      exact ⟨h1, fs, c, .sibling h2⟩

/-- what soundness says about one event, relative to the filter of the state `st0` -/
def Sound (cfg : Cfg) (st0 : St) (root : Str) (anc : List (Str × Str)) (F : Forest) (ev : Ev) : Prop :=
  (ev.isFile = true → ∃ p fs c, Reach (fun r n => keepDir cfg r st0 n) root anc F p ev.anc fs c ∧
      ∃ f ∈ fs, isPy cfg f.name = true ∧ osJoin p f.name ∉ st0.exceptPath ∧ ev.path = osJoin p f.name) ∧
  (ev.isFile = false → ∃ fs c, Reach (fun r n => keepDir cfg r st0 n) root anc F ev.path ev.anc fs c)

theorem Sound.sibling {cfg st0 root anc name files ch rest ev} (h : Sound cfg st0 root anc rest ev) :
    Sound cfg st0 root anc (.cons name files ch rest) ev := by
  refine ⟨fun hf => ?_, fun hf => ?_⟩
  · obtain ⟨p, fs, c, hr, hrest⟩ := h.1 hf
    exact ⟨p, fs, c, .sibling hr, hrest⟩
  · obtain ⟨fs, c, hr⟩ := h.2 hf
    exact ⟨fs, c, .sibling hr⟩

theorem Sound.down {cfg st0 root anc name files ch rest ev} (hk : keepDir cfg root st0 name = true)
    (h : Sound cfg st0 (osJoin root name) (anc ++ [(root, name)]) ch ev) :
    Sound cfg st0 root anc (.cons name files ch rest) ev := by
  refine ⟨fun hf => ?_, fun hf => ?_⟩
  · obtain ⟨p, fs, c, hr, hrest⟩ := h.1 hf
    exact ⟨p, fs, c, .down hk hr, hrest⟩
  · obtain ⟨fs, c, hr⟩ := h.2 hf
    exact ⟨fs, c, .down hk hr⟩

theorem walkForest_sound (cfg : Cfg) (st0 : St) (root : Str) (anc : List (Str × Str)) (frozen st : St)
    (F : Forest) (h0 : st0.le frozen) (h1 : st0.le st) :
    ∀ ev ∈ (walkForest cfg root anc frozen st F).1, Sound cfg st0 root anc F ev := by
  induction F generalizing root anc frozen st with
  | nil => intro ev h; simp [walkForest] at h
  | cons name files ch rest ihc ihr =>
    intro ev h
    simp only [walkForest] at h
    split at h
    · rename_i hk
      have hk0 := keepDir_antitone cfg root name h0 hk
      have hr0 := processFiles_mono cfg (osJoin root name) (anc ++ [(root, name)]) st files
      simp only [List.mem_append] at h
      rcases h with ((h | h) | h) | h
      · obtain ⟨f, hf, hpy, hex, rfl⟩ := (mem_processFiles _ _ _ _ _ _).mp h
        refine ⟨fun _ => ⟨_, files, ch, .here hk0, f, hf, hpy, ?_, rfl⟩, fun hc => (by cases hc)⟩
        rw [h1.1]; exact hex
      · obtain ⟨hff, fs, c, hr⟩ := reach_of_folderEvents _ _ _ _ _ _ h
        refine ⟨fun hc => (by rw [hff] at hc; cases hc), fun _ => ⟨fs, c, .down hk0 (hr.mono ?_)⟩⟩
        intro r n hkn
        exact keepDir_antitone cfg r n (St.le_trans h1 hr0) hkn
      · exact (ihc _ _ _ _ (St.le_trans h1 hr0) (St.le_trans h1 hr0) ev h).down hk0
      · refine (ihr _ _ _ _ h0 ?_ ev h).sibling
        exact St.le_trans h1 (St.le_trans hr0 (walkForest_mono _ _ _ _ _ _))
    · exact (ihr _ _ _ _ h0 h1 ev h).sibling

theorem walkForest_complete (cfg : Cfg) (B : St) {root : Str} {anc : List (Str × Str)} {F : Forest}
    {p : Str} {a : List (Str × Str)} {fs : List FileEnt} {c : Forest}
    (h : Reach (fun r n => keepDir cfg r B n) root anc F p a fs c) :
    ∀ (frozen st : St), frozen.le B → (walkForest cfg root anc frozen st F).2.le B →
    ∀ f ∈ fs, isPy cfg f.name = true → osJoin p f.name ∉ st.exceptPath →
      (⟨true, osJoin p f.name, a⟩ : Ev) ∈ (walkForest cfg root anc frozen st F).1 := by
  induction h with
  | @here root anc name files ch rest hkB =>
    intro frozen st hf hB f hfm hpy hex
    have hk := keepDir_antitone cfg root name hf hkB
    simp only [walkForest, hk, if_true, List.mem_append]
    exact .inl (.inl (.inl ((mem_processFiles _ _ _ _ _ _).mpr ⟨f, hfm, hpy, hex, rfl⟩)))
  | @sibling root anc name files ch rest p a fs c _ ih =>
    intro frozen st hf hB f hfm hpy hex
    simp only [walkForest] at hB ⊢
    split
    · rename_i hk
      simp only [hk, if_true] at hB
      simp only [List.mem_append]
      refine .inr (ih frozen _ hf hB f hfm hpy ?_)
      have h1 := processFiles_mono cfg (osJoin root name) (anc ++ [(root, name)]) st files
      have h2 := walkForest_mono cfg (osJoin root name) (anc ++ [(root, name)])
        (processFiles cfg (osJoin root name) (anc ++ [(root, name)]) st files).2
        (processFiles cfg (osJoin root name) (anc ++ [(root, name)]) st files).2 ch
      rw [← h2.1, ← h1.1]; exact hex
    · rename_i hk
      simp only [hk] at hB
      exact ih frozen st hf hB f hfm hpy hex
  | @down root anc name files ch rest p a fs c hkB _ ih =>
    intro frozen st hf hB f hfm hpy hex
    have hk := keepDir_antitone cfg root name hf hkB
    simp only [walkForest, hk, if_true, List.mem_append] at hB ⊢
    have h1 := processFiles_mono cfg (osJoin root name) (anc ++ [(root, name)]) st files
    have h3 := walkForest_mono cfg root anc frozen
      (walkForest cfg (osJoin root name) (anc ++ [(root, name)])
        (processFiles cfg (osJoin root name) (anc ++ [(root, name)]) st files).2
        (processFiles cfg (osJoin root name) (anc ++ [(root, name)]) st files).2 ch).2 rest
    have hr1B := St.le_trans h3 hB
    have hr0B := St.le_trans (walkForest_mono cfg (osJoin root name) (anc ++ [(root, name)])
        (processFiles cfg (osJoin root name) (anc ++ [(root, name)]) st files).2
        (processFiles cfg (osJoin root name) (anc ++ [(root, name)]) st files).2 ch) hr1B
    refine .inl (.inr (ih _ _ hr0B hr1B f hfm hpy ?_))
    rw [← h1.1]; exact hex

end JediModel.Walk

import JediModel.Model.Walk
/-! Lemmas about `Model/Walk`: the sync loop, monotonicity of the walk state, and the
reachability specification the walk is sandwiched between. -/
namespace JediModel.Walk

/-! ## FolderIO.walk sync -/

theorem syncRev_nil_right {α} (orig : List (Nat × α)) : syncRev orig [] = [] := by
  induction orig with
  | nil => rfl
  | cons p os ih => obtain ⟨i, d⟩ := p; simp [syncRev, ih]

theorem syncRev_sublist {α} (orig : List (Nat × α)) (ms : List Nat)
    (hnd : (orig.map Prod.fst).Nodup) (hs : ms.Sublist (orig.map Prod.fst)) :
    syncRev orig ms = (orig.filter (fun p => decide (p.1 ∈ ms))).map Prod.snd := by
  induction orig generalizing ms with
  | nil => simp [syncRev]
  | cons p os ih =>
    obtain ⟨i, d⟩ := p
    simp only [List.map_cons, List.nodup_cons] at hnd
    obtain ⟨hi, hnd'⟩ := hnd
    cases ms with
    | nil => simp [syncRev_nil_right]
    | cons m ms' =>
      simp only [syncRev]
      by_cases hm : m = i
      · subst hm
        simp only [if_true]
        have hs' : ms'.Sublist (os.map Prod.fst) := by
          simpa using hs
        rw [ih ms' hnd' hs']
        simp only [List.filter_cons, List.mem_cons, true_or, decide_true, if_true, List.map_cons]
        congr 1
        congr 1
        apply List.filter_congr
        intro p hp
        have : p.1 ≠ m := by
          intro h
          apply hi
          rw [← h]
          exact List.mem_map_of_mem hp
        simp [this]
      · simp only [hm, if_false]
        have hs' : (m :: ms').Sublist (os.map Prod.fst) := by
          simp only [List.map_cons] at hs
          cases hs with
          | cons _ h => exact h
          | cons_cons _ h => exact absurd rfl hm
        rw [ih (m :: ms') hnd' hs']
        have hni : ¬ (i = m ∨ i ∈ ms') := fun h => hi (hs'.subset (List.mem_cons.mpr h))
        simp [hni]

/-- if the consumer leaves a sub-list of the original folder objects, `dirs` ends up holding
exactly the directories whose object was kept, in the original order -/
theorem sync_sublist {α} (dirs : List α) (m : List Nat) (h : m.Sublist (List.range dirs.length)) :
    sync dirs m =
      ((List.zip (List.range dirs.length) dirs).filter (fun p => decide (p.1 ∈ m))).map Prod.snd := by
  unfold sync
  have hfst : (List.zip (List.range dirs.length) dirs).map Prod.fst = List.range dirs.length := by
    apply List.map_fst_zip
    simp
  rw [syncRev_sublist]
  · simp [List.filter_reverse]
  · rw [List.map_reverse, hfst]
    have := @List.nodup_range dirs.length
    unfold List.Nodup at *
    exact List.pairwise_reverse.mpr (this.imp (fun h => h.symm))
  · rw [List.map_reverse, hfst]
    exact List.reverse_sublist.mpr h

/-! ## the walk state only grows -/

/-- `s ≤ t`: more (or equal) `except_paths` members and relative entries -/
def St.le (s t : St) : Prop := s.exc ⊆ t.exc ∧ s.rel ⊆ t.rel

theorem St.le_refl (s : St) : s.le s := ⟨fun _ h => h, fun _ h => h⟩

theorem St.le_trans {s t u : St} (h1 : s.le t) (h2 : t.le u) : s.le u :=
  ⟨fun _ h => h2.1 (h1.1 h), fun _ h => h2.2 (h1.2 h)⟩

theorem readGitignores_mono (cfg : Cfg) (root : Str) (st : St) (fs : List FileEnt) :
    st.le (readGitignores cfg root st fs) := by
  induction fs generalizing st with
  | nil => exact St.le_refl _
  | cons f fs ih =>
    simp only [readGitignores]
    split
    · exact St.le_trans ⟨List.subset_append_left _ _, List.subset_append_left _ _⟩ (ih _)
    · exact ih _

/-- reading the same listing from a bigger state gives a bigger state -/
theorem readGitignores_le_le (cfg : Cfg) (root : Str) {s t : St} (h : s.le t) (fs : List FileEnt) :
    (readGitignores cfg root s fs).le (readGitignores cfg root t fs) := by
  induction fs generalizing s t with
  | nil => exact h
  | cons f fs ih =>
    simp only [readGitignores]
    split
    · apply ih
      exact ⟨List.append_subset.mpr ⟨fun _ hx => List.mem_append_left _ (h.1 hx), List.subset_append_right _ _⟩,
             List.append_subset.mpr ⟨fun _ hx => List.mem_append_left _ (h.2 hx), List.subset_append_right _ _⟩⟩
    · exact ih h

/-- every entry of a `.gitignore` of the listing is in the state after the first loop -/
theorem gitignore_read (cfg : Cfg) (root : Str) (st : St) (files : List FileEnt)
    (content : Str) (h : (⟨cfg.gitignoreName, content⟩ : FileEnt) ∈ files) :
    (gitignoredPaths cfg root content).1 ⊆ (readGitignores cfg root st files).exc ∧
    (gitignoredPaths cfg root content).2 ⊆ (readGitignores cfg root st files).rel := by
  induction files generalizing st with
  | nil => cases h
  | cons f fs ih =>
    simp only [readGitignores]
    rcases List.mem_cons.mp h with h | h
    · subst h
      simp only [if_true]
      have hm := readGitignores_mono cfg root
        ({ exc := st.exc ++ (gitignoredPaths cfg root content).1,
           rel := st.rel ++ (gitignoredPaths cfg root content).2 } : St) fs
      exact ⟨fun x hx => hm.1 (List.mem_append_right _ hx), fun x hx => hm.2 (List.mem_append_right _ hx)⟩
    · split
      · exact ih _ h
      · exact ih _ h

/-- conversely: what the first loop adds comes from a `.gitignore` of the listing -/
theorem readGitignores_prov (cfg : Cfg) (root : Str) (st : St) (files : List FileEnt) :
    (∀ a ∈ (readGitignores cfg root st files).exc, a ∈ st.exc ∨
      ∃ content, (⟨cfg.gitignoreName, content⟩ : FileEnt) ∈ files ∧ a ∈ (gitignoredPaths cfg root content).1) ∧
    (∀ e ∈ (readGitignores cfg root st files).rel, e ∈ st.rel ∨
      ∃ content, (⟨cfg.gitignoreName, content⟩ : FileEnt) ∈ files ∧ e ∈ (gitignoredPaths cfg root content).2) := by
  induction files generalizing st with
  | nil => exact ⟨fun a h => .inl h, fun e h => .inl h⟩
  | cons f fs ih =>
    simp only [readGitignores]
    split
    · rename_i hname
      have hf : f = ⟨cfg.gitignoreName, f.content⟩ := by cases f; simp_all
      obtain ⟨h1, h2⟩ := ih ({ exc := st.exc ++ (gitignoredPaths cfg root f.content).1,
                               rel := st.rel ++ (gitignoredPaths cfg root f.content).2 } : St)
      refine ⟨fun a ha => ?_, fun e he => ?_⟩
      · rcases h1 a ha with h | ⟨c, hc, hm⟩
        · rcases List.mem_append.mp h with h | h
          · exact .inl h
          · exact .inr ⟨f.content, by rw [← hf]; exact List.mem_cons_self, h⟩
        · exact .inr ⟨c, List.mem_cons_of_mem _ hc, hm⟩
      · rcases h2 e he with h | ⟨c, hc, hm⟩
        · rcases List.mem_append.mp h with h | h
          · exact .inl h
          · exact .inr ⟨f.content, by rw [← hf]; exact List.mem_cons_self, h⟩
        · exact .inr ⟨c, List.mem_cons_of_mem _ hc, hm⟩
    · obtain ⟨h1, h2⟩ := ih st
      refine ⟨fun a ha => ?_, fun e he => ?_⟩
      · rcases h1 a ha with h | ⟨c, hc, hm⟩
        · exact .inl h
        · exact .inr ⟨c, List.mem_cons_of_mem _ hc, hm⟩
      · rcases h2 e he with h | ⟨c, hc, hm⟩
        · exact .inl h
        · exact .inr ⟨c, List.mem_cons_of_mem _ hc, hm⟩

theorem walkForest_mono (cfg : Cfg) (root : Str) (anc : List Anc) (frozen st : St) (F : Forest) :
    st.le (walkForest cfg root anc frozen st F).2 := by
  induction F generalizing root anc frozen st with
  | nil => exact St.le_refl _
  | cons name files ch rest ihc ihr =>
    simp only [walkForest]
    split
    · exact St.le_trans (readGitignores_mono _ _ _ _) (St.le_trans (ihc _ _ _ _) (ihr _ _ _ _))
    · exact ihr _ _ _ _

theorem mem_expandRel {root : Str} {rel : List (Str × Str)} {x : Str} :
    x ∈ expandRel root rel ↔ ∃ e ∈ rel, covers e.1 root = true ∧ x = osJoin root e.2 := by
  simp only [expandRel, List.mem_map, List.mem_filter]
  constructor
  · rintro ⟨p, ⟨hp, hc⟩, rfl⟩; exact ⟨p, hp, hc, rfl⟩
  · rintro ⟨p, hp, hc, rfl⟩; exact ⟨p, ⟨hp, hc⟩, rfl⟩

theorem mem_expandRel_mono {root : Str} {r1 r2 : List (Str × Str)} (h : r1 ⊆ r2) {x : Str}
    (hx : x ∈ expandRel root r1) : x ∈ expandRel root r2 := by
  rw [mem_expandRel] at *
  obtain ⟨p, hp, hpre⟩ := hx
  exact ⟨p, h hp, hpre⟩

/-- a bigger state excludes more: every conjunct of the two filters is antitone in the state -/
theorem conjunct_antitone (cfg : Cfg) (root name : Str) (c : String) {s t : St} (h : s.le t)
    (hk : conjunct cfg root t name c = true) : conjunct cfg root s name c = true := by
  unfold conjunct at *
  split
  · simp_all only [if_true]
    simp only [Bool.not_eq_true', decide_eq_false_iff_not] at *
    exact fun hm => hk (h.1 hm)
  · split
    · simp_all only [if_true, if_false]
      simp only [Bool.not_eq_true', decide_eq_false_iff_not] at *
      exact fun hm => hk (mem_expandRel_mono h.2 hm)
    · simp_all

theorem keepDir_antitone (cfg : Cfg) (root name : Str) {s t : St} (h : s.le t)
    (hk : keepDir cfg root t name = true) : keepDir cfg root s name = true := by
  simp only [keepDir, List.all_eq_true] at *
  exact fun c hc => conjunct_antitone cfg root name c h (hk c hc)

theorem fileOk_antitone (cfg : Cfg) (root name : Str) {s t : St} (h : s.le t)
    (hk : fileOk cfg root t name = true) : fileOk cfg root s name = true := by
  simp only [fileOk, List.all_eq_true] at *
  exact fun c hc => conjunct_antitone cfg root name c h (hk c hc)

/-! ## what one step yields -/

theorem mem_fileEvents (cfg : Cfg) (root : Str) (anc : List Anc) (st : St) (fs : List FileEnt) (ev : Ev) :
    ev ∈ fileEvents cfg root anc st fs ↔
      ∃ f ∈ fs, isPy cfg f.name = true ∧ fileOk cfg root st f.name = true ∧
        ev = ⟨true, osJoin root f.name, f.name, anc⟩ := by
  simp only [fileEvents, List.mem_map, List.mem_filter, Bool.and_eq_true]
  constructor
  · rintro ⟨f, ⟨hf, h1, h2⟩, rfl⟩; exact ⟨f, hf, h1, h2, rfl⟩
  · rintro ⟨f, hf, h1, h2, rfl⟩; exact ⟨f, ⟨hf, h1, h2⟩, rfl⟩

theorem mem_folderEvents (cfg : Cfg) (root : Str) (anc : List Anc) (st : St) (F : Forest) (ev : Ev)
    (h : ev ∈ folderEvents cfg root anc st F) :
    ∃ name files, keepDir cfg root st name = true ∧
      ev = ⟨false, osJoin root name, name, anc ++ [⟨root, name, files⟩]⟩ := by
  induction F with
  | nil => simp [folderEvents] at h
  | cons name files ch rest _ ihr =>
    simp only [folderEvents] at h
    split at h
    · rename_i hk
      rcases List.mem_cons.mp h with h | h
      · exact ⟨name, files, hk, h⟩
      · exact ihr h
    · exact ihr h

/-! ## reachability: the specification the walk is sandwiched between -/

/-- `Reach kd root anc F p a fs c`: the directory with path `p`, files `fs` and sub-directories `c`
lies in the forest `F` of sub-directories of `root`, and every directory on the way from `root` down
to it (itself included) passes the filter `kd parentPath name`; `a` is `anc` extended by the
directories on the way. -/
inductive Reach (kd : Str → Str → Bool) :
    Str → List Anc → Forest → Str → List Anc → List FileEnt → Forest → Prop
  | here {root anc name files ch rest} : kd root name = true →
      Reach kd root anc (.cons name files ch rest) (osJoin root name) (anc ++ [⟨root, name, files⟩]) files ch
  | sibling {root anc name files ch rest p a fs c} : Reach kd root anc rest p a fs c →
      Reach kd root anc (.cons name files ch rest) p a fs c
  | down {root anc name files ch rest p a fs c} : kd root name = true →
      Reach kd (osJoin root name) (anc ++ [⟨root, name, files⟩]) ch p a fs c →
      Reach kd root anc (.cons name files ch rest) p a fs c

/-- weaker filter, more reachable -/
theorem Reach.mono {kd kd' : Str → Str → Bool} (hk : ∀ r n, kd r n = true → kd' r n = true)
    {root anc F p a fs c} (h : Reach kd root anc F p a fs c) : Reach kd' root anc F p a fs c := by
  induction h with
  | here hkd => exact .here (hk _ _ hkd)
  | sibling _ ih => exact .sibling ih
  | down hkd _ ih => exact .down (hk _ _ hkd) ih

/-- every directory entered on the way passed the filter -/
theorem Reach.anc_kd {kd : Str → Str → Bool} {root anc F p a fs c} (h : Reach kd root anc F p a fs c) :
    ∀ x ∈ a, x ∈ anc ∨ kd x.parent x.name = true := by
  induction h with
  | here hkd =>
    intro x hx
    rcases List.mem_append.mp hx with hx | hx
    · exact .inl hx
    · simp only [List.mem_singleton] at hx; subst hx; exact .inr hkd
  | sibling _ ih => exact ih
  | down hkd _ ih =>
    intro x hx
    rcases ih x hx with h | h
    · rcases List.mem_append.mp h with h | h
      · exact .inl h
      · simp only [List.mem_singleton] at h; subst h; exact .inr hkd
    · exact .inr h

theorem reach_of_folderEvents (cfg : Cfg) (root : Str) (anc : List Anc) (st : St) (F : Forest) (ev : Ev)
    (h : ev ∈ folderEvents cfg root anc st F) :
    ev.isFile = false ∧ ∃ fs c, Reach (fun r n => keepDir cfg r st n) root anc F ev.path ev.anc fs c := by
  induction F with
  | nil => simp [folderEvents] at h
  | cons name files ch rest _ ihr =>
    simp only [folderEvents] at h
    split at h
    · rename_i hk
      rcases List.mem_cons.mp h with h | h
      · subst h
        exact ⟨rfl, files, ch, .here hk⟩
      · obtain ⟨h1, fs, c, h2⟩ := ihr h
        exact ⟨h1, fs, c, .sibling h2⟩
    · obtain ⟨h1, fs, c, h2⟩ := ihr h
      exact ⟨h1, fs, c, .sibling h2⟩

/-- what soundness says about one event, relative to the filter of the state `st0`: a file event
is a `.py/.pyi` file `f` of a reachable directory `p` that passes the file filter of the state
"`st0` plus the `.gitignore` files of `p`" -/
def Sound (cfg : Cfg) (st0 : St) (root : Str) (anc : List Anc) (F : Forest) (ev : Ev) : Prop :=
  (ev.isFile = true → ∃ p fs c, Reach (fun r n => keepDir cfg r st0 n) root anc F p ev.anc fs c ∧
      ∃ f ∈ fs, isPy cfg f.name = true ∧ fileOk cfg p (readGitignores cfg p st0 fs) f.name = true ∧
        ev.path = osJoin p f.name ∧ ev.name = f.name) ∧
  (ev.isFile = false → ∃ fs c, Reach (fun r n => keepDir cfg r st0 n) root anc F ev.path ev.anc fs c)

theorem Sound.sibling {cfg st0 root anc name files ch rest ev} (h : Sound cfg st0 root anc rest ev) :
    Sound cfg st0 root anc (.cons name files ch rest) ev := by
  refine ⟨fun hf => ?_, fun hf => ?_⟩
  · obtain ⟨p, fs, c, hr, hrest⟩ := h.1 hf
    exact ⟨p, fs, c, .sibling hr, hrest⟩
  · obtain ⟨fs, c, hr⟩ := h.2 hf
    exact ⟨fs, c, .sibling hr⟩

theorem Sound.down {cfg st0 root anc name files ch rest ev} (hk : keepDir cfg root st0 name = true)
    (h : Sound cfg st0 (osJoin root name) (anc ++ [⟨root, name, files⟩]) ch ev) :
    Sound cfg st0 root anc (.cons name files ch rest) ev := by
  refine ⟨fun hf => ?_, fun hf => ?_⟩
  · obtain ⟨p, fs, c, hr, hrest⟩ := h.1 hf
    exact ⟨p, fs, c, .down hk hr, hrest⟩
  · obtain ⟨fs, c, hr⟩ := h.2 hf
    exact ⟨fs, c, .down hk hr⟩

theorem walkForest_sound (cfg : Cfg) (st0 : St) (root : Str) (anc : List Anc) (frozen st : St)
    (F : Forest) (h0 : st0.le frozen) (h1 : st0.le st) :
    ∀ ev ∈ (walkForest cfg root anc frozen st F).1, Sound cfg st0 root anc F ev := by
  induction F generalizing root anc frozen st with
  | nil => intro ev h; simp [walkForest] at h
  | cons name files ch rest ihc ihr =>
    intro ev h
    simp only [walkForest] at h
    split at h
    · rename_i hk
      have hk0 := keepDir_antitone cfg root name h0 hk
      have hr0 := readGitignores_mono cfg (osJoin root name) st files
      have hs0 := readGitignores_le_le cfg (osJoin root name) h1 files
      simp only [List.mem_append] at h
      rcases h with ((h | h) | h) | h
      · obtain ⟨f, hf, hpy, hok, rfl⟩ := (mem_fileEvents _ _ _ _ _ _).mp h
        exact ⟨fun _ => ⟨_, files, ch, .here hk0, f, hf, hpy, fileOk_antitone _ _ _ hs0 hok, rfl, rfl⟩,
               fun hc => (by cases hc)⟩
      · obtain ⟨hff, fs, c, hr⟩ := reach_of_folderEvents _ _ _ _ _ _ h
        refine ⟨fun hc => (by rw [hff] at hc; cases hc), fun _ => ⟨fs, c, .down hk0 (hr.mono ?_)⟩⟩
        intro r n hkn
        exact keepDir_antitone cfg r n (St.le_trans h1 hr0) hkn
      · exact (ihc _ _ _ _ (St.le_trans h1 hr0) (St.le_trans h1 hr0) ev h).down hk0
      · refine (ihr _ _ _ _ h0 ?_ ev h).sibling
        exact St.le_trans h1 (St.le_trans hr0 (walkForest_mono _ _ _ _ _ _))
    · exact (ihr _ _ _ _ h0 h1 ev h).sibling

theorem walkForest_complete (cfg : Cfg) (B : St) {root : Str} {anc : List Anc} {F : Forest}
    {p : Str} {a : List Anc} {fs : List FileEnt} {c : Forest}
    (h : Reach (fun r n => keepDir cfg r B n) root anc F p a fs c) :
    ∀ (frozen st : St), frozen.le B → (walkForest cfg root anc frozen st F).2.le B →
    ∀ f ∈ fs, isPy cfg f.name = true → fileOk cfg p B f.name = true →
      (⟨true, osJoin p f.name, f.name, a⟩ : Ev) ∈ (walkForest cfg root anc frozen st F).1 := by
  induction h with
  | @here root anc name files ch rest hkB =>
    intro frozen st hf hB f hfm hpy hok
    have hk := keepDir_antitone cfg root name hf hkB
    simp only [walkForest, hk, if_true, List.mem_append] at hB ⊢
    refine .inl (.inl (.inl ((mem_fileEvents _ _ _ _ _ _).mpr ⟨f, hfm, hpy, ?_, rfl⟩)))
    refine fileOk_antitone _ _ _ ?_ hok
    exact St.le_trans (walkForest_mono _ _ _ _ _ _) (St.le_trans (walkForest_mono _ _ _ _ _ _) hB)
  | @sibling root anc name files ch rest p a fs c _ ih =>
    intro frozen st hf hB f hfm hpy hok
    simp only [walkForest] at hB ⊢
    split
    · rename_i hk
      simp only [hk, if_true] at hB
      simp only [List.mem_append]
      exact .inr (ih frozen _ hf hB f hfm hpy hok)
    · rename_i hk
      simp only [hk] at hB
      exact ih frozen st hf hB f hfm hpy hok
  | @down root anc name files ch rest p a fs c hkB _ ih =>
    intro frozen st hf hB f hfm hpy hok
    have hk := keepDir_antitone cfg root name hf hkB
    simp only [walkForest, hk, if_true, List.mem_append] at hB ⊢
    have h3 := walkForest_mono cfg root anc frozen
      (walkForest cfg (osJoin root name) (anc ++ [⟨root, name, files⟩])
        (readGitignores cfg (osJoin root name) st files)
        (readGitignores cfg (osJoin root name) st files) ch).2 rest
    have hr1B := St.le_trans h3 hB
    have hr0B := St.le_trans (walkForest_mono cfg (osJoin root name) (anc ++ [⟨root, name, files⟩])
        (readGitignores cfg (osJoin root name) st files)
        (readGitignores cfg (osJoin root name) st files) ch) hr1B
    exact .inl (.inr (ih _ _ hr0B hr1B f hfm hpy hok))

/-! ## the local ("git-like") specification every event satisfies

`Good cfg inh P new ev`: walking down from the directory `P` through the directories `new` to the
event, where `inh` is the state made of the initial `except_paths` and the `.gitignore` files of
`P` and of the directories above `P` only — nothing from elsewhere in the tree: every directory on
the way passes the folder filter of the state inherited at its parent, each directory adds its own
`.gitignore` files before anything in or below it is tested, and a file passes the file filter. -/

def Good (cfg : Cfg) : St → Str → List Anc → Ev → Prop
  | inh, P, [], ev => ev.isFile = true ∧ fileOk cfg P inh ev.name = true ∧ ev.path = osJoin P ev.name
  | inh, P, x :: rest, ev =>
      x.parent = P ∧ keepDir cfg P inh x.name = true ∧
      ((rest = [] ∧ ev.isFile = false ∧ ev.path = osJoin P x.name ∧ ev.name = x.name) ∨
       Good cfg (readGitignores cfg (osJoin P x.name) inh x.files) (osJoin P x.name) rest ev)

theorem Good.nil_iff {cfg : Cfg} {inh : St} {P : Str} {ev : Ev} :
    Good cfg inh P [] ev ↔
      (ev.isFile = true ∧ fileOk cfg P inh ev.name = true ∧ ev.path = osJoin P ev.name) := by
  simp only [Good]

theorem Good.cons_iff {cfg : Cfg} {inh : St} {P : Str} {x : Anc} {rest : List Anc} {ev : Ev} :
    Good cfg inh P (x :: rest) ev ↔
      (x.parent = P ∧ keepDir cfg P inh x.name = true ∧
      ((rest = [] ∧ ev.isFile = false ∧ ev.path = osJoin P x.name ∧ ev.name = x.name) ∨
       Good cfg (readGitignores cfg (osJoin P x.name) inh x.files) (osJoin P x.name) rest ev)) := by
  simp only [Good]

theorem Good.antitone {cfg : Cfg} {s t : St} (h : s.le t) {P : Str} {l : List Anc} {ev : Ev}
    (hg : Good cfg t P l ev) : Good cfg s P l ev := by
  induction l generalizing s t P with
  | nil =>
    simp only [Good] at hg ⊢
    exact ⟨hg.1, fileOk_antitone _ _ _ h hg.2.1, hg.2.2⟩
  | cons x rest ih =>
    simp only [Good] at hg ⊢
    obtain ⟨h1, h2, h3⟩ := hg
    refine ⟨h1, keepDir_antitone _ _ _ h h2, ?_⟩
    rcases h3 with h3 | h3
    · exact .inl h3
    · exact .inr (ih (readGitignores_le_le _ _ h _) h3)

theorem walkForest_good (cfg : Cfg) (inh : St) (root : Str) (anc : List Anc) (frozen st : St)
    (F : Forest) (h0 : inh.le frozen) (h1 : inh.le st) :
    ∀ ev ∈ (walkForest cfg root anc frozen st F).1, ∃ new, ev.anc = anc ++ new ∧ Good cfg inh root new ev := by
  induction F generalizing root anc frozen st inh with
  | nil => intro ev h; simp [walkForest] at h
  | cons name files ch rest ihc ihr =>
    intro ev h
    simp only [walkForest] at h
    split at h
    · rename_i hk
      have hk0 := keepDir_antitone cfg root name h0 hk
      have hr0 := readGitignores_mono cfg (osJoin root name) st files
      have hs0 := readGitignores_le_le cfg (osJoin root name) h1 files
      simp only [List.mem_append] at h
      rcases h with ((h | h) | h) | h
      · obtain ⟨f, hf, hpy, hok, rfl⟩ := (mem_fileEvents _ _ _ _ _ _).mp h
        refine ⟨[⟨root, name, files⟩], rfl, ?_⟩
        exact Good.cons_iff.mpr ⟨rfl, hk0, .inr (Good.nil_iff.mpr ⟨rfl, fileOk_antitone _ _ _ hs0 hok, rfl⟩)⟩
      · obtain ⟨n, cf, hkn, rfl⟩ := mem_folderEvents _ _ _ _ _ _ h
        refine ⟨[⟨root, name, files⟩, ⟨osJoin root name, n, cf⟩], by simp, ?_⟩
        exact Good.cons_iff.mpr ⟨rfl, hk0, .inr (Good.cons_iff.mpr
          ⟨rfl, keepDir_antitone _ _ _ hs0 hkn, .inl ⟨rfl, rfl, rfl, rfl⟩⟩)⟩
      · obtain ⟨new, hnew, hg⟩ := ihc _ _ _ _ _ hs0 hs0 ev h
        refine ⟨⟨root, name, files⟩ :: new, by simp [hnew], ?_⟩
        exact Good.cons_iff.mpr ⟨rfl, hk0, .inr hg⟩
      · exact ihr _ _ _ _ _ h0 (St.le_trans h1 (St.le_trans hr0 (walkForest_mono _ _ _ _ _ _))) ev h
    · exact ihr _ _ _ _ _ h0 h1 ev h

/-- `Good` for a path that enters the directory `x` somewhere: below `x` everything is `Good` for
some state that contains `x`'s own `.gitignore` files -/
theorem Good.split {cfg : Cfg} {inh : St} {P : Str} {pre : List Anc} {x : Anc} {post : List Anc} {ev : Ev}
    (hg : Good cfg inh P (pre ++ x :: post) ev) :
    ∃ S, keepDir cfg x.parent S x.name = true ∧ inh.le S ∧
      ((post = [] ∧ ev.isFile = false) ∨
        Good cfg (readGitignores cfg (osJoin x.parent x.name) S x.files) (osJoin x.parent x.name) post ev) := by
  induction pre generalizing inh P with
  | nil =>
    simp only [List.nil_append, Good] at hg
    obtain ⟨h1, h2, h3⟩ := hg
    subst h1
    refine ⟨inh, h2, St.le_refl _, ?_⟩
    rcases h3 with h3 | h3
    · exact .inl ⟨h3.1, h3.2.1⟩
    · exact .inr h3
  | cons y pre ih =>
    simp only [List.cons_append, Good] at hg
    obtain ⟨_, _, h3⟩ := hg
    rcases h3 with h3 | h3
    · exact absurd h3.1 (by simp)
    · obtain ⟨S, hS1, hS2, hS3⟩ := ih h3
      exact ⟨S, hS1, St.le_trans (readGitignores_mono _ _ _ _) hS2, hS3⟩

/-- the parent paths below `D` are `D`, `join(D, n₁)`, `join(join(D, n₁), n₂)`, …: `Chain D l` -/
def Chain : Str → List Anc → Prop
  | _, [] => True
  | D, y :: rest => y.parent = D ∧ Chain (osJoin D y.name) rest

/-- what `Good` gives for every entry on the way: it passed the folder filter of the state at the top,
and the file passed the file filter of that state, in the directory at the end of the chain -/
theorem Good.all {cfg : Cfg} {S : St} {D : Str} {post : List Anc} {ev : Ev} (hg : Good cfg S D post ev) :
    Chain D post ∧ (∀ y ∈ post, keepDir cfg y.parent S y.name = true) ∧
    (ev.isFile = true → fileOk cfg (post.foldl (fun p y => osJoin p y.name) D) S ev.name = true ∧
      ev.path = osJoin (post.foldl (fun p y => osJoin p y.name) D) ev.name) := by
  induction post generalizing S D with
  | nil =>
    simp only [Good] at hg
    exact ⟨trivial, fun y hy => (by cases hy), fun _ => ⟨hg.2.1, hg.2.2⟩⟩
  | cons x rest ih =>
    simp only [Good] at hg
    obtain ⟨h1, h2, h3⟩ := hg
    rcases h3 with h3 | h3
    · obtain ⟨hr, hf, _, _⟩ := h3
      subst hr
      refine ⟨⟨h1, trivial⟩, fun y hy => ?_, fun hc => (by rw [hf] at hc; cases hc)⟩
      simp only [List.mem_singleton] at hy
      subst hy; rw [h1]; exact h2
    · obtain ⟨i1, i2, i3⟩ := ih (Good.antitone (readGitignores_mono _ _ _ _) h3)
      refine ⟨⟨h1, i1⟩, fun y hy => ?_, fun hc => ?_⟩
      · rcases List.mem_cons.mp hy with hy | hy
        · subst hy; rw [h1]; exact h2
        · exact i2 y hy
      · simpa [List.foldl] using i3 hc

end JediModel.Walk

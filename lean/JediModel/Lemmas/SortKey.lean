import JediModel.Model.SortKey
import JediModel.Gen.C01
/-! Facts about the key of `sorted_definitions` (Model/SortKey) and the key as the translator
found it in `jedi/api/helpers.py`. -/
namespace JediModel.SortKey

/-- 0 None, 1 int, 2 str -/
def kindOf : PyVal → Nat
  | .none => 0
  | .int _ => 1
  | .str _ => 2

theorem lt_ok_of_kind {a b : PyVal} (h : kindOf a = kindOf b) (h0 : kindOf a ≠ 0) :
    ∃ r, a.lt b = .ok r := by
  cases a <;> cases b <;> simp_all [PyVal.lt, kindOf]

theorem lt_error_of_none_left (b : PyVal) : PyVal.none.lt b = .error .typeError := by
  cases b <;> rfl

theorem lt_error_of_none_right (a : PyVal) : a.lt PyVal.none = .error .typeError := by
  cases a <;> rfl

/-- position by position the two keys hold values of one kind, and it is not None -/
def KindsMatch : List PyVal → List PyVal → Prop
  | a :: as, b :: bs => kindOf a = kindOf b ∧ kindOf a ≠ 0 ∧ KindsMatch as bs
  | _, _ => True

theorem tupleLt_ok_of_kinds : ∀ (xs ys : List PyVal), KindsMatch xs ys → ∃ r, tupleLt xs ys = .ok r
  | [], [], _ => ⟨false, rfl⟩
  | [], _ :: _, _ => ⟨true, rfl⟩
  | _ :: _, [], _ => ⟨false, rfl⟩
  | a :: as, b :: bs, h => by
    obtain ⟨h1, h2, h3⟩ := h
    unfold tupleLt
    split
    · exact tupleLt_ok_of_kinds as bs h3
    · exact lt_ok_of_kind h1 h2

theorem kind_toStr (v : PyVal) : kindOf v.toStr = 2 := by
  cases v <;> rfl

/-- a component wrapped in `str(...)` is a str whatever the definition -/
theorem kind_eval_str (c : Component) (h : c.str = true) (d : Defn) : kindOf (c.eval d) = 2 := by
  unfold Component.eval
  simp only [h, if_true]
  exact kind_toStr _

theorem kind_eval_name (d : Defn) : kindOf (Component.eval ⟨.name, Option.none, false⟩ d) = 2 := rfl
theorem kind_eval_apiType (d : Defn) : kindOf (Component.eval ⟨.apiType, Option.none, false⟩ d) = 2 := rfl

/-- `x.line or <int>` is an int whatever the definition -/
theorem kind_eval_line (k : Nat) (d : Defn) : kindOf (Component.eval ⟨.line, some (.int k), false⟩ d) = 1 := by
  cases d with
  | mk mp l c n t =>
    cases l with
    | none => rfl
    | some v =>
      simp only [Component.eval, Attr.read, PyVal.truthy]
      by_cases hv : (v != 0) = true
      · simp [hv, kindOf]
      · simp [hv, kindOf]

theorem kind_eval_column (k : Nat) (d : Defn) : kindOf (Component.eval ⟨.column, some (.int k), false⟩ d) = 1 := by
  cases d with
  | mk mp l c n t =>
    cases c with
    | none => rfl
    | some v =>
      simp only [Component.eval, Attr.read, PyVal.truthy]
      by_cases hv : (v != 0) = true
      · simp [hv, kindOf]
      · simp [hv, kindOf]

/-- the key with int defaults for both position components -/
def stdSpecN (lineDefault colDefault : Option Nat) : KeySpec :=
  stdSpec (lineDefault.map .int) (colDefault.map .int)

theorem comparable_of_defaults (kl kc : Nat) (a b : Defn) :
    comparable (stdSpecN (some kl) (some kc)) a b = true := by
  have h : KindsMatch (keyOf (stdSpecN (some kl) (some kc)) a) (keyOf (stdSpecN (some kl) (some kc)) b) := by
    simp only [keyOf, stdSpecN, stdSpec, List.map, Option.map, KindsMatch]
    refine ⟨?_, ?_, ?_, ?_, ?_, ?_, ?_, ?_, ?_, ?_, trivial⟩
    · rw [kind_eval_str _ rfl, kind_eval_str _ rfl]
    · rw [kind_eval_str _ rfl]; decide
    · rw [kind_eval_line, kind_eval_line]
    · rw [kind_eval_line]; decide
    · rw [kind_eval_column, kind_eval_column]
    · rw [kind_eval_column]; decide
    · rw [kind_eval_name, kind_eval_name]
    · rw [kind_eval_name]; decide
    · rw [kind_eval_apiType, kind_eval_apiType]
    · rw [kind_eval_apiType]; decide
  obtain ⟨r, hr⟩ := tupleLt_ok_of_kinds _ _ h
  simp [comparable, hr]

/-- a definition of a script without path, with a position -/
def withPos (l c : Nat) : Defn := ⟨Option.none, some l, some c, ['f'], ['f', 'u', 'n', 'c', 't', 'i', 'o', 'n']⟩
/-- a compiled module: no path, no position -/
def noPos : Defn := ⟨Option.none, Option.none, Option.none, ['s', 'y', 's'], ['m', 'o', 'd', 'u', 'l', 'e']⟩

theorem not_comparable_without_line_default (dc : Option Nat) :
    comparable (stdSpecN Option.none dc) (withPos 1 0) noPos = false := by
  cases dc <;> rfl

theorem not_comparable_without_column_default (kl : Nat) :
    comparable (stdSpecN (some kl) Option.none) (withPos kl 1) noPos = false := by
  cases kl with
  | zero => rfl
  | succ n =>
    simp [comparable, keyOf, stdSpecN, stdSpec, withPos, noPos, Component.eval, Attr.read, PyVal.truthy,
      PyVal.toStr, tupleLt, PyVal.lt]

/-! ### the key found in the source -/

def attrOf : String → Option Attr
  | "module_path" => some .modulePath
  | "line" => some .line
  | "column" => some .column
  | "name" => some .name
  | "_name.api_type" => some .apiType
  | _ => Option.none

def componentOf (row : String × Bool × Option Nat × Option String) : Option Component :=
  match attrOf row.1, row.2.2.1, row.2.2.2 with
  | some a, some n, Option.none => some ⟨a, some (.int n), row.2.1⟩
  | some a, Option.none, some s => some ⟨a, some (.str s.toList), row.2.1⟩
  | some a, Option.none, Option.none => some ⟨a, Option.none, row.2.1⟩
  | _, _, _ => Option.none

/-- the key tuple of `sorted_definitions` as written in the working tree -/
def sourceSpec : Option KeySpec := JediModel.Gen.C01.sortKey.mapM componentOf

end JediModel.SortKey

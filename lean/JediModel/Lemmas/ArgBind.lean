import JediModel.Model.ArgBind
/-! Lemmas about `Model/ArgBind`: jedi's binding loop against the CPython specification.

Plan: the `for param` loop runs in two phases.  While positional arguments remain, every `pos`
parameter takes the next one (`*args` takes all that are left and pushes the first keyword
back).  The first parameter reached with no positional left drains *all* keyword arguments in
its `while key is not None` loop (`drain`); from then on the iterator is empty and every
parameter is answered from `keys_used` / its default / `non_matching_keys` (`loop_drained`). -/
namespace JediModel.ArgBind

/-- the keyword part of the iterator -/
def kwIt (kws : List (Name × Arg)) : It := kws.map fun (k, a) => (some k, a)

/-- all keyword arguments pushed through the body of the `while` loop -/
def drain (sn : Bool) (all : List Param) (s : St) : List (Name × Arg) → St
  | [] => s
  | (k, a) :: kws => drain sn all (keyStep sn all s k a) kws

theorem callArgs_nil (kws : List (Name × Arg)) : callArgs [] kws = kwIt kws := rfl

theorem callArgs_cons (a : Arg) (pos : List Arg) (kws : List (Name × Arg)) :
    callArgs (a :: pos) kws = (none, a) :: callArgs pos kws := rfl

theorem whileKeys_keys (sn : Bool) (all : List Param) (kws : List (Name × Arg)) :
    ∀ (k : Name) (a : Arg) (s : St),
      whileKeys sn all (some (some k, a)) (kwIt kws) s = (none, [], drain sn all s ((k, a) :: kws)) := by
  induction kws with
  | nil => intro k a s; simp [whileKeys, kwIt, drain]
  | cons x kws ih =>
    intro k a s
    obtain ⟨k', a'⟩ := x
    have := ih k' a' (keyStep sn all s k a)
    simp only [kwIt, List.map_cons] at this ⊢
    simp only [whileKeys, this, drain]

/-- `next` + the `while` loop on an iterator that holds keyword arguments only -/
theorem pop_while_keys (sn : Bool) (all : List Param) (kws : List (Name × Arg)) (s : St) :
    whileKeys sn all (pop (kwIt kws)).1 (pop (kwIt kws)).2 s = (none, [], drain sn all s kws) := by
  cases kws with
  | nil => simp [kwIt, pop, whileKeys, drain]
  | cons x kws =>
    obtain ⟨k, a⟩ := x
    have := whileKeys_keys sn all kws k a s
    simpa [kwIt, pop] using this

theorem stepJ_keys (cfg : Cfg) (all : List Param) (p : Param) (kws : List (Name × Arg)) (s : St) :
    stepJ cfg all p (kwIt kws) s = bodyJ cfg p none [] (drain cfg.starNamesInParamDict all s kws) := by
  have h := pop_while_keys cfg.starNamesInParamDict all kws s
  unfold stepJ
  simp only [h]

theorem stepJ_nil (cfg : Cfg) (all : List Param) (p : Param) (s : St) :
    stepJ cfg all p [] s = bodyJ cfg p none [] s := by
  simpa [kwIt, drain] using stepJ_keys cfg all p [] s

theorem stepJ_positional (cfg : Cfg) (all : List Param) (p : Param) (a : Arg) (it : It) (s : St) :
    stepJ cfg all p ((none, a) :: it) s = bodyJ cfg p (some a) it s := by
  simp [stepJ, pop, whileKeys]

/-! ### what `drain` does to the locals -/

theorem keyStep_result (sn : Bool) (all : List Param) (s : St) (k : Name) (a : Arg) :
    (keyStep sn all s k a).result = s.result := by
  unfold keyStep; split <;> (try split) <;> rfl

theorem drain_result (sn : Bool) (all : List Param) (kws : List (Name × Arg)) :
    ∀ s : St, (drain sn all s kws).result = s.result := by
  induction kws with
  | nil => intro s; rfl
  | cons x kws ih => intro s; obtain ⟨k, a⟩ := x; simp [drain, ih, keyStep_result]

/-- `keys_used` after all keywords went through the loop: an earlier binding wins ("multiple
values"); otherwise a keyword that names a parameter binds it -/
theorem drain_lookup (sn : Bool) (all : List Param) (kws : List (Name × Arg)) :
    ∀ (s : St) (n : Name),
      (drain sn all s kws).keysUsed.lookup n =
        match s.keysUsed.lookup n with
        | some b => some b
        | none => if inParamDict sn all n then (kws.lookup n).map Bound.arg else none := by
  induction kws with
  | nil => intro s n; cases h : s.keysUsed.lookup n <;> simp [drain, h]
  | cons x kws ih =>
    intro s n
    obtain ⟨k, a⟩ := x
    simp only [drain]
    rw [ih]
    unfold keyStep
    by_cases hk : inParamDict sn all k = true
    · simp only [hk, Bool.not_true, Bool.false_eq_true, if_false]
      cases hku : s.keysUsed.lookup k with
      | some b =>
        simp only [Option.isSome_some, if_true]
        cases hn : s.keysUsed.lookup n with
        | some b' => simp
        | none =>
          have hne : (n == k) = false := by
            cases hnk : n == k
            · rfl
            · have : n = k := by simpa using hnk
              subst this; rw [hku] at hn; cases hn
          simp [List.lookup, hne]
      | none =>
        simp only [Option.isSome_none, Bool.false_eq_true, if_false]
        cases hnk : n == k
        · simp [List.lookup, hnk]
        · have : n = k := by simpa using hnk
          subst this
          simp [List.lookup, hku, hk]
    · have hk' : inParamDict sn all k = false := by simpa using hk
      simp only [hk', Bool.not_false, if_true]
      cases hn : s.keysUsed.lookup n with
      | some b => simp
      | none =>
        by_cases hin : inParamDict sn all n = true
        · have hne : (n == k) = false := by
            cases hnk : n == k
            · rfl
            · have : n = k := by simpa using hnk
              subst this; rw [hin] at hk'; cases hk'
          simp [List.lookup, hne, hin]
        · have hin' : inParamDict sn all n = false := by simpa using hin
          simp [hin']

theorem dictSet_fresh (d : List (Name × Arg)) (k : Name) (v : Arg) (h : k ∉ d.map Prod.fst) :
    dictSet d k v = d ++ [(k, v)] := by
  induction d with
  | nil => rfl
  | cons x d ih =>
    obtain ⟨k', v'⟩ := x
    simp only [List.map_cons, List.mem_cons, not_or] at h
    have hne : (k' == k) = false := by
      cases hkk : k' == k
      · rfl
      · exact absurd (by simpa using hkk : k' = k).symm h.1
    simp [dictSet, hne, ih h.2]

/-- `non_matching_keys` after all keywords went through the loop: the keywords that name no
parameter, in call order -/
theorem drain_nonMatching (sn : Bool) (all : List Param) (kws : List (Name × Arg)) :
    ∀ (s : St), (s.nonMatching.map Prod.fst ++ kws.map Prod.fst).Nodup →
      (drain sn all s kws).nonMatching =
        s.nonMatching ++ kws.filter fun (k, _) => !inParamDict sn all k := by
  induction kws with
  | nil => intro s _; simp [drain]
  | cons x kws ih =>
    intro s hnd
    obtain ⟨k, a⟩ := x
    simp only [drain]
    have hnd' := hnd
    simp only [List.map_cons, List.nodup_append, List.nodup_cons, List.mem_cons] at hnd'
    obtain ⟨hs, ⟨hk, hkws⟩, hdisj⟩ := hnd'
    have hknot : k ∉ s.nonMatching.map Prod.fst := fun hm => hdisj k hm k (Or.inl rfl) rfl
    by_cases hin : inParamDict sn all k = true
    · have hnm : (keyStep sn all s k a).nonMatching = s.nonMatching := by
        unfold keyStep; simp only [hin]; simp only [Bool.not_true, Bool.false_eq_true, if_false]
        split <;> rfl
      rw [ih, hnm]
      · simp [List.filter, hin]
      · rw [hnm]
        simp only [List.nodup_append]
        exact ⟨hs, hkws, fun x hx y hy => hdisj x hx y (Or.inr hy)⟩
    · have hin' : inParamDict sn all k = false := by simpa using hin
      have hnm : (keyStep sn all s k a).nonMatching = s.nonMatching ++ [(k, a)] := by
        unfold keyStep; simp only [hin', Bool.not_false, if_true]
        exact dictSet_fresh _ _ _ hknot
      rw [ih, hnm]
      · simp [List.filter, hin']
      · rw [hnm]
        simp only [List.map_append, List.map_cons, List.map_nil, List.nodup_append,
          List.nodup_cons, List.mem_append, List.mem_cons]
        refine ⟨⟨hs, by simp, ?_⟩, hkws, ?_⟩
        · intro x hx y hy
          simp at hy; subst hy
          intro h; subst h; exact hknot hx
        · intro x hx y hy
          rcases hx with hx | hx
          · exact hdisj x hx y (Or.inr hy)
          · simp at hx; subst hx
            intro h; subst h; exact hk hy

/-! ### signatures -/

theorem wfOrder_tail {b sd : Bool} {p : Param} {ps : List Param} (h : wfOrder b sd (p :: ps) = true) :
    ∃ b' sd', wfOrder b' sd' ps = true := by
  unfold wfOrder at h
  cases hk : p.kind <;> simp only [hk, Bool.and_eq_true] at h
  · exact ⟨_, _, h.2⟩
  · exact ⟨_, _, h.2⟩
  · exact ⟨_, _, h⟩
  · have : ps = [] := by simpa using h.2
    subst this; exact ⟨true, false, rfl⟩

/-- after `*args` or the first keyword-only parameter: no positional parameter, no `*args` -/
theorem wfOrder_false (ps : List Param) : ∀ sd, wfOrder false sd ps = true →
    hasStar ps = false ∧ nPos ps = 0 := by
  induction ps with
  | nil => intro _ _; simp [hasStar, nPos]
  | cons p ps ih =>
    intro sd h
    unfold wfOrder at h
    cases hk : p.kind <;> simp only [hk, Bool.and_eq_true] at h
    · simp at h
    · simp at h
    · have := ih sd h
      simp only [hasStar, nPos] at this
      simp [hasStar, nPos, hk, this]
    · have : ps = [] := by simpa using h.2
      subst this; simp [hasStar, nPos, hk]

theorem namesNodup_cons {n : Name} {ns : List Name} (h : namesNodup (n :: ns) = true) :
    n ∉ ns ∧ namesNodup ns = true := by
  simpa [namesNodup] using h

theorem lookup_cons_ne {β} {n k : Name} {b : β} {l : List (Name × β)} (h : n ≠ k) :
    List.lookup n ((k, b) :: l) = List.lookup n l := by
  have : (n == k) = false := by simpa using h
  simp [List.lookup, this]

theorem finish_result (cfg : Cfg) (p : Param) (b : Bound) (s : St) :
    (finish cfg p b s).result = s.result ++ [(p.name, b)] := rfl

theorem finish_nonMatching (cfg : Cfg) (p : Param) (b : Bound) (s : St) :
    (finish cfg p b s).nonMatching = s.nonMatching := rfl

theorem finish_lookup_ne (cfg : Cfg) (p : Param) (b : Bound) (s : St) (n : Name) (h : n ≠ p.name) :
    (finish cfg p b s).keysUsed.lookup n = s.keysUsed.lookup n := by
  unfold finish
  simp only
  split
  · rfl
  · exact lookup_cons_ne h

/-! ### the drained phase: iterator empty, every parameter answered from the locals -/

/-- what `keys_used` must say about a parameter once all keywords went through the loop -/
def expectKU (kws : List (Name × Arg)) (p : Param) : Option Bound :=
  if p.byKeyword then (kws.lookup p.name).map Bound.arg else none

theorem expectKU_kw (kws : List (Name × Arg)) (p : Param) (h : p.kind = .pos ∨ p.kind = .kwOnly) :
    expectKU kws p = (kws.lookup p.name).map Bound.arg := by
  rcases h with h | h <;> simp [expectKU, Param.byKeyword, h]

theorem expectKU_star (kws : List (Name × Arg)) (p : Param) (h : p.kind = .star ∨ p.kind = .dstar) :
    expectKU kws p = none := by
  rcases h with h | h <;> simp [expectKU, Param.byKeyword, h]

theorem body_drained (kws extras : List (Name × Arg)) (p : Param) (s : St)
    (hl : s.keysUsed.lookup p.name = expectKU kws p) (hnm : p.kind = .dstar → s.nonMatching = extras) :
    (bodyJ cfgRef p none [] s).1 = [] ∧
      (bodyJ cfgRef p none [] s).2.result = s.result ++ fill kws extras [p] [] ∧
      (∀ n, n ≠ p.name → (bodyJ cfgRef p none [] s).2.keysUsed.lookup n = s.keysUsed.lookup n) ∧
      (p.kind ≠ .dstar → (bodyJ cfgRef p none [] s).2.nonMatching = s.nonMatching) := by
  cases hk : p.kind
  · -- pos
    rw [expectKU_kw kws p (Or.inl hk)] at hl
    cases hkw : kws.lookup p.name <;> simp only [hkw, Option.map_none, Option.map_some] at hl
    · cases hd : p.hasDefault <;> cases hko : s.keysOnly <;>
        simp [bodyJ, cfgRef, Kind.starCount, finish, fill, kwOrDefault, hk, hl, hkw, hd, hko] <;>
        intro n hn <;> exact lookup_cons_ne hn
    · simp [bodyJ, fill, kwOrDefault, hk, hl, hkw]
  · -- star
    rw [expectKU_star kws p (Or.inl hk)] at hl
    simp [bodyJ, cfgRef, Kind.starCount, finish, fill, hk, hl]
    intro n hn; exact lookup_cons_ne hn
  · -- kwOnly
    rw [expectKU_kw kws p (Or.inr hk)] at hl
    cases hkw : kws.lookup p.name <;> simp only [hkw, Option.map_none, Option.map_some] at hl
    · cases hd : p.hasDefault <;> cases hko : s.keysOnly <;>
        simp [bodyJ, cfgRef, Kind.starCount, finish, fill, kwOrDefault, hk, hl, hkw, hd, hko] <;>
        intro n hn <;> exact lookup_cons_ne hn
    · simp [bodyJ, fill, kwOrDefault, hk, hl, hkw]
  · -- dstar
    rw [expectKU_star kws p (Or.inr hk)] at hl
    simp [bodyJ, cfgRef, Kind.starCount, finish, fill, hk, hl, hnm hk]
    intro n hn; exact lookup_cons_ne hn

theorem fill_cons_nil (kws extras : List (Name × Arg)) (p : Param) (ps : List Param) :
    fill kws extras (p :: ps) [] = fill kws extras [p] [] ++ fill kws extras ps [] := by
  cases hk : p.kind <;> simp [fill, hk]

theorem loop_drained (all : List Param) (kws extras : List (Name × Arg)) (ps : List Param) :
    ∀ (s : St) (b sd : Bool), wfOrder b sd ps = true → namesNodup (ps.map (·.name)) = true →
      (∀ p ∈ ps, s.keysUsed.lookup p.name = expectKU kws p) →
      ((∃ p ∈ ps, p.kind = .dstar) → s.nonMatching = extras) →
      (loopJ cfgRef all ps [] s).2.result = s.result ++ fill kws extras ps [] := by
  induction ps with
  | nil => intro s _ _ _ _ _ _; simp [loopJ, fill]
  | cons p ps ih =>
    intro s b sd hwf hnd hl hnm
    obtain ⟨hpn, hnd'⟩ := namesNodup_cons (by simpa using hnd)
    obtain ⟨b', sd', hwf'⟩ := wfOrder_tail hwf
    obtain ⟨hs', hres, hku, hnm'⟩ := body_drained kws extras p s (hl p (List.mem_cons_self ..))
      (fun hk => hnm ⟨p, List.mem_cons_self .., hk⟩)
    simp only [loopJ, stepJ_nil]
    generalize hr : bodyJ cfgRef p none [] s = r at hs' hres hku hnm'
    obtain ⟨it', s'⟩ := r
    simp only at hs' hres hku hnm'
    subst hs'
    rw [ih s' b' sd' hwf' hnd' ?_ ?_, hres, List.append_assoc, ← fill_cons_nil]
    · intro q hq
      have hne : q.name ≠ p.name := by
        intro h; exact hpn (h ▸ List.mem_map.mpr ⟨q, hq, rfl⟩)
      rw [hku _ hne]; exact hl q (List.mem_cons_of_mem _ hq)
    · rintro ⟨q, hq, hqk⟩
      have hpk : p.kind ≠ .dstar := by
        intro hpk
        unfold wfOrder at hwf
        simp only [hpk, Bool.and_eq_true] at hwf
        have : ps = [] := by simpa using hwf.2
        subst this; simp at hq
      rw [hnm' hpk]; exact hnm ⟨q, List.mem_cons_of_mem _ hq, hqk⟩

/-! ### the positional phase -/

theorem starLoop_callArgs (kws : List (Name × Arg)) (pos : List Arg) :
    ∀ acc, starLoop true (callArgs pos kws) acc = (acc ++ pos, kwIt kws) := by
  induction pos with
  | nil =>
    intro acc
    rw [callArgs_nil]
    cases kws with
    | nil => simp [kwIt, starLoop]
    | cons x kws => obtain ⟨k, a⟩ := x; simp [kwIt, starLoop]
  | cons a pos ih =>
    intro acc
    rw [callArgs_cons]
    simp [starLoop, ih]

theorem body_arg_normal (p : Param) (a : Arg) (it : It) (s : St)
    (hk : p.kind = .pos ∨ p.kind = .kwOnly) (hl : s.keysUsed.lookup p.name = none) :
    bodyJ cfgRef p (some a) it s = (it, finish cfgRef p (.arg a) s) := by
  rcases hk with hk | hk <;> simp [bodyJ, cfgRef, Kind.starCount, hk, hl]

theorem body_arg_star (p : Param) (a : Arg) (it : It) (s : St)
    (hk : p.kind = .star) (hl : s.keysUsed.lookup p.name = none) :
    bodyJ cfgRef p (some a) it s =
      ((starLoop true it [a]).2, finish cfgRef p (.tuple (starLoop true it [a]).1) s) := by
  simp [bodyJ, cfgRef, Kind.starCount, hk, hl]

theorem starCount_zero (p : Param) : (p.kind.starCount == 0) = p.byKeyword := by
  cases hk : p.kind <;> simp [Kind.starCount, Param.byKeyword, hk]

theorem mem_inParamDict {all : List Param} {p : Param} (h : p ∈ all) (hb : p.byKeyword = true) :
    inParamDict false all p.name = true := by
  simp only [inParamDict, List.any_eq_true]
  exact ⟨p, h, by simp [starCount_zero, hb]⟩

theorem namesNodup_mem {all : List Param} (hnd : namesNodup (all.map (·.name)) = true)
    {p q : Param} (hp : p ∈ all) (hq : q ∈ all) (h : p.name = q.name) : p = q := by
  induction all with
  | nil => cases hp
  | cons x all ih =>
    obtain ⟨hx, hnd'⟩ := namesNodup_cons (by simpa using hnd)
    rcases List.mem_cons.mp hp with hp1 | hp1 <;> rcases List.mem_cons.mp hq with hq1 | hq1
    · rw [hp1, hq1]
    · rw [hp1] at h; exact absurd (h ▸ List.mem_map.mpr ⟨q, hq1, rfl⟩) hx
    · rw [hq1] at h; exact absurd (h ▸ List.mem_map.mpr ⟨p, hp1, rfl⟩) hx
    · exact ih hnd' hp1 hq1

/-- the name of `*args` / `**kwargs` is not in `param_dict` (repaired source) -/
theorem star_not_inParamDict {all : List Param} (hnd : namesNodup (all.map (·.name)) = true)
    {q : Param} (hq : q ∈ all) (hb : q.byKeyword = false) : inParamDict false all q.name = false := by
  simp only [inParamDict, List.any_eq_false, Bool.false_or, Bool.and_eq_true, not_and]
  intro p hp hpn
  have : p = q := namesNodup_mem hnd hp hq (by simpa using hpn)
  subst this
  simp [starCount_zero, hb]

/-- what jedi collects in `non_matching_keys` (repaired source) is what CPython puts into
`**kwargs` -/
theorem extras_eq (all : List Param) (kws : List (Name × Arg)) :
    (kws.filter fun (k, _) => !inParamDict false all k) = extraKws all kws := by
  unfold extraKws
  apply List.filter_congr
  rintro ⟨k, a⟩ _
  have hiff : inParamDict false all k = namesKwParam all k := by
    simp only [inParamDict, namesKwParam, Bool.false_or, starCount_zero]
    congr 1
    funext p
    exact Bool.and_comm _ _
  simp only [hiff]

theorem loop_at_keys (all : List Param) (kws : List (Name × Arg)) (p : Param) (ps : List Param) (s : St) :
    loopJ cfgRef all (p :: ps) (kwIt kws) s = loopJ cfgRef all (p :: ps) [] (drain false all s kws) := by
  simp only [loopJ, stepJ_keys, stepJ_nil]
  rfl

theorem loop_main (all : List Param) (kws : List (Name × Arg))
    (hnda : namesNodup (all.map (·.name)) = true) (hkn : (kws.map Prod.fst).Nodup) (ps : List Param) :
    ∀ (pos : List Arg) (s : St) (b sd : Bool), wfOrder b sd ps = true →
      namesNodup (ps.map (·.name)) = true → (∀ p ∈ ps, p ∈ all) →
      (hasStar ps = false → pos.length ≤ nPos ps) →
      (∀ p ∈ ps, s.keysUsed.lookup p.name = none) → s.nonMatching = [] →
      (loopJ cfgRef all ps (callArgs pos kws) s).2.result =
        s.result ++ fill kws (extraKws all kws) ps pos := by
  induction ps with
  | nil => intro pos s _ _ _ _ _ _ _ _; simp [loopJ, fill]
  | cons p ps ih =>
    intro pos s b sd hwf hnd hall hlen hfresh hnm
    cases pos with
    | nil =>
      rw [callArgs_nil, loop_at_keys, loop_drained all kws (extraKws all kws) (p :: ps) _ b sd hwf hnd,
        drain_result]
      · intro q hq
        rw [drain_lookup, hfresh q hq]
        unfold expectKU
        cases hb : q.byKeyword
        · simp [star_not_inParamDict hnda (hall q hq) hb]
        · simp [mem_inParamDict (hall q hq) hb]
      · intro _
        rw [drain_nonMatching false all kws s (by simpa [hnm] using hkn), hnm, List.nil_append,
          extras_eq]
    | cons a pos =>
      obtain ⟨hpn, hnd'⟩ := namesNodup_cons (by simpa using hnd)
      have hlp := hfresh p (List.mem_cons_self ..)
      have hfresh' : ∀ (bd : Bound) (q : Param), q ∈ ps →
          (finish cfgRef p bd s).keysUsed.lookup q.name = none := by
        intro bd q hq
        have hne : q.name ≠ p.name := by
          intro h; exact hpn (h ▸ List.mem_map.mpr ⟨q, hq, rfl⟩)
        rw [finish_lookup_ne _ _ _ _ _ hne]; exact hfresh q (List.mem_cons_of_mem _ hq)
      have hall' : ∀ q ∈ ps, q ∈ all := fun q hq => hall q (List.mem_cons_of_mem _ hq)
      cases hk : p.kind
      · -- pos: takes the next positional argument
        have hwf' : wfOrder true (sd || p.hasDefault) ps = true := by
          unfold wfOrder at hwf; simp only [hk, Bool.and_eq_true] at hwf; exact hwf.2
        rw [callArgs_cons]
        simp only [loopJ, stepJ_positional, body_arg_normal p a _ s (Or.inl hk) hlp]
        rw [ih pos _ _ _ hwf' hnd' hall' ?_ (hfresh' _) (by rw [finish_nonMatching]; exact hnm),
          finish_result]
        · simp [fill, hk]
        · intro hs
          have := hlen (by simpa [hasStar, hk] using hs)
          simp [nPos, hk] at this
          simpa [nPos] using this
      · -- star: takes all positional arguments that are left, pushes the first keyword back
        have hwf' : wfOrder false sd ps = true := by
          unfold wfOrder at hwf; simp only [hk, Bool.and_eq_true] at hwf; exact hwf.2
        rw [callArgs_cons]
        simp only [loopJ, stepJ_positional, body_arg_star p a _ s hk hlp, starLoop_callArgs]
        rw [← callArgs_nil,
          ih [] _ _ _ hwf' hnd' hall' (fun _ => Nat.zero_le _) (hfresh' _)
            (by rw [finish_nonMatching]; exact hnm), finish_result]
        simp [fill, hk]
      · -- kwOnly: no positional argument can be left
        exfalso
        have hwf' : wfOrder false sd ps = true := by
          unfold wfOrder at hwf; simpa only [hk] using hwf
        obtain ⟨hs, hn⟩ := wfOrder_false ps sd hwf'
        have := hlen (by simpa [hasStar, hk] using hs)
        simp only [nPos, List.filter_cons, hk] at this
        simp only [nPos] at hn
        simp [hn] at this
      · -- dstar: no positional argument can be left
        exfalso
        have hps : ps = [] := by
          unfold wfOrder at hwf; simp only [hk, Bool.and_eq_true] at hwf; simpa using hwf.2
        subst hps
        have := hlen (by simp [hasStar, hk])
        simp [nPos, hk] at this

/-! ### shape of the result, for every source configuration and every argument list -/

theorem whileKeys_result (sn : Bool) (all : List Param) (it : It) :
    ∀ (cur : Option (Option Name × Arg)) (s : St), (whileKeys sn all cur it s).2.2.result = s.result := by
  induction it with
  | nil =>
    intro cur s
    match cur with
    | none => rfl
    | some (none, a) => rfl
    | some (some k, a) => simp [whileKeys, keyStep_result]
  | cons x it ih =>
    intro cur s
    match cur with
    | none => rfl
    | some (none, a) => rfl
    | some (some k, a) => simp [whileKeys, ih, keyStep_result]

theorem bodyJ_result (cfg : Cfg) (p : Param) (arg : Option Arg) (it : It) (s : St) :
    ∃ b, (bodyJ cfg p arg it s).2.result = s.result ++ [(p.name, b)] := by
  unfold bodyJ
  split
  · exact ⟨_, rfl⟩
  · split
    · split
      · exact ⟨_, rfl⟩
      · exact ⟨_, rfl⟩
    · split
      · split <;> exact ⟨_, rfl⟩
      · split
        · split
          · split <;> exact ⟨_, rfl⟩
          · exact ⟨_, rfl⟩
        · exact ⟨_, rfl⟩

theorem stepJ_result (cfg : Cfg) (all : List Param) (p : Param) (it : It) (s : St) :
    ∃ b, (stepJ cfg all p it s).2.result = s.result ++ [(p.name, b)] := by
  unfold stepJ
  obtain ⟨b, hb⟩ := bodyJ_result cfg p (whileKeys cfg.starNamesInParamDict all (pop it).1 (pop it).2 s).1
    (whileKeys cfg.starNamesInParamDict all (pop it).1 (pop it).2 s).2.1
    (whileKeys cfg.starNamesInParamDict all (pop it).1 (pop it).2 s).2.2
  exact ⟨b, by rw [hb, whileKeys_result]⟩

theorem loopJ_names (cfg : Cfg) (all : List Param) (ps : List Param) :
    ∀ (it : It) (s : St),
      (loopJ cfg all ps it s).2.result.map Prod.fst = s.result.map Prod.fst ++ ps.map (·.name) := by
  induction ps with
  | nil => intro it s; simp [loopJ]
  | cons p ps ih =>
    intro it s
    obtain ⟨b, hb⟩ := stepJ_result cfg all p it s
    simp only [loopJ]
    rw [ih, hb]
    simp

theorem bindJ_names (cfg : Cfg) (ps : List Param) (args : It) :
    (bindJ cfg ps args).map Prod.fst = ps.map (·.name) := by
  have := loopJ_names cfg ps ps args {}
  simpa [bindJ, bindJFull] using this

theorem bindJ_eq_fill (ps : List Param) (pos : List Arg) (kws : List (Name × Arg))
    (hwf : WFSig ps = true) (hkn : (kws.map Prod.fst).Nodup)
    (hlen : tooManyPositional ps pos = false) :
    bindJ cfgRef ps (callArgs pos kws) = fill kws (extraKws ps kws) ps pos := by
  simp only [WFSig, Bool.and_eq_true] at hwf
  have := loop_main ps kws hwf.1 hkn ps pos {} true false hwf.2 hwf.1 (fun _ h => h)
    (fun hs => by
      simp only [tooManyPositional, hs, Bool.not_false, Bool.true_and, decide_eq_false_iff_not,
        Nat.not_lt] at hlen
      exact hlen)
    (fun _ _ => rfl) rfl
  simpa [bindJ, bindJFull] using this

end JediModel.ArgBind

import JediModel.Model.NonExtractable

namespace JediModel.NonExtractable

@[simp] theorem ref_always : reference.always = ["return", "yield"] := rfl
@[simp] theorem ref_jumps : reference.jumps = ["break", "continue"] := rfl
@[simp] theorem ref_loop : reference.loop = [.call .body .tt, .call .els .cur] := rfl
@[simp] theorem ref_scope : reference.scope = [.call .all .ff] := rfl
@[simp] theorem ref_other : reference.other = [.call .all .cur] := rfl
@[simp] theorem ref_tail : reference.tail = [] := rfl

/-- the function as it is in jedi computes the specification, and its flag never changes -/
theorem check_reference (s : Sel) : ∀ fl, check reference s fl = (loose s fl, fl) := by
  induction s with
  | done => intro fl; simp [check, loose]
  | leaf kw rest ih =>
    intro fl
    simp [check, loose, ih, leafRefused]
  | loop b e rest ihb ihe ihr =>
    intro fl
    simp [check, loose, ihb, ihe, ihr, run, step, Flag.eval]
  | scope c rest ihc ihr =>
    intro fl
    simp [check, loose, ihc, ihr, run, step, Flag.eval]
  | other c rest ihc ihr =>
    intro fl
    simp [check, loose, ihc, ihr, run, step, Flag.eval]

def Cmd.setsFlag : Cmd → Bool
  | .setFlag _ => true
  | _ => false

/-- no branch rebinds `in_loop` -/
def Prog.flagIsConstant (P : Prog) : Bool :=
  (P.loop ++ P.tail).all (fun c => !c.setsFlag) && (P.scope ++ P.tail).all (fun c => !c.setsFlag)
    && (P.other ++ P.tail).all (fun c => !c.setsFlag)

theorem foldl_step_flag (cA cB cE : Bool → Bool) (cmds : List Cmd) (h : cmds.all (fun c => !c.setsFlag) = true) :
    ∀ s : St, (cmds.foldl (step cA cB cE) s).flag = s.flag := by
  induction cmds with
  | nil => intro s; rfl
  | cons c cs ih =>
    intro s
    simp only [List.all_cons, Bool.and_eq_true] at h
    rw [List.foldl_cons, ih h.2]
    cases c with
    | call p f => simp [step]
    | setFlag f => simp [Cmd.setsFlag] at h
    | narrow => simp [step]

theorem run_flag (cA cB cE : Bool → Bool) (cmds : List Cmd) (h : cmds.all (fun c => !c.setsFlag) = true) (fl : Bool) :
    (run cmds cA cB cE fl).flag = fl := by
  unfold run
  rw [foldl_step_flag cA cB cE cmds h]

/-- when no branch rebinds the flag, the later siblings of a node are checked with the flag of the call -/
theorem check_flag (P : Prog) (h : P.flagIsConstant = true) (s : Sel) : ∀ fl, (check P s fl).2 = fl := by
  simp only [Prog.flagIsConstant, Bool.and_eq_true] at h
  induction s with
  | done => intro fl; simp [check]
  | leaf kw rest ih => intro fl; simp [check, ih]
  | loop b e rest _ _ ihr => intro fl; simp [check, ihr, run_flag _ _ _ _ h.1.1]
  | scope c rest _ ihr => intro fl; simp [check, ihr, run_flag _ _ _ _ h.1.2]
  | other c rest _ ihr => intro fl; simp [check, ihr, run_flag _ _ _ _ h.2]

end JediModel.NonExtractable

import JediModel.Lemmas.WalkPath
/-! Tree positions for `Model/Walk`: name chains, the path string of a chain, where the entries of
the walk state come from, and the fact that the separator-aware test `covers` between the paths of
two directories of the tree means "is an ancestor (or the same directory)". -/
namespace JediModel.Walk

/-- path of the directory reached from `root` through the directory names `ns` -/
def pathOf (root : Str) (ns : List Str) : Str := ns.foldl osJoin root

theorem pathOf_concat (root : Str) (ns : List Str) (n : Str) :
    pathOf root (ns ++ [n]) = osJoin (pathOf root ns) n := by
  simp [pathOf, List.foldl_append]

/-- `DirAt F ns fs`: going down from the parent of the sibling list `F` through the directory
names `ns` (non-empty) ends in a directory whose listing holds the files `fs` -/
inductive DirAt : Forest → List Str → List FileEnt → Prop
  | here {name files ch rest} : DirAt (.cons name files ch rest) [name] files
  | sibling {name files ch rest ns fs} : DirAt rest ns fs → DirAt (.cons name files ch rest) ns fs
  | down {name files ch rest ns fs} : DirAt ch ns fs → DirAt (.cons name files ch rest) (name :: ns) fs

/-- the same for the whole project: `ns = []` is the project root itself -/
def DirAtRoot (files : List FileEnt) (children : Forest) (ns : List Str) (fs : List FileEnt) : Prop :=
  (ns = [] ∧ fs = files) ∨ DirAt children ns fs

/-- every directory name in the forest satisfies `P` -/
def Forest.AllNames (P : Str → Prop) : Forest → Prop
  | .nil => True
  | .cons name _ ch rest => P name ∧ Forest.AllNames P ch ∧ Forest.AllNames P rest

theorem DirAt.names {P : Str → Prop} {F : Forest} {ns : List Str} {fs : List FileEnt}
    (h : DirAt F ns fs) (hP : F.AllNames P) : ∀ n ∈ ns, P n := by
  induction h with
  | here => intro n hn; simp only [List.mem_singleton] at hn; subst hn; exact hP.1
  | sibling _ ih => exact ih hP.2.2
  | down _ ih =>
    intro n hn
    rcases List.mem_cons.mp hn with hn | hn
    · subst hn; exact hP.1
    · exact ih hP.2.1 n hn

/-! ## provenance of the walk state -/

/-- what the walk over `F` adds to the state comes from a `.gitignore` in a directory of `F` -/
theorem walkForest_prov (cfg : Cfg) (root : Str) (anc : List Anc) (frozen st : St) (F : Forest) :
    (∀ a ∈ (walkForest cfg root anc frozen st F).2.exc, a ∈ st.exc ∨
      ∃ ns fs content, DirAt F ns fs ∧ (⟨cfg.gitignoreName, content⟩ : FileEnt) ∈ fs ∧
        a ∈ (gitignoredPaths cfg (pathOf root ns) content).1) ∧
    (∀ e ∈ (walkForest cfg root anc frozen st F).2.rel, e ∈ st.rel ∨
      ∃ ns fs content, DirAt F ns fs ∧ (⟨cfg.gitignoreName, content⟩ : FileEnt) ∈ fs ∧
        e ∈ (gitignoredPaths cfg (pathOf root ns) content).2) := by
  induction F generalizing root anc frozen st with
  | nil => exact ⟨fun a h => .inl h, fun e h => .inl h⟩
  | cons name files ch rest ihc ihr =>
    simp only [walkForest]
    split
    · obtain ⟨r1, r2⟩ := ihr root anc frozen
        (walkForest cfg (osJoin root name) (anc ++ [⟨root, name, files⟩])
          (readGitignores cfg (osJoin root name) st files)
          (readGitignores cfg (osJoin root name) st files) ch).2
      obtain ⟨c1, c2⟩ := ihc (osJoin root name) (anc ++ [⟨root, name, files⟩])
          (readGitignores cfg (osJoin root name) st files)
          (readGitignores cfg (osJoin root name) st files)
      obtain ⟨g1, g2⟩ := readGitignores_prov cfg (osJoin root name) st files
      refine ⟨fun a ha => ?_, fun e he => ?_⟩
      · rcases r1 a ha with h | ⟨ns, fs, c, hd, hc, hm⟩
        · rcases c1 a h with h | ⟨ns, fs, c, hd, hc, hm⟩
          · rcases g1 a h with h | ⟨c, hc, hm⟩
            · exact .inl h
            · exact .inr ⟨[name], files, c, .here, hc, hm⟩
          · exact .inr ⟨name :: ns, fs, c, .down hd, hc, hm⟩
        · exact .inr ⟨ns, fs, c, .sibling hd, hc, hm⟩
      · rcases r2 e he with h | ⟨ns, fs, c, hd, hc, hm⟩
        · rcases c2 e h with h | ⟨ns, fs, c, hd, hc, hm⟩
          · rcases g2 e h with h | ⟨c, hc, hm⟩
            · exact .inl h
            · exact .inr ⟨[name], files, c, .here, hc, hm⟩
          · exact .inr ⟨name :: ns, fs, c, .down hd, hc, hm⟩
        · exact .inr ⟨ns, fs, c, .sibling hd, hc, hm⟩
    · obtain ⟨r1, r2⟩ := ihr root anc frozen st
      refine ⟨fun a ha => ?_, fun e he => ?_⟩
      · rcases r1 a ha with h | ⟨ns, fs, c, hd, hc, hm⟩
        · exact .inl h
        · exact .inr ⟨ns, fs, c, .sibling hd, hc, hm⟩
      · rcases r2 e he with h | ⟨ns, fs, c, hd, hc, hm⟩
        · exact .inl h
        · exact .inr ⟨ns, fs, c, .sibling hd, hc, hm⟩

/-- every member of the final state of the walk is an initial one or an entry of a `.gitignore`
of some directory of the project -/
theorem walkRoot_prov (cfg : Cfg) (root : Str) (st : St) (files : List FileEnt) (children : Forest) :
    (∀ a ∈ (walkRoot cfg root st files children).2.exc, a ∈ st.exc ∨
      ∃ ns fs content, DirAtRoot files children ns fs ∧ (⟨cfg.gitignoreName, content⟩ : FileEnt) ∈ fs ∧
        a ∈ (gitignoredPaths cfg (pathOf root ns) content).1) ∧
    (∀ e ∈ (walkRoot cfg root st files children).2.rel, e ∈ st.rel ∨
      ∃ ns fs content, DirAtRoot files children ns fs ∧ (⟨cfg.gitignoreName, content⟩ : FileEnt) ∈ fs ∧
        e ∈ (gitignoredPaths cfg (pathOf root ns) content).2) := by
  simp only [walkRoot]
  obtain ⟨c1, c2⟩ := walkForest_prov cfg root [] (readGitignores cfg root st files)
    (readGitignores cfg root st files) children
  obtain ⟨g1, g2⟩ := readGitignores_prov cfg root st files
  refine ⟨fun a ha => ?_, fun e he => ?_⟩
  · rcases c1 a ha with h | ⟨ns, fs, c, hd, hc, hm⟩
    · rcases g1 a h with h | ⟨c, hc, hm⟩
      · exact .inl h
      · exact .inr ⟨[], files, c, .inl ⟨rfl, rfl⟩, hc, hm⟩
    · exact .inr ⟨ns, fs, c, .inr hd, hc, hm⟩
  · rcases c2 e he with h | ⟨ns, fs, c, hd, hc, hm⟩
    · rcases g2 e h with h | ⟨c, hc, hm⟩
      · exact .inl h
      · exact .inr ⟨[], files, c, .inl ⟨rfl, rfl⟩, hc, hm⟩
    · exact .inr ⟨ns, fs, c, .inr hd, hc, hm⟩

/-! ## path strings of name chains -/

/-- a project path as `Path.absolute()` gives it: not empty, no trailing separator -/
def RootOk (root : Str) : Prop := root ≠ [] ∧ root.getLast? ≠ some '/'

/-- a file or directory name as a file system lists it: not empty, no separator inside -/
def ValidName (n : Str) : Prop := n ≠ [] ∧ '/' ∉ n

theorem ValidName.head {n : Str} (h : ValidName n) : n.head? ≠ some '/' := by
  obtain ⟨h1, h2⟩ := h
  cases n with
  | nil => simp
  | cons c cs =>
    simp only [List.head?_cons, ne_eq, Option.some.injEq]
    intro hc; apply h2; simp [hc]

theorem osJoin_of_ok {P n : Str} (hP : RootOk P) (hn : n.head? ≠ some '/') : osJoin P n = P ++ '/' :: n := by
  unfold osJoin
  simp only [hn, if_false]
  have : ¬ (P = [] ∨ P.getLast? = some '/') := by
    rintro (h | h)
    · exact hP.1 h
    · exact hP.2 h
  simp only [this, if_false]

theorem RootOk.join {P n : Str} (hP : RootOk P) (hn : ValidName n) : RootOk (osJoin P n) := by
  rw [osJoin_of_ok hP hn.head]
  refine ⟨by simp, ?_⟩
  obtain ⟨h1, h2⟩ := hn
  have : (P ++ '/' :: n).getLast? = n.getLast? := by
    rw [show P ++ '/' :: n = (P ++ ['/']) ++ n by simp]
    rw [List.getLast?_append]
    cases hl : n.getLast? with
    | none => exact absurd (List.getLast?_eq_none_iff.mp hl) h1
    | some c => simp
  rw [this]
  intro hl
  exact h2 (List.mem_of_getLast? hl)

/-- `seg [a, b] = "a/b/"` -/
def seg (ns : List Str) : Str := ns.flatMap (fun n => n ++ ['/'])

theorem pathOf_closed {root : Str} {ns : List Str} (hroot : RootOk root) (hn : ∀ n ∈ ns, ValidName n) :
    pathOf root ns ++ ['/'] = root ++ '/' :: seg ns ∧ RootOk (pathOf root ns) := by
  induction ns generalizing root with
  | nil => exact ⟨by simp [pathOf, seg], hroot⟩
  | cons n ns ih =>
    have hv := hn n List.mem_cons_self
    obtain ⟨i1, i2⟩ := ih (hroot.join hv) (fun m hm => hn m (List.mem_cons_of_mem _ hm))
    refine ⟨?_, i2⟩
    show pathOf (osJoin root n) ns ++ ['/'] = _
    rw [i1, osJoin_of_ok hroot hv.head]
    simp [seg]

theorem comp_prefix {m n u v : Str} (hm : '/' ∉ m) (hn : '/' ∉ n)
    (h : (m ++ '/' :: u) <+: (n ++ '/' :: v)) : m = n ∧ u <+: v := by
  induction m generalizing n with
  | nil =>
    cases n with
    | nil =>
      simp only [List.nil_append] at h
      exact ⟨rfl, (List.cons_prefix_cons.mp h).2⟩
    | cons d n' =>
      simp only [List.nil_append, List.cons_append] at h
      have := (List.cons_prefix_cons.mp h).1
      exact absurd (this ▸ List.mem_cons_self) hn
  | cons c m' ih =>
    cases n with
    | nil =>
      simp only [List.nil_append, List.cons_append] at h
      have := (List.cons_prefix_cons.mp h).1
      exact absurd (this ▸ List.mem_cons_self) hm
    | cons d n' =>
      simp only [List.cons_append] at h
      obtain ⟨hcd, h'⟩ := List.cons_prefix_cons.mp h
      obtain ⟨i1, i2⟩ := ih (fun hh => hm (List.mem_cons_of_mem _ hh)) (fun hh => hn (List.mem_cons_of_mem _ hh)) h'
      exact ⟨by rw [hcd, i1], i2⟩

theorem seg_prefix {ms ns : List Str} (hm : ∀ n ∈ ms, '/' ∉ n) (hn : ∀ n ∈ ns, '/' ∉ n)
    (h : seg ms <+: seg ns) : ms <+: ns := by
  induction ms generalizing ns with
  | nil => exact List.nil_prefix
  | cons m ms ih =>
    cases ns with
    | nil =>
      simp only [seg, List.flatMap_cons, List.flatMap_nil, List.append_assoc, List.prefix_nil] at h
      simp at h
    | cons n ns =>
      simp only [seg, List.flatMap_cons, List.append_assoc, List.singleton_append] at h
      obtain ⟨h1, h2⟩ := comp_prefix (hm m List.mem_cons_self) (hn n List.mem_cons_self) h
      have := ih (fun k hk => hm k (List.mem_cons_of_mem _ hk)) (fun k hk => hn k (List.mem_cons_of_mem _ hk)) h2
      rw [h1]
      exact List.cons_prefix_cons.mpr ⟨rfl, this⟩

theorem rstripSlash_of_ok {P : Str} (hP : RootOk P) : rstripSlash P = P := by
  obtain ⟨k, h1, _⟩ := rstripSlash_spec P
  cases k with
  | zero => simpa using h1.symm
  | succ k =>
    exfalso
    apply hP.2
    rw [h1, List.replicate_succ']; simp

/-- **the separator-aware test means "ancestor or self"**: for two directories of a project whose
names are valid, the `.gitignore` entries of the one at chain `ms` apply in the one at chain `ns`
only if `ms` is a prefix of `ns` -/
theorem prefix_of_covers {root : Str} {ms ns : List Str} (hroot : RootOk root)
    (hm : ∀ n ∈ ms, ValidName n) (hn : ∀ n ∈ ns, ValidName n)
    (h : covers (pathOf root ms) (pathOf root ns) = true) : ms <+: ns := by
  obtain ⟨m1, m2⟩ := pathOf_closed hroot hm
  obtain ⟨n1, _⟩ := pathOf_closed hroot hn
  apply seg_prefix (fun k hk => (hm k hk).2) (fun k hk => (hn k hk).2)
  simp only [covers, Bool.or_eq_true, decide_eq_true_eq, List.isPrefixOf_iff_prefix, rstripSlash_of_ok m2] at h
  have hp : (root ++ '/' :: seg ms) <+: (root ++ '/' :: seg ns) := by
    rw [← m1, ← n1]
    rcases h with h | h
    · rw [h]; exact List.prefix_refl _
    · exact List.IsPrefix.trans h (List.prefix_append _ _)
  have := (List.prefix_append_right_inj root).mp hp
  exact (List.cons_prefix_cons.mp this).2

/-- an absolute entry of the `.gitignore` in `g` is a path strictly below `g` -/
theorem gitignoredPaths_abs_form (cfg : Cfg) (g content : Str) :
    ∀ a ∈ (gitignoredPaths cfg g content).1, ∃ q, q ≠ [] ∧ q.head? ≠ some '/' ∧ a = osJoin g q := by
  intro a ha
  simp only [gitignoredPaths, List.mem_filterMap] at ha
  obtain ⟨x, ⟨l, _, hl⟩, hx⟩ := ha
  unfold gitignoreLine at hl
  split at hl
  · cases hl
  · simp only at hl
    split at hl
    · rename_i hsl
      cases hl
      simp only [Option.some.injEq] at hx
      subst hx
      obtain ⟨k, h1, h2⟩ := lstripSlash_spec (rstripSlash l)
      obtain ⟨_, _, h4⟩ := rstripSlash_spec l
      refine ⟨_, ?_, h2, rfl⟩
      intro hq
      rw [hq, List.append_nil] at h1
      rw [h1] at h4 hsl
      cases k with
      | zero => simp at hsl
      | succ k => apply h4; rw [List.replicate_succ']; simp
    · cases hl; simp at hx

/-- the name of a relative entry contains no separator -/
theorem gitignoredPaths_rel_snd (cfg : Cfg) (folder content : Str) :
    ∀ e ∈ (gitignoredPaths cfg folder content).2, '/' ∉ e.2 := by
  intro e he
  simp only [gitignoredPaths, List.mem_filterMap] at he
  obtain ⟨x, ⟨l, _, hl⟩, hx⟩ := he
  unfold gitignoreLine at hl
  split at hl
  · cases hl
  · simp only at hl
    split at hl
    · cases hl; simp at hx
    · rename_i hsl
      cases hl
      simp only [Option.some.injEq] at hx
      subst hx; exact hsl

/-- building `Reach` from a tree position whose directories all pass the filter -/
theorem reach_of_dirAt {kd : Str → Str → Bool} {root : Str} {anc : List Anc} {F : Forest}
    {ns : List Str} {fs : List FileEnt} (h : DirAt F ns fs)
    (hk : ∀ pre n post, ns = pre ++ n :: post → kd (pathOf root pre) n = true) :
    ∃ a c, Reach kd root anc F (pathOf root ns) a fs c := by
  induction h generalizing root anc with
  | @here name files ch rest =>
    exact ⟨_, ch, .here (hk [] name [] rfl)⟩
  | sibling _ ih =>
    obtain ⟨a, c, hr⟩ := ih hk
    exact ⟨a, c, .sibling hr⟩
  | @down name files ch rest ns fs _ ih =>
    obtain ⟨a, c, hr⟩ := ih (root := osJoin root name) (anc := anc ++ [⟨root, name, files⟩])
      (fun pre n post hs => hk (name :: pre) n post (by rw [hs]; rfl))
    exact ⟨a, c, .down (hk [] name ns rfl) hr⟩

/-! ## only the `.gitignore` files on the way matter -/

/-- the entry `n` of the directory at chain `pre` is named by an entry of a `.gitignore` that lies in
that directory or in a directory above it: a relative entry `n`, or an absolute entry equal to its path -/
def NamedByGitignore (cfg : Cfg) (root : Str) (files : List FileEnt) (children : Forest)
    (pre : List Str) (n : Str) : Prop :=
  ∃ ms gs content, ms <+: pre ∧ DirAtRoot files children ms gs ∧
    (⟨cfg.gitignoreName, content⟩ : FileEnt) ∈ gs ∧
    ((∃ e ∈ (gitignoredPaths cfg (pathOf root ms) content).2, e.2 = n) ∨
     osJoin (pathOf root pre) n ∈ (gitignoredPaths cfg (pathOf root ms) content).1)

theorem DirAtRoot.names {P : Str → Prop} {files : List FileEnt} {children : Forest} {ns : List Str}
    {fs : List FileEnt} (h : DirAtRoot files children ns fs) (hP : children.AllNames P) : ∀ n ∈ ns, P n := by
  rcases h with ⟨h, _⟩ | h
  · subst h; intro n hn; cases hn
  · exact h.names hP

/-- an entry that no `.gitignore` on the way names (and the caller did not except) passes the two
path tests of the *final* state of the walk, which holds the entries of every `.gitignore` read
anywhere in the project: entries from elsewhere never match -/
theorem entry_passes_final (cfg : Cfg) {root : Str} (st : St) (files : List FileEnt) (children : Forest)
    (hroot : RootOk root) (hnames : children.AllNames ValidName) (hrel : st.rel = [])
    {pre : List Str} {n : Str} (hpre : ∀ k ∈ pre, ValidName k) (hn : ValidName n)
    (hexc : osJoin (pathOf root pre) n ∉ st.exc)
    (hnot : ¬ NamedByGitignore cfg root files children pre n) :
    osJoin (pathOf root pre) n ∉ (walkRoot cfg root st files children).2.exc ∧
    osJoin (pathOf root pre) n ∉ expandRel (pathOf root pre) (walkRoot cfg root st files children).2.rel := by
  obtain ⟨p1, p2⟩ := walkRoot_prov cfg root st files children
  have hP := (pathOf_closed hroot hpre).2
  constructor
  · intro hin
    rcases p1 _ hin with h | ⟨ms, gs, content, hd, hc, hm⟩
    · exact hexc h
    · have hms := hd.names hnames
      have hg := (pathOf_closed hroot hms).2
      obtain ⟨q, hq1, hq2, hq3⟩ := gitignoredPaths_abs_form cfg _ content _ hm
      rw [osJoin_of_ok hg hq2] at hq3
      have hcov : covers (pathOf root ms) (pathOf root (pre ++ [n])) = true := by
        rw [pathOf_concat, hq3]
        simp only [covers, Bool.or_eq_true, decide_eq_true_eq, List.isPrefixOf_iff_prefix, rstripSlash_of_ok hg]
        exact .inr ⟨q, by simp⟩
      have hpn : ∀ k ∈ pre ++ [n], ValidName k := by
        intro k hk
        rcases List.mem_append.mp hk with hk | hk
        · exact hpre k hk
        · simp only [List.mem_singleton] at hk; subst hk; exact hn
      rcases List.prefix_concat_iff.mp (prefix_of_covers hroot hms hpn hcov) with h | h
      · have : (pathOf root ms).length = (pathOf root ms ++ '/' :: q).length := by
          rw [← hq3, ← pathOf_concat, h]
        simp at this
      · exact hnot ⟨ms, gs, content, h, hd, hc, .inr hm⟩
  · intro hin
    obtain ⟨e, he, hcov, heq⟩ := mem_expandRel.mp hin
    rcases p2 e he with h | ⟨ms, gs, content, hd, hc, hm⟩
    · rw [hrel] at h; cases h
    · have hms := hd.names hnames
      have hfst := gitignoredPaths_rel_fst cfg _ content e hm
      have hsl := gitignoredPaths_rel_snd cfg _ content e hm
      rw [hfst] at hcov
      have hpre' := prefix_of_covers hroot hms hpre hcov
      have he2 : e.2.head? ≠ some '/' := by
        cases h2 : e.2 with
        | nil => simp
        | cons c cs =>
          simp only [List.head?_cons, ne_eq, Option.some.injEq]
          intro hc'; apply hsl; rw [h2, hc']; exact List.mem_cons_self
      rw [osJoin_of_ok hP hn.head, osJoin_of_ok hP he2] at heq
      have : n = e.2 := by simpa using heq
      exact hnot ⟨ms, gs, content, hpre', hd, hc, .inl ⟨e, hm, this.symm⟩⟩

/-- the two filters, from their three (two) tests -/
theorem keepDir_intro (cfg : Cfg) {P n : Str} {S : St} (h1 : osJoin P n ∉ S.exc)
    (h2 : osJoin P n ∉ expandRel P S.rel) (h3 : n ∉ cfg.ignoreFolders) : keepDir cfg P S n = true := by
  simp only [keepDir, List.all_eq_true]
  intro c _
  unfold conjunct
  split
  · simpa using h1
  · split
    · simpa using h2
    · split
      · simpa using h3
      · rfl

theorem fileOk_intro (cfg : Cfg) {P n : Str} {S : St} (h1 : osJoin P n ∉ S.exc)
    (h2 : osJoin P n ∉ expandRel P S.rel)
    (h3 : "base_name_not_ignored" ∉ cfg.fileConjuncts) : fileOk cfg P S n = true := by
  simp only [fileOk, List.all_eq_true]
  intro c hc
  unfold conjunct
  split
  · simpa using h1
  · split
    · simpa using h2
    · split
      · rename_i h; exact absurd (h ▸ hc) h3
      · rfl

end JediModel.Walk

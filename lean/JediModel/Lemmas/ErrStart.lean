import JediModel.Model.ErrStart
import JediModel.Gen.C01
/-! Facts about the statement-start scan of `follow_error_node_imports_if_possible`
(`Model/ErrStart`), and the model instantiated from the source. -/
namespace JediModel.ErrStart

/-- the loop as the translator found it in the source -/
def sourceSpec : Spec :=
  ⟨JediModel.Gen.C01.esInit, JediModel.Gen.C01.esStrict, JediModel.Gen.C01.esNameEnd,
   JediModel.Gen.C01.esBreakFirst, JediModel.Gen.C01.esOffset⟩

/-- the scan of the code as it stands (`>`, `name.start_pos`, break first, `index + 1`), from
`index` on with `acc ≤ index`: if some child at distance `d` is not a `;` and every child behind
it starts after the name, the result is at most `index + d` -/
theorem scan_std_le (bound : Pos) :
    ∀ (cs : List Child) (index acc d : Nat), acc ≤ index + d → d < cs.length →
      (∀ c, cs[d]? = some c → c.semi = false) →
      (∀ i c, d < i → cs[i]? = some c → bound.lt c.start = true) →
      scan stdSpec bound cs index acc ≤ index + d := by
  intro cs
  induction cs with
  | nil => intro index acc d _ hd; simp at hd
  | cons c rest ih =>
    intro index acc d hacc hd hk hafter
    unfold scan
    simp only [stdSpec, past, if_true]
    split
    · exact hacc
    · cases d with
      | zero =>
        -- this child is the one that holds the name: not a `;`; everything behind breaks
        have hc : c.semi = false := hk c (by simp)
        simp only [hc]
        cases rest with
        | nil => simp [scan]; omega
        | cons c2 rest2 =>
          unfold scan
          have h2 : bound.lt c2.start = true := hafter 1 c2 (by omega) (by simp)
          simp [past, h2]
          omega
      | succ d' =>
        have := ih (index + 1) (if c.semi then index + 1 else acc) d'
          (by split <;> omega) (by simp at hd; omega)
          (by intro x hx; exact hk x (by simpa using hx))
          (by intro i x hi hx; exact hafter (i + 1) x (by omega) (by simpa using hx))
        simp only [stdSpec] at this ⊢
        omega

/-- the scan never yields more than the number of children visited plus what it started with -/
theorem scan_std_le_length (bound : Pos) :
    ∀ (cs : List Child) (index acc : Nat), acc ≤ index →
      scan stdSpec bound cs index acc ≤ index + cs.length := by
  intro cs
  induction cs with
  | nil => intro index acc h; simp [scan]; omega
  | cons c rest ih =>
    intro index acc h
    unfold scan
    simp only [stdSpec, past, if_true]
    split
    · simp; omega
    · have := ih (index + 1) (if c.semi then index + 1 else acc) (by split <;> omega)
      simp only [stdSpec] at this
      simp only [List.length_cons]
      omega

end JediModel.ErrStart

import JediModel.Lemmas.Call
set_option linter.unusedSimpArgs false
/-! Helper lemmas for `process_params` with `**kwargs` forwarding (`processParamsKw`) and for
`pyAccepts` (property C11). -/
namespace JediModel.Call

/-! ## the scans on a valid parameter list -/

theorem ppScan_sig (s : Sig) :
    ppScan s.params =
      (s.po.map (P.pname .posOnly) ++ s.pk.map (P.pname .posOrKw), s.vp.map (P.pname .varPos),
        s.ko.map (P.pname .kwOnly), s.vk.map (P.pname .varKw), s.pk.map P.name) := by
  obtain ⟨po, pk, vp, ko, vk⟩ := s
  have hvk : ppScan (vk.map (P.pname .varKw)).toList = ([], none, [], vk.map (P.pname .varKw), []) := by
    cases vk <;> simp [ppScan, P.pname]
  have hvp : ∀ rest, ppScan ((vp.map (P.pname .varPos)).toList ++ rest) =
      ((ppScan rest).1, (match vp with | some p => some ((ppScan rest).2.1.getD (p.pname .varPos)) | none => (ppScan rest).2.1),
        (ppScan rest).2.2) := by
    intro rest
    cases vp <;> simp [ppScan, P.pname]
  simp only [Sig.params, List.append_assoc]
  rw [ppScan_po, ppScan_pk, hvp, ppScan_ko, hvk]
  cases vp <;> simp

theorem ppScan2_po (seg : List P) (rest : List PName) :
    ppScan2 (seg.map (P.pname .posOnly) ++ rest) = ppScan2 rest := by
  induction seg with
  | nil => simp
  | cons p seg ih => simp [ppScan2, ih, P.pname]

theorem ppScan2_pk (seg : List P) (rest : List PName) :
    ppScan2 (seg.map (P.pname .posOrKw) ++ rest) =
      (seg.map (P.pname .kwOnly) ++ (ppScan2 rest).1, (ppScan2 rest).2) := by
  induction seg with
  | nil => simp
  | cons p seg ih => simp [ppScan2, ih, P.pname]

theorem ppScan2_ko (seg : List P) (rest : List PName) :
    ppScan2 (seg.map (P.pname .kwOnly) ++ rest) =
      (seg.map (P.pname .kwOnly) ++ (ppScan2 rest).1, (ppScan2 rest).2) := by
  induction seg with
  | nil => simp
  | cons p seg ih => simp [ppScan2, ih, P.pname]

theorem ppScan2_sig (s : Sig) :
    ppScan2 s.params = ((s.pk ++ s.ko).map (P.pname .kwOnly), s.vk.map (P.pname .varKw)) := by
  obtain ⟨po, pk, vp, ko, vk⟩ := s
  have hvk : ppScan2 (vk.map (P.pname .varKw)).toList = ([], vk.map (P.pname .varKw)) := by
    cases vk <;> simp [ppScan2, P.pname]
  have hvp : ∀ rest, ppScan2 ((vp.map (P.pname .varPos)).toList ++ rest) = ppScan2 rest := by
    intro rest
    cases vp <;> simp [ppScan2, P.pname]
  simp only [Sig.params, List.append_assoc]
  rw [ppScan2_po, ppScan2_pk, hvp, ppScan2_ko, hvk]
  simp

/-- `process_params(…, star_count=2)` of a valid parameter list: its positional-or-keyword and
keyword-only parameters, all keyword-only now, then its `**kwargs` -/
theorem processParams2_sig (s : Sig) (h : ((s.pk ++ s.ko).map P.name).Nodup) :
    processParams2 s.params =
      (s.pk ++ s.ko).map (P.pname .kwOnly) ++ (s.vk.map (P.pname .varKw)).toList := by
  unfold processParams2
  rw [ppScan2_sig]
  simp only
  rw [ppKwOnly_id _ _ (by simp) h]

theorem removeGiven_zero_nil (ps : List PName) : removeGiven 0 [] ps = ps := by
  induction ps with
  | nil => rfl
  | cons p ps ih => simp [removeGiven, ih]

theorem filter_kwOnly_map (l : List P) (k : Kind) :
    (l.map (P.pname k)).filter (fun p => decide (p.kind = .kwOnly)) =
      if k = .kwOnly then l.map (P.pname k) else [] := by
  induction l with
  | nil => simp
  | cons p l ih =>
    by_cases hk : k = .kwOnly <;> simp_all [P.pname]

theorem filter_varKw_map (l : List P) (k : Kind) :
    (l.map (P.pname k)).filter (fun p => decide (p.kind = .varKw)) =
      if k = .varKw then l.map (P.pname k) else [] := by
  induction l with
  | nil => simp
  | cons p l ih =>
    by_cases hk : k = .varKw <;> simp_all [P.pname]

/-- the forwarded signature of a wrapper `w` (with `**kwargs`) that passes `**kwargs` on to one
callee `s`: the wrapper's own parameters, then the callee's positional-or-keyword and keyword-only
parameters as keyword-only ones, then the callee's `**kwargs` -/
theorem processParamsKw_sig (w s : Sig)
    (h : ((w.pk ++ (w.ko ++ (s.pk ++ s.ko))).map P.name).Nodup) :
    processParamsKw w.params [s.params] =
      Sig.params ⟨w.po, w.pk, w.vp, w.ko ++ (s.pk ++ s.ko), s.vk⟩ := by
  have hs : ((s.pk ++ s.ko).map P.name).Nodup := by
    simp only [List.map_append, List.nodup_append] at h ⊢
    exact ⟨h.2.1.2.1.1, h.2.1.2.1.2.1, h.2.1.2.1.2.2⟩
  unfold processParamsKw
  rw [ppScan_sig]
  simp only [List.flatMap_cons, List.flatMap_nil, List.append_nil, processParams2_sig s hs,
    List.isEmpty_cons, Bool.false_eq_true, if_false, List.filter_append]
  rw [filter_kwOnly_map, filter_varKw_map]
  have e1 : (s.vk.map (P.pname .varKw)).toList.filter (fun p => decide (p.kind = .kwOnly)) = [] := by
    cases s.vk <;> simp [P.pname]
  have e2 : (s.vk.map (P.pname .varKw)).toList.filter (fun p => decide (p.kind = .varKw)) =
      (s.vk.map (P.pname .varKw)).toList := by
    cases s.vk <;> simp [P.pname]
  rw [e1, e2]
  simp only [if_true, List.append_nil, reduceCtorEq, if_false, List.nil_append]
  have hk : ppKwOnly (w.ko.map (P.pname .kwOnly) ++ (s.pk ++ s.ko).map (P.pname .kwOnly)) (w.pk.map P.name) =
      (w.ko ++ (s.pk ++ s.ko)).map (P.pname .kwOnly) := by
    rw [← List.map_append]
    apply ppKwOnly_id
    · intro p hp hm
      simp only [List.map_append, List.nodup_append, List.mem_map, List.mem_append] at h hm hp
      obtain ⟨q, hq, e⟩ := hm
      refine h.2.2 _ ⟨q, hq, rfl⟩ p.name ?_ e
      rcases hp with hp | hp | hp
      · exact Or.inl ⟨p, hp, rfl⟩
      · exact Or.inr (Or.inl ⟨p, hp, rfl⟩)
      · exact Or.inr (Or.inr ⟨p, hp, rfl⟩)
    · simp only [List.map_append, List.nodup_append] at h ⊢
      exact h.2.1
  rw [hk]
  have hh : (s.vk.map (P.pname .varKw)).toList.head?.toList = (s.vk.map (P.pname .varKw)).toList := by
    cases s.vk <;> simp
  rw [hh]
  rfl

end JediModel.Call

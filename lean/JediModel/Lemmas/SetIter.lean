import JediModel.Model.SetIter
/-! helper lemmas for `Model/SetIter` -/
namespace JediModel.SetIter
variable {α : Type}

/-- the `k`-th elements of the streams that have one -/
def column (k : Nat) (ss : List (List α)) : List α := ss.filterMap (·[k]?)

theorem heads_eq_column (ss : List (List α)) : heads ss = column 0 ss := by
  unfold heads column
  congr 1
  funext s
  cases s <;> rfl

theorem column_tails (k : Nat) (ss : List (List α)) : column k (tails ss) = column (k + 1) ss := by
  unfold column tails
  rw [List.filterMap_map]
  congr 1
  funext s
  cases s <;> simp

theorem columnsFuel_eq (n : Nat) (ss : List (List α)) :
    columnsFuel n ss = (List.range n).map fun k => column k ss := by
  induction n generalizing ss with
  | zero => rfl
  | succ n ih =>
    rw [columnsFuel, ih, heads_eq_column, List.range_succ_eq_map]
    simp [column_tails, Function.comp_def]

theorem length_le_maxLen {s : List α} {ss : List (List α)} (h : s ∈ ss) : s.length ≤ maxLen ss := by
  induction ss with
  | nil => cases h
  | cons t ts ih =>
    simp only [maxLen]
    rcases List.mem_cons.mp h with rfl | h
    · exact Nat.le_max_left _ _
    · exact Nat.le_trans (ih h) (Nat.le_max_right _ _)

theorem zipLongest_get (ss : List (List α)) (k : Nat) (h : k < maxLen ss) :
    (zipLongest ss)[k]? = some (column k ss) := by
  unfold zipLongest
  rw [columnsFuel_eq]
  simp [h]

theorem zipLongest_get_none (ss : List (List α)) (k : Nat) (h : maxLen ss ≤ k) :
    (zipLongest ss)[k]? = none := by
  unfold zipLongest
  rw [columnsFuel_eq]
  simp [h]

theorem mem_column {k : Nat} {ss : List (List α)} {x : α} :
    x ∈ column k ss ↔ ∃ s ∈ ss, s[k]? = some x := by
  unfold column
  simp [List.mem_filterMap]

end JediModel.SetIter

import JediModel.Model.Scopes
namespace JediModel.Scopes

theorem mem_indices (p : Prog) (f : Nat → Occ → Bool) (i : Nat) :
    i ∈ p.indices f ↔ ∃ o, p.occs[i]? = some o ∧ f i o = true := by
  unfold Prog.indices
  simp only [List.mem_map, List.mem_filter, Prod.exists]
  constructor
  · rintro ⟨o, j, ⟨hm, hf⟩, rfl⟩
    exact ⟨o, List.mem_zipIdx_iff_getElem?.mp hm, hf⟩
  · rintro ⟨o, ho, hf⟩
    exact ⟨o, i, ⟨List.mem_zipIdx_iff_getElem?.mpr ho, hf⟩, rfl⟩

theorem mem_defsIn (p : Prog) (s x : Nat) (lim : Option Nat) (d : Nat) :
    d ∈ defsIn p s x lim ↔ ∃ o, p.occs[d]? = some o ∧ o.name = x ∧ o.scope = s ∧
      o.role.isDef = true ∧ (∀ u, lim = some u → d < u) := by
  unfold defsIn
  rw [mem_indices]
  constructor
  · rintro ⟨o, ho, hf⟩
    simp only [Bool.and_eq_true, beq_iff_eq] at hf
    refine ⟨o, ho, hf.1.1.1, hf.1.1.2, hf.1.2, ?_⟩
    intro u hu
    subst hu
    simpa using hf.2
  · rintro ⟨o, ho, hn, hs, hd, hl⟩
    refine ⟨o, ho, ?_⟩
    simp only [Bool.and_eq_true, beq_iff_eq]
    refine ⟨⟨⟨hn, hs⟩, hd⟩, ?_⟩
    cases lim with
    | none => rfl
    | some u => simpa using hl u rfl

theorem mem_globalDecls (p : Prog) (x d : Nat) :
    d ∈ globalDecls p x ↔ ∃ o, p.occs[d]? = some o ∧ o.name = x ∧ o.role = .globalDecl := by
  unfold globalDecls
  rw [mem_indices]
  simp [Bool.and_eq_true, beq_iff_eq]

theorem mem_lastOf {l : List Nat} {d : Nat} (h : d ∈ lastOf l) : d ∈ l := by
  unfold lastOf at h
  split at h
  · rename_i i hi
    simp only [List.mem_singleton] at h
    subst h
    exact List.mem_of_getLast? hi
  · simp at h

theorem lastOf_eq_nil {l : List Nat} (h : lastOf l = []) : l = [] := by
  unfold lastOf at h
  split at h
  · cases h
  · rename_i hl
    exact List.getLast?_eq_none_iff.mp hl

theorem lastOf_ne_nil {l : List Nat} (h : l ≠ []) : lastOf l ≠ [] := by
  intro h'
  exact h (lastOf_eq_nil h')

/-- what the proofs need to know about `_check_flows`: it selects among the given names and
selects nothing only when there is nothing -/
structure IsSel (sel : List Nat → List Nat) : Prop where
  sub : ∀ {l d}, d ∈ sel l → d ∈ l
  nil : ∀ {l}, sel l = [] → l = []

theorem isSel_lastOf : IsSel lastOf := ⟨mem_lastOf, lastOf_eq_nil⟩
theorem isSel_id : IsSel id := ⟨fun h => h, fun h => h⟩

/-- a landing of the chain walk is a definition or a `global` declaration of `x` -/
theorem gotoFromSel_landing {sel : List Nat → List Nat} (hsel : IsSel sel) (p : Prog) (x : Nat)
    (fuel ctx : Nat) (lim : Option Nat) (d : Nat)
    (h : d ∈ gotoFromSel sel p x fuel ctx lim) :
    ∃ o, p.occs[d]? = some o ∧ o.name = x ∧ (o.role.isDef = true ∨ o.role = .globalDecl) := by
  induction fuel generalizing ctx lim with
  | zero => simp [gotoFromSel] at h
  | succ n ih =>
    have fromDefs : ∀ s l, d ∈ sel (defsIn p s x l) →
        ∃ o, p.occs[d]? = some o ∧ o.name = x ∧ (o.role.isDef = true ∨ o.role = .globalDecl) := by
      intro s l hd
      obtain ⟨o, ho, hn, -, hdef, -⟩ := (mem_defsIn p s x l d).mp (hsel.sub hd)
      exact ⟨o, ho, hn, Or.inl hdef⟩
    unfold gotoFromSel at h
    split at h
    · rcases List.mem_append.mp h with h | h
      · exact fromDefs _ _ h
      · obtain ⟨o, ho, hn, hr⟩ := (mem_globalDecls p x d).mp h
        exact ⟨o, ho, hn, Or.inr hr⟩
    · split at h
      · exact ih _ _ h
      · rename_i r hr
        exact fromDefs _ _ h
    · split at h
      · exact ih _ _ h
      · exact fromDefs _ _ h
    · split at h
      · exact ih _ _ h
      · exact fromDefs _ _ h
    · split at h
      · exact ih _ _ h
      · exact fromDefs _ _ h

theorem gotoFrom_landing (p : Prog) (x : Nat) (fuel ctx : Nat) (lim : Option Nat) (d : Nat)
    (h : d ∈ gotoFrom p x fuel ctx lim) :
    ∃ o, p.occs[d]? = some o ∧ o.name = x ∧ (o.role.isDef = true ∨ o.role = .globalDecl) :=
  gotoFromSel_landing isSel_lastOf p x fuel ctx lim d h

theorem bindsIn_of_mem_defsIn {p : Prog} {s x : Nat} {lim : Option Nat} {d : Nat}
    (h : d ∈ defsIn p s x lim) : bindsIn p s x = true := by
  obtain ⟨o, ho, hn, hs, hd, -⟩ := (mem_defsIn p s x lim d).mp h
  unfold bindsIn
  rw [List.any_eq_true]
  refine ⟨o, List.mem_of_getElem? ho, ?_⟩
  simp [hn, hs, hd]

theorem boundBefore_of_mem_defsIn {p : Prog} {s x u d : Nat}
    (h : d ∈ defsIn p s x (some u)) : boundBefore p s x u = true := by
  unfold boundBefore
  simp only [gt_iff_lt, decide_eq_true_eq]
  exact List.length_pos_of_mem h

/-- the variable written by a definition occurrence in scope `s` -/
theorem varOf_of_def {p : Prog} {d : Nat} {o : Occ} (ho : p.occs[d]? = some o)
    (hd : o.role.isDef = true) : varOf p d = ownerOfBinding p o.scope o.name := by
  unfold varOf
  rw [ho]
  cases hr : o.role <;> simp_all [Role.isDef]

theorem varOf_of_use {p : Prog} {u : Nat} {o : Occ} (ho : p.occs[u]? = some o)
    (hr : o.role = .use) : varOf p u = ownerOfUse p o.scope o.name o.stmt := by
  unfold varOf
  rw [ho]
  simp [hr]

/-- a use that finds a binding of its name in its own scope before it reads the variable
that binding writes -/
theorem ownerOfUse_eq_of_local_def {p : Prog} {s x u d : Nat}
    (h : d ∈ defsIn p s x (some u)) : ownerOfUse p s x u = ownerOfBinding p s x := by
  have hb := bindsIn_of_mem_defsIn h
  have hbb := boundBefore_of_mem_defsIn h
  unfold ownerOfUse ownerOfBinding
  by_cases hm : p.kind s = .module
  · simp [hm]
  · simp only [hm, if_false]
    by_cases hg : declaredGlobal p s x = true
    · simp [hg]
    · simp only [hg, Bool.false_eq_true, if_false]
      by_cases hn : declaredNonlocal p s x = true
      · simp [hn]
      · simp [hn, hb, hbb]

end JediModel.Scopes

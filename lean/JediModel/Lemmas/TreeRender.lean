import JediModel.Model.Tree
/-! Laws of `render` (parso's `RefactoringNormalizer` walk): the empty map renders the
code itself; with any map, code and rendering decompose into the *same* sequence of
pieces and differ only at the pieces that are (outermost) mapped nodes. -/
namespace JediModel.Tree
open JediModel.Text

/-- one chunk of the walk: what the chunk is in `code`, what it is in `render`,
and the id of the mapped node it comes from (`none` = an untouched leaf) -/
structure Piece where
  old : Str
  new : Str
  mapped : Option Nat
deriving Repr, DecidableEq

mutual
  /-- the chunks `RefactoringNormalizer.walk` emits, in order -/
  def pieces (m : Map) : T → List Piece
    | .leaf i _ p v => match m.get? i with
      | some s => [⟨p ++ v, s, some i⟩]
      | none => [⟨p ++ v, p ++ v, none⟩]
    | .node i _ cs => match m.get? i with
      | some s => [⟨codeList cs, s, some i⟩]
      | none => piecesList m cs
  def piecesList (m : Map) : List T → List Piece
    | [] => []
    | c :: cs => pieces m c ++ piecesList m cs
end

def olds (ps : List Piece) : Str := (ps.map (·.old)).flatten
def news (ps : List Piece) : Str := (ps.map (·.new)).flatten

@[simp] theorem olds_nil : olds [] = [] := rfl
@[simp] theorem news_nil : news [] = [] := rfl
@[simp] theorem olds_append (a b : List Piece) : olds (a ++ b) = olds a ++ olds b := by
  simp [olds]
@[simp] theorem news_append (a b : List Piece) : news (a ++ b) = news a ++ news b := by
  simp [news]

@[simp] theorem Map.get?_nil (i : Nat) : Map.get? [] i = none := rfl

mutual
  theorem render_nil : ∀ t : T, render [] t = code t
    | .leaf _ _ _ _ => by simp [render, code]
    | .node _ _ cs => by simp [render, code, renderList_nil cs]
  theorem renderList_nil : ∀ cs : List T, renderList [] cs = codeList cs
    | [] => by simp [renderList, codeList]
    | c :: cs => by simp [renderList, codeList, render_nil c, renderList_nil cs]
end

mutual
  theorem code_eq_olds (m : Map) : ∀ t : T, code t = olds (pieces m t)
    | .leaf i _ p v => by
      unfold pieces; cases m.get? i <;> simp [code, olds]
    | .node i _ cs => by
      unfold pieces; cases m.get? i
      · simp [code, codeList_eq_olds m cs]
      · simp [code, olds]
  theorem codeList_eq_olds (m : Map) : ∀ cs : List T, codeList cs = olds (piecesList m cs)
    | [] => by simp [codeList, piecesList]
    | c :: cs => by simp [codeList, piecesList, code_eq_olds m c, codeList_eq_olds m cs]
end

mutual
  theorem render_eq_news (m : Map) : ∀ t : T, render m t = news (pieces m t)
    | .leaf i _ p v => by
      unfold pieces render; cases m.get? i <;> simp [news]
    | .node i _ cs => by
      unfold pieces render; cases m.get? i
      · simp [renderList_eq_news m cs]
      · simp [news]
  theorem renderList_eq_news (m : Map) : ∀ cs : List T, renderList m cs = news (piecesList m cs)
    | [] => by simp [renderList, piecesList]
    | c :: cs => by simp [renderList, piecesList, render_eq_news m c, renderList_eq_news m cs]
end

mutual
  theorem pieces_spec (m : Map) : ∀ (t : T) (p : Piece), p ∈ pieces m t →
      (p.mapped = none → p.new = p.old) ∧ (∀ i, p.mapped = some i → m.get? i = some p.new)
    | .leaf i _ pf v, p, h => by
      unfold pieces at h
      cases hm : m.get? i <;> simp [hm] at h <;> subst h <;> simp [hm]
    | .node i _ cs, p, h => by
      unfold pieces at h
      cases hm : m.get? i
      · simp [hm] at h; exact piecesList_spec m cs p h
      · simp [hm] at h; subst h; simp [hm]
  theorem piecesList_spec (m : Map) : ∀ (cs : List T) (p : Piece), p ∈ piecesList m cs →
      (p.mapped = none → p.new = p.old) ∧ (∀ i, p.mapped = some i → m.get? i = some p.new)
    | [], p, h => by simp [piecesList] at h
    | c :: cs, p, h => by
      simp only [piecesList, List.mem_append] at h
      cases h with
      | inl h => exact pieces_spec m c p h
      | inr h => exact piecesList_spec m cs p h
end

/-- a rendering with no mapped piece is the code itself -/
theorem news_eq_olds_of_unmapped (ps : List Piece) (h : ∀ p ∈ ps, p.new = p.old) :
    news ps = olds ps := by
  induction ps with
  | nil => rfl
  | cons p ps ih =>
    have h1 := h p (by simp)
    have h2 := ih (fun q hq => h q (by simp [hq]))
    simp only [news, olds, List.map_cons, List.flatten_cons] at *
    rw [h1, h2]

end JediModel.Tree

import JediModel.Model.IterArgs
/-! Totality of the argument scan (`Model/IterArgs`) on every well-formed parso node list. -/
namespace JediModel.IterArgs

/-- node types whose objects are `BaseNode`s with children the scan indexes -/
def nodeTypes : List Str := [sArgument, sTestlistStarExpr, sArglist, sStarExpr]

/-- The parso facts the scan relies on.  A leaf has a `value` and no children, and its type is
not one of the four node types the scan looks into.  An inner node has no `value`, compares by
identity, is no `PythonLeaf`, is not of type `name`, has at least one child, starts where its
first child starts; `argument` and `star_expr` nodes have at least two children (grammar:
`test '=' test`, `'*' test`, `test comp_for`, `test ':=' test`; `'*' expr`). -/
inductive WF : Node → Prop
  | leaf (t : Str) (v : Str) (k l : Bool) (s : Pos) : t ∉ nodeTypes → WF (.mk t (some v) k l s [])
  | node (t : Str) (s : Pos) (c : Node) (cs : List Node) :
      t ≠ sName → c.start = s → (∀ x ∈ c :: cs, WF x) →
      (t = sArgument ∨ t = sStarExpr → cs ≠ []) → WF (.mk t none false false s (c :: cs))

theorem wf_name_value {n : Node} (h : WF n) (ht : n.type = sName) : ∃ v, n.value = some v := by
  cases h with
  | leaf t v k l s _ => exact ⟨v, rfl⟩
  | node t s c cs hn _ _ _ => exact absurd ht hn

theorem wf_cmp_value {n : Node} (h : WF n) (hc : n.cmp = true) : ∃ v, n.value = some v := by
  cases h with
  | leaf t v k l s _ => exact ⟨v, rfl⟩
  | node t s c cs _ _ _ _ => simp [Node.cmp] at hc

theorem wf_pyLeaf_value {n : Node} (h : WF n) (hc : n.pyLeaf = true) : ∃ v, n.value = some v := by
  cases h with
  | leaf t v k l s _ => exact ⟨v, rfl⟩
  | node t s c cs _ _ _ _ => simp [Node.pyLeaf] at hc

theorem wf_eqStr_value {n : Node} {s : Str} (h : WF n) (hc : n.eqStr s = true) : ∃ v, n.value = some v := by
  unfold Node.eqStr at hc
  simp only [Bool.and_eq_true] at hc
  exact wf_cmp_value h hc.1

theorem wf_children {n : Node} (h : WF n) : ∀ c ∈ n.children, WF c := by
  cases h with
  | leaf t v k l s _ => intro c hc; simp [Node.children] at hc
  | node t s c cs _ _ hall _ => exact hall

/-- a well-formed object of one of the four node types is an inner node: first child at the same
position -/
theorem wf_nodeType_children {n : Node} (h : WF n) (ht : n.type ∈ nodeTypes) :
    ∃ c cs, n.children = c :: cs ∧ c.start = n.start := by
  cases h with
  | leaf t v k l s hnot => exact absurd ht hnot
  | node t s c cs _ hs _ _ => exact ⟨c, cs, rfl, hs⟩

theorem wf_two_children {n : Node} (h : WF n) (ht : n.type = sArgument ∨ n.type = sStarExpr) :
    ∃ a b rest, n.children = a :: b :: rest := by
  cases h with
  | leaf t v k l s hnot =>
    exfalso; apply hnot
    rcases ht with ht | ht <;> simp [Node.type] at ht <;> simp [nodeTypes, ht]
  | node t s c cs _ _ _ h2 =>
    have := h2 ht
    cases cs with
    | nil => exact absurd rfl this
    | cons b rest => exact ⟨c, b, rest, rfl⟩

theorem readValue_ok {n : Node} {v : Str} (h : n.value = some v) : readValue n = .ok v := by
  simp [readValue, h]

theorem removeAfterPos_ok (pos : Pos) {n : Node} (h : WF n) :
    ∃ k, removeAfterPos stdGuards pos n = .ok k := by
  unfold removeAfterPos
  by_cases ht : n.type = sName
  · obtain ⟨v, hv⟩ := wf_name_value h ht
    simp [stdGuards, ht, readValue_ok hv, bind, Except.bind]
  · simp [stdGuards, ht]

mutual
theorem firstLeaf_ok : (n : Node) → WF n → ∃ l, n.firstLeaf = some l ∧ WF l
  | .mk t (some v) k l s cs, h => ⟨_, by simp [Node.firstLeaf], h⟩
  | .mk t none k l s cs, h => by
    cases h with
    | node _ _ c cs' _ _ hall _ =>
      have := firstLeafList_ok (c :: cs') (by simp) hall
      simpa [Node.firstLeaf] using this
theorem firstLeafList_ok : (cs : List Node) → cs ≠ [] → (∀ c ∈ cs, WF c) →
    ∃ l, firstLeafList cs = some l ∧ WF l
  | [], h, _ => absurd rfl h
  | c :: _, _, h => by
    have := firstLeaf_ok c (h c (by simp))
    simpa [firstLeafList] using this
end

theorem mem_everyOther : ∀ (xs : List Node) (x : Node), x ∈ everyOther xs → x ∈ xs
  | [], x, h => by simp [everyOther] at h
  | [a], x, h => by simpa [everyOther] using h
  | a :: b :: rest, x, h => by
    simp only [everyOther, List.mem_cons] at h
    rcases h with h | h
    · simp [h]
    · have := mem_everyOther rest x h
      simp [this]

theorem testlistLoop_ok (pos : Pos) : ∀ (ns : List Node) (stars : Nat), (∀ n ∈ ns, WF n) →
    ∃ ts, testlistLoop stdGuards pos ns stars = .ok ts
  | [], _, _ => ⟨[], rfl⟩
  | n :: rest, stars, h => by
    have hn : WF n := h n (by simp)
    obtain ⟨more, hmore⟩ := testlistLoop_ok pos rest 0 (fun x hx => h x (by simp [hx]))
    unfold testlistLoop
    by_cases ht : n.type = sStarExpr
    · obtain ⟨a, b, r, hc⟩ := wf_two_children hn (Or.inr ht)
      have hb : WF b := wf_children hn b (by simp [hc])
      obtain ⟨k, hk⟩ := removeAfterPos_ok pos hb
      simp [ht, hc, idx, hk, hmore, bind, Except.bind, pure, Except.pure]
    · obtain ⟨k, hk⟩ := removeAfterPos_ok pos hn
      simp [ht, hk, hmore, bind, Except.bind, pure, Except.pure]

/-- closes `∃ ts st', (a = ts ∧ b = st') ∧ st'.prev = node` goals left by `simp` -/
macro "fin" : tactic =>
  `(tactic| first | done | exact ⟨_, _, ⟨rfl, rfl⟩, rfl⟩ | exact ⟨_, _, rfl, rfl⟩)

/-- one step of the scan cannot fail on a well-formed node, and keeps `prev` well-formed -/
theorem step_ok (pos : Pos) (st : State) {node : Node} (h : WF node) (hp : WF st.prev) :
    ∃ ts st', step stdGuards pos st node = .ok (ts, st') ∧ st'.prev = node := by
  unfold step
  by_cases ha : node.type = sArgument
  · obtain ⟨first, second, r, hc⟩ := wf_two_children h (Or.inl ha)
    have hf : WF first := wf_children h first (by simp [hc])
    have hs : WF second := wf_children h second (by simp [hc])
    obtain ⟨kf, hkf⟩ := removeAfterPos_ok pos hf
    obtain ⟨ks, hks⟩ := removeAfterPos_ok pos hs
    simp only [ha, hc, idx, if_true, beq_self_eq_true]
    by_cases he : second.eqStr sEq = true
    · by_cases hcond : (second.start.lt pos && (!stdGuards.argKwFirst || first.type == sName)) = true
      · have hname : first.type = sName := by
          simp [stdGuards] at hcond
          exact hcond.2
        obtain ⟨v, hv⟩ := wf_name_value hf hname
        simp [he, hcond, readValue_ok hv, bind, Except.bind, pure, Except.pure] <;> fin
      · simp [he, hcond, hkf, bind, Except.bind, pure, Except.pure] <;> fin
    · by_cases hstar : (first.eqStr sStar || first.eqStr sStarStar) = true
      · have : ∃ v, first.value = some v := by
          simp only [Bool.or_eq_true] at hstar
          rcases hstar with h1 | h1 <;> exact wf_eqStr_value hf h1
        obtain ⟨v, hv⟩ := this
        simp [he, hstar, readValue_ok hv, hks, bind, Except.bind, pure, Except.pure] <;> fin
      · obtain ⟨fl, hfl, hwf⟩ := firstLeaf_ok node h
        obtain ⟨kl, hkl⟩ := removeAfterPos_ok pos hwf
        by_cases hc2 : (fl.type == sName && !(fl.start.lt pos)) = true
        · simp [he, hstar, hfl, hc2, hkl, bind, Except.bind, pure, Except.pure] <;> fin
        · simp [he, hstar, hfl, hc2, bind, Except.bind, pure, Except.pure] <;> fin
  · by_cases hb : node.type = sTestlistStarExpr
    · obtain ⟨ts, hts⟩ := testlistLoop_ok pos (everyOther node.children) st.stars
        (fun x hx => wf_children h x (mem_everyOther _ _ hx))
      simp [hb, hts, bind, Except.bind] <;> fin
    · simp only [ha, hb, beq_iff_eq, if_false]
      -- the comma test
      by_cases hl : node.pyLeaf = true
      · obtain ⟨v, hv⟩ := wf_pyLeaf_value h hl
        simp only [stdGuards, hl, readValue_ok hv, Bool.not_true, Bool.and_false,
          bind, Except.bind, pure, Except.pure]
        by_cases hcomma : v == sComma
        · by_cases hy : st.yielded <;> simp [hcomma, hy] <;> fin
        · simp only [hcomma]
          by_cases hstar : (v == sStar || v == sStarStar) = true
          · simp [hstar] <;> fin
          · simp only [hstar]
            by_cases he : node.eqStr sEq = true
            · simp only [he, if_true]
              by_cases hn : st.prev.type = sName
              · obtain ⟨w, hw⟩ := wf_name_value hp hn
                simp [hn, readValue_ok hw] <;> fin
              · simp [hn] <;> fin
            · simp [he] <;> fin
      · have hl' : node.pyLeaf = false := by simpa using hl
        simp only [stdGuards, hl', Bool.not_false, Bool.and_true, if_true, bind, Except.bind,
          pure, Except.pure]
        by_cases he : node.eqStr sEq = true
        · simp only [he, if_true]
          by_cases hn : st.prev.type = sName
          · obtain ⟨w, hw⟩ := wf_name_value hp hn
            simp [hn, readValue_ok hw] <;> fin
          · simp [hn] <;> fin
        · simp [he] <;> fin

theorem loop_ok (pos : Pos) : ∀ (ns : List Node) (st : State), (∀ n ∈ ns, WF n) → WF st.prev →
    ∃ r, loop stdGuards pos ns st = .ok r
  | [], st, _, _ => ⟨([], st), rfl⟩
  | n :: rest, st, h, hp => by
    obtain ⟨ts, st', hs, hprev⟩ := step_ok pos st (h n (by simp)) hp
    have hp' : WF st'.prev := by rw [hprev]; exact h n (by simp)
    obtain ⟨⟨ts', st2⟩, hl⟩ := loop_ok pos rest st' (fun x hx => h x (by simp [hx])) hp'
    exact ⟨(ts ++ ts', st2), by simp [loop, hs, hl, bind, Except.bind]⟩

theorem flat_ok (pos : Pos) (nb : List Node) (last : Node) (h : ∀ n ∈ nb, WF n) (hl : WF last) :
    ∃ ts, flat stdGuards pos nb last = .ok ts := by
  obtain ⟨⟨ts, st⟩, hloop⟩ := loop_ok pos nb { yielded := false, stars := 0, prev := last } h hl
  obtain ⟨k, hk⟩ := removeAfterPos_ok pos hl
  unfold flat
  simp only [hloop, bind, Except.bind]
  by_cases hy : st.yielded <;> by_cases hn : last.type = sName <;> simp [hy, hn, hk]

theorem depth_le_of_mem_aux : (cs : List Node) → (n : Node) → n ∈ cs → n.depth ≤ depthList cs
  | [], _, h => by simp at h
  | c :: rest, n, h => by
    simp only [List.mem_cons] at h
    rw [depthList]
    rcases h with h | h
    · subst h; exact Nat.le_max_left _ _
    · exact Nat.le_trans (depth_le_of_mem_aux rest n h) (Nat.le_max_right _ _)

theorem depth_children (n : Node) : n.depth = depthList n.children + 1 := by
  cases n with
  | mk t v k l s cs => simp [Node.depth, Node.children]

/-- `iterArguments` with the guards of the source as it stands is total on well-formed node lists
one of whose members starts before the cursor (the opening bracket, which
`get_signature_details` puts first) -/
theorem iterArguments_std_total (pos : Pos) : ∀ (fuel : Nat) (nodes : List Node),
    depthList nodes < fuel → (∀ n ∈ nodes, WF n) → (∃ n ∈ nodes, n.start.lt pos = true) →
    ∃ ts, iterArguments stdGuards pos fuel nodes = .ok ts
  | 0, _, hd, _, _ => absurd hd (Nat.not_lt_zero _)
  | fuel + 1, nodes, hd, hwf, hex => by
    obtain ⟨w, hw, hwlt⟩ := hex
    have hmem : w ∈ nodes.filter (fun c => c.start.lt pos) := by simp [List.mem_filter, hw, hwlt]
    have hne : nodes.filter (fun c => c.start.lt pos) ≠ [] := List.ne_nil_of_mem hmem
    obtain ⟨last, hlast⟩ : ∃ last, (nodes.filter (fun c => c.start.lt pos)).getLast? = some last := by
      cases hg : (nodes.filter (fun c => c.start.lt pos)).getLast? with
      | none => exact absurd (List.getLast?_eq_none_iff.mp hg) hne
      | some l => exact ⟨l, rfl⟩
    have hlmem : last ∈ nodes.filter (fun c => c.start.lt pos) := List.mem_of_getLast? hlast
    have hl2 := List.mem_filter.mp hlmem
    have hlwf : WF last := hwf last hl2.1
    unfold iterArguments
    simp only [hlast]
    by_cases ht : last.type = sArglist
    · simp only [ht, beq_self_eq_true, if_true]
      obtain ⟨c, cs, hc, hcs⟩ := wf_nodeType_children hlwf (by simp [nodeTypes, ht])
      apply iterArguments_std_total pos fuel last.children
      · have h1 := depth_le_of_mem_aux nodes last hl2.1
        rw [depth_children] at h1
        omega
      · exact wf_children hlwf
      · exact ⟨c, by simp [hc], by rw [hcs]; exact hl2.2⟩
    · have : (last.type == sArglist) = false := by simpa using ht
      simp only [this]
      exact flat_ok pos _ last (fun n hn => hwf n (List.mem_filter.mp hn).1) hlwf

end JediModel.IterArgs

import JediModel.Model.PyCoreAbs
namespace JediModel.PyCore

/-! ### the abstraction relation -/

theorem coversAny_iff {v : Val} {ss : List Shape} :
    coversAny v ss = true ↔ ∃ s ∈ ss, covers v s = true := by
  induction ss with
  | nil => simp [coversAny]
  | cons s ss ih =>
    simp only [coversAny, Bool.or_eq_true, ih, List.mem_cons]
    constructor
    · rintro (h | ⟨s', hs', h⟩)
      · exact ⟨s, Or.inl rfl, h⟩
      · exact ⟨s', Or.inr hs', h⟩
    · rintro ⟨s', (rfl | hs'), h⟩
      · exact Or.inl h
      · exact Or.inr ⟨s', hs', h⟩

theorem coversAny_of_mem {v : Val} {ss : List Shape} {s : Shape} (hs : s ∈ ss)
    (h : covers v s = true) : coversAny v ss = true :=
  coversAny_iff.mpr ⟨s, hs, h⟩

theorem coversAny_append_left {v : Val} {a b : List Shape} (h : coversAny v a = true) :
    coversAny v (a ++ b) = true := by
  obtain ⟨s, hs, hc⟩ := coversAny_iff.mp h
  exact coversAny_of_mem (List.mem_append_left _ hs) hc

theorem coversAny_append_right {v : Val} {a b : List Shape} (h : coversAny v b = true) :
    coversAny v (a ++ b) = true := by
  obtain ⟨s, hs, hc⟩ := coversAny_iff.mp h
  exact coversAny_of_mem (List.mem_append_right _ hs) hc

theorem coversAny_flatMap {v : Val} {l : List Shape} {f : Shape → List Shape} {s : Shape}
    (hs : s ∈ l) (h : coversAny v (f s) = true) : coversAny v (l.flatMap f) = true := by
  obtain ⟨t, ht, hc⟩ := coversAny_iff.mp h
  exact coversAny_of_mem (List.mem_flatMap.mpr ⟨s, hs, ht⟩) hc

theorem covers_tuple {vs : List Val} {s : Shape} (h : covers (.tuple vs) s = true) :
    ∃ elems, s = .tuple elems ∧ coversList vs elems = true := by
  cases s <;> simp [covers] at h
  exact ⟨_, rfl, h⟩

theorem covers_func {i : Nat} {s : Shape} (h : covers (.func i) s = true) : s = .func i := by
  cases s <;> simp [covers] at h
  subst h; rfl

theorem covers_cls {i : Nat} {s : Shape} (h : covers (.cls i) s = true) : s = .cls i := by
  cases s <;> simp [covers] at h
  subst h; rfl

theorem covers_inst {i : Nat} {s : Shape} (h : covers (.inst i) s = true) : s = .inst i := by
  cases s <;> simp [covers] at h
  subst h; rfl

theorem coversList_getElem {vs : List Val} {ss : List (List Shape)} (h : coversList vs ss = true)
    {k : Nat} {v : Val} (hv : vs[k]? = some v) :
    ∃ sk, ss[k]? = some sk ∧ coversAny v sk = true := by
  induction vs generalizing ss k with
  | nil => simp at hv
  | cons a as ih =>
    cases ss with
    | nil => simp [coversList] at h
    | cons s ss =>
      simp only [coversList, Bool.and_eq_true] at h
      cases k with
      | zero =>
        simp only [List.getElem?_cons_zero, Option.some.injEq] at hv
        subst hv
        exact ⟨s, by simp, h.1⟩
      | succ k =>
        simp only [List.getElem?_cons_succ] at hv ⊢
        exact ih h.2 hv

theorem coversList_length {vs : List Val} {ss : List (List Shape)} (h : coversList vs ss = true) :
    vs.length = ss.length := by
  induction vs generalizing ss with
  | nil => cases ss <;> simp [coversList] at h ⊢
  | cons a as ih =>
    cases ss with
    | nil => simp [coversList] at h
    | cons s ss =>
      simp only [coversList, Bool.and_eq_true] at h
      simp [ih h.2]

theorem mapOpt_covers {f : Expr → Option Val} {g : Expr → List Shape} (es : List Expr)
    (h : ∀ e v, f e = some v → coversAny v (g e) = true) {vs : List Val}
    (hm : mapOpt f es = some vs) : coversList vs (es.map g) = true := by
  induction es generalizing vs with
  | nil =>
    simp only [mapOpt, Option.some.injEq] at hm
    subst hm
    rfl
  | cons e es ih =>
    unfold mapOpt at hm
    cases hfe : f e with
    | none => simp [hfe] at hm
    | some b =>
      cases hrest : mapOpt f es with
      | none => simp [hfe, hrest] at hm
      | some bs =>
        simp only [hfe, hrest, Option.some.injEq] at hm
        subst hm
        simp only [List.map_cons, coversList, Bool.and_eq_true]
        exact ⟨h e b hfe, ih hrest⟩

/-! ### contexts -/

def CtxRel : CtxC → CtxA → Prop
  | .module i, .module j => i = j
  | .func i vs, .func j as => i = j ∧ coversList vs as = true
  | _, _ => False

/-- the three simulation statements at one fuel level -/
structure Sound (p : Prog) (fuel : Nat) : Prop where
  eval : ∀ cc ca e v, CtxRel cc ca → evalC p fuel cc e = some v →
    coversAny v (mayE p fuel ca e) = true
  name : ∀ x lim v, nameC p fuel x lim = some v → coversAny v (nameA p fuel x lim) = true
  attr : ∀ id a v, attrC p fuel id a = some v → coversAny v (attrA p fuel id a) = true

theorem sound_zero (p : Prog) : Sound p 0 :=
  ⟨by intro cc ca e v _ h; simp [evalC] at h,
   by intro x lim v h; simp [nameC] at h,
   by intro id a v h; simp [attrC] at h⟩

theorem sound_eval_succ (p : Prog) (n : Nat) (ih : Sound p n) :
    ∀ cc ca e v, CtxRel cc ca → evalC p (n + 1) cc e = some v →
      coversAny v (mayE p (n + 1) ca e) = true := by
  intro cc ca e v hrel h
  cases e with
  | int =>
    simp only [evalC, Option.some.injEq] at h
    subst h
    simp [mayE, coversAny, covers]
  | str =>
    simp only [evalC, Option.some.injEq] at h
    subst h
    simp [mayE, coversAny, covers]
  | name x =>
    cases cc with
    | module pos =>
      cases ca with
      | module pos' =>
        have : pos = pos' := hrel
        subst this
        simp only [evalC] at h
        simp only [mayE]
        exact ih.name x pos v h
      | func _ _ => exact absurd hrel (by simp [CtxRel])
    | func id args =>
      cases ca with
      | module _ => exact absurd hrel (by simp [CtxRel])
      | func id' as =>
        obtain ⟨hid, hargs⟩ := hrel
        subst hid
        simp only [evalC] at h
        simp only [mayE]
        cases hp : p[id]? with
        | none => simp [hp] at h
        | some st =>
          cases st with
          | defn f params ret =>
            simp only [hp] at h ⊢
            cases hi : indexOf params x with
            | some i =>
              simp only [hi] at h ⊢
              obtain ⟨sk, hsk, hc⟩ := coversList_getElem hargs h
              simp [hsk, hc]
            | none =>
              simp only [hi] at h ⊢
              exact ih.name x p.length v h
          | assign _ _ => simp [hp] at h
          | unpack _ _ => simp [hp] at h
          | klass _ _ _ => simp [hp] at h
          | probe _ => simp [hp] at h
  | tuple es =>
    simp only [evalC, Option.map_eq_some_iff] at h
    obtain ⟨vs, hvs, rfl⟩ := h
    simp only [mayE, coversAny, Bool.or_false, covers]
    exact mapOpt_covers es (fun e v hv => ih.eval cc ca e v hrel hv) hvs
  | index e k =>
    simp only [evalC] at h
    cases he : evalC p n cc e with
    | none => simp [he] at h
    | some w =>
      cases w with
      | tuple vs =>
        simp only [he] at h
        have hcov := ih.eval cc ca e _ hrel he
        obtain ⟨s, hs, hc⟩ := coversAny_iff.mp hcov
        obtain ⟨elems, rfl, hl⟩ := covers_tuple hc
        obtain ⟨sk, hsk, hck⟩ := coversList_getElem hl h
        simp only [mayE]
        apply coversAny_flatMap hs
        simp [hsk, hck]
      | int => simp [he] at h
      | str => simp [he] at h
      | func _ => simp [he] at h
      | cls _ => simp [he] at h
      | inst _ => simp [he] at h
  | call f args =>
    simp only [evalC] at h
    cases hf : evalC p n cc f with
    | none => simp [hf] at h
    | some fv =>
      cases hm : mapOpt (evalC p n cc) args with
      | none =>
        simp only [hf, hm] at h
        cases fv <;> simp at h
      | some vs =>
        have hargs : coversList vs (args.map (mayE p n ca)) = true :=
          mapOpt_covers args (fun e v hv => ih.eval cc ca e v hrel hv) hm
        have hcovf := ih.eval cc ca f _ hrel hf
        obtain ⟨s, hs, hc⟩ := coversAny_iff.mp hcovf
        simp only [mayE]
        cases fv with
        | func id =>
          simp only [hf, hm] at h
          have := covers_func hc
          subst this
          apply coversAny_flatMap hs
          cases hp : p[id]? with
          | none => simp [hp] at h
          | some st =>
            cases st with
            | defn g params ret =>
              simp only [hp] at h ⊢
              split at h
              · exact ih.eval (.func id vs) (.func id (args.map (mayE p n ca))) ret v ⟨rfl, hargs⟩ h
              · cases h
            | assign _ _ => simp [hp] at h
            | unpack _ _ => simp [hp] at h
            | klass _ _ _ => simp [hp] at h
            | probe _ => simp [hp] at h
        | cls id =>
          simp only [hf, hm] at h
          have := covers_cls hc
          subst this
          apply coversAny_flatMap hs
          split at h
          · simp only [Option.some.injEq] at h
            subst h
            simp [coversAny, covers]
          · cases h
        | int => simp [hf, hm] at h
        | str => simp [hf, hm] at h
        | tuple _ => simp [hf, hm] at h
        | inst _ => simp [hf, hm] at h
  | attr e a =>
    simp only [evalC] at h
    cases he : evalC p n cc e with
    | none => simp [he] at h
    | some w =>
      have hcov := ih.eval cc ca e _ hrel he
      obtain ⟨s, hs, hc⟩ := coversAny_iff.mp hcov
      simp only [mayE]
      cases w with
      | inst id =>
        simp only [he] at h
        have := covers_inst hc
        subst this
        apply coversAny_flatMap hs
        exact ih.attr id a v h
      | cls id =>
        simp only [he] at h
        have := covers_cls hc
        subst this
        apply coversAny_flatMap hs
        exact ih.attr id a v h
      | int => simp [he] at h
      | str => simp [he] at h
      | tuple _ => simp [he] at h
      | func _ => simp [he] at h
  | tern c a b =>
    simp only [evalC] at h
    simp only [mayE]
    cases c with
    | true =>
      simp only [if_true] at h
      exact coversAny_append_left (ih.eval cc ca a v hrel h)
    | false =>
      simp only [Bool.false_eq_true, if_false] at h
      exact coversAny_append_right (ih.eval cc ca b v hrel h)

theorem sound_name_succ (p : Prog) (n : Nat) (ih : Sound p n) :
    ∀ x lim v, nameC p (n + 1) x lim = some v → coversAny v (nameA p (n + 1) x lim) = true := by
  intro x lim v h
  simp only [nameC] at h
  simp only [nameA]
  cases hb : lastBinder p x lim with
  | none => simp [hb] at h
  | some j =>
    simp only [hb] at h ⊢
    cases hp : p[j]? with
    | none => simp [hp] at h
    | some st =>
      cases st with
      | assign y e =>
        simp only [hp] at h ⊢
        exact ih.eval (.module j) (.module j) e v rfl h
      | unpack xs e =>
        simp only [hp] at h ⊢
        cases he : evalC p n (.module j) e with
        | none => simp [he] at h
        | some w =>
          cases hi : indexOf xs x with
          | none =>
            simp only [he, hi] at h
            cases w <;> simp at h
          | some i =>
            cases w with
            | tuple vs =>
              simp only [he, hi] at h
              split at h
              · have hcov := ih.eval (.module j) (.module j) e _ rfl he
                obtain ⟨s, hs, hc⟩ := coversAny_iff.mp hcov
                obtain ⟨elems, rfl, hl⟩ := covers_tuple hc
                obtain ⟨sk, hsk, hck⟩ := coversList_getElem hl h
                apply coversAny_flatMap hs
                simp [hsk, hck]
              · cases h
            | int => simp [he, hi] at h
            | str => simp [he, hi] at h
            | func _ => simp [he, hi] at h
            | cls _ => simp [he, hi] at h
            | inst _ => simp [he, hi] at h
      | defn f params ret =>
        simp only [hp, Option.some.injEq] at h ⊢
        subst h
        simp [coversAny, covers]
      | klass c base attrs =>
        simp only [hp, Option.some.injEq] at h ⊢
        subst h
        simp [coversAny, covers]
      | probe e => simp [hp] at h

theorem sound_attr_succ (p : Prog) (n : Nat) (ih : Sound p n) :
    ∀ id a v, attrC p (n + 1) id a = some v → coversAny v (attrA p (n + 1) id a) = true := by
  intro id a v h
  simp only [attrC] at h
  simp only [attrA]
  cases hp : p[id]? with
  | none => simp [hp] at h
  | some st =>
    cases st with
    | klass c base attrs =>
      simp only [hp] at h ⊢
      cases hl : lastAttr attrs a with
      | some e =>
        simp only [hl] at h ⊢
        exact ih.eval (.module id) (.module id) e v rfl h
      | none =>
        simp only [hl] at h ⊢
        cases base with
        | none => simp at h
        | some b =>
          simp only at h ⊢
          cases hn : nameC p n b id with
          | none => simp [hn] at h
          | some w =>
            cases w with
            | cls bid =>
              simp only [hn] at h
              have hcov := ih.name b id _ hn
              obtain ⟨s, hs, hc⟩ := coversAny_iff.mp hcov
              have := covers_cls hc
              subst this
              apply coversAny_flatMap hs
              exact ih.attr bid a v h
            | int => simp [hn] at h
            | str => simp [hn] at h
            | tuple _ => simp [hn] at h
            | func _ => simp [hn] at h
            | inst _ => simp [hn] at h
    | assign _ _ => simp [hp] at h
    | unpack _ _ => simp [hp] at h
    | defn _ _ _ => simp [hp] at h
    | probe _ => simp [hp] at h

theorem sound (p : Prog) : ∀ fuel, Sound p fuel := by
  intro fuel
  induction fuel with
  | zero => exact sound_zero p
  | succ n ih =>
    exact ⟨sound_eval_succ p n ih, sound_name_succ p n ih, sound_attr_succ p n ih⟩

end JediModel.PyCore
